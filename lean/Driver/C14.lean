import Model.Proto
import Model.PyTokenize
import Generated.C14
/-! Driver for stream `python` (C14).  For every sentence (hex bytes) it evaluates the model's
`scoreFast`, `scoreSlow`, `fullScores`, `perplexityArgs`, `statefulTotal` on the *free* language model
(state = history, value = list of queries), i.e. it prints which words are looked up and scored,
from which start state, in which order, and whether `</s>` is appended — under the regenerated
`kSpaces` table for the fast path and Python's `bytes.split()` for the others.

op  `s <hex|->`   →  `fast=B:w,w,E|TT=…|TF=…|FT=…|FF=…|fTT=…|…|stTT=…|…|q=w,w|qT=…|qF=…|ppl=<n>|py=w,w|sp=w,w`
-/
open KV KV.Proto KV.PyTokenize

def tbl : List Bool := KV.Gen.C14.kSpaces

def hexW (w : Bytes) : String := if w.isEmpty then "." else bytesToHex w

def showWords (ws : List Bytes) : String := if ws.isEmpty then "-" else ",".intercalate (ws.map hexW)

/-- canonical form of a trace: start marker (from the oldest history element of the first query;
`-` when nothing is scored), then the words (E = the model's `eos` id, i.e. not from `index`) -/
def showTrace (t : Trace) : String :=
  let startMark : String := match t with
    | [] => "-"
    | (h, _) :: _ => match h.getLast? with
      | some 1 => "B" | some 2 => "N" | _ => "?"
  let ws := t.map fun (_, w) => if w == 0 then "E" else hexW (decodeWord w)
  -- history consistency: every query's history is the previous history with the previous word pushed
  let rec chain : Trace → Bool
    | (h1, w1) :: (h2, w2) :: rest => (h2 == w1 :: h1) && chain ((h2, w2) :: rest)
    | _ => true
  (if chain t then "" else "BROKENCHAIN ") ++ startMark ++ ":" ++ ",".intercalate ws

def flagsName (bos eos : Bool) : String := (if bos then "T" else "F") ++ (if eos then "T" else "F")

def combos : List (Bool × Bool) := [(true, true), (true, false), (false, true), (false, false)]

def planLine (s : Bytes) : String :=
  let M := freeLM
  let fast := "fast=" ++ showTrace (M.scoreFast tbl s)
  let slow := combos.map fun (b, e) => flagsName b e ++ "=" ++ showTrace (M.scoreSlow s b e)
  let full := combos.map fun (b, e) =>
    "f" ++ flagsName b e ++ "=" ++ showTrace ((M.fullScores s b e).flatMap (·.1.prob))
  let st := combos.map fun (b, e) =>
    -- the stateful client looks `</s>` up by name: in the free model that is a coded word, print it as E
    let t := (M.statefulTotal s b e).map fun (h, w) => (h.map fun x => if x == codeWord [60,47,115,62] then 0 else x,
                                                       if w == codeWord [60,47,115,62] then 0 else w)
    "st" ++ flagsName b e ++ "=" ++ showTrace t
  -- bin/query reads one sentence per line: only meaningful when the sentence has no '\n'
  let q := if s.contains 10 then ["q=x", "qT=x", "qF=x"] else
    ["q=" ++ showWords (queryWords (isDelim tbl) s),
     "qT=" ++ showTrace ((M.queryFull tbl s true).flatMap (·.1.prob)),
     "qF=" ++ showTrace ((M.queryFull tbl s false).flatMap (·.1.prob))]
  let ppl := "ppl=" ++ toString (M.perplexityArgs tbl s).2
  "|".intercalate ([fast] ++ slow ++ full ++ st ++ q ++ [ppl, "py=" ++ showWords (pySplit s), "sp=" ++ showWords (splitSpaces tbl s)])

def step (u : Unit) (line : String) : Unit × String :=
  match words line with
  | ["s", "-"] => (u, planLine [])
  | ["s", hex] =>
    match hexToBytes hex with
    | some bs => (u, planLine bs)
    | none => (u, "bad-op")
  | _ => (u, "bad-op")

def main : IO Unit := runDriver () step
