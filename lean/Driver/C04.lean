import Model.Proto
import Model.Binary
import Model.Bhiksha
import Model.Quant
import Model.TrieLM
import Model.TrieBuild
import Model.TrieG
/-! Driver for stream `binary` (C04): prints, from counts + configuration only, the header bytes and
every offset of the file layout in the same canonical form as harness/c04.cc prints what the real
code computed. -/
open KV KV.Proto KV.Binary

def nats (l : List String) : Option (List Nat) := l.mapM String.toNat?

def commaSep (l : List Nat) : String := ",".intercalate (l.map toString)

def kindOf (n : Nat) : Option Kind := Kind.ofNum n

/-- independent evaluation of the float product with core `Float32` (IEEE single) -/
def f32Buckets (multBits entries : Nat) : Nat :=
  let m := Float32.ofBits multBits.toUInt32
  let e := Float32.ofNat entries
  max (entries + 1) (m * e).toUInt64.toNat

def fmtRecognized : Recognized → String
  | .notBinary => "notbin"
  | .errFormat => "err format"
  | .errEof => "err exception"
  | .binary p =>
    s!"bin order={p.fixed.order} mult={p.fixed.multBits} type={p.fixed.modelType} vocab={if p.fixed.hasVocab then 1 else 0} ver={p.fixed.searchVersion} counts={commaSep p.counts}"

def fmtMiddle (array : Bool) (m : MiddleRegion) : String :=
  (if array then s!"{m.start}:{m.offBegin}:{m.offEnd}:{m.inline}" else s!"-:-:-:{m.inline}")
    ++ s!":{m.packed}:{m.wordBits}:{m.totalBits}:{m.quantBits}"

def orDash (l : List String) (sep : String) : String := if l.isEmpty then "-" else sep.intercalate l

def layoutLine (k : Kind) (cfg : Config) (stored : List Nat) (hasVocab : Bool) (stringsLen : Nat) : String :=
  let ll := loadLayout k cfg stored
  let fsize := ll.mapped + (if hasVocab then stringsLen else 0)
  match k with
  | .probing rest =>
    let r := hashedSetup rest cfg stored ll.search
    let vb := probingBuckets cfg.multBits (cnt stored 0)
    s!"probing hdr={ll.header} vocab={ll.header} vtab={ll.header + align8 Gen.C04.sizeofProbingVocabHeader}:{vb} uni={r.unigram} mid="
      ++ orDash (r.middles.map fun (a, b) => s!"{a}:{b}") ","
      ++ s!" longest={r.longest.1}:{r.longest.2} end={r.stop} mapped={ll.mapped} fsize={fsize}"
  | .trie q a =>
    let r := trieSetup q a cfg stored ll.search
    let quantS := if q then s!"{r.quant}/{cfg.probBits}/{cfg.backoffBits}/" ++ "+".intercalate (r.quantTables.map toString) else "-"
    s!"trie hdr={ll.header} vocab={ll.header} vend={ll.header + 8 + 8 * (cnt stored 0 - 1)} quant={quantS} uni={r.unigram} mid="
      ++ orDash (r.middles.map (fmtMiddle a)) ","
      ++ s!" longest={r.longest.1}:{r.longest.2.1}:{r.longest.2.2} end={r.stop} mapped={ll.mapped} fsize={fsize}"

/-- little-endian bytes → Nat, eight bytes at a time (files of ~100 KB) -/
def wordsOfBytes : List Nat → List Nat → List Nat
  | [], acc => acc.reverse
  | b0 :: b1 :: b2 :: b3 :: b4 :: b5 :: b6 :: b7 :: rest, acc =>
    wordsOfBytes rest ((b0 + 256 * (b1 + 256 * (b2 + 256 * (b3 + 256 * (b4 + 256 * (b5 + 256 * (b6 + 256 * b7))))))) :: acc)
  | bs, acc => (leToNat bs :: acc).reverse

def natOfBytes (bs : List Nat) : Nat := (wordsOfBytes bs []).foldr (fun w acc => w + 18446744073709551616 * acc) 0

def fmtChain (order : Nat) (chain : List (Option KV.TrieLM.Rec)) : String :=
  let rec go : List (Option KV.TrieLM.Rec) → Nat → List String
    | [], _ => []
    | none :: _, _ => ["nf"]
    | some r :: rest, k =>
      (if k = 0 then s!"u:{r.probBits}:{r.backoffBits}:{r.range.1}:{r.range.2}"
       else if k + 1 = order then s!"l:{r.probBits}"
       else s!"m:{r.probBits}:{r.backoffBits}:{r.range.1}:{r.range.2}") :: go rest (k + 1)
  "tq " ++ " ".intercalate (go chain 0)

def stepPure (line : String) : String :=
    match words line with
    | ["hdrparse", hex] =>
      match hexToBytes hex with
      | some bs => fmtRecognized (recognize bs)
      | none => "bad-op"
    | "hdrbytes" :: rest =>
      match nats rest with
      | some (order :: mult :: ty :: hv :: ver :: counts) =>
        bytesToHex (headerBytes { fixed := { order := order, multBits := mult, modelType := ty, hasVocab := hv != 0, searchVersion := ver }, counts := counts })
      | _ => "bad-op"
    | ["incomplete", order] =>
      match order.toNat? with
      | some o => bytesToHex (incompleteHeader o) ++ " " ++ fmtRecognized (recognize (incompleteHeader o ++ [0]))
      | none => "bad-op"
    | "layout" :: rest =>
      -- layout type mult pb bb ab hasVocab stringsLen c1 c2 …   (stored counts; loader side)
      match nats rest with
      | some (ty :: mult :: pb :: bb :: ab :: hv :: sl :: counts) =>
        match kindOf ty with
        | some k => layoutLine k { multBits := mult, probBits := pb, backoffBits := bb, bhikshaBits := ab } counts (hv != 0) sl
        | none => "bad-op"
      | _ => "bad-op"
    | "wlayout" :: rest =>
      -- wlayout type mult pb bb ab sawUnk includeVocab stringsLen order arpa… fixed…   (writer side)
      match nats rest with
      | some (ty :: mult :: pb :: bb :: ab :: su :: iv :: sl :: order :: cs) =>
        match kindOf ty with
        | some k =>
          let cfg : Config := { multBits := mult, probBits := pb, backoffBits := bb, bhikshaBits := ab }
          let arpa := cs.take order
          let fixed := cs.drop order
          let w := writeLayout k cfg arpa fixed (su != 0) (iv != 0) sl
          let pbs := storedParamBytes k cfg w.storedCounts w.search
          let hdr := headerBytes { fixed := { order := order, multBits := mult, modelType := k.typeNum, hasVocab := iv != 0,
                                              searchVersion := k.searchVersion }, counts := w.storedCounts }
          -- what the loader derives from the file alone (wrong defaults in its own config)
          let rd := fun off => ((pbs.find? (fun p => p.1 = off)).map (·.2)).getD 0
          let restored := match updateConfigFromBinary k rd w.storedCounts { multBits := mult, probBits := 3, backoffBits := 4, bhikshaBits := 9 } with
            | .ok c => s!"{c.probBits}/{c.backoffBits}/{c.bhikshaBits}"
            | .error _ => "err"
          s!"w hdr={w.header} vocab={w.vocab} pad={w.pad} search={w.search} strings={w.strings} fsize={w.fileSize} stored={commaSep w.storedCounts} params="
            ++ orDash (pbs.map fun (a, b) => s!"{a}:{b}") "," ++ s!" restored={restored} header={bytesToHex hdr}"
        | none => "bad-op"
      | _ => "bad-op"
    | "sizes" :: rest =>
      match nats rest with
      | some (ty :: mult :: pb :: bb :: ab :: counts) =>
        match kindOf ty with
        | some k =>
          let cfg : Config := { multBits := mult, probBits := pb, backoffBits := bb, bhikshaBits := ab }
          s!"sizes vocab={vocabSize k cfg (cnt counts 0)} search={searchSize k cfg counts}"
        | none => "bad-op"
      | _ => "bad-op"
    | ["buckets", mult, entries] =>
      match mult.toNat?, entries.toNat? with
      | some m, some e =>
        let b := probingBuckets m e
        if b = f32Buckets m e then s!"buckets {b}" else s!"buckets {b} f32-mismatch {f32Buckets m e}"
      | _, _ => "bad-op"
    | "bhiksha" :: rest =>
      match nats rest with
      | some (maxOffset :: maxNext :: bits :: vs) => KV.Bhiksha.driverLine maxOffset maxNext bits vs
      | _ => "bad-op"
    | "quant" :: rest =>
      match nats rest with
      | some (bits :: reserved :: nv :: xs) => KV.Quant.driverLine bits reserved (xs.take nv) (xs.drop nv)
      | _ => "bad-op"
    | _ => "bad-op"

def step (st : Option KV.TrieLM.Trie) (line : String) : Option KV.TrieLM.Trie × String :=
  match words line with
  | "trieload" :: ty :: mult :: pb :: bb :: ab :: rest =>
    -- trieload type mult pb bb ab c1 … cn hex     (stored counts, then the whole file as hex)
    match nats [ty, mult, pb, bb, ab], rest.getLast?, nats rest.dropLast with
    | some [ty, mult, pb, bb, ab], some hex, some counts =>
      match kindOf ty, hexToBytes hex with
      | some (.trie q a), some bs =>
        let cfg : Config := { multBits := mult, probBits := pb, backoffBits := bb, bhikshaBits := ab }
        let ll := loadLayout (.trie q a) cfg counts
        (some (KV.TrieLM.ofLayout (natOfBytes bs) q a cfg counts ll.search), s!"ok search={ll.search} bytes={bs.length}")
      | _, _ => (st, "bad-op")
    | _, _, _ => (st, "bad-op")
  | "triebuild" :: order :: bound :: start :: unk :: rest =>
    -- triebuild order bound start unkbits  ids:p:b …  realhex   (the n-grams of the ARPA file with float bits — no <unk> record
    -- unless the file lists it; unkbits = unknown_missing_logprob; search region of the real file)
    match order.toNat?, bound.toNat?, start.toNat?, unk.toNat?, rest.getLast? with
    | some order, some bound, some start, some unk, some hex =>
      let grams := rest.dropLast.mapM fun t =>
        match t.splitOn ":" with
        | [ids, p, b] =>
          match nats (ids.splitOn ","), p.toNat?, b.toNat? with
          | some k, some p, some b => some ({ key := k, prob := p, backoff := b } : KV.TrieBuild.Gram)
          | _, _, _ => none
        | _ => none
      match grams, hexToBytes hex with
      | some gs, some bs =>
        match KV.TrieBuild.buildTableArpa KV.TrieBuild.f32add order gs unk with
        | .error e => (st, s!"tb err {repr e}")
        | .ok b =>
          let M := KV.TrieLM.ofTable b.table bound order start
          -- the verified checker on the model-built trie: by `check_sound`, this run proves `Represents (ofTable …) (tableOf (ftOf …))`
          let rep := if b.table.length ≤ 300 then toString (KV.TrieLM.check KV.TrieLM.f32ToRat M (KV.TrieLM.ftOf KV.TrieLM.f32ToRat b.table order) order (KV.TrieLM.rngOf b.table bound)) else "skipped"
          let real := natOfBytes bs <<< (8 * start)
          let x := M.mem ^^^ real
          if x = 0 then (some M, s!"tb ok counts={commaSep b.counts} blanks={b.blanks.length} represents={rep} equal")
          else
            let low := Nat.log2 (x - (x &&& (x - 1)))
            (some M, s!"tb ok counts={commaSep b.counts} blanks={b.blanks.length} represents={rep} diff byte={low / 8 - start} model={(M.mem >>> (8 * (low / 8))) % 256} real={(real >>> (8 * (low / 8))) % 256}")
      | _, _ => (st, "bad-op")
    | _, _, _, _, _ => (st, "bad-op")
  | "triebuildG" :: kind :: bhik :: pb :: bb :: order :: bound :: start :: unk :: rest =>
    -- triebuildG kind bhikshaBits probBits backoffBits order bound start unkbits  ids:p:b …  realhex
    -- kind: 0 trie, 1 array-trie, 2 quant-trie, 3 quant-array-trie; the search region written by Model/TrieG.ofTableG
    match kind.toNat?, bhik.toNat?, pb.toNat?, bb.toNat?, order.toNat?, bound.toNat?, start.toNat?, unk.toNat?, rest.getLast? with
    | some kind, some bhik, some pb, some bb, some order, some bound, some start, some unk, some hex =>
      let grams := rest.dropLast.mapM fun t =>
        match t.splitOn ":" with
        | [ids, p, b] =>
          match nats (ids.splitOn ","), p.toNat?, b.toNat? with
          | some k, some p, some b => some ({ key := k, prob := p, backoff := b } : KV.TrieBuild.Gram)
          | _, _, _ => none
        | _ => none
      match grams, hexToBytes hex with
      | some gs, some bs =>
        match KV.TrieBuild.buildTableArpa KV.TrieBuild.f32add order gs unk with
        | .error e => (st, s!"tbg err {repr e}")
        | .ok b =>
          let q := if kind ≥ 2 then some (KV.TrieLM.QSpec.train KV.TrieLM.f32BitsOps pb bb b.table order) else none
          let M := KV.TrieLM.ofTableG b.table bound order start q (kind % 2 == 1) bhik
          let real := natOfBytes bs <<< (8 * start)
          let x := M.mem ^^^ real
          -- arithmetic assumption of C03TrieG.train_markOK on the real IEEE quantiser: no trained back-off centre is -0.0
          let negz := match q with
            | none => 0
            | some qs => ((List.range (order - 2)).map fun t => (((qs.btab t).drop 2).filter (· == KV.TrieLM.noExtensionBits)).length).sum
          if x = 0 then (some M, s!"tbg ok kind={kind} negzero={negz} equal")
          else
            let low := Nat.log2 (x - (x &&& (x - 1)))
            (some M, s!"tbg ok kind={kind} diff byte={low / 8 - start} model={(M.mem >>> (8 * (low / 8))) % 256} real={(real >>> (8 * (low / 8))) % 256}")
      | _, _ => (st, "bad-op")
    | _, _, _, _, _, _, _, _, _ => (st, "bad-op")
  | "triecheck" :: order :: toks =>
    -- triecheck order  ids:p:b:begin:end …  (middle/unigram keys)   ids:p (longest keys); ids comma separated, reversed n-gram
    match st, order.toNat? with
    | some M, some order =>
      let parsed := toks.mapM fun t =>
        match t.splitOn ":" with
        | [ids, p, b, bg, en] =>
          match nats (ids.splitOn ","), p.toNat?, b.toNat?, bg.toNat?, en.toNat? with
          | some k, some p, some b, some bg, some en =>
            some (k, ({ prob := KV.TrieLM.f32ToRat p, backoff := KV.TrieLM.f32ToRat b, extendsLeft := bg != en,
                        extendsRight := b != KV.TrieLM.noExtensionBits, blank := false } : KV.Table.TEntry), (bg, en))
          | _, _, _, _, _ => none
        | [ids, p] =>
          match nats (ids.splitOn ","), p.toNat? with
          | some k, some p => some (k, ({ prob := KV.TrieLM.f32ToRat p, backoff := 0, extendsLeft := false, extendsRight := false,
                                          blank := false } : KV.Table.TEntry), (0, 0))
          | _, _ => none
        | _ => none
      match parsed with
      | some es =>
        let ft : KV.TrieLM.FT := es.map fun e => (e.1, e.2.1)
        let rngs := es.map fun e => (e.1, e.2.2)
        let rng := fun g => (rngs.lookup g).getD (0, 0)
        (st, s!"triecheck {KV.TrieLM.check KV.TrieLM.f32ToRat M ft order rng} keys={es.length}")
      | none => (st, "bad-op")
    | _, _ => (st, "err notrie")
  | "trieq" :: ws =>
    match st, nats ws with
    | some M, some ws => (st, fmtChain M.order (KV.TrieLM.lookupChain M ws))
    | _, _ => (st, "err notrie")
  | _ => (st, stepPure line)

def main : IO Unit := runDriver (none : Option KV.TrieLM.Trie) step
