import Model.Proto
import Model.PCQueue
import Model.Chain
/-! Driver for stream `schedules` (C17).

Ops (one per line):
* `pcq <cap> <prods> <quotas> <sched>` — replay a schedule on the PCQueue model.
  `<prods>` = `;`-separated producers, each a `,`-separated value list (`-` = no values);
  `<quotas>` = `,`-separated Consume counts; `<sched>` = `,`-separated thread ids (`-` = empty).
  A scheduled thread that is not enabled is skipped (`x<tid>`); after the schedule the lowest
  enabled thread runs until nothing is enabled.  One output line: the trace.
* `enum <cap> <prods> <quotas> <limit> <mode>` — enumerate maximal schedules of the model by DFS,
  `mode` = `all` (every interleaving) or `por` (sleep sets: one interleaving per class of
  schedules equal up to commuting independent steps).  Prints one schedule per line, then
  `end <count> complete|truncated`.
-/
open KV KV.Proto KV.PCQueue
open KV.Chain (Pool Chain Item WPC LPC MPC)

def parseList (s : String) (sep : String) : List String :=
  if s == "-" then [] else (s.splitOn sep).filter (· ≠ "")

def parseNats (s : String) : List Nat := (parseList s ",").filterMap (·.toNat?)

def pcChar : PC → String
  | .wait => "w" | .lock => "l" | .body => "b" | .unlock => "u" | .post => "p" | .done => "d"

def joinNats (l : List Nat) : String := ",".intercalate (l.map toString)

def finalLine (s : State) : String :=
  let parts := (List.range s.threads.length).filterMap fun t =>
    match s.threads[t]? with
    | some th => if th.role == .cons then some (toString t ++ ":" ++ joinNats th.got) else none
    | none => none
  ";".intercalate parts

/-- one executed step → trace token -/
def stepTok (s s' : State) (t : Nat) : String :=
  match s.threads[t]?, s'.threads[t]? with
  | some th, some th' =>
    let v := if th.role == .cons && th.pc == .post then "=" ++ toString (th.got.getLastD 0) else ""
    toString t ++ pcChar th'.pc ++ v ++ "/" ++ joinNats (enabledSet s') ++ "/" ++ toString (occupied s')
  | _, _ => "?"

def runTrace (s0 : State) (sched : List Nat) : String := Id.run do
  let mut s := s0
  let mut out : Array String := #["I/" ++ joinNats (enabledSet s)]
  for t in sched do
    match step s t with
    | some s' => out := out.push (stepTok s s' t); s := s'
    | none => out := out.push ("x" ++ toString t)
  -- fallback: lowest enabled thread (bounded by the termination measure)
  let mut fuel := measure s + 1
  while fuel > 0 do
    fuel := fuel - 1
    match enabledSet s with
    | [] => fuel := 0
    | t :: _ =>
      match step s t with
      | some s' => out := out.push (stepTok s s' t); s := s'
      | none => fuel := 0
  let status := if allDone s then "ok" else "deadlock"
  out := out.push ("END " ++ status ++ " F " ++ finalLine s)
  return " ".intercalate out.toList

/-- replay with injected copy failures: `fails[t]` = the attempt numbers (critical-section bodies executed by
thread `t`, counted from 0) whose `operator=` throws; a failing body is the model's `fail` step -/
def runTraceFail (s0 : State) (sched : List Nat) (fails : List (List Nat)) : String := Id.run do
  let mut s := s0
  let mut att : Array Nat := Array.replicate s0.threads.length 0
  let mut out : Array String := #["I/" ++ joinNats (enabledSet s)]
  let doStep := fun (s : State) (att : Array Nat) (t : Nat) =>
    let atBody := match s.threads[t]? with
      | some th => th.pc == .body
      | none => false
    let a := att.getD t 0
    let failing := atBody && ((fails.getD t []).contains a)
    let att' := if atBody then att.setIfInBounds t (a + 1) else att
    let r := if failing then fail s t (s.ring s.produceAt) else step s t
    (r, att')
  for t in sched do
    let (r, att') := doStep s att t
    match r with
    | some s' => out := out.push (stepTok s s' t); s := s'; att := att'
    | none => out := out.push ("x" ++ toString t)
  let mut fuel := 20 * (measure s + 1) + 100
  while fuel > 0 do
    fuel := fuel - 1
    match enabledSet s with
    | [] => fuel := 0
    | t :: _ =>
      let (r, att') := doStep s att t
      match r with
      | some s' => out := out.push (stepTok s s' t); s := s'; att := att'
      | none => fuel := 0
  let status := if allDone s then "ok" else "deadlock"
  out := out.push ("END " ++ status ++ " F " ++ finalLine s)
  return " ".intercalate out.toList

/-- replay a schedule (no fallback), then name the thread the harness should probe: a thread that is not
finished and cannot step must stay blocked when released -/
def runProbe (s0 : State) (sched : List Nat) (probe : String) : String := Id.run do
  let mut s := s0
  let mut out : Array String := #["I/" ++ joinNats (enabledSet s)]
  for t in sched do
    match step s t with
    | some s' => out := out.push (stepTok s s' t); s := s'
    | none => out := out.push ("x" ++ toString t)
  let blocked (t : Nat) : Bool :=
    match s.threads[t]? with
    | some th => th.pc != .done && (step s t).isNone
    | none => false
  let tok :=
    if probe == "auto" then
      match (List.range s.threads.length).find? blocked with
      | some t => "P" ++ toString t ++ "=blocked"
      | none => "P-1=na"
    else
      match probe.toNat? with
      | some t => "P" ++ toString t ++ (if blocked t then "=blocked" else "=na")
      | none => "P?=na"
  out := out.push tok
  return " ".intercalate out.toList

/-- shared object touched by the next step of a thread (for the independence relation):
0 = empty_, 1 = used_, 2 = produce mutex + produce cursor + slot, 3 = consume mutex + cursor + slot,
slots are added as 10 + index. -/
def touches (s : State) (t : Nat) : List Nat :=
  match s.threads[t]? with
  | none => []
  | some th =>
    match th.role, th.pc with
    | .prod, .wait => [0] | .prod, .lock => [2] | .prod, .body => [2, 10 + s.produceAt]
    | .prod, .unlock => [2] | .prod, .post => [1]
    | .cons, .wait => [1] | .cons, .lock => [3] | .cons, .body => [3, 10 + s.consumeAt]
    | .cons, .unlock => [3] | .cons, .post => [0]
    | _, .done => []

def dependent (s : State) (t u : Nat) : Bool :=
  t == u || (touches s t).any (fun o => (touches s u).contains o)

structure EnumSt where
  count : Nat := 0
  limit : Nat
  truncated : Bool := false
  out : Array String := #[]

partial def dfs (por : Bool) (s : State) (sleep : List Nat) (path : List Nat) (st : EnumSt) : EnumSt :=
  if st.truncated then st else
  let en := enabledSet s
  if en.isEmpty then
    if st.count ≥ st.limit then { st with truncated := true }
    else { st with count := st.count + 1, out := st.out.push (joinNats path.reverse) }
  else
    let rec go (ts : List Nat) (sleep : List Nat) (st : EnumSt) : EnumSt :=
      match ts with
      | [] => st
      | t :: rest =>
        if st.truncated then st
        else if por && sleep.contains t then go rest sleep st
        else
          match step s t with
          | none => go rest sleep st
          | some s' =>
            let sleep' := if por then sleep.filter (fun u => !dependent s t u) else []
            let st := dfs por s' sleep' (t :: path) st
            go rest (if por then t :: sleep else sleep) st
    go en sleep st


/-! ### generic machinery for the operation-level models (ThreadPool, Chain) -/
structure Sys (σ : Type) where
  step : σ → Nat → Option σ
  enabled : σ → List Nat
  pcChar : σ → Nat → String
  done : σ → Bool
  final : σ → String
  fuel : σ → Nat

def runTraceG {σ : Type} (sys : Sys σ) (s0 : σ) (sched : List Nat) : String := Id.run do
  let mut s := s0
  let mut out : Array String := #["I/" ++ joinNats (sys.enabled s)]
  for t in sched do
    match sys.step s t with
    | some s' => out := out.push (toString t ++ sys.pcChar s' t ++ "/" ++ joinNats (sys.enabled s')); s := s'
    | none => out := out.push ("x" ++ toString t)
  let mut fuel := sys.fuel s + 1
  while fuel > 0 do
    fuel := fuel - 1
    match sys.enabled s with
    | [] => fuel := 0
    | t :: _ =>
      match sys.step s t with
      | some s' => out := out.push (toString t ++ sys.pcChar s' t ++ "/" ++ joinNats (sys.enabled s')); s := s'
      | none => fuel := 0
  let status := if sys.done s then "ok" else "deadlock"
  out := out.push ("END " ++ status ++ " F " ++ sys.final s)
  return " ".intercalate out.toList

partial def dfsG {σ : Type} (sys : Sys σ) (s : σ) (path : List Nat) (st : EnumSt) : EnumSt :=
  if st.truncated then st else
  let en := sys.enabled s
  if en.isEmpty then
    if st.count ≥ st.limit then { st with truncated := true }
    else { st with count := st.count + 1, out := st.out.push (joinNats path.reverse) }
  else
    en.foldl (fun st t => match sys.step s t with
      | some s' => dfsG sys s' (t :: path) st
      | none => st) st

def poolSys : Sys Pool where
  step := Pool.step
  enabled := Pool.enabledSet
  pcChar := fun p t =>
    match t with
    | 0 => if !p.todo.isEmpty then "w" else if p.joined < p.wpc.length then "j" else "d"
    | i + 1 => match p.wpc[i]? with
      | some .notStarted => "s" | some .running => "w" | some .finished => "d" | none => "?"
  done := Pool.allDone
  final := fun p => ";".intercalate ((List.range p.wpc.length).map fun i =>
    toString (i + 1) ++ ":" ++ joinNats (p.handled.getD i []))
  fuel := Pool.measure

def chainSys : Sys Chain where
  step := Chain.step
  enabled := Chain.enabledSet
  pcChar := fun c t =>
    match t with
    | 0 => match c.main with
      | .fill _ => "w" | .join _ => "j" | .drain _ => "w" | .aborted => "A" | .finished => "d"
    | i + 1 => match (c.st i).pc with
      | .start => "s" | .finished => "d" | _ => "w"
  done := Chain.allDone
  final := fun c => ";".intercalate (((List.range (c.m + 1)).filter fun i => 0 < i && i < c.m).map fun i =>
    toString (i + 1) ++ ":" ++ joinNats (c.seen i))
  fuel := fun c => 4 * (c.data.length + c.b + 2) * (c.m + 3) + 10

def parseInit (cap prods quotas : String) : Option State :=
  match cap.toNat? with
  | none => none
  | some c =>
    let ps := (parseList prods ";").map parseNats
    some (mkInit c ps (parseNats quotas))

def handle (line : String) : IO Unit := do
  match words line with
  | ["pcq", cap, prods, quotas, sched] =>
    match parseInit cap prods quotas with
    | some s0 => IO.println (runTrace s0 (parseNats sched))
    | none => IO.println "bad-op"
  | ["pcq", cap, prods, quotas, sched, probe] =>
    match parseInit cap prods quotas with
    | some s0 => IO.println (runProbe s0 (parseNats sched) probe)
    | none => IO.println "bad-op"
  | ["pcqf", cap, prods, quotas, fails, sched] =>
    match parseInit cap prods quotas with
    | some s0 => IO.println (runTraceFail s0 (parseNats sched) ((parseList fails ";").map parseNats))
    | none => IO.println "bad-op"
  | ["enum", cap, prods, quotas, limit, mode] =>
    match parseInit cap prods quotas, limit.toNat? with
    | some s0, some lim =>
      let st := dfs (mode == "por") s0 [] [] { limit := lim }
      for l in st.out do IO.println l
      IO.println s!"end {st.count} {if st.truncated then "truncated" else "complete"}"
    | _, _ => IO.println "bad-op"
  | ["pool", cap, workers, reqs, sched] =>
    match cap.toNat?, workers.toNat? with
    | some c, some w => IO.println (runTraceG poolSys (Pool.init c w (parseNats reqs)) (parseNats sched))
    | _, _ => IO.println "bad-op"
  | ["chain", b, m, data, sched] =>
    match b.toNat?, m.toNat? with
    | some b, some m => IO.println (runTraceG chainSys (Chain.init b m (parseNats data)) (parseNats sched))
    | _, _ => IO.println "bad-op"
  | ["enumpool", cap, workers, reqs, limit] =>
    match cap.toNat?, workers.toNat?, limit.toNat? with
    | some c, some w, some lim =>
      let st := dfsG poolSys (Pool.init c w (parseNats reqs)) [] { limit := lim }
      for l in st.out do IO.println l
      IO.println s!"end {st.count} {if st.truncated then "truncated" else "complete"}"
    | _, _, _ => IO.println "bad-op"
  | ["enumchain", b, m, data, limit] =>
    match b.toNat?, m.toNat?, limit.toNat? with
    | some b, some m, some lim =>
      let st := dfsG chainSys (Chain.init b m (parseNats data)) [] { limit := lim }
      for l in st.out do IO.println l
      IO.println s!"end {st.count} {if st.truncated then "truncated" else "complete"}"
    | _, _, _ => IO.println "bad-op"
  | _ => IO.println "bad-op"

partial def mainLoop (h : IO.FS.Stream) : IO Unit := do
  let line ← h.getLine
  if line.isEmpty then return ()
  handle line
  mainLoop h

def main : IO Unit := do
  let stdin ← IO.getStdin
  mainLoop stdin
