import Model.Proto
import Model.Bits
import Model.Search
import Model.Probing
import Model.Vocab
/-! Driver for stream `primitives` (C20): executes the model on the same operation lines as harness/c20.cc. -/
open KV KV.Proto KV.Bits KV.Search
open KV.Probing (Table Auto Entry Probe Res)

structure St where
  mem : Nat := 0
  size : Nat := 0
  arr : Array Nat := #[]
  tab : Table := { s := fun _ => none, N := 1, entries := 0 }
  p2 : Bool := false
  hash : Nat → Nat := id
  auto : Auto := { t := { s := fun _ => none, N := 1, entries := 0 }, thr := 0 }
  sp : KV.Vocab.Specials := ⟨0, 0, 0, 0⟩
  gv : Auto := { t := { s := fun _ => none, N := 1, entries := 0 }, thr := 0 }
  pv : KV.Vocab.PVocab := KV.Vocab.pNew 1
  sv : KV.Vocab.SVocab := KV.Vocab.sNew

/-! ### stream `probing` -/

/-- hash functors of the harness: `id` = util::IdentityHash, `mul c` = k*c mod 2^64, `shr c` = k >> c -/
def mkHash (kind : String) (c : Nat) : Option (Nat → Nat) :=
  match kind with
  | "id" => some id
  | "mul" => some fun k => (k * c) % 2^64
  | "shr" => some fun k => k >>> c
  | _ => none

/-- re-materialise the slot function from an array (the model's `set` builds closure chains);
extensionally the identity on `[0, N)` -/
def norm (t : Table) : Table :=
  let a : Array (Option Entry) := Array.ofFn (n := t.N) (fun i => t.s i.val)
  { t with s := fun i => a.getD i none }

def dumpTable (t : Table) : String :=
  let cells := (List.range t.N).filterMap fun p =>
    match t.s p with
    | some (k, v) => some s!"{p}:{k}:{v}"
    | none => none
  " ".intercalate (toString t.N :: toString t.entries :: cells)

/-- `ProbingHashTable<…>::Size(entries, multiplier)` in buckets:
`RoundBuckets(max(entries + 1, uint64(multiplier * float(entries))))`, single precision -/
def autoArg (init : Nat) : Nat := max (init + 1) ((1.2 : Float32) * Float32.ofNat init).toUInt64.toNat
def autoBuckets (init : Nat) : Nat := KV.Probing.roundBuckets (autoArg init)

def showVErr : KV.Vocab.VErr → String
  | .tooMany => "too-many"
  | .full => "full"
  | .diverge => "diverge"

def showProbe : Option Probe → String
  | none => "diverge"
  | some (.found p v) => s!"found {p} {v}"
  | some (.absent _) => "absent"

/-- canonical answer of a search: only presence is observable (with duplicates the index depends on the pivot) -/
def showFound (arr : Array Nat) (key : Nat) : Option Nat → String
  | some p => if arr.getD p 0 = key then "found" else "found-wrong"
  | none => "absent"

def natList (ws : List String) : Option (List Nat) := ws.mapM (·.toNat?)

def step (s : St) (line : String) : St × String :=
  match words line with
  | ["init", hex] =>
    match hexToBytes hex with
    | some bs => ({ mem := leToNat bs, size := bs.length }, "ok")
    | none => (s, "bad-op")
  | ["w57", o, l, v] =>
    match o.toNat?, l.toNat?, v.toNat? with
    | some o, some l, some v => ({ s with mem := writeInt57 s.mem o l v }, "ok")
    | _, _, _ => (s, "bad-op")
  | ["r57", o, l] =>
    match o.toNat?, l.toNat? with
    | some o, some l => (s, toString (readInt57 s.mem o l))
    | _, _ => (s, "bad-op")
  | ["w25", o, l, v] =>
    match o.toNat?, l.toNat?, v.toNat? with
    | some o, some l, some v => ({ s with mem := writeInt25 s.mem o l v }, "ok")
    | _, _, _ => (s, "bad-op")
  | ["r25", o, l] =>
    match o.toNat?, l.toNat? with
    | some o, some l => (s, toString (readInt25 s.mem o l))
    | _, _ => (s, "bad-op")
  | ["wf32", o, v] =>
    match o.toNat?, v.toNat? with
    | some o, some v => ({ s with mem := writeFloat32 s.mem o v }, "ok")
    | _, _ => (s, "bad-op")
  | ["rf32", o] =>
    match o.toNat? with
    | some o => (s, toString (readFloat32 s.mem o))
    | _ => (s, "bad-op")
  | ["wf31", o, v] =>
    match o.toNat?, v.toNat? with
    | some o, some v => ({ s with mem := writeNonPositiveFloat31 s.mem o v }, "ok")
    | _, _ => (s, "bad-op")
  | ["rf31", o] =>
    match o.toNat? with
    | some o => (s, toString (readNonPositiveFloat31 s.mem o))
    | _ => (s, "bad-op")
  | "arr" :: rest =>
    match natList rest with
    | some xs => ({ s with arr := xs.toArray }, "ok")
    | none => (s, "bad-op")
  | ["suf32", k] =>   -- SortedUniformFind<Pivot32> over the whole array
    match k.toNat? with
    | some k => (s, showFound s.arr k (sortedUniformFind (fun i => s.arr.getD i 0) pivot32 k 0 s.arr.size))
    | none => (s, "bad-op")
  | ["suf64", k] =>   -- SortedUniformFind<Pivot64>: any in-range pivot gives the same answer (theorem); use the capped zero pivot
    match k.toNat? with
    | some k => (s, showFound s.arr k (sortedUniformFind (fun i => s.arr.getD i 0) (pivot64 fun _ _ _ => 0) k 0 s.arr.size))
    | none => (s, "bad-op")
  | ["bsuf32", k, mx] =>  -- BoundedSortedUniformFind<Pivot32>(begin-1, 0, end, max, key): positions shifted by one
    match k.toNat?, mx.toNat? with
    | some k, some mx =>
      let a := fun i => if i = 0 then 0 else s.arr.getD (i - 1) 0
      let r := bfind a pivot32 k (s.arr.size + 1) 0 0 (s.arr.size + 1) mx
      (s, match r with
          | some p => if a p = k then "found" else "found-wrong"
          | none => "absent")
    | _, _ => (s, "bad-op")
  | ["bsuf64", k, mx] =>
    match k.toNat?, mx.toNat? with
    | some k, some mx =>
      let a := fun i => if i = 0 then 0 else s.arr.getD (i - 1) 0
      let r := bfind a (pivot64 fun o r w => o * w / (r + 1)) k (s.arr.size + 1) 0 0 (s.arr.size + 1) mx
      (s, match r with
          | some p => if a p = k then "found" else "found-wrong"
          | none => "absent")
    | _, _ => (s, "bad-op")
  | ["bin", k] =>
    match k.toNat? with
    | some k => (s, showFound s.arr k (binaryFind (fun i => s.arr.getD i 0) k s.arr.size 0 s.arr.size))
    | none => (s, "bad-op")
  | ["dump"] => (s, bytesToHex (natToLe s.mem s.size))
  | ["pnew", md, n, _inv, hk, hp] =>
    match n.toNat?, hp.toNat? with
    | some n, some hp =>
      match mkHash hk hp with
      | some h =>
        if md = "p2" && !KV.Probing.isPow2 n then (s, "badsize")
        else ({ s with tab := { s := fun _ => none, N := n, entries := 0 }, p2 := md = "p2", hash := h }, "ok")
      | none => (s, "bad-op")
    | _, _ => (s, "bad-op")
  | ["ins", k, v] =>
    match k.toNat?, v.toNat? with
    | some k, some v =>
      match (if s.p2 then KV.Probing.insertP2 s.hash s.tab k v else KV.Probing.insert s.hash s.tab k v) with
      | .ok (q, t') => ({ s with tab := norm t' }, s!"ok {q}")
      | .full t' => ({ s with tab := t' }, "full")
      | .diverge => (s, "diverge")
    | _, _ => (s, "bad-op")
  | ["foi", k, v] =>
    match k.toNat?, v.toNat? with
    | some k, some v =>
      match (if s.p2 then KV.Probing.findOrInsertP2 s.hash s.tab k v else KV.Probing.findOrInsert s.hash s.tab k v) with
      | .ok (true, p, w, _) => (s, s!"found {p} {w}")
      | .ok (false, p, _, t') => ({ s with tab := norm t' }, s!"new {p}")
      | .full t' => ({ s with tab := t' }, "full")
      | .diverge => (s, "diverge")
    | _, _ => (s, "bad-op")
  | ["find", k] =>
    match k.toNat? with
    | some k => (s, showProbe (if s.p2 then KV.Probing.findPosP2 s.hash s.tab k else KV.Probing.findPos s.hash s.tab k))
    | none => (s, "bad-op")
  | ["size"] => (s, toString s.tab.entries)
  | ["pdump"] => (s, dumpTable s.tab)
  | "dbl" :: _ =>   -- Double(new_base, clear_new): an optional word "noclear" (the harness pre-fills the new half)
    match (if s.p2 then KV.Probing.doubleP2 s.hash s.tab else KV.Probing.double s.hash s.tab) with
    | some t' => ({ s with tab := norm t' }, "ok")
    | none => (s, "diverge")
  | ["anew", init, _inv, hk, hp] =>
    match init.toNat?, hp.toNat? with
    | some init, some hp =>
      match mkHash hk hp with
      | some h =>
        let n := autoBuckets init
        ({ s with auto := { t := { s := fun _ => none, N := n, entries := 0 }, thr := KV.Probing.thetaReal n }, hash := h },
         s!"ok {n}")
      | none => (s, "bad-op")
    | _, _ => (s, "bad-op")
  | ["ains", k, v] =>
    match k.toNat?, v.toNat? with
    | some k, some v =>
      match s.auto.insertP2 s.hash KV.Probing.thetaReal k v with
      | some (q, a') => ({ s with auto := { a' with t := norm a'.t } }, s!"ok {q}")
      | none => (s, "diverge")
    | _, _ => (s, "bad-op")
  | ["afoi", k, v] =>
    match k.toNat?, v.toNat? with
    | some k, some v =>
      match s.auto.findOrInsertP2 s.hash KV.Probing.thetaReal k v with
      | .ok (true, p, w, a') => ({ s with auto := { a' with t := norm a'.t } }, s!"found {p} {w}")
      | .ok (false, p, _, a') => ({ s with auto := { a' with t := norm a'.t } }, s!"new {p}")
      | .full t' => ({ s with auto := { s.auto with t := t' } }, "full")
      | .diverge => (s, "diverge")
    | _, _ => (s, "bad-op")
  | ["afind", k] =>
    match k.toNat? with
    | some k => (s, showProbe (KV.Probing.findPosP2 s.hash s.auto.t k))
    | none => (s, "bad-op")
  | ["asize"] => (s, toString s.auto.t.entries)
  | ["adump"] => (s, dumpTable s.auto.t)
  -- stream `vocab`: words are represented by the 64-bit hashes the harness reported (second argument)
  | ["vconst", a, b, c, d] =>
    match a.toNat?, b.toNat?, c.toNat?, d.toNat? with
    | some a, some b, some c, some d => ({ s with sp := ⟨a, b, c, d⟩ }, "ok")
    | _, _, _, _ => (s, "bad-op")
  | ["gnew", init] =>
    match init.toNat? with
    | some init =>
      match KV.Vocab.gNew s.sp (autoArg init) with
      | .ok a => ({ s with gv := { a with t := norm a.t } }, s!"ok {a.t.entries}")
      | .error e => (s, showVErr e)
    | none => (s, "bad-op")
  | ["gfoi", _, h] =>
    match h.toNat? with
    | some h =>
      match KV.Vocab.gFindOrInsert s.gv h with
      | .ok (i, a) => ({ s with gv := { a with t := norm a.t } }, toString i)
      | .error e => (s, showVErr e)
    | none => (s, "bad-op")
  | ["gidx", _, h] =>
    match h.toNat? with
    | some h => (s, match KV.Vocab.gIndex s.gv h with | some i => toString i | none => "diverge")
    | none => (s, "bad-op")
  | ["gsize"] => (s, toString s.gv.t.entries)
  | ["pvnew", _, _, n] =>
    match n.toNat? with
    | some n => ({ s with pv := KV.Vocab.pNew n }, s!"ok {n}")
    | none => (s, "bad-op")
  | ["pvins", _, h] =>
    match h.toNat? with
    | some h =>
      match KV.Vocab.pInsert s.sp s.pv h with
      | .ok (i, v) => ({ s with pv := { v with t := norm v.t } }, toString i)
      | .error e => (s, showVErr e)
    | none => (s, "bad-op")
  | ["pvidx", _, h] =>
    match h.toNat? with
    | some h => (s, match KV.Vocab.pIndex s.pv h with | some i => toString i | none => "diverge")
    | none => (s, "bad-op")
  | ["pvfin"] =>
    let ix := fun h => match KV.Vocab.pIndex s.pv h with | some i => toString i | none => "diverge"
    (s, s!"{s.pv.bound} {if s.pv.sawUnk then 1 else 0} {ix s.sp.bos} {ix s.sp.eos}")
  | ["svnew", _] => ({ s with sv := KV.Vocab.sNew }, "ok")
  | ["svins", _, h] =>
    match h.toNat? with
    | some h => let r := KV.Vocab.sInsert s.sp s.sv h; ({ s with sv := r.2 }, toString r.1)
    | none => (s, "bad-op")
  | ["svfin"] =>
    -- the harness tags the unigram weights with the provisional ids 1..n (0 = <unk> stays)
    let r := KV.Vocab.sFinish s.sv ((List.range s.sv.keys.length).map (· + 1))
    let v := r.1
    let ix := fun h => toString (KV.Vocab.sIndex (fun _ _ _ => 0) v h)
    ({ s with sv := v },
     s!"{KV.Vocab.sBound v} {if v.sawUnk then 1 else 0} {ix s.sp.bos} {ix s.sp.eos} | " ++ " ".intercalate ((0 :: r.2).map toString))
  | ["svidx", _, h] =>
    match h.toNat? with
    | some h => (s, toString (KV.Vocab.sIndex (fun o r w => o * w / (r + 1)) s.sv h))
    | none => (s, "bad-op")
  | ["rb", v] =>
    match v.toNat? with
    | some v => (s, toString (requiredBits v))
    | _ => (s, "bad-op")
  | _ => (s, "bad-op")

def main : IO Unit := runDriver ({} : St) step
