import Model.Proto
import Model.Bits
/-! Driver for stream `primitives` (C20): executes the model on the same operation lines as harness/c20.cc. -/
open KV KV.Proto KV.Bits

structure St where
  mem : Nat := 0
  size : Nat := 0

def step (s : St) (line : String) : St × String :=
  match words line with
  | ["init", hex] =>
    match hexToBytes hex with
    | some bs => ({ mem := leToNat bs, size := bs.length }, "ok")
    | none => (s, "bad-op")
  | ["w57", o, l, v] =>
    match o.toNat?, l.toNat?, v.toNat? with
    | some o, some l, some v => ({ s with mem := writeInt57 s.mem o l v }, "ok")
    | _, _, _ => (s, "bad-op")
  | ["r57", o, l] =>
    match o.toNat?, l.toNat? with
    | some o, some l => (s, toString (readInt57 s.mem o l))
    | _, _ => (s, "bad-op")
  | ["w25", o, l, v] =>
    match o.toNat?, l.toNat?, v.toNat? with
    | some o, some l, some v => ({ s with mem := writeInt25 s.mem o l v }, "ok")
    | _, _, _ => (s, "bad-op")
  | ["r25", o, l] =>
    match o.toNat?, l.toNat? with
    | some o, some l => (s, toString (readInt25 s.mem o l))
    | _, _ => (s, "bad-op")
  | ["wf32", o, v] =>
    match o.toNat?, v.toNat? with
    | some o, some v => ({ s with mem := writeFloat32 s.mem o v }, "ok")
    | _, _ => (s, "bad-op")
  | ["rf32", o] =>
    match o.toNat? with
    | some o => (s, toString (readFloat32 s.mem o))
    | _ => (s, "bad-op")
  | ["wf31", o, v] =>
    match o.toNat?, v.toNat? with
    | some o, some v => ({ s with mem := writeNonPositiveFloat31 s.mem o v }, "ok")
    | _, _ => (s, "bad-op")
  | ["rf31", o] =>
    match o.toNat? with
    | some o => (s, toString (readNonPositiveFloat31 s.mem o))
    | _ => (s, "bad-op")
  | ["dump"] => (s, bytesToHex (natToLe s.mem s.size))
  | ["rb", v] =>
    match v.toNat? with
    | some v => (s, toString (requiredBits v))
    | _ => (s, "bad-op")
  | _ => (s, "bad-op")

def main : IO Unit := runDriver ({} : St) step
