import Model.Proto
import Model.Bits
import Model.Search
/-! Driver for stream `primitives` (C20): executes the model on the same operation lines as harness/c20.cc. -/
open KV KV.Proto KV.Bits KV.Search

structure St where
  mem : Nat := 0
  size : Nat := 0
  arr : Array Nat := #[]

/-- canonical answer of a search: only presence is observable (with duplicates the index depends on the pivot) -/
def showFound (arr : Array Nat) (key : Nat) : Option Nat → String
  | some p => if arr.getD p 0 = key then "found" else "found-wrong"
  | none => "absent"

def natList (ws : List String) : Option (List Nat) := ws.mapM (·.toNat?)

def step (s : St) (line : String) : St × String :=
  match words line with
  | ["init", hex] =>
    match hexToBytes hex with
    | some bs => ({ mem := leToNat bs, size := bs.length }, "ok")
    | none => (s, "bad-op")
  | ["w57", o, l, v] =>
    match o.toNat?, l.toNat?, v.toNat? with
    | some o, some l, some v => ({ s with mem := writeInt57 s.mem o l v }, "ok")
    | _, _, _ => (s, "bad-op")
  | ["r57", o, l] =>
    match o.toNat?, l.toNat? with
    | some o, some l => (s, toString (readInt57 s.mem o l))
    | _, _ => (s, "bad-op")
  | ["w25", o, l, v] =>
    match o.toNat?, l.toNat?, v.toNat? with
    | some o, some l, some v => ({ s with mem := writeInt25 s.mem o l v }, "ok")
    | _, _, _ => (s, "bad-op")
  | ["r25", o, l] =>
    match o.toNat?, l.toNat? with
    | some o, some l => (s, toString (readInt25 s.mem o l))
    | _, _ => (s, "bad-op")
  | ["wf32", o, v] =>
    match o.toNat?, v.toNat? with
    | some o, some v => ({ s with mem := writeFloat32 s.mem o v }, "ok")
    | _, _ => (s, "bad-op")
  | ["rf32", o] =>
    match o.toNat? with
    | some o => (s, toString (readFloat32 s.mem o))
    | _ => (s, "bad-op")
  | ["wf31", o, v] =>
    match o.toNat?, v.toNat? with
    | some o, some v => ({ s with mem := writeNonPositiveFloat31 s.mem o v }, "ok")
    | _, _ => (s, "bad-op")
  | ["rf31", o] =>
    match o.toNat? with
    | some o => (s, toString (readNonPositiveFloat31 s.mem o))
    | _ => (s, "bad-op")
  | "arr" :: rest =>
    match natList rest with
    | some xs => ({ s with arr := xs.toArray }, "ok")
    | none => (s, "bad-op")
  | ["suf32", k] =>   -- SortedUniformFind<Pivot32> over the whole array
    match k.toNat? with
    | some k => (s, showFound s.arr k (sortedUniformFind (fun i => s.arr.getD i 0) pivot32 k 0 s.arr.size))
    | none => (s, "bad-op")
  | ["suf64", k] =>   -- SortedUniformFind<Pivot64>: any in-range pivot gives the same answer (theorem); use the capped zero pivot
    match k.toNat? with
    | some k => (s, showFound s.arr k (sortedUniformFind (fun i => s.arr.getD i 0) (pivot64 fun _ _ _ => 0) k 0 s.arr.size))
    | none => (s, "bad-op")
  | ["bsuf32", k, mx] =>  -- BoundedSortedUniformFind<Pivot32>(begin-1, 0, end, max, key): positions shifted by one
    match k.toNat?, mx.toNat? with
    | some k, some mx =>
      let a := fun i => if i = 0 then 0 else s.arr.getD (i - 1) 0
      let r := bfind a pivot32 k (s.arr.size + 1) 0 0 (s.arr.size + 1) mx
      (s, match r with
          | some p => if a p = k then "found" else "found-wrong"
          | none => "absent")
    | _, _ => (s, "bad-op")
  | ["bsuf64", k, mx] =>
    match k.toNat?, mx.toNat? with
    | some k, some mx =>
      let a := fun i => if i = 0 then 0 else s.arr.getD (i - 1) 0
      let r := bfind a (pivot64 fun o r w => o * w / (r + 1)) k (s.arr.size + 1) 0 0 (s.arr.size + 1) mx
      (s, match r with
          | some p => if a p = k then "found" else "found-wrong"
          | none => "absent")
    | _, _ => (s, "bad-op")
  | ["bin", k] =>
    match k.toNat? with
    | some k => (s, showFound s.arr k (binaryFind (fun i => s.arr.getD i 0) k s.arr.size 0 s.arr.size))
    | none => (s, "bad-op")
  | ["dump"] => (s, bytesToHex (natToLe s.mem s.size))
  | ["rb", v] =>
    match v.toNat? with
    | some v => (s, toString (requiredBits v))
    | _ => (s, "bad-op")
  | _ => (s, "bad-op")

def main : IO Unit := runDriver ({} : St) step
