import Model.Proto
import Model.State
/-! Driver for stream `state-algebra` (C02): the model's ==, <, Compare on the same field values as
harness/c02_state.cc.  Output: eq lt gt sign. -/
open KV KV.Proto KV.State

def b2s (b : Bool) : String := if b then "1" else "0"

def readState (t : List Nat) : Option (State × List Nat) :=
  match t with
  | len :: w0 :: w1 :: w2 :: w3 :: w4 :: rest => some ({ length := len, words := [w0, w1, w2, w3, w4] }, rest)
  | _ => none

def readLeft (t : List Nat) : Option (Left × List Nat) :=
  match t with
  | len :: p0 :: p1 :: p2 :: p3 :: p4 :: f :: rest => some ({ length := len, pointers := [p0, p1, p2, p3, p4], full := f != 0 }, rest)
  | _ => none

def out (e l g : Bool) (c : Int) : String := b2s e ++ " " ++ b2s l ++ " " ++ b2s g ++ " " ++ toString (sign c)

def step (_ : Unit) (line : String) : Unit × String :=
  match words line with
  | op :: rest =>
    match rest.mapM String.toNat? with
    | none => ((), "bad-op")
    | some t =>
      if op == "S" then
        match readState t with
        | some (a, t) => match readState t with
          | some (b, _) => ((), out (a.eq b) (a.lt b) (b.lt a) (a.compare b))
          | none => ((), "bad-op")
        | none => ((), "bad-op")
      else if op == "L" then
        match readLeft t with
        | some (a, t) => match readLeft t with
          | some (b, _) => ((), out (a.eq b) (a.lt b) (b.lt a) (a.compare b))
          | none => ((), "bad-op")
        | none => ((), "bad-op")
      else if op == "C" then
        match readLeft t with
        | some (la, t) => match readState t with
          | some (ra, t) => match readLeft t with
            | some (lb, t) => match readState t with
              | some (rb, _) =>
                let a : ChartState := { left := la, right := ra }
                let b : ChartState := { left := lb, right := rb }
                ((), out (a.eq b) (a.lt b) (b.lt a) (a.compare b))
              | none => ((), "bad-op")
            | none => ((), "bad-op")
          | none => ((), "bad-op")
        | none => ((), "bad-op")
      else ((), "bad-op")
  | _ => ((), "bad-op")

def main : IO Unit := runDriver () step
