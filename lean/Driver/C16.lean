import Model.Proto
import Model.Sort
import Model.SortBytes
/-! Driver for stream `sort` (C16): reads the same case lines as harness/c16.cc, loads the same
record file, runs the model (`sortSpec`, and `codeSort` = the code's own merge plan when
`detail=1`) and prints the canonical `M …` line; `offsets` lines run the Offsets model. -/
open KV KV.Proto KV.Sort

def fnvOffset : UInt64 := 14695981039346656037
def fnvPrime : UInt64 := 1099511628211
@[inline] def fnvByte (h : UInt64) (b : Nat) : UInt64 := (h ^^^ (UInt64.ofNat (b % 256))) * fnvPrime

/-- hash the `w` low little-endian bytes of `v` into `h` -/
def fnvNat (h : UInt64) (v : Nat) : Nat → UInt64
  | 0 => h
  | w + 1 => fnvNat (fnvByte h v) (v / 256) w

structure Layout where
  rs : Nat      -- record size in bytes
  kw : Nat      -- bytes per key word
  nk : Nat      -- number of key words
  deriving Repr

def Layout.pw (l : Layout) : Nat := l.rs - l.kw * l.nk

def hashKey (l : Layout) (h : UInt64) (r : Rec) : UInt64 :=
  r.key.foldl (fun h w => fnvNat h w l.kw) h

def hashRec (l : Layout) (h : UInt64) (r : Rec) : UInt64 :=
  fnvNat (hashKey l h r) r.payload l.pw

def leAt (b : ByteArray) (off w : Nat) : Nat := Id.run do
  let mut v := 0
  for i in [0:w] do
    v := v * 256 + (b.get! (off + (w - 1 - i))).toNat
  return v

def decodeRec (l : Layout) (b : ByteArray) (i : Nat) : Rec :=
  let base := i * l.rs
  let key := (List.range l.nk).map (fun j => leAt b (base + j * l.kw) l.kw)
  { key := key, payload := leAt b (base + l.kw * l.nk) l.pw }

def decodeAll (l : Layout) (b : ByteArray) (n : Nat) : List Rec := Id.run do
  let mut acc : List Rec := []
  for i in [0:n] do
    acc := decodeRec l b (n - 1 - i) :: acc
  return acc

/-- cut `xs` into blocks of the given record counts -/
def cutBlocks (counts : List Nat) (xs : List Rec) : List (List Rec) := splitLens counts xs

def fullCounts (n cap : Nat) : List Nat :=
  if cap = 0 then [] else
  let full := n / cap
  let rest := n % cap
  List.replicate full cap ++ (if rest = 0 then [] else [rest])

structure Hashes where
  n : Nat
  keyhash : UInt64
  mset : UInt64
  seq : UInt64

def hashes (l : Layout) (out : List Rec) : Hashes := Id.run do
  let mut kh := fnvOffset
  let mut sq := fnvOffset
  let mut ms : UInt64 := 0
  let mut n := 0
  for r in out do
    kh := hashKey l kh r
    sq := hashRec l sq r
    ms := ms + hashRec l fnvOffset r
    n := n + 1
  return ⟨n, kh, ms, sq⟩

def Hashes.str (h : Hashes) : String :=
  s!"n_out={h.n} keyhash={h.keyhash} mset={h.mset} seq={h.seq}"

def errName : PlanErr → String
  | .notTwo => "abort-not-two"
  | .notOne => "abort-not-one"
  | .emptyQueue => "abort-empty-queue"
  | .offsets => "offsets"
  | .badConfig => "badconfig"
  | .fuel => "model-fuel"

/-- the Offsets log files the code writes: one for the block sorter, one per pass -/
def expectedLogs (lt : Rec → Rec → Bool) (combf : Rec → Rec → Option Rec) (cfg : Cfg) (lazyMem : Nat)
    (blocks : List (List Rec)) (counts : List Nat) (rs : Nat) : List (List (Nat × Nat)) :=
  let stage0 := offsetsFile (counts.map (· * rs))
  match afterBlockSorter lt blocks with
  | none => [stage0]
  | some runs =>
    if runs.length ≤ 1 then [stage0]
    else
      match codeMergeLoopT lt combf (fun _ _ _ => 0) cfg lazyMem runs.length runs 0 [] with
      | .error _ => [stage0]
      | .ok (_, _, hist) => stage0 :: hist.map (fun lens => offsetsFile (lens.map (· * rs)))

def logsStr (logs : List (List (Nat × Nat))) : String := Id.run do
  let mut h := fnvOffset
  let mut shown := ""
  let mut g := 0
  for log in logs do
    let mut i := 0
    for e in log do
      h := fnvNat (fnvNat h e.1 8) e.2 8
      if g < 4 && i < 5 then
        shown := shown ++ (if i > 0 then "," else "") ++ s!"{e.1}*{e.2}"
      i := i + 1
    h := fnvByte h 0xAA
    if g < 4 then shown := shown ++ ";"
    g := g + 1
  return s!"logs={logs.length}:{h} logshow={shown}"

/-- run-length string "size*count,…" of the output block sizes in bytes, as the harness prints it -/
def rleStr (xs : List Nat) : String :=
  let rec go : List Nat → List (Nat × Nat) → List (Nat × Nat)
    | [], acc => acc.reverse
    | x :: rest, [] => go rest [(x, 1)]
    | x :: rest, (y, c) :: acc => if x = y then go rest ((y, c + 1) :: acc) else go rest ((x, 1) :: (y, c) :: acc)
  if xs.isEmpty then "none" else ",".intercalate ((go xs []).map fun p => s!"{p.1}*{p.2}")

/-- the blocks the consumer of the sorted output sees -/
def expectedOutBlocks (lt : Rec → Rec → Bool) (combf : Rec → Rec → Option Rec) (cfg : Cfg) (lazyMem : Nat)
    (blocks : List (List Rec)) (nout cap rs : Nat) : String :=
  match afterBlockSorter lt blocks with
  | none => "?"
  | some runs =>
    match codeMerge lt combf (fun _ _ _ => 0) cfg lazyMem runs with
    | .error _ => "?"
    | .ok m => rleStr ((outputBlocks cap m.runs.length nout).map (· * rs))

/-- sizes of the write() calls that spill the sorted blocks: one per non-empty block -/
def spillStr (counts : List Nat) (rs : Nat) : String :=
  let sizes := (counts.filter (· ≠ 0)).map (· * rs)
  let h := sizes.foldl (fun h v => fnvNat h v 8) fnvOffset
  s!"spill={sizes.length}:{h}"

/-- sizes of all write() calls to the data temps: the spill (one per non-empty block) and, per pass,
the pass chain's blocks of `buffer_size` bytes plus the last partial one -/
def dwritesStr (lt : Rec → Rec → Bool) (combf : Rec → Rec → Option Rec) (cfg : Cfg) (lazyMem : Nat)
    (blocks : List (List Rec)) (counts : List Nat) (rs : Nat) : String :=
  let stage0 := (counts.filter (· ≠ 0)).map (· * rs)
  let hist : List (List Nat) :=
    match afterBlockSorter lt blocks with
    | none => []
    | some runs =>
      if runs.length ≤ 1 then []
      else match codeMergeLoopT lt combf (fun _ _ _ => 0) cfg lazyMem runs.length runs 0 [] with
        | .error _ => []
        | .ok (_, _, h) => h
  let passWrites := hist.map fun lens =>
    let t := lens.foldl (· + ·) 0 * rs
    List.replicate (t / cfg.bufferSize) cfg.bufferSize ++ (if t % cfg.bufferSize = 0 then [] else [t % cfg.bufferSize])
  let gens := (if stage0.isEmpty then [] else [stage0]) ++ passWrites.filter (fun g => !g.isEmpty)
  let h := gens.foldl (fun h g => fnvByte (g.foldl (fun h v => fnvNat h v 8) h) 0xAA) fnvOffset
  s!"dwrites={gens.length}:{h}"

def parseCounts (s : String) : Option (List Nat) :=
  (s.splitOn ",").filter (· ≠ "") |>.mapM (·.toNat?)

def ltOf (order : String) : Option (Rec → Rec → Bool) :=
  match order with
  | "int" => some intLt
  | "prefix" => some prefixLt
  | "suffix" => some suffixLt
  | "context" => some contextLt
  | "bytes" => some prefixLt
  | _ => none

def layoutOf (order : String) (rs n : Nat) : Layout :=
  match order with
  | "int" => ⟨rs, n, 1⟩
  | "bytes" => ⟨rs, 1, rs⟩
  | _ => ⟨rs, 4, n⟩

def runCase (args : List String) : IO String := do
  match args with
  | [path, n, rs, order, kn, comb, mode, cbc, cmem, buf, tot, lazy, blocksS, detail, _out] =>
    match n.toNat?, rs.toNat?, kn.toNat?, cbc.toNat?, cmem.toNat?, buf.toNat?, tot.toNat?, ltOf order with
    | some n, some rs, some kn, some cbc, some cmem, some buf, some tot, some lt =>
      let l := layoutOf order rs kn
      let bytes ← IO.FS.readBinFile path
      if bytes.size ≠ n * rs then return "M bad-file-size" else
      let recs := decodeAll l bytes n
      let blockSize := cmem / (cbc * rs) * rs
      let counts := if blocksS = "F" then some (fullCounts n (blockSize / rs)) else parseCounts blocksS
      match counts with
      | none => return "M bad-op"
      | some counts =>
        let blocks := cutBlocks counts recs
        let combf : Rec → Rec → Option Rec := if comb = "none" then neverCombine else combineCounts
        match mkCfg rs buf tot with
        | .error e => return s!"M error={errName e}"
        | .ok cfg =>
          let lazyMem := if mode = "steal" then 0
            else if mode = "blocking" ∨ lazy = "default" then defaultLazy cfg else lazy.toNat?.getD 0
          let spec := sortSpec lt combf blocks
          let hs := hashes l spec
          if detail = "1" then
            match (if mode = "retout" then codeSortRet lt combf (fun _ _ _ => 0) cfg lazyMem blocks
                   else codeSort lt combf (fun _ _ _ => 0) cfg lazyMem blocks) with
            | .error e => return s!"M error={errName e}"
            | .ok (out, passes, mret) =>
              let ho := hashes l out
              let agree := ho.n == hs.n && ho.keyhash == hs.keyhash && ho.mset == hs.mset
              let mretS := if mode = "blocking" then "-" else toString mret
              let logs := expectedLogs lt combf cfg lazyMem blocks counts rs
              let ocbc := if cbc = 1 then 2 else cbc
              let cap := if mode = "blocking" then blockSize / rs else (max cmem (rs * ocbc)) / (ocbc * rs)
              let ob := if mode = "steal" then rleStr ((preadBlocks cap ho.n).map (· * rs))
                        else expectedOutBlocks lt combf cfg lazyMem blocks ho.n cap rs
              let lstr := logsStr logs
              let (l1, l2) := match lstr.splitOn " logshow=" with
                | [a, b] => (a, b)
                | _ => (lstr, "")
              return s!"M {ho.str} passes={passes} mret={mretS} lazy={lazyMem} spec={if agree then "same" else "DIFF"} {l1} {spillStr counts rs} {dwritesStr lt combf cfg lazyMem blocks counts rs} oblocks={ob} logshow={l2}"
          else
            return s!"M {hs.str} passes=- mret=- lazy={lazyMem} spec=same"
    | _, _, _, _, _, _, _, _ => return "M bad-op"
  | _ => return "M bad-op"

/-- `offsets l1,l2,…` : Append each, FinishedAppending, then NextSize until empty:
prints RemainingBlocks, the sizes with their TotalOffset. -/
def runOffsets (arg : String) : String :=
  match parseCounts arg with
  | none => "bad-op"
  | some ls =>
    match offsetsEncode ls with
    | none => "error"
    | some r =>
      match r.takeAt r.blockCount with
      | none => "error"
      | some pairs =>
        let sizes := pairs.map (·.2)
        let offs := pairs.map (·.1)
        let total := (sizes.foldl (· + ·) 0)
        s!"remaining={r.blockCount} sizes={",".intercalate (sizes.map toString)} offsets={",".intercalate (offs.map toString)} total={total}"

/-- `sizedswap <size> <hex> <i> <j>`: the byte-wise model of `swap(SizedProxy, SizedProxy)` -/
def runSizedSwap (args : List String) : String :=
  match args with
  | [sz, hex, i, j] =>
    match sz.toNat?, hexToBytes hex, i.toNat?, j.toNat? with
    | some sz, some bs, some i, some j =>
      if sz = 0 ∨ (i + 1) * sz > bs.length ∨ (j + 1) * sz > bs.length then "bad-op"
      else bytesToHex (sizedSwap sz bs i j)
    | _, _, _, _ => "bad-op"
  | _ => "bad-op"

/-- `sizedsort <size> <hex>`: the block sort at byte level with memcmp order -/
def runSizedSort (args : List String) : String :=
  match args with
  | [sz, hex] =>
    match sz.toNat?, hexToBytes (if hex = "-" then "" else hex) with
    | some sz, some bs =>
      if sz = 0 ∨ bs.length % sz ≠ 0 then "bad-op"
      else
        let out := sizedSortBytes sz lexLt bs
        if out.isEmpty then "-" else bytesToHex out
    | _, _ => "bad-op"
  | _ => "bad-op"

partial def mainLoop (h : IO.FS.Stream) : IO Unit := do
  let line ← h.getLine
  if line.isEmpty then return ()
  match words line with
  | "case" :: args => IO.println (← runCase args)
  | ["offsets", arg] => IO.println (runOffsets arg)
  | ["offsets"] => IO.println (runOffsets "")
  | "sizedswap" :: args => IO.println (runSizedSwap args)
  | "sizedsort" :: args => IO.println (runSizedSort args)
  | _ => IO.println "bad-op"
  (← IO.getStdout).flush
  mainLoop h

def main : IO Unit := do
  mainLoop (← IO.getStdin)
