import Model.Proto
import Model.Interp
/-!
Driver for stream `interpolate` (C13).  Reads component models (local ids + vocabulary, float32
bit patterns), weights, then evaluates on request
* the union vocabulary / union n-gram set / the `stuck` n-grams (abort prediction),
* the model's output ARPA entries (log10 of `interpOut`),
* for a context: log10 Zdirect, log10 Zinc, and for every word of the union vocabulary except
  `<s>`: the defining formula  Σᵢ λᵢ scoreᵢ(w|c) − log10 Zdirect(c)  (spec score, `<unk>` mapping),
  and log10 of the back-off recursion over the model's output entries.
`E x = 10^x` in `Float` (double); all log-space sums are exact rationals.
-/
open KV KV.Proto KV.Interp

def ratToFloat (q : Rat) : Float := Float.ofInt q.num / Float.ofNat q.den

def E10 (q : Rat) : Float := Float.pow 10.0 (ratToFloat q)

instance : Zero Float := ⟨0.0⟩
instance : One Float := ⟨1.0⟩

structure St where
  done    : List LocalLM := []          -- finished components (reverse order)
  cur     : Option LocalLM := none
  lambdas : List Rat := []
  uv      : List String := []
  cs      : Comps Nat := []
  bos     : Nat := 0
  out     : List (OutEntry Nat Float) := []

def St.flush (s : St) : St :=
  match s.cur with
  | some m => { s with done := { m with vocab := m.vocab.reverse, entries := m.entries.reverse } :: s.done, cur := none }
  | none => s

def natList (l : List String) : Option (List Nat) := l.mapM (·.toNat?)

def fbits (x : Float) : String := toString x.toBits.toNat

def splitLast : List Nat → Option (List Nat × Nat)
  | [] => none
  | [x] => some ([], x)
  | x :: xs => (splitLast xs).map (fun p => (x :: p.1, p.2))

def wordStr (uv : List String) (i : Nat) : String := uv.getD i "?"

def countOrder (cs : Comps Nat) (k : Nat) : Nat :=
  ((unionGrams cs).filter (fun g => g.1.length + 1 == k)).length

def evDev (out : List (OutEntry Nat Float)) (ev : Ev Nat Float) : Float :=
  match ev with
  | Ev.prob c x v =>
    match outFind out c x with
    | some e => Float.abs (Float.log10 v - Float.log10 e.p)
    | none => 1.0e9
  | Ev.bo c v =>
    match out.find? (fun e => decide (e.gram = c)) with
    | some e => Float.abs (Float.log10 v - Float.log10 e.b)
    | none => 1.0e9

/-- run the stream model of pass 2 on the `ContextOrder`-sorted streams of the union and compare what
it writes with the functional model's output table -/
def streamCheck (cs : Comps Nat) (V : List Nat) (out : List (OutEntry Nat Float)) : String :=
  let mo := maxOrder cs
  if mo < 2 then "stream shape=true consumed=true events=0 probs=0 maxdev=0 zip=true p1shape=true p1ok=true matok=true" else
  let streams := (List.range (mo - 1)).map (fun j => sortedStream cs (j + 2))
  let X := sortedX cs
  let Y := sortedY cs
  let shape := decide (levelsE X Y (mo - 2) (Y []) [] = streams)
  let fuel := 2 * (unionGrams cs).length + 10
  let r := extendCtx E10 cs fuel streams [] (Zinc E10 cs V [])
  let consumed := r.1.all (·.isEmpty)
  let nprob := (r.2.filter (fun e => match e with | Ev.prob .. => true | _ => false)).length
  let dev := (r.2.map (evDev out)).foldl (fun a b => if b > a then b else a) 0.0
  -- pass 1: HandleSuffix on the SuffixOrder-sorted merged n-gram streams
  let p1streams := (List.range mo).map (fun j => p1Stream cs (j + 1))
  let Yg := sortedYg cs
  let p1shape := decide (levelsE (fun _ => [0]) Yg (mo - 1) (Yg []) [] = p1streams)
  -- the k-way recursion on the components' own sorted streams (`NGramHandler::active_`)
  let r1 := handleK (cs.map (·.1)) (2 * (unionGrams cs).length + 10)
    ((List.range mo).map (fun j => initActs cs (j + 1))) [] (mergeFb cs [])
  let p1ok := r1.1.all (·.isEmpty) && r1.2.all (fun rec => decide (rec = p1Rec cs rec.gram)) &&
    decide (r1.2.length = (unionGrams cs).length)
  -- pass-1 record + the charging loop over the BackoffMatrix = weighted back-off score, exactly
  let matok := (unionGrams cs).all (fun g =>
    let M := pathMat cs (mo - 1) g.1
    decide (((cs.zipIdx.map (fun pi =>
      pi.1.1 * ((pi.1.2.merge g.1 g.2).1 + (chargeLoop M pi.2 (pi.1.2.merge g.1 g.2).2 g.1.length).2))).sum) =
        usum cs g.1 g.2))
  let zip := (List.range (mo - 1)).all (fun j => decide (backoffStream cs (j + 1) = probStream3 cs (j + 1)))
  s!"stream shape={shape} consumed={consumed} events={r.2.length} probs={nprob} maxdev={fbits dev} zip={zip} p1shape={p1shape} p1ok={p1ok} matok={matok}"

def step (s : St) (line : String) : St × String :=
  match words line with
  | ["model", o] =>
    match o.toNat? with
    | some o => ({ s.flush with cur := some { order := o, vocab := [], entries := [] } }, "ok")
    | none => (s, "bad-op")
  | ["v", w] =>
    match s.cur with
    | some m => ({ s with cur := some { m with vocab := w :: m.vocab } }, "ok")
    | none => (s, "bad-op")
  | "g" :: p :: b :: ids =>
    match s.cur, p.toNat?, b.toNat?, (natList ids).bind splitLast with
    | some m, some p, some b, some (c, w) =>
      -- inf / nan are outside the model (values are exact rationals): refuse instead of guessing
      if p / 2^23 % 256 = 255 ∨ b / 2^23 % 256 = 255 then (s, "bad-op non-finite") else
      ({ s with cur := some { m with entries :=
          { ctx := c, word := w, prob := f32ToRat p, bo := f32ToRat b } :: m.entries } }, "ok")
    | _, _, _, _ => (s, "bad-op")
  | "weights" :: ws =>
    match natList ws with
    | some ws => ({ s with lambdas := ws.map f32ToRat }, "ok")
    | none => (s, "bad-op")
  | ["build"] =>
    let s := s.flush
    let ms := s.done.reverse
    let uv := unionVocab ms
    let cs := globalizeAll ms s.lambdas
    let V := List.range uv.length
    let out : List (OutEntry Nat Float) := interpOut E10 cs V
    let mo := maxOrder cs
    let counts := (List.range mo).map (fun k => toString (countOrder cs (k + 1)))
    ({ s with uv := uv, cs := cs, bos := uv.idxOf "<s>", out := out },
      s!"built vocab={uv.length} maxorder={mo} counts={" ".intercalate counts} stuck={(stuck cs).length}")
  | ["vocab"] => (s, " ".intercalate s.uv)
  | ["stream"] => (s, streamCheck s.cs (List.range s.uv.length) s.out)
  | ["stuck"] =>
    (s, "\t".intercalate ((stuck s.cs).map (fun g => " ".intercalate (g.map (wordStr s.uv)))))
  | ["entries", k] =>
    match k.toNat? with
    | some k =>
      let es := s.out.filter (fun e => e.ctx.length + 1 == k)
      (s, "\t".intercalate (es.map (fun e =>
        " ".intercalate ((e.gram.map (wordStr s.uv)) ++ [fbits (Float.log10 e.p), fbits (Float.log10 e.b)]))))
    | none => (s, "bad-op")
  | "ctx" :: ws =>
    if ws.any (fun w => !s.uv.contains w) then (s, "unknown-word") else
    let c := ws.map (fun w => s.uv.idxOf w)
    let V := List.range s.uv.length
    let zd : Float := Zdirect E10 s.cs V s.bos c
    let zi : Float := Zinc E10 s.cs V c
    let lzd := Float.log10 zd
    let vals := (V.filter (· ≠ s.bos)).map (fun w =>
      let spec := ratToFloat (usumSpec s.cs c w) - lzd
      let tool := Float.log10 (outScore s.out c w)
      fbits spec ++ " " ++ fbits tool)
    (s, " ".intercalate ([fbits lzd, fbits (Float.log10 zi)] ++ vals))
  | "bse" :: rest =>
    let bs := rest.takeWhile (· ≠ "|")
    let vs := (rest.dropWhile (· ≠ "|")).drop 1
    match natList bs, natList vs with
    | some bs, some vs =>
      if bs.length ≠ vs.length then (s, "bad-op") else
      let n := BSE.byteLength bs
      let m := BSE.encode bs vs
      let hex := if n = 0 then "-" else bytesToHex (natToLe m n)
      (s, " ".intercalate ([toString n, hex] ++ (BSE.decode bs m).map toString))
    | _, _ => (s, "bad-op")
  | _ => (s, "bad-op")

def main : IO Unit := runDriver ({} : St) step
