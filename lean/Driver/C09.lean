import Model.Proto
import Model.IO
import Generated.C09
/-! Driver for stream `crash` (C09): replays the REAL event trace of build_binary (recorded by
tools/shim_io.c) through the file model, decides the writer protocol on it, and produces the kill /
power-loss / truncation images with the model's verdicts.

  fmt <headerSize> <totalMap> <finalHeaderHex> <modelType> <searchVersion>
  ev create | ev truncate n | ev pwrite off hex | ev store off hex | ev msync lo hi | ev fsync | ev munmap | ev close
  conforms                      -> conforms=<b> headerLast=<b> commit=<c|none> events=<n>
  kill k                        -> loads=<b> eq=<b> hex=<image after k events>
  power k seed cap              -> one line per image: loads=<b> eq=<b> hex=<…>   then `end <total combinations> <emitted>`
  trunc n                       -> loads=<b> qeq=<b>     (the final image cut to n bytes)
-/
open KV KV.Proto KV.IO KV.IO.Fs

structure St where
  fmt : Fmt := { sanity := KV.Gen.C09.sanityBytes, incomplete := KV.Gen.C09.magicIncomplete, headerSize := 0,
                 totalMap := fun _ => 0, paramsOK := fun _ => true, hasVocab := fun _ => false }
  evs : Array Ev := #[]

def b2s (b : Bool) : String := if b then "true" else "false"

def le32 (hdr : Bytes) (off : Nat) : Nat :=
  hdr.getD off 0 + 256 * hdr.getD (off+1) 0 + 65536 * hdr.getD (off+2) 0 + 16777216 * hdr.getD (off+3) 0

/-- `ReadHeader` + `MatchCheck` on the header bytes -/
def mkFmt (h tm : Nat) (finalHdr : Bytes) (modelType searchVersion : Nat) : Fmt :=
  let s := KV.Gen.C09.sizeofSanity
  { sanity := KV.Gen.C09.sanityBytes, incomplete := KV.Gen.C09.magicIncomplete, headerSize := h,
    -- the size announced by the header: known for the header of this build; a different count vector is outside the model
    totalMap := fun hdr => if hdr.drop (s + KV.Gen.C09.sizeofFixed) == finalHdr.drop (s + KV.Gen.C09.sizeofFixed)
                                && hdr.getD (s + KV.Gen.C09.offOrder) 0 == finalHdr.getD (s + KV.Gen.C09.offOrder) 0 then tm else 2^62,
    paramsOK := fun hdr =>
      let mult := le32 hdr (s + KV.Gen.C09.offMultiplier)
      -- probing_multiplier >= 1.0 as an IEEE single: positive with exponent >= 127 (or NaN, which is not < 1.0)
      (decide (0x3F800000 ≤ mult) && decide (mult < 0x80000000) || decide (0xFF800000 < mult)) &&
      le32 hdr (s + KV.Gen.C09.offModelType) == modelType &&
      le32 hdr (s + KV.Gen.C09.offSearchVersion) == searchVersion,
    hasVocab := fun hdr => hdr.getD (s + KV.Gen.C09.offHasVocab) 0 != 0 }

def imgHex (m : Img) : String := if m.len = 0 then "-" else bytesToHex m.toList

def eqvB (a b : Img) : Bool := a.len == b.len && (List.range a.len).all fun i => a.get i == b.get i

def qeqB (f : Fmt) (a b : Img) : Bool :=
  (List.range (min (f.totalMap (header f b)) (2^24))).all fun i => a.get i == b.get i

def sectorBytes (m : Img) (s len : Nat) : List Nat :=
  (List.range kSector).map fun o => if s * kSector + o < len then m.get (s * kSector + o) else 0

def lcg (x : Nat) : Nat := (x * 6364136223846793005 + 1442695040888963407) % 2^64

def dedupBy {α β : Type} [BEq β] (key : α → β) (l : List α) : List α :=
  l.foldl (fun acc a => if acc.any (fun b => key b == key a) then acc else acc ++ [a]) []

def step (st : St) (line : String) : St × String :=
  match words line with
  | ["fmt", h, tm, hdr, mt, sv] =>
    match h.toNat?, tm.toNat?, hexToBytes hdr, mt.toNat?, sv.toNat? with
    | some h, some tm, some hdr, some mt, some sv => ({ st with fmt := mkFmt h tm hdr mt sv, evs := #[] }, "ok")
    | _, _, _, _, _ => (st, "bad-op")
  | ["ev", "create"] => ({ st with evs := st.evs.push .create }, "ok")
  | ["ev", "truncate", n] => match n.toNat? with
    | some n => ({ st with evs := st.evs.push (.truncate n) }, "ok")
    | none => (st, "bad-op")
  | ["ev", "pwrite", off, hx] => match off.toNat?, hexToBytes hx with
    | some off, some bs => ({ st with evs := st.evs.push (.pwrite off bs.toArray) }, "ok")
    | _, _ => (st, "bad-op")
  | ["ev", "store", off, hx] => match off.toNat?, hexToBytes hx with
    | some off, some bs => ({ st with evs := st.evs.push (.store off bs.toArray) }, "ok")
    | _, _ => (st, "bad-op")
  | ["ev", "msync", lo, hi] => match lo.toNat?, hi.toNat? with
    | some lo, some hi => ({ st with evs := st.evs.push (.msync lo hi) }, "ok")
    | _, _ => (st, "bad-op")
  | ["ev", "fsync"] => ({ st with evs := st.evs.push .fsync }, "ok")
  | ["ev", "munmap"] => ({ st with evs := st.evs.push .munmap }, "ok")
  | ["ev", "close"] => ({ st with evs := st.evs.push .close }, "ok")
  | ["conforms"] =>
    let t := st.evs.toList
    let c := match commitIdx st.fmt t with | some c => toString c | none => "none"
    (st, s!"conforms={b2s (conforms st.fmt t)} headerLast={b2s (headerLast st.fmt t)} commit={c} events={t.length}")
  | ["kill", k] => match k.toNat? with
    | some k =>
      let t := st.evs.toList
      let m := vol t k
      (st, s!"loads={b2s (loads st.fmt m)} eq={b2s (eqvB m (final t))} hex={imgHex m}")
    | none => (st, "bad-op")
  | ["trunc", n] => match n.toNat? with
    | some n =>
      let t := st.evs.toList
      let m := (final t).trunc n
      (st, s!"loads={b2s (loads st.fmt m)} qeq={b2s (qeqB st.fmt m (final t))}")
    | none => (st, "bad-op")
  | ["power", k, seed, cap] => match k.toNat?, seed.toNat?, cap.toNat? with
    | some k, some seed, some cap =>
      let t := st.evs.toList
      let vols : Array Img := ((List.range (k + 1)).map (vol t)).toArray
      let fin := final t
      -- allowed length versions, distinct by length
      let lens := dedupBy (fun jl => (vols.getD jl Img.empty).len) ((List.range (k + 1)).filter (lenOKB t k))
      let maxLen := lens.foldl (fun a jl => max a (vols.getD jl Img.empty).len) 0
      let nsec := (maxLen + kSector - 1) / kSector
      -- per sector: allowed versions, distinct by content
      let choices : Array (List Nat) := ((List.range nsec).map fun s =>
        dedupBy (fun j => sectorBytes (vols.getD j Img.empty) s maxLen) ((List.range (k + 1)).filter (verOKB t k s))).toArray
      let total := choices.foldl (fun a c => a * c.length) lens.length
      let emit (jl : Nat) (ch : Nat → Nat) : String :=
        let m := crashImage (fun j => vols.getD j Img.empty) jl ch
        s!"loads={b2s (loads st.fmt m)} eq={b2s (eqvB m fin)} hex={imgHex m}"
      let pick (s : Nat) (r : Nat) : Nat := let c := choices.getD s [k]; c.getD (r % c.length) k
      let oldest (s : Nat) : Nat := (choices.getD s [k]).headD k
      let newest (s : Nat) : Nat := (choices.getD s [k]).getLastD k
      let lines : List String :=
        if total ≤ cap then
          -- full enumeration: mixed-radix counter over (length, sector choices)
          (List.range total).map fun n =>
            let jl := lens.getD (n % lens.length) k
            let digits : Nat → Nat := fun s =>
              let rec go (i : Nat) (q : Nat) (fuel : Nat) : Nat :=
                match fuel with
                | 0 => q % (choices.getD s [k]).length
                | fuel+1 => if i = s then q % (choices.getD s [k]).length else go (i+1) (q / (choices.getD i [k]).length) fuel
              go 0 (n / lens.length) (s + 1)
            emit jl (fun s => (choices.getD s [k]).getD (digits s) k)
        else
          -- extremes, every single-sector deviation from all-newest and from all-oldest, then seeded samples
          let base := lens.flatMap fun jl => [emit jl oldest, emit jl newest]
          let singles := (List.range nsec).flatMap fun s0 =>
            if (choices.getD s0 [k]).length ≤ 1 then [] else
            [emit (lens.getLastD k) (fun s => if s = s0 then oldest s else newest s),
             emit (lens.getLastD k) (fun s => if s = s0 then newest s else oldest s)]
          let nsamp := cap - min cap (base.length + singles.length)
          let samples := (List.range nsamp).map fun n =>
            let r0 := lcg (seed * 1000003 + n)
            emit (lens.getD (r0 % lens.length) k) (fun s => pick s (lcg (r0 + s * 7919) / 65536))
          (base ++ singles ++ samples).take cap
      (st, "\n".intercalate (lines ++ [s!"end {total} {lines.length}"]))
    | _, _, _ => (st, "bad-op")
  | _ => (st, "bad-op")

def main : IO Unit := runDriver ({} : St) step
