import Std
import Model.Proto
import Model.Arpa
import Model.Table
import Model.State
import Model.Score
import Model.Left
/-! Driver for stream `left` (C08).  Parses THE SAME ARPA BYTES the harness loads and runs the model of
`lm/left.hh`, `GenericModel::ExtendLeft`, `lm/partial.hh` (Model/Left.lean) for the rest functions
N (none), M (REST_MAX), L (REST_LOWER, when lower-order files are given), and prints the L0 oracle
(left-to-right sum of textbook scores).
Ops:
  arpa <path> [lower=<p1>,<p2>,…]
  d B|N <tokens: ( ) word …>        derivation; one record per non-terminal node in post-order, root last
  x u1 … um | c1 … ck               ExtendLeft directly: fragment u, further left context c (forward order)
  p <a> <b> <steps> w1 … wn          partial.hh: before=w[0,a) between=w[a,b) after=w[b,n); steps ∈ {B,A}*
  s <a> w1 … wn                      Subsume(first=w[0,a), second=w[a,n), between_length 0)
-/
open KV KV.Proto KV.Arpa KV.Table KV.State KV.Score KV.Left

structure Loaded where
  arpa : Arpa
  vocabArr : Array String
  vocabIdx : Std.HashMap String Nat
  /-- (tag, table, rest function): N = trie family, P = probing (unigram sign-bit quirk, known finding of C01),
  M = rest-probing REST_MAX, L = rest-probing REST_LOWER -/
  rests : List (String × Table × (Ptr → Rat))
  T : Table

def ratStr (q : Rat) : String := toString q.num ++ "/" ++ toString q.den
def joinOr (xs : List String) : String := if xs.isEmpty then "-" else ",".intercalate xs
def b2s (b : Bool) : String := if b then "1" else "0"

def Loaded.wordStr (L : Loaded) (w : Word) : String := L.vocabArr.getD w "?"
def Loaded.idx (L : Loaded) (w : String) : Word :=
  if w == "<unk>" || w == "<UNK>" then 0 else (L.vocabIdx.get? w).getD 0

def memoTable (a : Arpa) : Table × List Ptr × Nat × Bool :=
  let T0 := build a
  let ks := keys a
  let hm : Std.HashMap (List Word) TEntry := ks.foldl (fun m g => match T0.lookup g with
    | some t => m.insert g t
    | none => m) {}
  let blanks := hm.fold (fun n _ t => if t.blank then n + 1 else n) 0
  let proper := hm.fold (fun ok _ t => ok && decide (t.prob ≤ 0)) true
  ({ order := a.order, lookup := fun g => match hm.get? g with
      | some t => some t
      | none => T0.lookup g }, ks, blanks, proper)

/-- memoised `maxRest`: one pass over the keys, propagating each entry's prob to all its reversed prefixes -/
def maxRestMemo (T : Table) (ks : List Ptr) : Ptr → Rat :=
  let hm : Std.HashMap Ptr Rat := ks.foldl (fun m k =>
    match T.lookup k with
    | none => m
    | some t =>
      (List.range k.length).foldl (fun m i =>
        let g := k.take (i + 1)
        match m.get? g with
        | some v => if v < t.prob then m.insert g t.prob else m
        | none => m.insert g (let b := noRest T g; if b < t.prob then t.prob else b)) m) {}
  fun g => match hm.get? g with
    | some v => v
    | none => maxRest T ks g

/-- the premise of the property: only n-grams that are contexts of longer n-grams carry a non-zero back-off -/
def contextsOnlyBackoff (a : Arpa) : Bool :=
  let ctxs : Std.HashSet Ptr := a.entries.foldl (fun s p => s.insert p.1.tail) {}
  a.entries.all fun p => p.2.backoff == 0 || ctxs.contains p.1

/-- unigram-only ARPA (the first `rest_lower_files` entry): word bytes ↦ prob -/
def parseUnigramFile (s : Bytes) : Except Err (List (Bytes × Rat)) := do
  let (l, s) ← match skipLines (fun l => allSpace l || l.take 1 == [35]) (s.length + 1) s with
    | none => .error .eof
    | some x => .ok x
  if l != str "\\data\\" then .error .format
  let (counts, s) ← readCounts (s.length + 1) s []
  match counts with
  | [c1] =>
    let s ← readHeader 1 s
    let rec go : Nat → Bytes → List (Bytes × Rat) → Except Err (List (Bytes × Rat))
      | 0, _, acc => .ok acc.reverse
      | k+1, s, acc => do
        let (p, _, s) ← readFloatSigned s
        match s with
        | 9 :: s =>
          let (w, s) ← readWord s
          let (_, s) ← readBackoff true s
          -- ReadNGram(…, Prob&) does not consume the newline; the next ReadFloat skips it
          go k s ((w, clampProb p) :: acc)
        | [] => .error .eof
        | _ => .error .format
    go c1 s []
  | _ => .error .order

def bytesStr (b : Bytes) : String := (String.fromUTF8? (ByteArray.mk b.toArray)).getD "?"

def load (maxOrder : Nat) (path : String) (lowerPaths : List String) (quirk : Bool) : IO (Except String (Loaded × String)) := do
  let bytes ← IO.FS.readBinFile path
  match parse maxOrder (-100) bytes.toList with
  | .error e => return .error e.name
  | .ok p =>
    let a := p.arpa
    let (T, ks, blanks, proper) := memoTable a
    let vs := p.vocab.map bytesStr
    let idx : Std.HashMap String Nat := (vs.zipIdx).foldl (fun m (s, i) => if m.contains s then m else m.insert s i) {}
    -- probing structures: with `quirk=1` (trees before the repair of Read1Gram's sign bit) a +0.0 unigram extends left
    let Tq := if quirk then withSignQuirk a T else T
    -- HashedSearch::ApplyBuild initialises `rest` for ids 0 … counts[0]-1 only, and before the hallucinated <unk> gets
    -- its probability: with <unk> absent from the file the last unigram (id = counts[0]) and <unk> keep rest = 0.0
    let lastUni := (a.entries.filter fun p => p.1.length == 1).length - 1
    let mr0 := maxRestMemo T ks
    let mr : Ptr → Rat := if a.unkHallucinated then (fun g => if g == [0] || g == [lastUni] then 0 else mr0 g) else mr0
    let mut rests : List (String × Table × (Ptr → Rat)) := [("N", T, noRest T), ("P", Tq, noRest T), ("M", Tq, mr)]
    let mut lowerOk := "-"
    if !lowerPaths.isEmpty then
      -- file 0: unigram model; file i: order i+1
      let ub ← IO.FS.readBinFile lowerPaths.head!
      match parseUnigramFile ub.toList with
      | .error e => lowerOk := "error-" ++ e.name
      | .ok us =>
        let um : Std.HashMap String Rat := us.foldl (fun m (w, q) => m.insert (bytesStr w) q) {}
        -- LowerRestBuild: `unigrams_[0]` starts as unknown_missing_logprob and is overwritten only if the unigram file lists
        -- <unk>; words the file does not list keep 0.0.  HashedSearch::ApplyBuild calls SetRest for ids 0 … counts[0]-1 only, so
        -- with <unk> absent from the main file the last unigram keeps rest = 0.0 (as for REST_MAX).
        let uni : Word → Rat := fun w =>
          if w == 0 then (match um.get? "<unk>" with | some q => q | none => (um.get? "<UNK>").getD (-100))
          else if a.unkHallucinated && w == lastUni then 0
          else (um.get? (vs.getD w "?")).getD 0
        let mut lowers : List (Nat × Arpa) := []
        let mut bad := false
        let mut n := 2
        for lp in lowerPaths.tail! do
          let lb ← IO.FS.readBinFile lp
          match parse maxOrder (-100) lb.toList with
          | .ok q =>
            -- LowerRestBuild passes the main model's word ids: only meaningful if the vocabularies agree
            if q.vocab != p.vocab then bad := true
            lowers := (n, q.arpa) :: lowers
          | .error _ => bad := true
          n := n + 1
        if bad then lowerOk := "vocab-mismatch"
        else
          let lw := lowers
          let lowerF : Nat → Option Arpa := fun k => (lw.find? (·.1 == k)).map (·.2)
          let Rl := lowerRest T uni lowerF
          let hm : Std.HashMap Ptr Rat := ks.foldl (fun m g => m.insert g (Rl g)) {}
          rests := rests ++ [("L", Tq, fun g => match hm.get? g with | some v => v | none => Rl g)]
          lowerOk := "ok"
    let L : Loaded := { arpa := a, vocabArr := vs.toArray, vocabIdx := idx, T := T, rests := rests }
    let info := "arpa ok order=" ++ toString a.order ++ " entries=" ++ toString a.entries.length ++
      " blanks=" ++ toString blanks ++ " closed=" ++ b2s a.suffixClosed ++ " ctx=" ++ b2s a.contextsPresent ++
      " proper=" ++ b2s proper ++ " distinct=" ++ b2s a.keysDistinct ++ " unk=" ++ b2s (!a.unkHallucinated) ++
      " ctxbo=" ++ b2s (contextsOnlyBackoff a) ++ " bos=" ++ b2s (a.isReal [idx.getD "<s>" 0] && idx.contains "<s>") ++
      " lower=" ++ lowerOk ++
      " real=" ++ joinOr ((List.range a.order).map fun n => toString (a.entries.filter fun p => p.1.length == n + 1).length) ++
      " blank=" ++ joinOr ((List.range a.order).map fun n => toString (ks.filter fun g => g.length == n + 1 && !a.isReal g).length) ++
      " nzbo=" ++ joinOr ((List.range a.order).map fun n => toString (a.entries.filter fun p => p.1.length == n + 1 && p.2.backoff != 0).length)
    return .ok (L, info)

/-! ### printing -/

def ptrStr (p : Ptr) : String := "_".intercalate (p.map toString)

def chartStr (L : Loaded) (c : Chart) : String :=
  toString c.left.length ++ " " ++ b2s c.left.full ++ " " ++ joinOr (c.left.pointers.map ptrStr) ++ " " ++
  toString c.right.length ++ " " ++ joinOr ((c.right.words.take c.right.length).map L.wordStr) ++ " " ++
  joinOr ((c.right.backoff.take c.right.length).map ratStr)

/-! ### derivations -/

/-- parse `( … )` token lists into a rule; returns the rule and the remaining tokens -/
partial def parseRule (L : Loaded) : List String → Rule × List String
  | [] => (.nil, [])
  | ")" :: rest => (.nil, rest)
  | "(" :: rest =>
    let (inner, rest) := parseRule L rest
    let (tail, rest) := parseRule L rest
    (.cons (.nt inner) tail, rest)
  | w :: rest =>
    let (tail, rest) := parseRule L rest
    (.cons (.term (L.idx w)) tail, rest)

mutual
/-- like `applyItem`/`applyRule` but also emits one record per non-terminal node (post-order) -/
partial def traceItem (L : Loaded) (T : Table) (R : Ptr → Rat) (rs : RS) (acc : Array String) : Item → RS × Array String
  | .term w => (terminal T R rs w, acc)
  | .nt r =>
    let (rs', acc) := traceRule L T R RS.init acc r
    let (c, p) := finish T.order rs'
    let acc := acc.push (ratStr p ++ " " ++ chartStr L c)
    (nonTerminal T R rs c p, acc)
partial def traceRule (L : Loaded) (T : Table) (R : Ptr → Rat) (rs : RS) (acc : Array String) : Rule → RS × Array String
  | .nil => (rs, acc)
  | .cons i r =>
    let (rs, acc) := traceItem L T R rs acc i
    traceRule L T R rs acc r
end

def termsSeq (a : Arpa) (h : List Word) : List Word → List Rat
  | [] => []
  | w :: ws => terms a h w ++ termsSeq a (w :: h) ws

/-- Σ over the words of the largest Σ|terms| over all truncations of the word's history: bounds the magnitude of every
fragment-internal score that any bracketing can produce (float32 tolerance only, never a value) -/
def magSeq (a : Arpa) (h : List Word) : List Word → Rat
  | [] => 0
  | w :: ws =>
    let m := (List.range (min h.length (a.order - 1) + 1)).foldl (fun m j =>
      let v := ((terms a (h.take j) w).map Rat.abs).sum
      if m < v then v else m) 0
    m + magSeq a (w :: h) ws

def oracleStr (L : Loaded) (h : List Word) (ws : List Word) : String :=
  let ts := termsSeq L.arpa h ws
  "O: " ++ ratStr (specSeq L.arpa h ws) ++ " " ++ toString ts.length ++ " " ++
    ratStr ((ts.map Rat.abs).sum + (((termsSeq L.arpa [] ws)).map Rat.abs).sum + 2 * magSeq L.arpa h ws)

def opDeriv (L : Loaded) (start : String) (toks : List String) : String :=
  let (rule, _) := parseRule L toks
  let bos := L.idx "<s>"
  let ws := rule.yield
  let h0 : List Word := if start == "B" then [bos] else []
  let segs := L.rests.map fun (tag, T, R) =>
    let rs0 := if start == "B" then beginSentence T R bos RS.init else RS.init
    let (rs, acc) := traceRule L T R rs0 #[] rule
    let (c, p) := finish T.order rs
    -- consistency of the executable trace with the model function used in the theorems
    let (c', p') := ruleScore T R (if start == "B" then some bos else none) rule
    let same := c == c' && p == p'
    tag ++ ": " ++ " | ".intercalate (acc.push (ratStr p ++ " " ++ chartStr L c)).toList ++ (if same then "" else " | MODEL-TRACE-MISMATCH")
  oracleStr L h0 ws ++ " ## " ++ " ## ".intercalate segs

/-! ### ExtendLeft directly -/

def opExtend (L : Loaded) (us cs : List String) : String :=
  let u := us.map L.idx
  let c := (cs.map L.idx).reverse        -- newest first
  let segs := L.rests.map fun (tag, T, R) =>
    let S := restSearch T R
    -- score u from the null context collecting pointers while everything matches and extends left
    let rec chain (ws : List Word) (i : Nat) (s : State) (acc : List (Ptr × Rat × Rat)) : List (Ptr × Rat × Rat) :=
      match ws with
      | [] => acc.reverse
      | w :: rest =>
        let (r, o) := fullScore S s w
        if r.independentLeft || r.ngramLength != i + 1 then acc.reverse
        else chain rest (i + 1) (normS o) ((r.extendLeft, r.prob, r.rest) :: acc)
    let ptrs := chain u 0 nullContextState []
    let cst := getState S c
    let rec ext (ps : List (Ptr × Rat × Rat)) (i : Nat) (nextUse : Nat) (backIn : List Rat) (acc : List String) : List String :=
      match ps with
      | [] => acc.reverse
      | (p, bp, br) :: rest =>
        if nextUse == 0 then acc.reverse else
        let r := extendLeft T R (cst.words.take nextUse) backIn p (i + 1)
        let hist := (u.take i).reverse ++ c
        let w := u.getD i 0
        let (g, go) := fullScoreForgotState S hist w
        let spec := score L.arpa hist w
        let ts := terms L.arpa hist w
        let rec_ := ratStr r.prob ++ " " ++ ratStr r.rest ++ " " ++ toString r.ngramLength ++ " " ++ b2s r.independentLeft ++ " " ++
          toString r.nextUse ++ " " ++ joinOr ((r.backoffOut.take r.nextUse).map ratStr) ++ " " ++
          ratStr bp ++ " " ++ ratStr br ++ " " ++ ratStr g.prob ++ " " ++ toString g.ngramLength ++ " " ++ toString go.length ++ " " ++
          joinOr (((go.backoff.take go.length).drop (i + 1)).map ratStr) ++ " " ++
          ratStr spec ++ " " ++ toString ts.length ++ " " ++ ratStr ((ts.map Rat.abs).sum) ++ " " ++ ratStr (score L.arpa ((u.take i).reverse) w)
        ext rest (i + 1) r.nextUse r.backoffOut (rec_ :: acc)
    tag ++ ": " ++ toString ptrs.length ++ " " ++ toString cst.length ++ " ; " ++
      " | ".intercalate (ext ptrs 0 cst.length (cst.backoff.take cst.length) [])
  " ## ".intercalate segs

/-! ### partial.hh -/

def scoreFragment (T : Table) (R : Ptr → Rat) (ws : List Word) : Chart × Rat :=
  finish T.order (ws.foldl (terminal T R) RS.init)

def opPartial (L : Loaded) (a b : Nat) (steps : String) (wsS : List String) : String :=
  let ws := wsS.map L.idx
  let before := ws.take a
  let between := (ws.take b).drop a
  let after := ws.drop b
  let segs := L.rests.map fun (tag, T, R) =>
    let (fullC, full) := scoreFragment T R ws
    let (bc, bs) := scoreFragment T R before
    let (mc, ms) := scoreFragment T R between
    let (ac, as_) := scoreFragment T R after
    let _ := fullC
    let rec go (st : List Char) (nb na : Nat) (left : LeftSt) (right : State) (sum : Rat) (acc : List String) : LeftSt × State × Rat × List String :=
      match st with
      | [] => (left, right, sum, acc.reverse)
      | 'B' :: rest =>
        if nb < bc.right.length then
          let reveal : State := { bc.right with length := nb + 1 }
          let (adj, l, r) := revealBefore T R reveal nb false left right
          go rest (nb + 1) na l r (sum + adj) (("B " ++ ratStr adj) :: acc)
        else go rest nb na left right sum acc
      | 'A' :: rest =>
        if na < ac.left.length then
          let reveal : LeftSt := { pointers := ac.left.pointers.take (na + 1), full := false }
          let (adj, l, r) := revealAfter T R left right reveal na
          go rest nb (na + 1) l r (sum + adj) (("A " ++ ratStr adj) :: acc)
        else go rest nb na left right sum acc
      | _ :: rest => go rest nb na left right sum acc
    let (left, right, sum, recs) := go steps.toList 0 0 mc.left mc.right 0 []
    -- finals, in the order of lm/partial_test.cc: after.full then before_full
    let (left, right, sum, recs) :=
      if ac.left.full then
        let (adj, l, r) := revealAfter T R left right { pointers := ac.left.pointers, full := true } ac.left.length
        (l, r, sum + adj, recs ++ ["a " ++ ratStr adj])
      else (left, right, sum, recs)
    let (left, right, sum, recs) :=
      if bc.left.full then
        let (adj, l, r) := revealBefore T R { bc.right with length := bc.right.length } bc.right.length true left right
        (l, r, sum + adj, recs ++ ["b " ++ ratStr adj])
      else (left, right, sum, recs)
    -- the one-sided protocols are the functions the theorems `reveal_after` / `reveal_before` speak about
    let okA := before.length != 0 || (let ra := revealAfterAll T R mc ac; ra.2.2 == sum && ra.1 == left)
    let okB := after.length != 0 || (let rb := revealBeforeAll T R bc mc; rb.2.2 == sum && rb.1 == left)
    -- the two-sided protocol function of theorem `reveal_both`
    let stepsB : List Bool := steps.toList.filterMap fun ch => if ch == 'B' then some true else if ch == 'A' then some false else none
    let okT := (let rt := revealBoth T R bc mc ac stepsB; rt.2.2 == sum && rt.1 == left)
    tag ++ ": " ++ ratStr full ++ " " ++ ratStr bs ++ " " ++ ratStr ms ++ " " ++ ratStr as_ ++ " " ++ ratStr sum ++ " ; " ++
      chartStr L { left := left, right := right } ++ " ; " ++ " | ".intercalate recs ++
      (if okA && okB && okT then "" else " | MODEL-TRACE-MISMATCH")
  let specAll := specSeq L.arpa [] ws
  let parts := specSeq L.arpa [] before + specSeq L.arpa [] between + specSeq L.arpa [] after
  let ts := termsSeq L.arpa [] ws ++ termsSeq L.arpa [] before ++ termsSeq L.arpa [] between ++ termsSeq L.arpa [] after
  "O: " ++ ratStr (specAll - parts) ++ " " ++ toString ts.length ++ " " ++ ratStr ((ts.map Rat.abs).sum + 2 * magSeq L.arpa [] ws) ++ " ## " ++
    " ## ".intercalate segs

def opSubsume (L : Loaded) (a : Nat) (wsS : List String) : String :=
  let ws := wsS.map L.idx
  let first := ws.take a
  let second := ws.drop a
  let segs := L.rests.map fun (tag, T, R) =>
    let (fullC, full) := scoreFragment T R ws
    let (fc, fs) := scoreFragment T R first
    let (sc, ss) := scoreFragment T R second
    let (adj, l, r) := subsume T R fc.left fc.right sc.left sc.right 0
    tag ++ ": " ++ ratStr full ++ " " ++ ratStr fs ++ " " ++ ratStr ss ++ " " ++ ratStr adj ++ " ; " ++
      chartStr L { left := l, right := r } ++ " ; " ++ chartStr L fullC
  let ts := termsSeq L.arpa [] ws ++ termsSeq L.arpa [] first ++ termsSeq L.arpa [] second
  "O: " ++ ratStr (specSeq L.arpa [] ws - specSeq L.arpa [] first - specSeq L.arpa [] second) ++ " " ++ toString ts.length ++ " " ++
    ratStr ((ts.map Rat.abs).sum + 2 * magSeq L.arpa [] ws) ++ " ## " ++ " ## ".intercalate segs

partial def mainLoop (maxOrder : Nat) (h : IO.FS.Stream) (L : Option Loaded) : IO Unit := do
  let line ← h.getLine
  if line.isEmpty then return ()
  let withModel (f : Loaded → String) : IO Unit := do
    match L with
    | some L' => IO.println (f L')
    | none => IO.println "no-model"
  match words line with
  | "arpa" :: path :: opts =>
    let lower := (opts.filterMap fun kv => if kv.startsWith "lower=" then some ((kv.drop 6).toString.splitOn ",") else none).head?.getD []
    let quirk := opts.contains "quirk=1"
    match ← load maxOrder path lower quirk with
    | .ok (L', info) => IO.println info; mainLoop maxOrder h (some L')
    | .error e => IO.println ("arpa error " ++ e); mainLoop maxOrder h none
  | "d" :: start :: toks => withModel (fun L' => opDeriv L' start toks); mainLoop maxOrder h L
  | "D" :: start :: toks => withModel (fun L' => opDeriv L' start toks); mainLoop maxOrder h L
  | "x" :: rest =>
    let us := rest.takeWhile (· != "|")
    let cs := (rest.dropWhile (· != "|")).drop 1
    withModel (fun L' => opExtend L' us cs); mainLoop maxOrder h L
  | "p" :: a :: b :: steps :: ws =>
    withModel (fun L' => opPartial L' a.toNat! b.toNat! steps ws); mainLoop maxOrder h L
  | "s" :: a :: ws => withModel (fun L' => opSubsume L' a.toNat! ws); mainLoop maxOrder h L
  | _ => IO.println "bad-op"; mainLoop maxOrder h L

def main (args : List String) : IO Unit := do
  let maxOrder := (args.head? >>= String.toNat?).getD 6
  let stdin ← IO.getStdin
  mainLoop maxOrder stdin none
