import Std
import Model.Proto
import Model.Arpa
import Model.Table
import Model.State
import Model.Score
import Model.ProbingLM
import Model.ProbingBuild
/-! Driver for stream `lm-query` (C01/C02/C03): parses THE SAME ARPA BYTES the harness loads and prints,
per query word, the exact L0 spec score plus the L1 algorithm's results (FullScore from the running
state, FullScoreForgotState with the whole history, GetState of the new history).
Ops:  `arpa <path>` · `q B|N w1 w2 …` · `f w | c1 c2 …` (explicit reversed context) -/
open KV KV.Proto KV.Arpa KV.Table KV.State KV.Score

structure Loaded where
  arpa : Arpa
  vocabArr : Array String
  vocabIdx : Std.HashMap String Nat
  T : Table
  S : Search (List Word)
  Sq : Search (List Word)     -- with the probing unigram sign-bit quirk
  pb : Except KV.ProbingBuild.BErr KV.ProbingBuild.St      -- ProbingModel as built by the model of the builder
  pbRest : Except KV.ProbingBuild.BErr KV.ProbingBuild.St  -- RestProbingModel (REST_MAX)

def ratStr (q : Rat) : String := toString q.num ++ "/" ++ toString q.den

def joinOr (xs : List String) : String := if xs.isEmpty then "-" else ",".intercalate xs

def Loaded.wordStr (L : Loaded) (w : Word) : String := L.vocabArr.getD w "?"
def Loaded.idx (L : Loaded) (w : String) : Word :=
  if w == "<unk>" || w == "<UNK>" then 0 else (L.vocabIdx.get? w).getD 0

def stateStr (L : Loaded) (s : State) : String :=
  toString s.length ++ " " ++ joinOr ((s.words.take s.length).map L.wordStr) ++ " " ++
    joinOr ((s.backoff.take s.length).map ratStr)

def retStr (L : Loaded) (r : FullScoreReturn (List Word)) (o : State) : String :=
  ratStr r.prob ++ " " ++ toString r.ngramLength ++ " " ++ (if r.independentLeft then "1" else "0") ++ " " ++ stateStr L o

/-- memoised table: identical to `build a` as a function (hits come from `build a` itself, misses fall
back to it) -/
def memoTable (a : Arpa) : Table × Nat × Bool :=
  let T0 := build a
  let ks := keys a
  let hm : Std.HashMap (List Word) TEntry := ks.foldl (fun m g => match T0.lookup g with
    | some t => m.insert g t
    | none => m) {}
  let blanks := hm.fold (fun n _ t => if t.blank then n + 1 else n) 0
  let proper := hm.fold (fun ok _ t => ok && decide (t.prob ≤ 0)) true
  ({ order := a.order, lookup := fun g => match hm.get? g with
      | some t => some t
      | none => T0.lookup g }, blanks, proper)

/-- run-time check of the injectivity hypothesis of `probing_refines`: the chained 64-bit hashes
(`CombineWordHash` over the probing word ids) of all table keys of each order ≥ 2 are pairwise distinct and
different from the invalid key 0 -/
def hashInjective (a : Arpa) : Bool :=
  let ks := (keys a).filter (fun g => g.length ≥ 2)
  let hs := ks.map fun g => (g.length, KV.ProbingLM.hashOf KV.ProbingLM.combineReal g)
  let set : Std.HashSet (Nat × Nat) := hs.foldl (fun m x => m.insert x) {}
  set.size == hs.length && hs.all (fun x => x.2 != 0)

/-- run-time instance of `probing_build_represents`: every key of `Table.build a` is found in the model-built probing
structure with payload `toFound` of the table entry (prob, back-off, both marks), via the chained hash -/
def representsCheck (a : Arpa) (T : Table) (st : KV.ProbingBuild.St) : Bool :=
  (keys a).all fun g =>
    match T.lookup g with
    | none => true
    | some t =>
      let want := toFound t
      match g with
      | [] => true
      | [w] => KV.ProbingBuild.wFound false (st.uni.getD w default) == want
      | _ =>
        let key := KV.ProbingLM.hashOf KV.ProbingLM.combineReal g
        if g.length == a.order then
          match KV.Probing.find id st.longest.t key with
          | some (some i) => -(st.longest.pay.getD i default).mag == t.prob
          | _ => false
        else
          let o := st.mid.getD (g.length - 2) default
          match KV.Probing.find id o.t key with
          | some (some i) => KV.ProbingBuild.wFound false (o.pay.getD i default) == want
          | _ => false

def load (maxOrder : Nat) (path : String) (buckets : List Nat) : IO (Except String (Loaded × String)) := do
  let bytes ← IO.FS.readBinFile path
  match parse maxOrder (-100) bytes.toList with
  | .error e => return .error e.name
  | .ok p =>
    let a := p.arpa
    let (T, blanks, proper) := memoTable a
    let vs := p.vocab.map fun b => (String.fromUTF8? (ByteArray.mk b.toArray)).getD "?"
    let idx : Std.HashMap String Nat := (vs.zipIdx).foldl (fun m (s, i) => if m.contains s then m else m.insert s i) {}
    let pb := if buckets.isEmpty then .error .diverge else KV.ProbingBuild.build KV.ProbingLM.combineReal false a vs.length buckets
    let pbR := if buckets.isEmpty then .error .diverge else KV.ProbingBuild.build KV.ProbingLM.combineReal true a vs.length buckets
    let L : Loaded := { arpa := a, vocabArr := vs.toArray, vocabIdx := idx, T := T, S := tableSearch T, Sq := tableSearch (withSignQuirk a T),
                        pb := pb, pbRest := pbR }
    let b2s (b : Bool) := if b then "1" else "0"
    let info := "arpa ok order=" ++ toString a.order ++ " entries=" ++ toString a.entries.length ++
      " blanks=" ++ toString blanks ++ " closed=" ++ b2s a.suffixClosed ++ " ctx=" ++ b2s a.contextsPresent ++
      " real=" ++ joinOr ((List.range a.order).map fun n => toString (a.entries.filter fun p => p.1.length == n + 1).length) ++
      " blank=" ++ joinOr ((List.range a.order).map fun n => toString ((keys a).filter fun g => g.length == n + 1 && !a.isReal g).length) ++
      " nzbo=" ++ joinOr ((List.range a.order).map fun n => toString (a.entries.filter fun p => p.1.length == n + 1 && p.2.backoff != 0).length) ++
      " hashinj=" ++ b2s (hashInjective a) ++
      " pbuild=" ++ (match pb with | .ok _ => "ok" | .error e => e.name) ++
      " pbuildrest=" ++ (match pbR with | .ok _ => "ok" | .error e => e.name) ++
      " prep=" ++ (match pb with | .ok st => b2s (representsCheck a T st) | .error _ => "-") ++
      " proper=" ++ b2s proper ++ " distinct=" ++ b2s a.keysDistinct ++ " unk=" ++ b2s (!a.unkHallucinated)
    return .ok (L, info)

/-- one query walk -/
def walk (L : Loaded) (start : String) (ws : List String) : String :=
  let bos := L.idx "<s>"
  let s0 : State := if start == "B" then beginSentenceState L.S bos else nullContextState
  let h0 : List Word := if start == "B" then [bos] else []
  let rec go (ws : List String) (s : State) (h : List Word) (acc : List String) : List String :=
    match ws with
    | [] => acc.reverse
    | w :: rest =>
      let id := L.idx w
      let spec := score L.arpa h id
      let (r, o) := fullScore L.S s id
      let (rg, og) := fullScoreForgotState L.S h id
      let gs := getState L.S (id :: h)
      let rec_ := w ++ " " ++ ratStr spec ++ " " ++ retStr L r o ++ " " ++ retStr L rg og ++ " " ++ stateStr L gs ++
        " " ++ toString (longestMatch L.arpa h id) ++ " " ++ toString (terms L.arpa h id).length ++ " " ++
        ratStr (((terms L.arpa h id).map Rat.abs).sum) ++ " " ++
        (if independentLeftSpec L.arpa (s.words.take s.length) id then "1" else "0") ++ " " ++
        (if independentLeftSpec L.arpa h id then "1" else "0") ++ " " ++
        (if (fullScore L.Sq s id).1.independentLeft then "1" else "0") ++ " " ++
        (if (fullScoreForgotState L.Sq h id).1.independentLeft then "1" else "0")
      go rest o (id :: h) (rec_ :: acc)
  " | ".intercalate (go ws s0 h0 [])

/-- enumerate one entry of the model-built probing structure (reversed n-gram `g`) through the same lookups as the harness -/
def enumEntry (order : Nat) (rest : Bool) (st : KV.ProbingBuild.St) (g : List Word) : String :=
  let showW (w : KV.ProbingBuild.W) (full : Bool) : String :=
    "1 " ++ (if w.neg then "1" else "0") ++ " " ++ ratStr w.mag ++
      (if full then " " ++ ratStr w.backoff ++ " " ++ (if w.xr then "1" else "0") ++ " " ++ ratStr (if rest then w.rest else -w.mag)
       else " - - -")
  match g with
  | [] => "0"
  | [w] => showW (st.uni.getD w default) true
  | _ =>
    let key := KV.ProbingLM.hashOf KV.ProbingLM.combineReal g
    -- every proper prefix must be found too (the harness walks down through LookupMiddle)
    let prefOk := (List.range (g.length - 1)).all fun i =>
      i == 0 || (match KV.Probing.find id ((st.mid.getD (i - 1) default).t) (KV.ProbingLM.hashOf KV.ProbingLM.combineReal (g.take (i + 1))) with
                 | some (some _) => true | _ => false)
    if !prefOk then "0"
    else if g.length == order then
      match KV.Probing.find id st.longest.t key with
      | some (some i) => showW (st.longest.pay.getD i default) false
      | _ => "0"
    else
      let o := st.mid.getD (g.length - 2) default
      match KV.Probing.find id o.t key with
      | some (some i) => showW (o.pay.getD i default) true
      | _ => "0"

partial def mainLoop (maxOrder : Nat) (h : IO.FS.Stream) (L : Option Loaded) : IO Unit := do
  let line ← h.getLine
  if line.isEmpty then return ()
  match words line with
  | "arpa" :: path :: opts =>
    let buckets : List Nat := match opts.find? (fun o => o.startsWith "buckets=") with
      | some o => ((o.drop 8).toString.splitOn ",").filterMap String.toNat?
      | none => []
    match ← load maxOrder path buckets with
    | .ok (L', info) => IO.println info; mainLoop maxOrder h (some L')
    | .error e => IO.println ("arpa error " ++ e); mainLoop maxOrder h none
  | "q" :: start :: ws =>
    match L with
    | some L' => IO.println (walk L' start ws); mainLoop maxOrder h L
    | none => IO.println "no-model"; mainLoop maxOrder h L
  | "e" :: ws =>
    match L with
    | some L' =>
      let g := (ws.map L'.idx).reverse
      let one (tag : String) (rest : Bool) (r : Except KV.ProbingBuild.BErr KV.ProbingBuild.St) : String :=
        match r with
        | .ok st => tag ++ ": " ++ enumEntry L'.arpa.order rest st g
        | .error e => tag ++ ": error " ++ e.name
      IO.println (one "P" false L'.pb ++ " ## " ++ one "R" true L'.pbRest); mainLoop maxOrder h L
    | none => IO.println "no-model"; mainLoop maxOrder h L
  | _ => IO.println "bad-op"; mainLoop maxOrder h L

def main (args : List String) : IO Unit := do
  let maxOrder := (args.head? >>= String.toNat?).getD 6
  let stdin ← IO.getStdin
  mainLoop maxOrder stdin none
