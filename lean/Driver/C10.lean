import Model.Proto
import Model.Arpa
import Model.LoaderArpa
import Model.LoaderBin
/-! Driver for stream `loader-fuzz` (C10): the verdict of the loader models on a file.

  `arpa <path>`
      → `arpa P=<ok|error:<class>> T=<ok|error:<class>> parse=<ok|error:<class>> maxcount=<n|-> finite=<0|1>
              strict=<ok|error:<class>> same=<0|1|-> ctx=<0|1|-> distinct=<0|1|->`
        P / T: `KV.LoaderArpa.load` for the probing / trie family (multiplier 1.5);
        strict: `KV.Arpa.parse` (the C01 grammar); same: both accept and produce the same `Arpa`.
  `bin <path> <P|R|T|A|Q|B> <enum 0|1> <need|-> <order> <multbits> <c1,c2,…>`
      → `bin <ok|arpa|error:<class>|ub|unknown-size> order=<o> type=<t>`
        `need` = header + Size of the pristine file; it is the model's `size` for exactly the pristine
        (order, multiplier, counts) and unknown for any other parameters.
-/
open KV KV.Proto

def b2s (b : Bool) : String := if b then "1" else "0"

def verdictStr {α} : Except KV.LoaderArpa.LErr α → String
  | .ok _ => "ok"
  | .error e => "error:" ++ e.name

/-- an exponent with five or more digits somewhere in the file: `KV.Arpa.parseNumber` (the C01 grammar, exact rationals)
would build 10^(that many) — outside what it was written for; the loader model decides such numbers by range. -/
def hugeExponent : List UInt8 → Bool
  | [] => false
  | c :: r =>
    if c == 101 || c == 69 then
      let r1 := match r with
        | 45 :: r' => r'
        | 43 :: r' => r'
        | _ => r
      if (r1.takeWhile KV.Arpa.isDigit).length ≥ 5 then true else hugeExponent r
    else hugeExponent r

def arpaLine (maxOrder : Nat) (bytes : List UInt8) : String :=
  let p := KV.LoaderArpa.parse maxOrder true bytes
  let vP := KV.LoaderArpa.load .probing maxOrder true KV.LoaderArpa.buckets15 bytes
  let vT := KV.LoaderArpa.load .trie maxOrder true KV.LoaderArpa.buckets15 bytes
  -- the counts the loader would size its tables with (reported even when parsing fails later)
  let maxcount : String :=
    match KV.Arpa.skipLines (fun l => KV.Arpa.allSpace l || l.take 1 == [35]) (bytes.length + 1) bytes with
    | some (l, s) =>
      if l != KV.Arpa.str "\\data\\" then "-" else
      match KV.LoaderArpa.readCounts (s.length + 1) s [] with
      | .ok (cs, _) => toString (cs.foldl max 0)
      | .error _ => "-"
    | none => "-"
  let strict : Except KV.Arpa.Err KV.Arpa.Parsed :=
    if hugeExponent bytes then .error .parse else KV.Arpa.parse maxOrder (-100) bytes
  let strictS := if hugeExponent bytes then "skipped" else match strict with
    | .ok _ => "ok"
    | .error e => "error:" ++ e.name
  -- float32 flushes |q| ≤ 2⁻¹⁵⁰ to zero: the C01 grammar keeps such a probability exact, the loader model stores 0
  let flushE (e : List KV.Arpa.Word × KV.Arpa.Entry) : List KV.Arpa.Word × KV.Arpa.Entry :=
    (e.1, { e.2 with prob := KV.Arpa.flushBackoff e.2.prob })
  let (finite, same, ctx, distinct) : String × String × String × String :=
    match p with
    | .error _ => ("-", "-", "-", "-")
    | .ok lp =>
      let a := lp.toArpa (-100)
      let sm := match strict with
        | .ok sp => b2s (lp.finite && sp.arpa.order == a.order && sp.arpa.entries.map flushE == a.entries.map flushE &&
                         sp.arpa.unkHallucinated == a.unkHallucinated && sp.vocab == lp.vocab)
        | .error _ => "-"
      -- distinct: no n-gram twice AND no vocabulary word twice (a repeated unigram word gets two ids; which one
      -- `Index` returns is the data structure's business, so the L0 oracle does not apply)
      (b2s lp.finite, sm, b2s a.contextsPresent, b2s (a.keysDistinct && lp.vocab.eraseDups.length == lp.vocab.length))
  "arpa P=" ++ verdictStr vP ++ " T=" ++ verdictStr vT ++ " parse=" ++ verdictStr p ++ " maxcount=" ++ maxcount ++
    " finite=" ++ finite ++ " strict=" ++ strictS ++ " same=" ++ same ++ " ctx=" ++ ctx ++ " distinct=" ++ distinct

open KV.LoaderBin KV.Gen.C10 in
def requestOf (cls : String) (enumerate : Bool) : Request :=
  match cls with
  | "P" => { modelType := typeP, searchVersion := versionP, enumerate := enumerate, usesMultiplier := true }
  | "R" => { modelType := typeR, searchVersion := versionR, enumerate := enumerate, usesMultiplier := true }
  | "T" => { modelType := typeT, searchVersion := versionT, enumerate := enumerate, usesMultiplier := false }
  | "Q" => { modelType := typeQ, searchVersion := versionQ, enumerate := enumerate, usesMultiplier := false }
  | "A" => { modelType := typeA, searchVersion := versionA, enumerate := enumerate, usesMultiplier := false }
  | _ => { modelType := typeB, searchVersion := versionB, enumerate := enumerate, usesMultiplier := false }

open KV.LoaderBin KV.Gen.C10 in
def binLine (file : List Nat) (cls : String) (enumerate : Bool) (need : Option Nat) (porder pmult : Nat) (pcounts : List Nat) : String :=
  let req := requestOf cls enumerate
  let size : Params → Option Nat := fun p =>
    match need with
    | none => none
    | some n => if p.fixed.order == porder && p.fixed.multBits == pmult && p.counts == pcounts then some (n - headerSize porder) else none
  let bound : Params → Nat := fun p =>
    let body := file.drop (headerSize p.fixed.order)
    if req.usesMultiplier then ofLe ((body.drop offVocabHeaderBound).take sizeofVocabBound)
    else ofLe (body.take 8) + 1
  let v := loadBinary req size bound file
  let s := match v with
    | .ok _ => "ok"
    | .arpa => "arpa"
    | .error .format => "error:format"
    | .error .eof => "error:eof"
    | .ub => "ub"
    | .unknownSize => "unknown-size"
  let info := match recognize file with
    | .header f => " order=" ++ toString f.order ++ " type=" ++ toString f.modelType
    | _ => ""
  "bin " ++ s ++ info

partial def mainLoop (maxOrder : Nat) (h : IO.FS.Stream) : IO Unit := do
  let line ← h.getLine
  if line.isEmpty then return ()
  match words line with
  | ["arpa", path] =>
    let bytes ← IO.FS.readBinFile path
    IO.println (arpaLine maxOrder bytes.toList)
    mainLoop maxOrder h
  | ["bin", path, cls, en, need, porder, pmult, pcounts] =>
    let bytes ← IO.FS.readBinFile path
    let file := bytes.toList.map (·.toNat)
    let cs := (pcounts.splitOn ",").filterMap String.toNat?
    IO.println (binLine file cls (en == "1") need.toNat? (porder.toNat?.getD 0) (pmult.toNat?.getD 0) cs)
    mainLoop maxOrder h
  | _ => IO.println "bad-op"; mainLoop maxOrder h

def main (args : List String) : IO Unit := do
  let maxOrder := (args.head? >>= String.toNat?).getD KV.Gen.C10.maxOrder
  let stdin ← IO.getStdin
  mainLoop maxOrder stdin
