import Model.Proto
import Model.Arpa
import Model.LoaderArpa
import Model.LoaderBin
/-! Driver for stream `loader-fuzz` (C10): the verdict of the loader models on a file.

  `arpa <path> [multiplier float32 bits, default 1.5] [building_memory, default 1 GB]`
      → `arpa P=<ok|error:<class>> T=<ok|error:<class>> parse=<ok|error:<class>> maxcount=<n|-> finite=<0|1>
              strict=<ok|error:<class>> same=<0|1|-> ctx=<0|1|-> distinct=<0|1|->`
        P / T: `KV.LoaderArpa.load` for the probing / trie family (multiplier 1.5);
        strict: `KV.Arpa.parse` (the C01 grammar); same: both accept and produce the same `Arpa`.
  `bin <path> <P|R|T|A|Q|B> <enum 0|1> <need|-> <order> <multbits> <c1,c2,…>`
      → `bin <ok|arpa|error:<class>|ub|unknown-size> order=<o> type=<t>`
        the model's `size` is `KV.LoaderBin.layoutSize` (C04's `modelSize` on the stored parameters); `need` = header +
        Size of the pristine file as observed by the generator is only used for a self check (` layout-mismatch=`
        is appended when the layout model disagrees with the real file it was written from).
-/
open KV KV.Proto

def b2s (b : Bool) : String := if b then "1" else "0"

def verdictStr {α} : Except KV.LoaderArpa.LErr α → String
  | .ok _ => "ok"
  | .error e => "error:" ++ e.name

/-- an exponent with five or more digits somewhere in the file: `KV.Arpa.parseNumber` (the C01 grammar, exact rationals)
would build 10^(that many) — outside what it was written for; the loader model decides such numbers by range. -/
def hugeExponent : List UInt8 → Bool
  | [] => false
  | c :: r =>
    if c == 101 || c == 69 then
      let r1 := match r with
        | 45 :: r' => r'
        | 43 :: r' => r'
        | _ => r
      if (r1.takeWhile KV.Arpa.isDigit).length ≥ 5 then true else hugeExponent r
    else hugeExponent r

def arpaLine (maxOrder : Nat) (bytes : List UInt8) (multBits : Nat) (mem : Nat) : String :=
  -- `config.probing_multiplier <= 1.0` ⇒ ConfigException; bucket counts by C04's float32 model of ProbingHashTable::Size
  let multOk := decide (multBits > KV.Gen.C10.bitsOneF) && decide (multBits < 2 ^ 31)
  let buckets : Nat → Nat := KV.Binary.probingBuckets multBits
  let p := KV.LoaderArpa.parse maxOrder multOk bytes
  let vP := KV.LoaderArpa.load .probing maxOrder multOk buckets bytes mem
  let vT := KV.LoaderArpa.load .trie maxOrder multOk buckets bytes mem
  let big := match p with
    | .ok lp => decide (lp.entries.length > 6000)
    | .error _ => decide (bytes.length > 400000)
  let batches := match p with
    | .ok lp => ",".intercalate ((KV.LoaderArpa.trieBatches lp mem).map toString)
    | .error _ => "-"
  -- the counts the loader would size its tables with (reported even when parsing fails later)
  let maxcount : String :=
    match KV.Arpa.skipLines (fun l => KV.Arpa.allSpace l || l.take 1 == [35]) (bytes.length + 1) bytes with
    | some (l, s) =>
      if l != KV.Arpa.str "\\data\\" then "-" else
      match KV.LoaderArpa.readCounts (s.length + 1) s [] with
      | .ok (cs, _) => toString (cs.foldl max 0)
      | .error _ => "-"
    | none => "-"
  -- the C01 grammar and the quadratic flags are only evaluated on files of ordinary size
  let strict : Except KV.Arpa.Err KV.Arpa.Parsed :=
    if hugeExponent bytes || big then .error .parse else KV.Arpa.parse maxOrder (-100) bytes
  let strictS := if hugeExponent bytes || big then "skipped" else match strict with
    | .ok _ => "ok"
    | .error e => "error:" ++ e.name
  -- float32 flushes |q| ≤ 2⁻¹⁵⁰ to zero: the C01 grammar keeps such a probability exact, the loader model stores 0
  let flushE (e : List KV.Arpa.Word × KV.Arpa.Entry) : List KV.Arpa.Word × KV.Arpa.Entry :=
    (e.1, { e.2 with prob := KV.Arpa.flushBackoff e.2.prob })
  let (finite, same, ctx, distinct) : String × String × String × String :=
    match p with
    | .error _ => ("-", "-", "-", "-")
    | .ok lp =>
      if big then (b2s lp.finite, "-", "-", "-") else
      let a := lp.toArpa (-100)
      let sm := match strict with
        | .ok sp => b2s (lp.finite && sp.arpa.order == a.order && sp.arpa.entries.map flushE == a.entries.map flushE &&
                         sp.arpa.unkHallucinated == a.unkHallucinated && sp.vocab == lp.vocab)
        | .error _ => "-"
      -- distinct: no n-gram twice AND no vocabulary word twice (a repeated unigram word gets two ids; which one
      -- `Index` returns is the data structure's business, so the L0 oracle does not apply)
      (b2s lp.finite, sm, b2s a.contextsPresent, b2s (a.keysDistinct && lp.vocab.eraseDups.length == lp.vocab.length))
  -- the file has no `<unk>` unigram but some n-gram of order ≥ 2 contains `<unk>` (known finding: the probing classes then
  -- overwrite the hallucinated unigram's "extends left" mark and never find those n-grams)
  let unkngram := match p with
    | .ok lp => b2s (!lp.sawUnk && lp.entries.any fun e => decide (e.1.length ≥ 2) && e.1.contains 0)
    | .error _ => "-"
  "arpa unkngram=" ++ unkngram ++ " P=" ++ verdictStr vP ++ " T=" ++ verdictStr vT ++ " parse=" ++ verdictStr p ++ " maxcount=" ++ maxcount ++
    " finite=" ++ finite ++ " strict=" ++ strictS ++ " same=" ++ same ++ " ctx=" ++ ctx ++ " distinct=" ++ distinct ++ " batches=" ++ batches

open KV.LoaderBin KV.Gen.C10 in
def requestOf (cls : String) (enumerate : Bool) : Request :=
  match cls with
  | "P" => { modelType := typeP, searchVersion := versionP, enumerate := enumerate, usesMultiplier := true }
  | "R" => { modelType := typeR, searchVersion := versionR, enumerate := enumerate, usesMultiplier := true }
  | "T" => { modelType := typeT, searchVersion := versionT, enumerate := enumerate, usesMultiplier := false }
  | "Q" => { modelType := typeQ, searchVersion := versionQ, enumerate := enumerate, usesMultiplier := false }
  | "A" => { modelType := typeA, searchVersion := versionA, enumerate := enumerate, usesMultiplier := false }
  | _ => { modelType := typeB, searchVersion := versionB, enumerate := enumerate, usesMultiplier := false }

open KV.LoaderBin KV.Gen.C10 in
def binLine (file : List Nat) (cls : String) (enumerate : Bool) (need : Option Nat) (porder pmult : Nat) (pcounts : List Nat) : String :=
  let req := requestOf cls enumerate
  let kind : KV.Binary.Kind := match cls with
    | "P" => .probing false
    | "R" => .probing true
    | "T" => .trie false false
    | "Q" => .trie true false
    | "A" => .trie false true
    | _ => .trie true true
  -- C04's layout arithmetic on the STORED parameters; cross-checked against the pristine file's size when the
  -- parameters are the pristine ones (`need` = header + Size observed by the generator)
  let size : Params → SizeR := fun p => layoutSize kind file p
  let selfCheck : String :=
    match need with
    | some n =>
      match size { fixed := { order := porder, multBits := pmult, modelType := req.modelType, hasVocab := true, searchVersion := req.searchVersion }, counts := pcounts } with
      | .known sz => if headerSize porder + sz == n then "" else " layout-mismatch=" ++ toString (headerSize porder + sz) ++ "/" ++ toString n
      | _ => ""
    | none => ""
  let bound : Params → Nat := fun p =>
    let body := file.drop (headerSize p.fixed.order)
    if req.usesMultiplier then ofLe ((body.drop offVocabHeaderBound).take sizeofVocabBound)
    else ofLe (body.take 8) + 1
  let v := loadBinary req size bound file
  let s := match v with
    | .ok _ => "ok"
    | .arpa => "arpa"
    | .error .format => "error:format"
    | .error .eof => "error:eof"
    | .ub => "ub"
    | .unknownSize => "unknown-size"
  -- sizeok=1: the stored parameters pass `LoadBinary`'s size check (and the vocabulary-header version check), i.e. the body
  -- WILL be mapped and used with the layout they imply, whatever the later `<unk>` check says
  let info := match recognize file with
    | .header f =>
      let sizeok := match readCounts f.order (file.drop (sizeofSanity + sizeofFixed)) with
        | some cs =>
          (match size { fixed := f, counts := cs } with
           | .known sz => decide (headerSize f.order + sz ≤ file.length) && !probingVocabVersionBad req.usesMultiplier file f.order
           | _ => false)
        | none => false
      " order=" ++ toString f.order ++ " type=" ++ toString f.modelType ++ " sizeok=" ++ b2s sizeok
    | _ => ""
  "bin " ++ s ++ info ++ selfCheck

partial def mainLoop (maxOrder : Nat) (h : IO.FS.Stream) : IO Unit := do
  let line ← h.getLine
  if line.isEmpty then return ()
  match words line with
  | "arpa" :: path :: rest =>
    let bytes ← IO.FS.readBinFile path
    let multBits := (rest.head? >>= String.toNat?).getD 1069547520        -- 1.5f
    let mem := ((rest.drop 1).head? >>= String.toNat?).getD 1073741824     -- config.building_memory default (1 GB)
    IO.println (arpaLine maxOrder bytes.toList multBits mem)
    mainLoop maxOrder h
  | ["bin", path, cls, en, need, porder, pmult, pcounts] =>
    let bytes ← IO.FS.readBinFile path
    let file := bytes.toList.map (·.toNat)
    let cs := (pcounts.splitOn ",").filterMap String.toNat?
    IO.println (binLine file cls (en == "1") need.toNat? (porder.toNat?.getD 0) (pmult.toNat?.getD 0) cs)
    mainLoop maxOrder h
  | _ => IO.println "bad-op"; mainLoop maxOrder h

def main (args : List String) : IO Unit := do
  let maxOrder := (args.head? >>= String.toNat?).getD KV.Gen.C10.maxOrder
  let stdin ← IO.getStdin
  mainLoop maxOrder stdin
