import Std
import Model.Proto
import Model.KN
import Model.KNSpec
import Model.KNTable
/-!
Driver for streams `lmplz` / `lmplz-config` (C05, C06, C07).

  drv_C05 <corpus> <order> key=value …

Reads the corpus bytes, tokenises like `CorpusCount`, numbers the words by first occurrence
(`GrowableVocab`), runs the model (`mode=stream`: transcription of the C++; `mode=spec`: the
set-based specification) and prints statistics, discounts and every n-gram with exact
rational probability / back-off.

  drv_C05 adjust [flushAdjusted=0/1] [keepSpecials=0/1]          (stream `adjust`)

reads one sorted n-gram table per stdin line (`order thr_1,…,thr_order excl|- ; w_1 … w_order count ; …`,
rows in natural word order) and prints what `KV.KN.adjust` + `KV.KN.discounts` (fallback
1/2, 1, 3/2) give, in the canonical form of `harness/c05_adjust.cc`:
`n|count|count_pruned|D1 D2 D3|w_w:adjusted:mark …` per order, orders joined by ` ; `,
discounts as exact `num/den`.
-/
open KV KV.Proto KV.KN

def hexOf (bs : List UInt8) : String := bytesToHex (bs.map (·.toNat))

structure Vocab where
  ids : Std.HashMap String Nat := {}
  words : Array String := #[]

def Vocab.init : Vocab :=
  let ws := ["<unk>", "<s>", "</s>"].map fun s => hexOf s.toUTF8.toList
  { ids := Std.HashMap.ofList (ws.zipIdx), words := ws.toArray }

def Vocab.find (v : Vocab) (w : String) : Vocab × Nat :=
  match v.ids[w]? with
  | some i => (v, i)
  | none => ({ ids := v.ids.insert w v.words.size, words := v.words.push w }, v.words.size)

def ratStr (q : Rat) : String := s!"{q.num}/{q.den}"

def parseRat (s : String) : Rat :=
  match s.splitOn "/" with
  | [a, b] => (a.toInt?.getD 0 : Rat) / (b.toNat?.getD 1 : Rat)
  | [a] => (a.toInt?.getD 0 : Rat)
  | _ => 0

def kv (args : List String) (k : String) (dflt : String) : String :=
  match args.find? (fun a => a.startsWith (k ++ "=")) with
  | some a => (a.drop (k.length + 1)).toString
  | none => dflt

def errStr : Err → String
  | .badDiscount n => s!"error bad-discount {n}"
  | .noMatchingSuffix n => s!"error no-matching-suffix {n}"
  | .backoffMismatch n => s!"error backoff-mismatch {n}"
  | .specialSymbol => "error special-symbol"

/-! ### stream `adjust`: `KV.KN.adjust` on an arbitrary sorted table -/

def parseNatList (s : String) : Option (List Nat) :=
  if s == "-" then some [] else (s.splitOn ",").mapM (·.toNat?)

def emitKey (e : Emit) : List Nat := e.gram.reverse ++ [e.count, if e.marked then 1 else 0]

def emitStr (e : Emit) : String :=
  "_".intercalate (e.gram.reverse.map toString) ++ s!":{e.count}:{if e.marked then 1 else 0}"

def parseRows (order : Nat) : List String → Option (List (Gram × Nat))
  | [] => some []
  | r :: rest =>
    match (words r).mapM (·.toNat?) with
    | none => none
    | some [] => parseRows order rest
    | some ws =>
      if ws.length == order + 1 then
        (parseRows order rest).map fun t => ((ws.take order).reverse, ws.getD order 0) :: t
      else none

def adjustLine (flushAdj keepSp : Bool) (line : String) : String :=
  match line.splitOn ";" with
  | [] => "error parse"
  | head :: rows =>
    match words head with
    | [o, t, x] =>
      match o.toNat?, parseNatList t, parseNatList x with
      | some order, some thrL, some exclL =>
        if order < 1 || order > 6 || thrL.length != order then "error parse" else
        match parseRows order rows with
        | none | some [] => "error parse"
        | some table =>
          let thrArr := thrL.toArray
          let cfg : Cfg := { order := order, thr := fun i => thrArr.getD i 0, excl := fun w => exclL.contains w,
                             flushAdjusted := flushAdj, keepSpecials := keepSp }
          let a := adjust cfg table
          match discounts (some ⟨1/2, 1, 3/2⟩) a.stats with
          | .error _ => "error bad-discount"
          | .ok ds =>
            let parts := (List.range order).map fun i =>
              let s := a.stats.getD i {}
              let d := (ds.getD i (⟨0, 0, 0⟩, false)).1
              let es := (a.streams.getD i []).mergeSort fun x y => decide (emitKey x ≤ emitKey y)
              s!"{i+1}|{s.count}|{s.countPruned}|{ratStr d.d1} {ratStr d.d2} {ratStr d.d3}|" ++
                " ".intercalate (es.map emitStr)
            " ; ".intercalate parts
      | _, _, _ => "error parse"
    | _ => "error parse"

def main (args : List String) : IO UInt32 := do
  match args with
  | "adjust" :: opts =>
    let fa := kv opts "flushAdjusted" "1" == "1"
    let ks := kv opts "keepSpecials" "1" == "1"
    runDriver () fun _ line => ((), adjustLine fa ks line)
    return 0
  | corpusPath :: orderS :: opts =>
    let order := orderS.toNat?.getD 1
    -- `--prune` tokens go through the model of `ParsePruning`
    let pruneToks := ((kv opts "prune" "").splitOn "|").filter (· ≠ "")
    let thr : Nat → Nat ← match parsePruning pruneToks order with
      | .ok f => pure f
      | .error .badThreshold => do IO.println "error bad-threshold"; return 0
      | .error .tooMany => do IO.println "error prune-count"; return 0
      | .error .decreasing => do IO.println "error prune-order"; return 0
    if kv opts "parseonly" "0" == "1" then
      IO.println ("ok " ++ " ".intercalate ((List.range order).map fun i => toString (thr i)))
      return 0
    let bytes ← IO.FS.readBinFile corpusPath
    let (lines, rest) := corpusLines bytes.toList
    let skip := kv opts "skip" "0" == "1"
    -- tokens → ids
    let mut v := Vocab.init
    let mut corpus : Array (List Nat) := #[]
    let mut sawSpecial := false
    for l in lines do
      let mut s : Array Nat := #[]
      for t in lineTokens l do
        let (v', i) := v.find (hexOf t)
        v := v'
        if i ≤ 2 then sawSpecial := true else s := s.push i
      corpus := corpus.push s.toList
    if !rest.isEmpty then
      IO.println "error unterminated-last-line"
      return 0
    if sawSpecial && !skip then
      IO.println (errStr .specialSymbol)
      return 0
    -- options
    let limitPath := kv opts "limit" ""
    let mut exclArr : Array Bool := #[]
    if limitPath != "" then
      let lb ← IO.FS.readBinFile limitPath
      exclArr := Array.replicate v.words.size true
      for t in lineTokens lb.toList do
        let i := (v.ids[hexOf t]?).getD 0
        exclArr := exclArr.set! i false
      exclArr := ((exclArr.set! 0 false).set! 1 false).set! 2 false
    let excl : Nat → Bool := fun w => exclArr.getD w false
    let fb := kv opts "fallback" "none"
    let fallback : Option Disc :=
      if fb == "none" then none else
        match fb.splitOn "," with
        | [a, b, c] => some ⟨parseRat a, parseRat b, parseRat c⟩
        | _ => none
    let cfg : Cfg := { order := order, thr := thr, excl := excl,
                       interpUni := kv opts "interp" "1" == "1",
                       flushAdjusted := kv opts "flushAdjusted" "1" == "1",
                       keepSpecials := kv opts "keepSpecials" "1" == "1" }
    let mode := kv opts "mode" "stream"
    let res := if mode == "spec" then Spec.estimate cfg (limitPath != "") fallback corpus.toList
               else estimate cfg (limitPath != "") fallback corpus.toList
    match res with
    | .error e => IO.println (errStr e)
    | .ok m =>
      IO.println "ok"
      IO.println s!"types {v.words.size}"
      if mode == "spec" then
        -- the decidable hypotheses of `normalised_table` (Proofs/KNTable.lean) on this very table
        let wf := if order ≤ 1 then Spec.tableWF1b cfg (countFull 1 corpus.toList)
                  else Spec.tableWFb cfg (countFull order corpus.toList)
        IO.println s!"tablewf {if wf then 1 else 0}"
      for (s, i) in m.stats.zipIdx do
        IO.println s!"stat {i+1} {s.n1} {s.n2} {s.n3} {s.n4} {s.count} {s.countPruned}"
      for ((d, f), i) in m.discs.zipIdx do
        IO.println s!"disc {i+1} {if f then 1 else 0} {ratStr d.d1} {ratStr d.d2} {ratStr d.d3}"
      IO.println s!"uniform {ratStr m.uniform}"
      let out ← IO.getStdout
      for (es, i) in m.orders.zipIdx do
        for e in es do
          let ws := " ".intercalate (e.gram.reverse.map fun w => v.words[w]!)
          out.putStrLn s!"gram {i+1} {ws} {ratStr e.p} {ratStr e.bo}"
    return 0
  | _ =>
    IO.eprintln "usage: drv_C05 <corpus> <order> key=value…"
    return 2
