import Model.Proto
import Model.IO
import Generated.C15
/-! Driver for stream `retry` (C15): executes the model loops on the same operation lines as
harness/c15.cc and prints the same canonical result line. -/
open KV KV.Proto KV.IO

def parseAns (t : String) : Option Ans :=
  match t.toList with
  | 'k' :: r => (String.ofList r).toNat?.map Ans.ok
  | ['i'] => some .eintr
  | 'e' :: r => (String.ofList r).toNat?.map Ans.err
  | ['z'] => some .eof
  | _ => none

def unhex (h : String) : Option Bytes := if h = "-" then some [] else hexToBytes h
def hex (b : Bytes) : String := if b.isEmpty then "-" else bytesToHex b

def resStr : Res → String
  | .ok => "ok"
  | .errno e => s!"errno:{e}"
  | .eofErr => "eof"
  | .fuel => "fuel"

def logStr (l : List Call) : String :=
  if l.isEmpty then "-" else ",".intercalate (l.map fun c => s!"{c.req}@{c.off}")

def emit (res : Res) (next : Nat) (moved : Bytes) (log : List Call) : String :=
  s!"{resStr res} next={next} moved={hex moved} log={logStr log}"

def emitOut (o : Out) : String := emit o.res o.next o.moved o.log

/-- reservation (index into the regenerated kBytesList: bool u16 i16 u32 i32 u64 i64 ptr float double) -/
def kBytesOf (kind : String) : Option Nat :=
  let l := KV.Gen.C15.kBytesList
  match kind with
  | "b" => l[0]?
  | "u16" => l[1]?
  | "i16" => l[2]?
  | "u32" => l[3]?
  | "i32" => l[4]?
  | "u64" => l[5]?
  | "i64" => l[6]?
  | _ => none

def parseSOp (t : String) : Option SOp :=
  match t.splitOn ":" with
  | ["f"] => some .flush
  | ["s", h] => (unhex h).map SOp.write
  | ["c", v] => v.toNat?.map fun b => SOp.inplace 1 [b]
  | ["b", v] => v.toNat?.map fun b => SOp.inplace 1 [48 + b]
  | [kind, v] => (kBytesOf kind).map fun k => SOp.inplace k (v.toList.map Char.toNat)
  | _ => none

def step (_ : Unit) (line : String) : Unit × String :=
  let parts := line.splitOn ";"
  let head := words (parts.head!)
  let tail := words ((parts.drop 1).headD "")
  match tail.mapM parseAns with
  | none => ((), "bad-op")
  | some answers =>
    let orc := scripted answers
    -- fuel: the script is finite and the OS is ideal afterwards, so (bytes + script length + 1) suffices
    let fuelFor (n : Nat) := n + answers.length + 2
    let r : Option String :=
      match head with
      | ["write", h] => do
        let d ← unhex h
        pure (emitOut (writeOrThrow orc (fuelFor d.length) 0 d))
      | ["pwrite", off, h] => do
        let d ← unhex h
        let off ← off.toNat?
        pure (emitOut (ersatzPWrite orc (fuelFor d.length) 0 d off))
      | ["read", amount, h] => do
        let src ← unhex h
        let amount ← amount.toNat?
        pure (emitOut (readOrThrow orc (fuelFor amount) 0 src amount))
      | ["readeof", amount, h] => do
        let src ← unhex h
        let amount ← amount.toNat?
        pure (emitOut (readOrEOF orc (fuelFor amount) 0 src amount))
      | ["partial", amount, h] => do
        let src ← unhex h
        let amount ← amount.toNat?
        pure (emitOut (partialRead orc (fuelFor amount) 0 src amount))
      | ["pread", size, off, h] => do
        let file ← unhex h
        let size ← size.toNat?
        let off ← off.toNat?
        pure (emitOut (ersatzPRead orc (fuelFor size) 0 (file.drop off) size off))
      | "stream" :: bufsize :: ops => do
        let bufsize ← bufsize.toNat?
        let ops ← ops.mapM parseSOp
        let total := (ops.map fun o => o.arg.length).foldl (· + ·) 0
        let r := streamRun orc (fuelFor (total + bufsize + 64)) (max bufsize KV.Gen.C15.kToStringMaxBytes) ops
        pure (emit r.res r.next r.sink r.log)
      | _ => none
    ((), r.getD "bad-op")

def main : IO Unit := runDriver () step
