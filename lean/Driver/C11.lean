import Model.FilterDrv
/-! Driver for stream `filter` (C11): see Model/FilterDrv.lean for the protocol. -/
def main : IO Unit := do
  KV.FilterDrv.mainLoop (← IO.getStdin)
