import Model.Proto
import Model.FilePiece
import Model.Tokenize
/-! Driver for stream `filepiece` (C18).  For every operation line it prints
`<window model result> @<offset> | <spec result> @<offset>`: the left half is the faithful
window model (`KV.FilePiece.runOp`) run with the same backend, `min_buffer` and read sizes as
harness/c18.cc (the shim's sizes are reproduced by `shimMix`); the right half is the spec on
the whole remaining byte string (`KV.FilePiece.specOp`).

The concrete number grammar (what `strtol`, `strtoul` and double-conversion's
`StringToDouble/StringToFloat` accept with kenlm's flags, and kenlm's NaN test in
`ParseNumber`) lives here: it is the trusted third-party parameter of the theorems. -/
open KV KV.Proto KV.FilePiece

/-! ### number grammar -/
def isDigit (b : Byte) : Bool := 48 ≤ b && b ≤ 57
def digitsVal (ds : List Byte) : Nat := ds.foldl (fun a d => a * 10 + (d - 48)) 0

def splitSign (s : List Byte) : Bool × Bool × List Byte :=   -- (hasSign, negative, rest)
  match s with
  | 43 :: r => (true, false, r)
  | 45 :: r => (true, true, r)
  | _ => (false, false, s)

/-- `strtol(str, &end, 10)` + kenlm's `errno || end == str` test -/
def gLong (s : List Byte) : Option (Int × Nat) :=
  let s0 := s.dropWhile isSpace
  let (hs, neg, r) := splitSign s0
  let ds := r.takeWhile isDigit
  if ds.isEmpty then none else
  let m := digitsVal ds
  let cnt := (s.length - s0.length) + (if hs then 1 else 0) + ds.length
  if neg then (if m ≤ 2^63 then some (-(m : Int), cnt) else none)
  else (if m < 2^63 then some ((m : Int), cnt) else none)

/-- `strtoul`: a minus sign negates modulo 2^64; only the magnitude can overflow -/
def gULong (s : List Byte) : Option (Int × Nat) :=
  let s0 := s.dropWhile isSpace
  let (hs, neg, r) := splitSign s0
  let ds := r.takeWhile isDigit
  if ds.isEmpty then none else
  let m := digitsVal ds
  let cnt := (s.length - s0.length) + (if hs then 1 else 0) + ds.length
  if m ≥ 2^64 then none
  else some (((if neg then (2^64 - m) % 2^64 else m : Nat) : Int), cnt)

inductive Conv
  | junk                                   -- junk_string_value_ / empty_string_value_ = NaN, count 0
  | nan (cnt : Nat)
  | inf (neg : Bool) (cnt : Nat)
  | val (neg : Bool) (m : Nat) (e : Int) (cnt : Nat)

def startsWith (l p : List Byte) : Bool := l.take p.length == p

/-- `StringToDoubleConverter::StringToIeee` with ALLOW_TRAILING_JUNK | ALLOW_LEADING_SPACES,
"inf", "NaN" (util/double-conversion/string-to-double.cc:419ff); the input starts at a non-space. -/
def conv (s : List Byte) : Conv :=
  if s.isEmpty then .junk else
  let n := s.length
  let (hs, neg, c1) := splitSign s
  match c1 with
  | [] => .junk
  | c :: _ =>
    if hs && isSpace c then .junk
    else if c == 105 then (if startsWith c1 [105, 110, 102] then .inf neg (n - (c1.length - 3)) else .junk)
    else if c == 78 then (if startsWith c1 [78, 97, 78] then .nan (n - (c1.length - 3)) else .junk)
    else
      let zs := c1.takeWhile (· == 48)
      let c2 := c1.dropWhile (· == 48)
      let ip := c2.takeWhile isDigit
      let c3 := c2.dropWhile isDigit
      let (fr, c4) : List Byte × List Byte := match c3 with
        | 46 :: r => (r.takeWhile isDigit, r.dropWhile isDigit)
        | _ => ([], c3)
      -- "." alone (no digit anywhere) is junk; "5." and "0." are numbers and consume the point
      if zs.isEmpty && ip.isEmpty && fr.isEmpty then .junk
      else
        let (ex, c5) : Int × List Byte := match c4 with
          | e :: r =>
            if e == 101 || e == 69 then
              let (_, eneg, r2) := splitSign r
              let ds := r2.takeWhile isDigit
              if ds.isEmpty then (0, c4)
              else
                let num := min (digitsVal ds) 1073741823
                ((if eneg then -(num : Int) else (num : Int)), r2.dropWhile isDigit)
            else (0, c4)
          | [] => (0, c4)
        .val neg (digitsVal (ip ++ fr)) (ex - (fr.length : Int)) (n - c5.length)

def numDigits (m : Nat) : Nat := (toString m).length

def toDoubleBits (neg : Bool) (m : Nat) (e : Int) : Nat :=
  let mag : Float :=
    if m == 0 then 0.0
    else if e + numDigits m > 400 then (1.0 : Float) / 0.0
    else if e + numDigits m < -400 then 0.0
    else if e ≥ 0 then Float.ofScientific m false e.toNat else Float.ofScientific m true (-e).toNat
  ((if neg then -mag else mag).toBits).toNat

def toFloatBits (neg : Bool) (m : Nat) (e : Int) : Nat :=
  let mag : Float32 :=
    if m == 0 then 0.0
    else if e + numDigits m > 400 then (1.0 : Float32) / 0.0
    else if e + numDigits m < -400 then 0.0
    else if e ≥ 0 then Float32.ofScientific m false e.toNat else Float32.ofScientific m true (-e).toNat
  ((if neg then -mag else mag).toBits).toNat

/-- value used for NaN in the protocol (`V nan`) -/
def nanCode : Int := -1

/-- kenlm's `ParseNumber(StringPiece str, float/double&)`: the converter, then
`isnan(out) && str != "NaN" && str != "nan"` ⇒ ParseNumberException. -/
def gFloat (dbl : Bool) (s : List Byte) : Option (Int × Nat) :=
  let ok := s == [78, 97, 78] || s == [110, 97, 110]
  match conv s with
  | .junk => if ok then some (nanCode, 0) else none
  | .nan cnt => if ok then some (nanCode, cnt) else none
  | .inf neg cnt => some (((if dbl then toDoubleBits neg 1 1000 else toFloatBits neg 1 1000 : Nat) : Int), cnt)
  | .val neg m e cnt => some (((if dbl then toDoubleBits neg m e else toFloatBits neg m e : Nat) : Int), cnt)

def grammar : NumKind → Grammar
  | .float => gFloat false
  | .double => gFloat true
  | .long => gLong
  | .ulong => gULong

/-! ### the shim's read sizes -/
def m64 : Nat := 2^64
def shimMix (seed pos : Nat) : Nat :=
  let x := (pos * 6364136223846793005 + seed * 1442695040888963407 + 1013904223) % m64
  let x := x ^^^ (x >>> 29)
  let x := (x * 0xBF58476D1CE4E5B9) % m64
  x ^^^ (x >>> 32)

/-- desired size of the read issued when `p` plain bytes have been delivered.  `hdr`: the
descriptor goes through `ReadFactory`, which reads `kMagicSize` bytes first and hands them
out separately (`UncompressedWithHeader`). -/
def mkOrc (hdr : Bool) (mode seed span : Nat) (p : Nat) : Nat :=
  if hdr && p < 6 then 6 - p
  else match mode with
    | 0 => m64
    | 1 => 1
    | 2 => span
    | _ => 1 + shimMix seed p % span

/-! ### protocol -/
def fnv (bs : List Byte) : Nat := bs.foldl (fun h b => ((h ^^^ b) * 1099511628211) % m64) 1469598103934665603

def hex16 (n : Nat) : String := bytesToHex ((natToLe n 8).reverse)

def showBytes (bs : List Byte) : String :=
  let n := bs.length
  if n ≤ 48 then s!"B {n}:{bytesToHex bs}"
  else s!"B {n}:{bytesToHex (bs.take 16)}..{bytesToHex (bs.drop (n - 16))}#{hex16 (fnv bs)}"

def showRes : Res → String
  | .eof => "EOF"
  | .bytes b => showBytes b
  | .noWord => "N"
  | .char c => s!"C {bytesToHex [c]}"
  | .num v => if v == nanCode then "V nan" else s!"V {v}"
  | .parseErr t => if t.isEmpty then "PE e" else "PE n"
  | .skipped => "SK"
  | .fuel => "FUEL"

def parseSet (s : String) : Option (Byte → Bool) :=
  if s == "sp" then some isSpace
  else if s.startsWith "set:" then
    match hexToBytes (s.drop 4).toString with
    | some bs => some (fun b => bs.contains b)
    | none => none
  else none

def parseOp (ws : List String) : Option Op :=
  match ws with
  | ["P"] => some .peek
  | ["G"] => some .get
  | ["S", s] => (parseSet s).map .skipSpaces
  | ["L", d, st] => match d.toNat? with | some d => some (.readLine d (st != "0")) | none => none
  | ["E", d, st] => match d.toNat? with | some d => some (.readLineOrEOF d (st != "0")) | none => none
  | ["D", s] => (parseSet s).map .readDelimited
  | ["W", s] => (parseSet s).map .readWordSameLine
  | ["F"] => some (.readNumber .float)
  | ["B"] => some (.readNumber .double)
  | ["I"] => some (.readNumber .long)
  | ["U"] => some (.readNumber .ulong)
  | _ => none

structure DSt where
  bytes : List Byte := []
  fixH : Bool := true
  fixI : Bool := true
  specOnly : Bool := false
  rest : List Byte := []
  env : Option Env := none
  st : Option St := none
  specOff : Nat := 0

/-
  data <hex>                                  plain (decompressed) bytes
  variant <new|old|H|I>                       which code the window model mirrors (H = only H repaired, ...)
  open <file|pipe|lazy> <min_buffer> <mode> <seed> <span>
-/
def step (s : DSt) (line : String) : DSt × String :=
  match words line with
  | ["data", hex] =>
    match hexToBytes hex with
    | some bs => ({ s with bytes := bs, env := none, st := none, specOff := 0 }, "ok")
    | none => (s, "bad-op")
  | ["data"] => ({ s with bytes := [], env := none, st := none, specOff := 0 }, "ok")
  | ["variant", v] =>
    match v with
    | "new" => ({ s with fixH := true, fixI := true, specOnly := false }, "ok")
    | "old" => ({ s with fixH := false, fixI := false, specOnly := false }, "ok")
    | "H" => ({ s with fixH := true, fixI := false, specOnly := false }, "ok")
    | "I" => ({ s with fixH := false, fixI := true, specOnly := false }, "ok")
    | "spec" => ({ s with specOnly := true }, "ok")
    | _ => (s, "bad-op")
  | ["open", backend, mb, mode, seed, span] =>
    match mb.toNat?, mode.toNat?, seed.toNat?, span.toNat? with
    | some mb, some mode, some seed, some span =>
      let be : Option (Backend × Bool) := match backend with
        | "file" => some (.file, false)
        | "pipe" => some (.pipe, true)
        | "lazy" => some (.lazy, false)
        | _ => none
      match be with
      | some (be, hdr) =>
        let env : Env := { cfg := { page := 4096, fixH := s.fixH, fixI := s.fixI }, bytes := s.bytes,
                           orc := mkOrc hdr mode seed span }
        if s.specOnly then ({ s with env := some env, st := none, specOff := 0, rest := s.bytes }, "ok @- | ok @0")
        else
        let st := init env mb be
        ({ s with env := some env, st := some st, specOff := 0, rest := s.bytes }, s!"ok @{st.offset} | ok @0")
      | none => (s, "bad-op")
    | _, _, _, _ => (s, "bad-op")
  | ["tok", set, skip] =>
    match parseSet set with
    | some d =>
      let toks := KV.Tokenize.tokens d (skip != "0") []
      (s, s!"T {toks.length} " ++ " ".intercalate (toks.map fun t => s!"{t.length}:{bytesToHex t}"))
    | none => (s, "bad-op")
  | ["tok", set, skip, hex] =>
    -- TokenIter<BoolCharacter, skip> over the given bytes
    match parseSet set, hexToBytes hex with
    | some d, some bs =>
      let toks := KV.Tokenize.tokens d (skip != "0") bs
      (s, s!"T {toks.length} " ++ " ".intercalate (toks.map fun t => s!"{t.length}:{bytesToHex t}"))
    | _, _ => (s, "bad-op")
  | ws =>
    match parseOp ws, s.env with
    | some op, some env =>
      let (sr, n) := specOp grammar op s.rest
      let s' := { s with specOff := s.specOff + n, rest := s.rest.drop n }
      match s.st with
      | some st =>
        let (r, st') := runOp env grammar op st
        ({ s' with st := some st' }, s!"{showRes r} @{st'.offset} | {showRes sr} @{s'.specOff}")
      | none => (s', s!"- @- | {showRes sr} @{s'.specOff}")
    | _, _ => (s, "bad-op")

def main : IO Unit := runDriver ({} : DSt) step
