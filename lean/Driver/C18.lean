import Model.Proto
import Model.FilePiece
import Model.Tokenize
/-! Driver for stream `filepiece` (C18).  For every operation line it prints
`<window model result> @<offset> | <spec result> @<offset>`: the left half is the faithful
window model (`KV.FilePiece.runOp`) run with the same backend, `min_buffer` and read sizes as
harness/c18.cc (the shim's sizes are reproduced by `shimMix`); the right half is the spec on
the whole remaining byte string (`KV.FilePiece.specOp`).

The concrete number grammar (`KV.FilePiece.grammar`: what `strtol`, `strtoul` and double-conversion's
`StringToDouble/StringToFloat` accept with kenlm's flags, and kenlm's NaN test in `ParseNumber`) is in
Model/FilePiece.lean; it is the trusted third-party parameter of the theorems. -/
open KV KV.Proto KV.FilePiece

/-! ### the shim's read sizes -/
def m64 : Nat := 2^64
def shimMix (seed pos : Nat) : Nat :=
  let x := (pos * 6364136223846793005 + seed * 1442695040888963407 + 1013904223) % m64
  let x := x ^^^ (x >>> 29)
  let x := (x * 0xBF58476D1CE4E5B9) % m64
  x ^^^ (x >>> 32)

/-- desired size of the read issued when `p` plain bytes have been delivered (the 6-byte header that
`ReadFactory` reads ahead is part of the model: `St.hdrLeft`). -/
def mkOrc (mode seed span : Nat) (p : Nat) : Nat :=
  match mode with
  | 0 => m64
  | 1 => 1
  | 2 => span
  | _ => 1 + shimMix seed p % span

/-! ### protocol -/
def fnv (bs : List Byte) : Nat := bs.foldl (fun h b => ((h ^^^ b) * 1099511628211) % m64) 1469598103934665603

def hex16 (n : Nat) : String := bytesToHex ((natToLe n 8).reverse)

def showBytes (bs : List Byte) : String :=
  let n := bs.length
  if n ≤ 48 then s!"B {n}:{bytesToHex bs}"
  else s!"B {n}:{bytesToHex (bs.take 16)}..{bytesToHex (bs.drop (n - 16))}#{hex16 (fnv bs)}"

def showRes : Res → String
  | .eof => "EOF"
  | .bytes b => showBytes b
  | .noWord => "N"
  | .char c => s!"C {bytesToHex [c]}"
  | .num v => if v == nanCode then "V nan" else s!"V {v}"
  | .parseErr t => if t.isEmpty then "PE e" else "PE n"
  | .skipped => "SK"
  | .fuel => "FUEL"

def parseSet (s : String) : Option (Byte → Bool) :=
  if s == "sp" then some isSpace
  else if s.startsWith "set:" then
    match hexToBytes (s.drop 4).toString with
    | some bs => some (fun b => bs.contains b)
    | none => none
  else none

def parseOp (ws : List String) : Option Op :=
  match ws with
  | ["P"] => some .peek
  | ["G"] => some .get
  | ["S", s] => (parseSet s).map .skipSpaces
  | ["L", d, st] => match d.toNat? with | some d => some (.readLine d (st != "0")) | none => none
  | ["E", d, st] => match d.toNat? with | some d => some (.readLineOrEOF d (st != "0")) | none => none
  | ["D", s] => (parseSet s).map .readDelimited
  | ["W", s] => (parseSet s).map .readWordSameLine
  | ["F"] => some (.readNumber .float)
  | ["B"] => some (.readNumber .double)
  | ["I"] => some (.readNumber .long)
  | ["U"] => some (.readNumber .ulong)
  | _ => none

structure DSt where
  bytes : List Byte := []
  fixH : Bool := true
  fixI : Bool := true
  fixF : Bool := true
  fixN : Bool := true
  specOnly : Bool := false
  rest : List Byte := []
  env : Option Env := none
  st : Option St := none
  specOff : Nat := 0

/-
  data <hex>                                  plain (decompressed) bytes
  variant <new|old|H|I>                       which code the window model mirrors (H = only H repaired, ...)
  open <file|pipe|lazy> <min_buffer> <mode> <seed> <span>
-/
def step (s : DSt) (line : String) : DSt × String :=
  match words line with
  | ["data", hex] =>
    match hexToBytes hex with
    | some bs => ({ s with bytes := bs, env := none, st := none, specOff := 0 }, "ok")
    | none => (s, "bad-op")
  | ["data"] => ({ s with bytes := [], env := none, st := none, specOff := 0 }, "ok")
  | ["variant", v] =>
    -- "new" = the repaired code, "old" = the code before the repairs, "spec" = do not run the window model; otherwise
    -- letters H I F N, upper case = that repair is in (e.g. "HiFN": everything but the peek/get repair; N = the NaN
    -- test of ParseNumber on the consumed characters; the spec always uses the repaired grammar)
    match v with
    | "new" => ({ s with fixH := true, fixI := true, fixF := true, fixN := true, specOnly := false }, "ok")
    | "old" => ({ s with fixH := false, fixI := false, fixF := false, fixN := false, specOnly := false }, "ok")
    | "spec" => ({ s with specOnly := true }, "ok")
    | _ =>
      match v.toList with
      | [h, i, f] => ({ s with fixH := h == 'H', fixI := i == 'I', fixF := f == 'F', fixN := true, specOnly := false }, "ok")
      | [h, i, f, n] => ({ s with fixH := h == 'H', fixI := i == 'I', fixF := f == 'F', fixN := n == 'N', specOnly := false }, "ok")
      | _ => (s, "bad-op")
  | "open" :: backend :: mb :: mode :: seed :: span :: more =>
    match mb.toNat?, mode.toNat?, seed.toNat?, span.toNat? with
    | some mb, some mode, some seed, some span =>
      -- optional: file offset from which every mmap fails (-1 / absent: never)
      let mmFrom : Option Nat := match more with | [t] => t.toNat? | _ => none
      let be : Option Backend := match backend with
        | "file" => some .file
        | "pipe" => some .pipe
        | "lazy" => some .lazy
        | _ => none
      match be with
      | some be =>
        let env : Env := { cfg := { page := 4096, fixH := s.fixH, fixI := s.fixI, fixF := s.fixF }, bytes := s.bytes,
                           orc := mkOrc mode seed span,
                           mmapFail := fun mo => match mmFrom with | some t => decide (t ≤ mo) | none => false }
        if s.specOnly then ({ s with env := some env, st := none, specOff := 0, rest := s.bytes }, "ok @- | ok @0")
        else
        let st := init env mb be
        ({ s with env := some env, st := some st, specOff := 0, rest := s.bytes }, s!"ok @{st.offset} | ok @0")
      | none => (s, "bad-op")
    | _, _, _, _ => (s, "bad-op")
  | ["rc", amount, mode, seed, span] =>
    -- util::ReadCompressed::Read(buf, amount) until 0 over *plain* (uncompressed) data: the sizes returned
    match amount.toNat?, mode.toNat?, seed.toNat?, span.toNat? with
    | some amount, some mode, some seed, some span =>
      let total := s.bytes.length
      let C : Codecs := { member := fun _ => none, magic := fun _ => false }
      let os : Nat → Nat := fun remaining => mkOrc mode seed span (total - remaining)
      let rec go (fuel : Nat) (st : RcSt) (acc : List Nat) : List Nat :=
        match fuel with
        | 0 => acc.reverse
        | f + 1 =>
          match rcRead2 C os (fun _ _ _ _ => (0, 0)) 8 st amount with
          | .ok (out, st') => if out.isEmpty then (0 :: acc).reverse else go f st' (out.length :: acc)
          | .error _ => (999999999 :: acc).reverse
      match rcOpen C s.bytes with
      | .ok st =>
        let sizes := go (total + 2) st []
        (s, s!"sizes={sizes.length}:" ++ ",".intercalate ((sizes.take 16).map toString))
      | .error _ => (s, "rc-open-error")
    | _, _, _, _ => (s, "bad-op")
  | ["tok", set, skip] =>
    match parseSet set with
    | some d =>
      let toks := KV.Tokenize.tokens d (skip != "0") []
      (s, s!"T {toks.length} " ++ " ".intercalate (toks.map fun t => s!"{t.length}:{bytesToHex t}"))
    | none => (s, "bad-op")
  | ["tok", set, skip, hex] =>
    -- TokenIter<BoolCharacter, skip> over the given bytes
    match parseSet set, hexToBytes hex with
    | some d, some bs =>
      let toks := KV.Tokenize.tokens d (skip != "0") bs
      (s, s!"T {toks.length} " ++ " ".intercalate (toks.map fun t => s!"{t.length}:{bytesToHex t}"))
    | _, _ => (s, "bad-op")
  | ws =>
    match parseOp ws, s.env with
    | some op, some env =>
      let (sr, n) := specOp grammar op s.rest
      let s' := { s with specOff := s.specOff + n, rest := s.rest.drop n }
      match s.st with
      | some st =>
        let (r, st') := runOp env (if s.fixN then grammar else grammarOld) op st
        ({ s' with st := some st' }, s!"{showRes r} @{st'.offset} | {showRes sr} @{s'.specOff}")
      | none => (s', s!"- @- | {showRes sr} @{s'.specOff}")
    | _, _ => (s, "bad-op")

def main : IO Unit := runDriver ({} : DSt) step
