import Model.Proto
import Model.Format
import Generated.C19
/-! Driver for stream `format` (C19): executes the model of number formatting / reading on the
operation lines that checks/C19.py derives from the output of harness/c19.cc.
The converter configuration is the regenerated one (Generated/C19.lean). -/
open KV KV.Proto KV.Format

def conv : Conv :=
  Conv.ofRaw KV.Gen.C19.convFlags KV.Gen.C19.infSymbol KV.Gen.C19.nanSymbol KV.Gen.C19.expChar
    KV.Gen.C19.decimalLow KV.Gen.C19.decimalHigh KV.Gen.C19.minExponentWidth

def parseDigits (s : String) : Option (List Nat) :=
  s.toList.mapM fun c => if c.isDigit then some (c.toNat - '0'.toNat) else none

def parseBool (s : String) : Option Bool :=
  if s == "1" then some true else if s == "0" then some false else none

def hexText (s : String) : Option (List Char) :=
  if s == "-" then some [] else (hexToBytes s).map fun bs => bs.map Char.ofNat

def b01 (b : Bool) : String := if b then "1" else "0"

def step (_ : Unit) (line : String) : Unit × String :=
  let out :=
    match words line with
    | ["sf", neg, digits, point] =>
      match parseBool neg, parseDigits digits, point.toInt? with
      | some n, some ds, some p => String.ofList (fmtValue conv (.fin n ds p))
      | _, _, _ => "bad-op"
    | ["sv", "inf", neg] =>
      match parseBool neg with
      | some n => String.ofList (fmtValue conv (.inf n))
      | none => "bad-op"
    | ["sv", "nan"] => String.ofList (fmtValue conv .nan)
    | ["len", neg, isZero, n, point] =>
      match parseBool neg, parseBool isZero, n.toNat?, point.toInt? with
      | some ng, some z, some n, some p => toString (shortestLen conv ng z n p)
      | _, _, _, _ => "bad-op"
    | ["u64", n] =>
      match n.toNat? with
      | some n => String.ofList (fmtNat n) ++ " " ++ toString (footprintU64 KV.Gen.C19.sse2Path n)
      | none => "bad-op"
    | ["i64", n] =>
      match n.toInt? with
      | some i => String.ofList (fmtInt i) ++ " " ++ toString (footprintI64 KV.Gen.C19.sse2Path i)
      | none => "bad-op"
    | ["u32", n] =>
      match n.toNat? with
      | some n => String.ofList (fmtNat n) ++ " " ++ toString (fmtNat n).length
      | none => "bad-op"
    | ["i32", n] =>
      match n.toInt? with
      | some i => String.ofList (fmtInt i) ++ " " ++ toString (fmtInt i).length
      | none => "bad-op"
    | ["p", n] =>
      match n.toNat? with
      | some n => String.ofList (fmtPtr n)
      | none => "bad-op"
    | ["rul", hex] =>
      match hexText hex with
      | some s =>
        match readULong s with
        | .ok (v, rest) => "ok " ++ toString v ++ " " ++ toString (s.length - rest.length)
        | .error _ => "err parse"
      | none => "bad-op"
    | ["rl", hex] =>
      match hexText hex with
      | some s =>
        match readLong s with
        | .ok (v, rest) => "ok " ++ toString v ++ " " ++ toString (s.length - rest.length)
        | .error _ => "err parse"
      | none => "bad-op"
    | ["rd", hex] =>
      match hexText hex with
      | some s =>
        match filePieceReadF conv.infSym conv.nanSym s with
        | .err => "err parse"
        | .nan c => "nan " ++ toString c
        | .val neg c => "val " ++ b01 neg ++ " " ++ toString c
      | none => "bad-op"
    | _ => "bad-op"
  ((), out)

def main : IO Unit := runDriver () step
