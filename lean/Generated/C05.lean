-- GENERATED placeholder (rewritten by vlib/lean.py from tools/probe_C05.cc on every run)
namespace KV.Gen.C05

def maxOrder : Nat := 6
def kUNK : Nat := 0
def kBOS : Nat := 1
def kEOS : Nat := 2
def discountCap : Nat := 3
def markBit : Nat := 63
def flushAdjusted : Bool := false
def keepSpecials : Bool := false
def pruneCopiesSpecials : Bool := false

end KV.Gen.C05
