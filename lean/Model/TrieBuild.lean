import Model.TrieLM
/-!
The trie *builder* of lm/search_trie.cc between the parsed ARPA n-grams and the fold `TrieLM.ofTable`:

* `SortedFiles` / `RecursiveInsert`: the n-grams of all orders, keyed by their reversed id sequence, are visited in
  lexicographic order with a prefix before its extensions (priority queue over the per-order sorted streams);
  a duplicate key is `FormatLoadException` (`ThrowCombine`).
* `BlankManager::Visit`: compares the key with the previously visited one; every proper reversed prefix that was not on the
  previous path is a *blank*; its probability basis is the probability of the nearest lower order on the path that is not
  itself a blank (`basis_`, every blank order is set to `kBadProb`); a missing unigram is `FormatLoadException`.
* `SRISucks::Send` / `BackoffMessages::Apply` / `ObtainBackoffs`: a blank of order `b` based on order `j` asks the
  contexts `to[1..1+i)`, `i = j … b-1`, for their back-off; a context that is a real n-gram of order `i` answers (its
  back-off is added in float arithmetic, in increasing `i`, and a `-0.0` "no extension" back-off is turned into `+0.0`); a
  context that is not a real n-gram is a blank that thereby "extends right" (also when the message sorts after the last
  record of the order — the repaired leftover loop).
* `WriteEntries`: real entries whose key is the context of a real entry of the next order get `SetExtension`; a context that
  is no real entry is `FormatLoadException` ("… so this context must appear in the model …").

* `<unk>`: when the ARPA has no `<unk>` unigram the builder runs on the zeroed slot 0 of the unigram file (`unkSlot`,
  prob `+0.0`); `unknown_missing_logprob` is written only afterwards (`fixUnk`), so a blank whose newest word is `<unk>` is
  computed from 0, not from −100 (the code's behaviour; deviation from the ARPA recursion = known finding
  `blank-based-on-hallucinated-unk`).

The merge/sort machinery is modelled by its result (the sorted, duplicate-free visit order; C16 `extSort_unique` is the
theorem that any batching / merge order yields it); `Apply`'s sorted merge by set semantics (message ↦ record lookup).
Float addition on bit patterns is the parameter `fadd` (driver: core `Float32`).
-/
namespace KV.TrieBuild
open KV.Arpa KV.TrieLM

structure Gram where
  key : List Word        -- reversed ids: newest word first
  prob : Nat             -- float bits as parsed (positive clamped to 0)
  backoff : Nat          -- float bits as parsed; `-0.0` when absent or zero (`ReadBackoff`)
  deriving Repr, DecidableEq, Inhabited

inductive BuildErr where
  | duplicate          -- "Duplicate n-gram detected"
  | missingUnigram     -- "Missing a unigram that appears as context."
  | missingContext     -- "A k-gram has context … so this context must appear in the model as a (k-1)-gram but it does not"
  deriving Repr, DecidableEq

def plusZero : Nat := 0
def minusZero : Nat := noExtensionBits

/-- `Compare(order, first, second)` extended over orders as `Gram::operator<` does (prefix first) -/
def keyLt : List Word → List Word → Bool
  | [], [] => false
  | [], _ :: _ => true
  | _ :: _, [] => false
  | a :: as, b :: bs => if a < b then true else if b < a then false else keyLt as bs

def insertGram (g : Gram) : List Gram → List Gram
  | [] => [g]
  | h :: t => if keyLt g.key h.key then g :: h :: t else h :: insertGram g t

/-- the visit order of `RecursiveInsert` -/
def visitOrder (gs : List Gram) : List Gram := gs.foldr insertGram []

def hasDuplicate : List Gram → Bool
  | [] => false
  | [_] => false
  | a :: b :: t => a.key == b.key || hasDuplicate (b :: t)

def commonPrefix : List Word → List Word → Nat
  | a :: as, b :: bs => if a = b then commonPrefix as bs + 1 else 0
  | _, _ => 0

/-- a blank found by `Visit`: its key, the order it is based on and the basis probability, the contexts asked for back-offs -/
structure Blank where
  key : List Word
  basedOn : Nat
  basis : Nat
  deriving Repr, DecidableEq, Inhabited

/-- state of `BlankManager`: the previously visited key (`been_[0..been_length_)`) and `basis_` (`none` = `kBadProb`) -/
structure VisitState where
  been : List Word := []
  basis : List (Option Nat) := []
  blanks : List Blank := []      -- in visit order
  deriving Repr

def setAt {α} (l : List α) (i : Nat) (v : α) (dflt : α) : List α :=
  if i < l.length then l.set i v else l ++ List.replicate (i - l.length) dflt ++ [v]

/-- nearest index `≤ i` with a valid basis: `for (lower_basis = basis_ + blank - 2; *lower_basis == kBadProb; --lower_basis)` -/
def lowerBasis (basis : List (Option Nat)) : Nat → Option (Nat × Nat)
  | 0 => match basis.getD 0 none with | some p => some (0, p) | none => none
  | i+1 => match basis.getD (i+1) none with | some p => some (i+1, p) | none => lowerBasis basis i

/-- `BlankManager::Visit(to, length, prob)` -/
def visit (st : VisitState) (g : Gram) : Except BuildErr VisitState :=
  let len := g.key.length
  let basis := setAt st.basis (len - 1) (some g.prob) none
  let cur := commonPrefix st.been (g.key.take (len - 1))
  if cur = len - 1 then .ok { st with been := g.key, basis := basis }
  else
    let blank := cur + 1
    if blank = 1 then .error .missingUnigram
    else match lowerBasis basis (blank - 2) with
      | none => .error .missingUnigram
      | some (idx, p) =>
        let orders := List.range' blank (len - blank)          -- blank … len-1
        let newBlanks := orders.map fun b => { key := g.key.take b, basedOn := idx + 1, basis := p : Blank }
        let basis' := orders.foldl (fun bs b => setAt bs (b - 1) none none) basis
        .ok { been := g.key, basis := basis', blanks := st.blanks ++ newBlanks }

def visitAll (gs : List Gram) : Except BuildErr VisitState :=
  gs.foldlM visit {}

def realOf (gs : List Gram) (k : List Word) : Option Gram := gs.find? (fun g => g.key == k)

/-- the contexts a blank sends messages to: `to[1..1+i)`, `i = basedOn … order-1` -/
def messageKeys (b : Blank) : List (List Word) :=
  (List.range' b.basedOn (b.key.length - b.basedOn)).map fun i => (b.key.drop 1).take i

/-- hmm: `to + 1` is the full visited key without its first word; a blank's key is a prefix of it and `i < order`, so
`(b.key.drop 1).take i = (to.drop 1).take i`. -/
theorem messageKeys_def (b : Blank) : messageKeys b =
    (List.range' b.basedOn (b.key.length - b.basedOn)).map fun i => (b.key.drop 1).take i := rfl

/-- probability of a blank: basis, then the back-offs of the real contexts in increasing length (`-0.0` counts as `+0.0`) -/
def blankProb (fadd : Nat → Nat → Nat) (gs : List Gram) (b : Blank) : Nat :=
  (messageKeys b).foldl (fun acc k =>
    match realOf gs k with
    | some r => fadd acc (if r.backoff = minusZero then plusZero else r.backoff)
    | none => acc) b.basis

structure Built where
  table : BT            -- the bit table handed to the fold `ofTable`: real entries and blanks, extension marks applied
  blanks : List Blank
  counts : List Nat
  deriving Repr

/-- the builder up to the bit table -/
def buildTable (fadd : Nat → Nat → Nat) (order : Nat) (gs : List Gram) : Except BuildErr Built :=
  let sorted := visitOrder gs
  if hasDuplicate sorted then .error .duplicate
  else match visitAll sorted with
    | .error e => .error e
    | .ok st =>
      -- contexts of real entries of order ≥ 2 must be real entries
      if sorted.any (fun g => g.key.length ≥ 2 && (realOf sorted (g.key.drop 1)).isNone) then .error .missingContext
      else
        let msgs := st.blanks.flatMap messageKeys
        let ctxs := sorted.filterMap fun g => if g.key.length ≥ 2 then some (g.key.drop 1) else none
        let real : BT := sorted.map fun g =>
          (g.key, (g.prob,
            if g.key.length = order then 0
            else if g.backoff = minusZero ∧ (ctxs.contains g.key ∨ msgs.contains g.key) then plusZero else g.backoff))
        let blank : BT := st.blanks.map fun b =>
          (b.key, (blankProb fadd sorted b, if msgs.contains b.key then plusZero else minusZero))
        let table := real ++ blank
        .ok { table := table, blanks := st.blanks,
              counts := (List.range order).map fun k => (table.filter fun p => p.1.length = k + 1).length }

/-- the record `SortedFiles` leaves for `<unk>` when the ARPA has no `<unk>` unigram: the unigram file is `MapZeroedWrite` with
one extra slot ("In case <unk> appears", trie_sort.cc:207-213), so slot 0 stays all-zero bytes: prob `+0.0`, back-off `+0.0`.
This is what `FindBlanks::UnigramProb(0)` and the unigram `BackoffMessages::Apply` read while the builder runs. -/
def unkSlot : Gram := ⟨[0], 0, 0⟩

/-- `SortedFiles` on the n-grams of the ARPA file: slot 0 exists whether or not `<unk>` is listed; `(records, SawUnk())` -/
def withUnkSlot (gs : List Gram) : List Gram × Bool :=
  if gs.any (fun g => g.key == [0]) then (gs, true) else (unkSlot :: gs, false)

/-- `GenericModel::InitializeFromARPA` *after* `search_.InitializeFromARPA` returned (model.cc:122-131):
`if (!vocab_.SawUnk()) { unk.backoff = 0.0; unk.prob = config.unknown_missing_logprob; }` — `unk = some bits` in that case.
The blanks were computed before, from the zeroed slot (known finding `blank-based-on-hallucinated-unk`). -/
def fixUnk (unk : Option Nat) (T : BT) : BT :=
  match unk with
  | none => T
  | some u => T.map fun e => if e.1 = [0] then (e.1, (u, plusZero)) else e

/-- builder pass on the records of `SortedFiles` (slot 0 included), then the `<unk>` fix-up -/
def buildTableU (fadd : Nat → Nat → Nat) (order : Nat) (gs : List Gram) (unk : Option Nat) : Except BuildErr Built :=
  match buildTable fadd order gs with
  | .error e => .error e
  | .ok b => .ok { b with table := fixUnk unk b.table }

/-- the whole builder: search region of a `TrieModel` file at byte offset `start`; `gs` are the records of `SortedFiles`
(with the zeroed slot 0 if `<unk>` is missing, and then `unk = some unknown_missing_logprob`) -/
def buildTrie (fadd : Nat → Nat → Nat) (order bound start : Nat) (gs : List Gram) (unk : Option Nat) : Except BuildErr Trie :=
  match buildTableU fadd order gs unk with
  | .error e => .error e
  | .ok b => .ok (ofTable b.table bound order start)

/-- from the n-grams of the ARPA file (no `<unk>` record unless the file lists it) -/
def buildTableArpa (fadd : Nat → Nat → Nat) (order : Nat) (gs : List Gram) (unkMissing : Nat) : Except BuildErr Built :=
  let r := withUnkSlot gs
  buildTableU fadd order r.1 (if r.2 then none else some unkMissing)

/-- IEEE single addition on bit patterns (what `base[array][index] += backoff` does) -/
def f32add (a b : Nat) : Nat := (Float32.ofBits a.toUInt32 + Float32.ofBits b.toUInt32).toBits.toNat

end KV.TrieBuild
