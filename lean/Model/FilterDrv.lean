import Model.Proto
import Model.Filter
import Model.FilterCtl
import Model.FilterPhraseSearch
/-!
Shared driver code for the streams `filter-threads` (C12, Driver/C12.lean) and `filter`
(C11, Driver/C11.lean).  One job per input line:

  job <fixed|old> <copy|single|union|multiple> <context:0|1> <arpa|raw> <threads> <batch> <seed> <vocab> <model> <outprefix>

It writes `<outprefix>.seq<k>` (the sequential filter, `KV.Filter.arpaFile` / `rawFile`) and,
for threads > 1, `<outprefix>.thr<k>`: the files produced by the transition system
`KV.FilterCtl` under a pseudo-random schedule chosen from `seed`, rendered by a model of
`ARPAOutput` / `CountOutput`.  One result line per job.
-/
namespace KV.FilterDrv
open KV KV.Filter KV.FilterCtl

def readBytes (p : String) : IO Bytes := do
  let b ← IO.FS.readBinFile p
  return b.toList

def writeBytes (p : String) (b : Bytes) : IO Unit := IO.FS.writeBinFile p (ByteArray.mk b.toArray)

def mkMode (mode : String) (vocab : Bytes) : Option Mode :=
  match mode with
  | "copy" => some .copy
  | "single" => some (.single (readSingle vocab))
  | "union" => some (.union (readSentences vocab))
  | "multiple" => some (.multiple (readSentences vocab))
  | _ => none

/-- model of `ARPAOutput` fed with the calls that reach one file -/
structure AOut where
  chunks : List Bytes := []      -- newest first
  counter : Nat := 0
  counts : List Nat := []

def setCount (cs : List Nat) (i v : Nat) : List Nat :=
  (cs ++ List.replicate (i + 1 - cs.length) 0).set i v

def AOut.feed (o : AOut) : Sum Mark Item → AOut
  | .inl (.beginLength k) => { o with chunks := (gramsHeader k ++ [10]) :: o.chunks, counter := 0 }
  | .inl (.endLength k) => { o with chunks := [10] :: o.chunks, counts := setCount o.counts (k - 1) o.counter }
  | .inl .finish => { o with chunks := (bEnd ++ [10]) :: o.chunks }
  | .inr it => { o with chunks := (it.line ++ [10]) :: o.chunks, counter := o.counter + 1 }

def renderArpa (reserve : Nat) (fl : List (Sum Mark Item)) : Bytes :=
  let o := fl.foldl AOut.feed {}
  let hdr := countsHeader o.counts
  hdr ++ List.replicate (reserve - hdr.length) 10 ++ o.chunks.reverse.flatten

def renderRaw (fl : List (Sum Mark Item)) : Bytes :=
  (fl.filterMap fun | .inr it => some (it.line ++ [10]) | .inl _ => none).flatten

def tidStr : Tid → String
  | .reader => "R"
  | .outw => "O"
  | .worker i => s!"W{i}"

structure Job where
  variant : Variant
  mode : Mode
  opts : Opts
  arpa : Bool
  threads : Nat
  batch : Nat
  seed : Nat
  model : Bytes
  pfx : String

def runJob (j : Job) : IO String := do
  let vs : Item → Verdict := fun it => verdict j.mode j.opts it.ngram
  let nout := j.mode.outputs
  -- parse
  let parsed : Except Err (Option Arpa × List Item) :=
    if j.arpa then (parseArpa j.model).map fun a => (some a, a.orders.flatten)
    else .ok (none, rawItems j.model)
  match parsed with
  | .error e => return s!"error {repr e}"
  | .ok (arpa?, items) =>
    let okItems := itemsOk items
    -- sequential files
    for k in [0:nout] do
      let bytes := match arpa? with
        | some a => arpaFile a vs k
        | none => rawFile items vs k
      writeBytes s!"{j.pfx}.seq{k}" bytes
    if j.threads ≤ 1 then
      return s!"ok status=seq outputs={nout} items={items.length} itemsOk={okItems}"
    let prog : List (ROp Item) := match arpa? with
      | some a => arpaProgram a.orders
      | none => if j.variant == Variant.old then rawProgramOld items else rawProgram items
    let cfg : Cfg Item := { batchSize := j.batch, queue := 2 * j.threads, workers := j.threads,
                            variant := j.variant, f := vs, len := fun it => it.line.length }
    let fuel := 20 * (prog.length + 10) * (j.threads + 2) + 1000
    let r := runRandom cfg fuel j.seed (init cfg prog) []
    let reserve := match arpa? with
      | some a => (countsHeader a.counts).length
      | none => 0
    let mut same := true
    for k in [0:nout] do
      let fl := fileLog k r.final.out
      let bytes := if j.arpa then renderArpa reserve fl else renderRaw fl
      writeBytes s!"{j.pfx}.thr{k}" bytes
      let seqb := match arpa? with
        | some a => arpaFile a vs k
        | none => rawFile items vs k
      if bytes != seqb then same := false
    let logEq := decide (r.final.out = seqLog vs prog)
    let sched := String.intercalate "," (r.schedule.map tidStr)
    return s!"ok status={r.status} ub={r.final.ub} steps={r.schedule.length} outputs={nout} items={items.length} itemsOk={okItems} thrEqSeq={same} logEqSeqLog={logEq} wf={wf false prog} sched={sched}"


/-- phrase mode: write the lower bound `<pfx>.must<k>` (the lines `Tiles` obliges file `k` to contain,
in the layout of the real output) -/
def runPhrase (mutant union ctx arpa : Bool) (vocab model : Bytes) (pfx : String) : IO String := do
  let sents := readPhraseSentences vocab
  let vs : Item → Verdict := fun it =>
    let ws := words (if ctx then contextOf it.ngram else it.ngram)
    if union then phraseMustUnion sents ws else phraseMust sents ws
  let nout := if union then 1 else sents.length
  let parsed : Except Err (Option Arpa × List Item) :=
    if arpa then (parseArpa model).map fun a => (some a, a.orders.flatten)
    else .ok (none, rawItems model)
  match parsed with
  | .error e => return s!"error {repr e}"
  | .ok (arpa?, items) =>
    for k in [0:nout] do
      let bytes := match arpa? with
        | some a => arpaFile a vs k
        | none => rawFile items vs k
      writeBytes s!"{pfx}.must{k}" bytes
    -- the search graph (exact, absent hash collisions)
    let vg : Item → Verdict := fun it =>
      let ws := words (if ctx then contextOf it.ngram else it.ngram)
      if union then phraseVerdictUnion sents ws else phraseVerdict sents ws
    for k in [0:nout] do
      let bytes := match arpa? with
        | some a => arpaFile a vg k
        | none => rawFile items vg k
      writeBytes s!"{pfx}.graph{k}" bytes
    -- the lazy search itself (Vertex::LowerBound / Arc::LowerBound / Evaluate)
    let vsr : Item → Verdict := fun it =>
      let ws := words (if ctx then contextOf it.ngram else it.ngram)
      if union then phraseSearchUnion mutant sents ws else phraseSearch mutant sents ws
    for k in [0:nout] do
      let bytes := match arpa? with
        | some a => arpaFile a vsr k
        | none => rawFile items vsr k
      writeBytes s!"{pfx}.search{k}" bytes
    return s!"ok outputs={nout} items={items.length} itemsOk={itemsOk items} sentences={sents.length}"

def parseJob (ws : List String) : IO (Option Job) := do
  match ws with
  | ["job", variant, mode, ctx, fmt, threads, batch, seed, vocab, model, pfx] =>
    let v ← readBytes vocab
    let m ← readBytes model
    match mkMode mode v, threads.toNat?, batch.toNat?, seed.toNat? with
    | some md, some t, some b, some sd =>
      return some { variant := if variant = "old" then Variant.old else Variant.fixed, mode := md,
                    opts := { context := ctx = "1" }, arpa := fmt = "arpa", threads := t, batch := b,
                    seed := sd, model := m, pfx := pfx }
    | _, _, _, _ => return none
  | _ => return none

partial def mainLoop (h : IO.FS.Stream) : IO Unit := do
  let line ← h.getLine
  if line.isEmpty then return ()
  match Proto.words line with
  | ["pjob", mode, ctx, fmt, vocab, model, pfx] =>
    let v ← readBytes vocab
    let m ← readBytes model
    let r ← runPhrase ((← IO.getEnv "KV_PHRASE_MUTANT") == some "1") (mode = "union") (ctx = "1") (fmt = "arpa") v m pfx
    IO.println r
    (← IO.getStdout).flush
    return ← mainLoop h
  | _ => pure ()
  match ← parseJob (Proto.words line) with
  | none => IO.println "bad-op"
  | some j =>
    let r ← runJob j
    IO.println r
  (← IO.getStdout).flush
  mainLoop h

end KV.FilterDrv

