/-
L0 — the ARPA specification layer (DESIGN §4, §5 C01).

* `Arpa`: order + finite list of (reversed n-gram ↦ entry).  n-grams are stored **reversed**
  (newest word first), exactly like `State::words` and both search structures;
  `Word := Nat`, `0 = <unk>`, ids in unigram order (ProbingVocabulary).
* `score`: the textbook back-off recursion, the oracle of C01/C02/C03.  It never looks at
  blanks, marks or states.
* `parse`: ARPA bytes → `Arpa` + vocabulary, mirroring lm/read_arpa.cc / read_arpa.hh /
  util/file_piece.cc at the token level (comment and blank lines, `\data\` counts,
  `kARPASpaces`, the tab after a unigram probability, CRLF, `<unk>`/`<UNK>`, positive
  probabilities clamped to 0, back-off that is zero *as a float32* → "no extension",
  missing `<unk>` → `unknown_missing_logprob`).
Mathlib-free; used by proofs and by the native drivers.
-/
namespace KV.Arpa

abbrev Word := Nat

/-- One ARPA line.  `backoff = 0` also when the field is absent, written `0`/`-0`/`0.0`, or
underflows float32 (|q| ≤ 2⁻¹⁵⁰, see `parseNumber`/`flushBackoff`). -/
structure Entry where
  prob : Rat
  backoff : Rat
  /-- the stored float32 probability is `+0.0` (text `0`, `+0`, or a positive value clamped to 0):
  only matters for the probing unigram sign-bit quirk, see `Table.withSignQuirk` -/
  plusZero : Bool := false
deriving Repr, DecidableEq, Inhabited

/-- A parsed model.  Keys are reversed n-grams (newest word first). -/
structure Arpa where
  order : Nat
  entries : List (List Word × Entry)
  /-- `<unk>` was not in the file: the loader hallucinated it (`model.cc:121-126`) with
  back-off `+0.0`, i.e. marked "extends right". -/
  unkHallucinated : Bool := false
deriving Repr, Inhabited

/-- the n-gram map (first occurrence wins, as `ProbingHashTable::Find` after duplicate inserts;
duplicates are outside the accepted input class anyway) -/
def Arpa.gram (a : Arpa) (g : List Word) : Option Entry := a.entries.lookup g

def Arpa.isReal (a : Arpa) (g : List Word) : Bool := (a.gram g).isSome

/-- back-off weight of a context (reversed), 0 when the context is not an n-gram of the model -/
def Arpa.boW (a : Arpa) (c : List Word) : Rat :=
  match a.gram c with
  | some e => e.backoff
  | none => 0

/-- probability of the unigram `w` (0 if absent — callers map OOV words to `<unk>` first) -/
def Arpa.uniProb (a : Arpa) (w : Word) : Rat :=
  match a.gram [w] with
  | some e => e.prob
  | none => 0

/-- Textbook recursion using the `c` most recent context words:
`p(w | ctx.take c)` = prob of the n-gram if present, else `backoff(ctx.take c) + p(w | ctx.take (c-1))`. -/
def scoreAt (a : Arpa) (ctx : List Word) (w : Word) : Nat → Rat
  | 0 => a.uniProb w
  | c+1 =>
    match a.gram (w :: ctx.take (c+1)) with
    | some e => e.prob
    | none => a.boW (ctx.take (c+1)) + scoreAt a ctx w c

/-- `score a ctx w` = log10 p(w | ctx), `ctx` reversed (ctx[0] immediately precedes `w`), any length;
only the `order-1` most recent words matter. -/
def score (a : Arpa) (ctx : List Word) (w : Word) : Rat :=
  scoreAt a ctx w (min ctx.length (a.order - 1))

/-- number of context words of the longest n-gram of the model ending in `w` that matches the history, plus 1 -/
def longestMatchAt (a : Arpa) (ctx : List Word) (w : Word) : Nat → Nat
  | 0 => 1
  | c+1 => if a.isReal (w :: ctx.take (c+1)) then c + 2 else longestMatchAt a ctx w c

def longestMatch (a : Arpa) (ctx : List Word) (w : Word) : Nat :=
  longestMatchAt a ctx w (min ctx.length (a.order - 1))


/-- the terms of the recursion (`score = sum of terms`); used for the float32 tolerance
`(k+1)·2⁻²³·Σ|termᵢ|` of the comparison, never for the value itself -/
def termsAt (a : Arpa) (ctx : List Word) (w : Word) : Nat → List Rat
  | 0 => [a.uniProb w]
  | c+1 =>
    match a.gram (w :: ctx.take (c+1)) with
    | some e => [e.prob]
    | none => a.boW (ctx.take (c+1)) :: termsAt a ctx w c

def terms (a : Arpa) (ctx : List Word) (w : Word) : List Rat :=
  termsAt a ctx w (min ctx.length (a.order - 1))

/-- some n-gram of the model extends the reversed n-gram `g` by one more word to the left -/
def Arpa.hasLeftExtension (a : Arpa) (g : List Word) : Bool :=
  a.entries.any fun p => p.1.length == g.length + 1 && g.isPrefixOf p.1

/-- Spec of the left-independence flag for a *supplied* context `ctx` (reversed): the flag is clear
exactly when the whole supplied context was matched, the match is shorter than the order, and some
n-gram of the model extends the match to the left. -/
def independentLeftSpec (a : Arpa) (ctx : List Word) (w : Word) : Bool :=
  let c := ctx.take (a.order - 1)
  let m := longestMatch a c w
  !(m == c.length + 1 && m < a.order && a.hasLeftExtension (w :: c))

/-- map a word id to itself if it is in the vocabulary, else to `<unk>` = 0 -/
def Arpa.norm (a : Arpa) (w : Word) : Word := if a.isReal [w] then w else 0

/-- every n-gram's context (drop the newest word) and — SuffixClosed — its suffix (drop the oldest) -/
def Arpa.contextsPresent (a : Arpa) : Bool :=
  a.entries.all fun (g, _) => g.length ≤ 1 || a.isReal g.tail

def Arpa.suffixClosed (a : Arpa) : Bool :=
  a.entries.all fun (g, _) => g.length ≤ 1 || a.isReal g.dropLast

def Arpa.keysDistinct (a : Arpa) : Bool :=
  let ks := a.entries.map (·.1)
  ks.eraseDups.length == ks.length

/-! ## Parsing (mirrors lm/read_arpa.cc on the byte level) -/

abbrev Bytes := List UInt8

inductive Err where
  | format | eof | parse | order
deriving Repr, DecidableEq

def Err.name : Err → String
  | .format => "format" | .eof => "eof" | .parse => "parse" | .order => "format"

/-- `util::kSpaces` (isspace in the C locale) -/
def isSpace (b : UInt8) : Bool := b == 9 || b == 10 || b == 11 || b == 12 || b == 13 || b == 32
/-- `lm::kARPASpaces`: tab, newline, carriage return, space -/
def isArpaSpace (b : UInt8) : Bool := b == 9 || b == 10 || b == 13 || b == 32

def str (s : String) : Bytes := s.toUTF8.toList

/-- `FilePiece::ReadLine('\n', strip_cr=true)`: none = EndOfFileException -/
def readLine (s : Bytes) : Option (Bytes × Bytes) :=
  if s.isEmpty then none else
  let (l, r) := s.span (· != 10)
  match r with
  | [] => some (l, [])                 -- no newline before EOF: the rest, CR not stripped
  | _ :: r' => some (if l.getLast? == some 13 then l.dropLast else l, r')

def allSpace (l : Bytes) : Bool := l.all isSpace

def digitsVal (ds : Bytes) : Nat := ds.foldl (fun acc d => acc * 10 + (d.toNat - 48)) 0
def isDigit (b : UInt8) : Bool := 48 ≤ b && b ≤ 57

/-- decimal / scientific literal → exact rational (the grammar of the numbers our generators and
lmplz write; `inf`, `nan`, hex floats are a parse error here and belong to C10) -/
def parseNumber (t : Bytes) : Option Rat :=
  let (neg, t) := match t with
    | 45 :: r => (true, r)
    | 43 :: r => (false, r)
    | _ => (false, t)
  let (ip, t) := t.span isDigit
  let (fp, t) := match t with
    | 46 :: r => r.span isDigit
    | _ => ([], t)
  if ip.isEmpty && fp.isEmpty then none else
  let expo : Option Int := match t with
    | [] => some 0
    | e :: r =>
      if e == 101 || e == 69 then
        let (eneg, r) := match r with
          | 45 :: r' => (true, r')
          | 43 :: r' => (false, r')
          | _ => (false, r)
        if r.isEmpty || !r.all isDigit then none
        else some (if eneg then - (digitsVal r : Int) else (digitsVal r : Int))
      else none
  match expo with
  | none => none
  | some ex =>
    let mant : Nat := digitsVal (ip ++ fp)
    let e10 : Int := ex - fp.length
    let v : Rat := if e10 ≥ 0 then (mant * 10 ^ e10.toNat : Nat) else mkRat mant (10 ^ (-e10).toNat)
    some (if neg then -v else v)

/-- float32 flushes |q| ≤ 2⁻¹⁵⁰ to ±0 (round-to-nearest-even at half the smallest subnormal):
such a back-off *is* zero for `HasExtension` and for the sum. -/
def flushBackoff (q : Rat) : Rat :=
  if q.abs ≤ mkRat 1 (2 ^ 150) then 0 else q

/-- `ReadFloat`: skip `kSpaces`, take the token up to the next space -/
def readFloatSigned (s : Bytes) : Except Err (Rat × Bool × Bytes) :=
  let s := s.dropWhile isSpace
  if s.isEmpty then .error .eof else
  let (t, r) := s.span (fun b => !isSpace b)
  match parseNumber t with
  | some q => .ok (q, t.head? == some 45, r)
  | none => .error .parse

def readFloat (s : Bytes) : Except Err (Rat × Bytes) := do
  let (q, _, r) ← readFloatSigned s
  .ok (q, r)

/-- `ReadDelimited(kARPASpaces)` -/
def readWord (s : Bytes) : Except Err (Bytes × Bytes) :=
  let s := s.dropWhile isArpaSpace
  if s.isEmpty then .error .eof else
  .ok (s.span (fun b => !isArpaSpace b))

/-- `ReadBackoff(FilePiece&, float&)`; `top = true` is the `Prob` overload (highest order: a
back-off must be absent or zero). -/
def readBackoff (top : Bool) (s : Bytes) : Except Err (Rat × Bytes) :=
  match s with
  | [] => .error .eof
  | 9 :: r => do
    let (q, r) ← readFloat r
    let q := flushBackoff q
    if top then
      if q != 0 then .error .format else .ok (0, r)     -- note: the Prob overload does not consume the newline
    else
      match r with
      | 10 :: r' => .ok (q, r')
      | 13 :: 10 :: r' => .ok (q, r')
      | [] => .error .eof
      | _ => .error .format
  | 10 :: r => .ok (0, r)
  | 13 :: 10 :: r => .ok (0, r)
  | _ => .error .format

/-- skip lines while `p line`; returns first line not satisfying p.  Fuel: every iteration
consumes at least one byte, so `s.length + 1` always suffices. -/
def skipLines (p : Bytes → Bool) : Nat → Bytes → Option (Bytes × Bytes)
  | 0, _ => none
  | f+1, s =>
    match readLine s with
    | none => none
    | some (l, r) => if p l then skipLines p f r else some (l, r)

def natStr (n : Nat) : Bytes := str (toString n)

/-- `ReadARPACounts` count lines until a white-space-only line -/
def readCounts : Nat → Bytes → List Nat → Except Err (List Nat × Bytes)
  | 0, _, _ => .error .eof
  | f+1, s, acc =>
    match readLine s with
    | none => .error .eof
    | some (l, r) =>
      if allSpace l then .ok (acc.reverse, r) else
      let pre := str "ngram "
      if l.take 6 != pre then .error .format else
      let rest := l.drop 6
      let (ds, rest') := rest.span isDigit
      if ds.isEmpty || digitsVal ds != acc.length + 1 then .error .format else
      match rest' with
      | 61 :: cs =>
        let cs := cs.dropWhile isSpace
        let (cd, _) := cs.span isDigit
        if cd.isEmpty then .error .format else readCounts f r (digitsVal cd :: acc)
      | _ => .error .format

def unkBytes : Bytes := str "<unk>"
def unkCapBytes : Bytes := str "<UNK>"
def isUnk (w : Bytes) : Bool := w == unkBytes || w == unkCapBytes

/-- vocabulary under construction: words in id order (id 0 reserved for `<unk>`) -/
structure Vocab where
  words : List Bytes := [unkBytes]      -- reversed? no: id order
  sawUnk : Bool := false
deriving Inhabited

def Vocab.index (v : Vocab) (w : Bytes) : Word :=
  if isUnk w then 0 else
  match v.words.idxOf? w with
  | some i => i
  | none => 0

/-- `ReadNGramHeader` -/
def readHeader (n : Nat) (s : Bytes) : Except Err Bytes :=
  match skipLines allSpace (s.length + 1) s with
  | none => .error .eof
  | some (l, r) => if l == str ("\\" ++ toString n ++ "-grams:") then .ok r else .error .format

def clampProb (p : Rat) : Rat := if p > 0 then 0 else p

/-- `Read1Grams`: `count` lines -/
def read1Grams : Nat → Bytes → Vocab → List (List Word × Entry) → Except Err (Vocab × List (List Word × Entry) × Bytes)
  | 0, s, v, acc => .ok (v, acc.reverse, s)
  | k+1, s, v, acc => do
    let (p, neg, s) ← readFloatSigned s
    let pz := decide (p ≥ 0) && !neg
    match s with
    | 9 :: s =>
      let (w, s) ← readWord s
      let (b, s) ← readBackoff false s
      if isUnk w then
        read1Grams k s { v with sawUnk := true } (([0], { prob := clampProb p, backoff := b, plusZero := pz }) :: acc)
      else
        let id := v.words.length
        read1Grams k s { v with words := v.words ++ [w] } (([id], { prob := clampProb p, backoff := b, plusZero := pz }) :: acc)
    | [] => .error .eof
    | _ => .error .format

/-- n words of one n-gram line, returned **reversed** (newest first) -/
def readWords (v : Vocab) : Nat → Bytes → List Word → Except Err (List Word × Bytes)
  | 0, s, acc => .ok (acc, s)
  | k+1, s, acc => do
    let (w, s) ← readWord s
    let id := v.index w
    if id == 0 && !isUnk w then .error .format      -- "was not seen in the unigrams"
    else readWords v k s (id :: acc)

/-- `ReadNGrams` for order `n ≥ 2` -/
def readNGrams (v : Vocab) (n : Nat) (top : Bool) : Nat → Bytes → List (List Word × Entry) → Except Err (List (List Word × Entry) × Bytes)
  | 0, s, acc => .ok (acc.reverse, s)
  | k+1, s, acc => do
    let (p, s) ← readFloat s
    let (g, s) ← readWords v n s []
    let (b, s) ← readBackoff top s
    readNGrams v n top k s ((g, { prob := clampProb p, backoff := b }) :: acc)

def readOrders (v : Vocab) (order : Nat) : List Nat → Nat → Bytes → List (List Word × Entry) → Except Err (List (List Word × Entry) × Bytes)
  | [], _, s, acc => .ok (acc, s)
  | c :: cs, n, s, acc => do
    let s ← readHeader n s
    let (es, s) ← readNGrams v n (n == order) c s []
    readOrders v order cs (n+1) s (acc ++ es)

/-- `ReadEnd` -/
def readEnd (s : Bytes) : Except Err Unit :=
  match skipLines allSpace (s.length + 1) s with
  | none => .error .eof
  | some (l, r) =>
    if l != str "\\end\\" then .error .format else
    match skipLines allSpace (r.length + 1) r with
    | none => .ok ()
    | some _ => .error .format

structure Parsed where
  arpa : Arpa
  vocab : List Bytes        -- id → bytes
deriving Inhabited

/-- The loader front end: `ReadARPACounts`, `CheckCounts`, `Read1Grams`, `ReadNGrams`…, `ReadEnd`,
then the `<unk>` repair.  `unkMissing` = `config.unknown_missing_logprob` (default −100). -/
def parse (maxOrder : Nat) (unkMissing : Rat) (s : Bytes) : Except Err Parsed := do
  let (l, s) ← match skipLines (fun l => allSpace l || l.take 1 == [35]) (s.length + 1) s with
    | none => .error .eof
    | some x => .ok x
  if l != str "\\data\\" then .error .format
  let (counts, s) ← readCounts (s.length + 1) s []
  if counts.length > maxOrder then .error .order
  if counts.length < 2 then .error .order
  match counts with
  | [] => .error .order
  | c1 :: cs =>
    let s ← readHeader 1 s
    let (v, uni, s) ← read1Grams c1 s {} []
    let (rest, s) ← readOrders v counts.length cs 2 s []
    readEnd s
    let uni' := if v.sawUnk then uni else ([0], { prob := unkMissing, backoff := 0 }) :: uni
    .ok { arpa := { order := counts.length, entries := uni' ++ rest, unkHallucinated := !v.sawUnk },
          vocab := v.words }

end KV.Arpa
