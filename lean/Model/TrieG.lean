import Model.TrieLM
import Model.Quant
/-!
`TrieLM.ofTable` for all four `TrieSearch<Quant, Bhiksha>` instantiations: the memory `WriteEntries` / `FinishedLoading` leave for
a bit table, as an OR of bit fields over the layout of `Binary.trieSetup quant array`.

* `ArrayBhiksha` (lm/bhiksha.cc): the inline field of a middle record keeps the low `InlineBits` bits of the `next` pointer;
  the high parts go to the offset table `offset_begin_[0..count)` written by `WriteNext` (`Bhiksha.writeAll` over the pointer
  sequence of the order, the end pointer last); two header bytes (`kArrayBhikshaVersion = 0`, `pointer_bhiksha_bits`) at the
  unaligned base.
* `SeparatelyQuantize` (lm/quantize.cc): records hold `backoff code | prob code`, the float tables (bin centres) sit before the
  unigrams after an 8-byte header (`kSeparatelyQuantizeVersion = 2`, `prob_bits`, `backoff_bits`).  Codes and centres are the
  parameter `QSpec`; `QSpec.train` is `TrainQuantizer` + `EncodeProb` / `EncodeBackoff` (`Model/Quant.lean`).
-/
namespace KV.TrieLM
open KV.Bits KV.Binary KV.Arpa

/-- a trained quantiser: table index `om2 < order-2` = middle order `om2+2`, index `order-2` = longest order -/
structure QSpec where
  probBits : Nat
  backoffBits : Nat
  ptab : Nat → List Nat          -- float bits of the `2^probBits` probability centres
  btab : Nat → List Nat          -- float bits of the `2^backoffBits` back-off centres (codes 0/1 reserved: -0.0, +0.0)
  pcode : List Word → Nat        -- code written for the probability of a key
  bcode : List Word → Nat

/-- consecutive bytes -/
def bytesRegion (off : Nat) (bytes : List Nat) : RegionSpec :=
  { base := 8 * off, stride := 8, nrec := bytes.length, slots := [(0, 8)], val := fun i _ => some (bytes.getD i 0 % 2^8) }

/-- a float table -/
def tabRegion (off : Nat) (tab : List Nat) : RegionSpec :=
  { base := 8 * off, stride := 32, nrec := tab.length, slots := [(0, 32)], val := fun i _ => some (tab.getD i 0 % 2^32) }

/-- `offset_begin_[0 .. count)` after `FinishedLoading` -/
def bhikTable (bits count : Nat) (starts : List Nat) : List Nat :=
  0 :: (KV.Bhiksha.writeAll starts 0 (KV.Bhiksha.Arr.init bits count)).offs

def offRegion (offBegin : Nat) (table : List Nat) : RegionSpec :=
  { base := 8 * offBegin, stride := 64, nrec := table.length, slots := [(0, 64)], val := fun j _ => some (table.getD j 0 % 2^64) }

/-- packed records of middle order `k`: `word | values | next (inline bits)`; values = `prob31 | backoff32` or
`backoff code | prob code` -/
def midRegionG (bt : BT) (bound k : Nat) (m : MiddleRegion) (q : Option QSpec) : RegionSpec :=
  let lvl := level bt bound k
  let starts := childStarts bt lvl
  let a := match q with | none => 31 | some qs => qs.backoffBits
  let b := match q with | none => 32 | some qs => qs.probBits
  { base := 8 * m.packed, stride := m.totalBits, nrec := lvl.length + 1,
    slots := [(0, m.wordBits), (m.wordBits, a), (m.wordBits + a, b), (m.wordBits + m.quantBits, m.inline)],
    val := fun i s =>
      if s = 3 then some (starts.getD i 0 % 2^m.inline)
      else if i < lvl.length then
        (if s = 0 then some ((lvl.getD i []).getLast?.getD 0 % 2^m.wordBits)
         else if s = 1 then some (match q with
           | none => (valuesOf bt (lvl.getD i [])).1 % 2^31
           | some qs => qs.bcode (lvl.getD i []) % 2^qs.backoffBits)
         else some (match q with
           | none => (valuesOf bt (lvl.getD i [])).2 % 2^32
           | some qs => qs.pcode (lvl.getD i []) % 2^qs.probBits))
      else none }

def longRegionG (bt : BT) (bound order : Nat) (base wordBits totalBits : Nat) (q : Option QSpec) : RegionSpec :=
  let lvl := level bt bound order
  let b := match q with | none => 31 | some qs => qs.probBits
  { base := 8 * base, stride := totalBits, nrec := lvl.length,
    slots := [(0, wordBits), (wordBits, b)],
    val := fun i s =>
      if s = 0 then some ((lvl.getD i []).getLast?.getD 0 % 2^wordBits)
      else some (match q with
        | none => (valuesOf bt (lvl.getD i [])).1 % 2^31
        | some qs => qs.pcode (lvl.getD i []) % 2^qs.probBits) }

/-- the regions of one middle order in file order -/
def middleRegionsG (bt : BT) (bound : Nat) (q : Option QSpec) (array : Bool) (bhikshaBits : Nat) (om2 : Nat) (m : MiddleRegion) :
    List RegionSpec :=
  (if array then
    [bytesRegion m.start [0, bhikshaBits],
     offRegion m.offBegin (bhikTable m.inline ((m.offEnd - m.offBegin) / 8) (childStarts bt (level bt bound (om2 + 2))))]
   else []) ++ [midRegionG bt bound (om2 + 2) m q]

def quantRegionsG (order : Nat) (r : TrieRegions) (q : Option QSpec) : List RegionSpec :=
  match q with
  | none => []
  | some qs =>
    [bytesRegion r.quant [2, qs.probBits, qs.backoffBits]]
      ++ (List.range (order - 2)).flatMap (fun om2 =>
          [tabRegion (r.quantTables.getD (2 * om2) 0) (qs.ptab om2), tabRegion (r.quantTables.getD (2 * om2 + 1) 0) (qs.btab om2)])
      ++ [tabRegion (r.quantTables.getD (2 * (order - 2)) 0) (qs.ptab (order - 2))]

def cfgG (q : Option QSpec) (bhikshaBits : Nat) : Config :=
  match q with
  | none => ⟨Gen.C04.defaultMultiplierBits, 8, 8, bhikshaBits⟩
  | some qs => ⟨Gen.C04.defaultMultiplierBits, qs.probBits, qs.backoffBits, bhikshaBits⟩

def regionsG (bt : BT) (bound order start : Nat) (q : Option QSpec) (array : Bool) (bhikshaBits : Nat) : List RegionSpec :=
  let r := trieSetup q.isSome array (cfgG q bhikshaBits) (countsOf bt bound order) start
  quantRegionsG order r q
    ++ [uniRegion bt bound r.unigram]
    ++ (r.middles.zip (List.range r.middles.length)).flatMap (fun mi => middleRegionsG bt bound q array bhikshaBits mi.2 mi.1)
    ++ [longRegionG bt bound order r.longest.1 r.longest.2.1 r.longest.2.2 q]

/-- the search region of a `TrieModel` / `ArrayTrieModel` / `QuantTrieModel` / `QuantArrayTrieModel` file built from a bit
table -/
def ofTableG (bt : BT) (bound order start : Nat) (q : Option QSpec) (array : Bool) (bhikshaBits : Nat) : Trie :=
  { ofLayout 0 q.isSome array (cfgG q bhikshaBits) (countsOf bt bound order) start with
    mem := orFields 0 (allFields (regionsG bt bound order start q array bhikshaBits)) }

/-! ### `TrainQuantizer` on a bit table -/

/-- keys of order `k` -/
def keysOfLen (bt : BT) (k : Nat) : BT := bt.filter fun p => p.1.length = k

/-- `EncodeBackoff`: `if (value == 0.0) return HasExtension(value) ? kExtensionQuant : kNoExtensionQuant; else Encode(value, 2)` -/
def encodeBackoff (ops : KV.Quant.Ops Nat) (centers : List Nat) (v : Nat) : Nat :=
  if v = noExtensionBits then 0 else if v = 0 then 1 else KV.Quant.encode (α := Nat) ops centers 2 v

/-- `TrainQuantizer` for every middle order (probabilities of all records incl. blanks, non-zero back-offs),
`TrainProbQuantizer` for the longest, and the codes `WriteEntries` stores -/
def QSpec.train (ops : KV.Quant.Ops Nat) (probBits backoffBits : Nat) (bt : BT) (order : Nat) : QSpec :=
  let ptab := fun om2 => KV.Quant.trainProb ops probBits ((keysOfLen bt (om2 + 2)).map (·.2.1))
  let btab := fun om2 => KV.Quant.trainBackoff ops backoffBits noExtensionBits 0
    (((keysOfLen bt (om2 + 2)).map (·.2.2)).filter fun b => b ≠ noExtensionBits ∧ b ≠ 0)
  { probBits := probBits, backoffBits := backoffBits, ptab := ptab, btab := btab,
    pcode := fun g => KV.Quant.encode (α := Nat) ops (ptab (g.length - 2)) 0 (valuesOf bt g).1,
    bcode := fun g => encodeBackoff ops (btab (g.length - 2)) (valuesOf bt g).2 }

/-- the IEEE-single arithmetic of `lm/quantize.cc` on bit patterns (driver) -/
def f32BitsOps : KV.Quant.Ops Nat where
  lt a b := KV.Quant.f32Ops.lt (Float32.ofBits a.toUInt32) (Float32.ofBits b.toUInt32)
  sub a b := (KV.Quant.f32Ops.sub (Float32.ofBits a.toUInt32) (Float32.ofBits b.toUInt32)).toBits.toNat
  mean l := (KV.Quant.f32Ops.mean (l.map fun x => Float32.ofBits x.toUInt32)).toBits.toNat
  negInf := 0xFF800000

end KV.TrieLM
