import Model.KN
/-!
The two sorts *inside* the estimation pipeline made a parameter.

`Model/KN.lean` hard-wires them (`initialOrder`: `es.mergeSort ctxLe` before `AddRight` /
`MergeRight`, `(…).mergeSort uninterpLe` before `Interpolate`).  In `lmplz` they are external
sorts (`util/stream/sort.hh`) whose block structure and merge plan depend on the memory
configuration.  Here `initialOrderWith` / `estimateFromWith` take them as arbitrary functions
(one pair per order); `Proofs/KNSorters.lean` shows that any correct sorts give `estimateFrom`.
Core only.
-/
namespace KV.KN

/-- the context sort (before `InitialProbabilities`) and the suffix sort (before `Interpolate`)
of one order -/
structure Sorters where
  ctx : List Emit → List Emit
  suf : List Uninterp → List Uninterp

/-- the sorts of `Model/KN.lean` -/
def stdSorters : Sorters where
  ctx := fun l => l.mergeSort ctxLe
  suf := fun l => l.mergeSort uninterpLe

/-- `initialOrder` with the two sorts as parameters -/
def initialOrderWith (S : Sorters) (interpUni : Bool) (n : Nat) (d : Disc) (es : List Emit) :
    List Uninterp × List Gam :=
  let runs := ctxRuns (S.ctx es)
  let gams := runs.map (addRight d)
  let us := if n == 1 then runs.flatMap (mergeRightUnigram interpUni d) else runs.flatMap (mergeRight d)
  (S.suf (us.filter (·.keep)), gams)

/-- stage 3 of all orders (`streams[i]`, `discs[i]` = order `i+1`, sorted by `S (i+1)`) -/
def stage3With (S : Nat → Sorters) (interpUni : Bool) (streams : List (List Emit))
    (discs : List (Disc × Bool)) : List (List Uninterp × List Gam) :=
  (streams.zip discs).zipIdx.map fun ((es, d), i) => initialOrderWith (S (i + 1)) interpUni (i + 1) d.1 es

/-- `estimateFrom` with the sorts of order `n` given by `S n` -/
def estimateFromWith (S : Nat → Sorters) (cfg : Cfg) (pruneVocab : Bool) (fallback : Option Disc)
    (full : List (Gram × Nat)) : Except Err Model := do
  let adj := adjust cfg full
  let discs ← discounts fallback adj.stats
  let header := adj.stats.map (·.countPruned)
  let uniform : Rat := 1 / ((header.headD 0 - 1 : Nat) : Rat)
  let stage3 := stage3With S cfg.interpUni adj.streams discs
  let orders ← interpAll (fun n => pruneVocab || decide (cfg.thr n > 0)) uniform 1 stage3 none
  pure { stats := adj.stats, discs := discs, header := header, uniform := uniform, orders := orders }

theorem initialOrderWith_std (interpUni : Bool) (n : Nat) (d : Disc) (es : List Emit) :
    initialOrderWith stdSorters interpUni n d es = initialOrder interpUni n d es := rfl

/-- with the standard sorts this is `estimateFrom` -/
theorem estimateFromWith_std : estimateFromWith (fun _ => stdSorters) = estimateFrom := rfl

end KV.KN
