import Model.KN
/-!
Model of `Writer` (`lm/builder/corpus_count.cc:67-150`) and of the reading loop
`CorpusCount::RunWithVocab` (`corpus_count.cc:235-260`), Mathlib-free.

The chain hands the Writer blocks of `block_size_ = cap * entry_size` bytes
(`util/stream/chain.cc:43`: the block size is a positive multiple of the entry size), i.e. `cap ≥ 1`
n-gram slots.  Per block there is a dedupe hash table keyed by the slot contents:

* `Append(word)` completes the n-gram in the current slot (`*(gram_.end()-1) = word`) and looks it up;
* found (in the **current block**): the count of the existing slot is incremented and the current
  slot is shifted left by one word (`memmove`) — branch `found`;
* not found: the slot is kept with count 1; if it was not the last slot of the block, the last
  `N-1` words are copied to the next slot (`std::copy(last.begin()+1, last.end(), gram_.begin())`) —
  branch `next`; otherwise the last `N-1` words go through `buffer_`, the table is cleared, the block
  is handed on with `SetValidSize(block_size_)` and the context is copied to the first slot of the
  next block — branch `boundary`.
* `StartSentence()` overwrites the `N-1` context words with `<s>`.
* order 1: the constructor writes the slots `<unk>` and `<s>` with count 0 *without* entering them
  into the table (`AddUnigramWord`, with its own block-end test).
* the destructor hands on the (possibly empty) partial block.

N-grams are stored reversed (head = newest word) as everywhere in `Model/KN.lean`, so the context
(the words that stay in the slot) is `List.take (N-1)` of the reversed n-gram.
-/
namespace KV.KN.Count
open KV.KN

/-- a slot of a block: the (reversed) n-gram and `Value().count` -/
abbrev Rec := Gram × Nat

/-- the state of a `Writer` -/
structure St where
  /-- blocks already handed to the chain, newest first; each in slot order -/
  done : List (List Rec) := []
  /-- slots of the current block that were written by `AddUnigramWord` (never in the dedupe table) -/
  pre : List Rec := []
  /-- slots of the current block that are in the dedupe table, in slot order -/
  cur : List Rec := []
  /-- the `N-1` words standing in `gram_` (reversed: head = newest) -/
  ctx : List Word := []
deriving Repr, DecidableEq

/-- `dedupe_.FindOrInsert` hit: `++already.Value().count` on the (first) slot holding `g` -/
def incr (g : Gram) : List Rec → Option (List Rec)
  | [] => none
  | (h, c) :: t => if h = g then some ((h, c + 1) :: t) else (incr g t).map ((h, c) :: ·)

/-- the `N-1` words that stay for the next n-gram (`gram_.begin()+1 … gram_.end()`) -/
def carry (N : Nat) (g : Gram) : List Word := g.take (N - 1)

/-- `Writer::Append` -/
def append (N cap : Nat) (st : St) (w : Word) : St :=
  let g := w :: st.ctx
  match incr g st.cur with
  | some cur' =>
    -- found: count incremented, `memmove` shifts the slot left by one word
    { st with cur := cur', ctx := carry N g }
  | none =>
    let cur' := st.cur ++ [(g, 1)]
    if st.pre.length + cur'.length = cap then
      -- block end: context through `buffer_`, `dedupe_.Clear()`, next block
      let buffer := carry N g
      { done := (st.pre ++ cur') :: st.done, pre := [], cur := [], ctx := buffer }
    else
      -- next slot in the same block: `std::copy(last.begin() + 1, last.end(), gram_.begin())`
      { st with cur := cur', ctx := carry N g }

/-- `Writer::StartSentence` -/
def startSentence (N : Nat) (st : St) : St := { st with ctx := List.replicate (N - 1) bos }

/-- `Writer::AddUnigramWord` (order 1 only; count 0, not entered into the table) -/
def addUnigramWord (cap : Nat) (st : St) (w : Word) : St :=
  let pre' := st.pre ++ [([w], 0)]
  if pre'.length + st.cur.length = cap then
    { st with done := (pre' ++ st.cur) :: st.done, pre := [], cur := [] }
  else { st with pre := pre' }

/-- the constructor (the content of `gram_` before the first `StartSentence` is never used) -/
def init (N cap : Nat) : St :=
  if N = 1 then addUnigramWord cap (addUnigramWord cap {} unk) bos else {}

/-- one iteration of the `while(true)` loop of `RunWithVocab` for a newline-terminated line whose
words are already vocabulary ids (special words skipped by the caller) -/
def runLine (N cap : Nat) (st : St) (line : List Word) : St :=
  append N cap (line.foldl (append N cap) (startSentence N st)) eos

/-- the destructor: `SetValidSize` of the partial block (possibly empty), then poison -/
def finish (st : St) : List (List Rec) := ((st.pre ++ st.cur) :: st.done).reverse

/-- the state when the loop breaks: after the last line there is one more `StartSentence` -/
def runCorpus (N cap : Nat) (corpus : List (List Word)) : St :=
  startSentence N (corpus.foldl (runLine N cap) (init N cap))

/-- the blocks that leave `CorpusCount` for a corpus of newline-terminated lines: in order, each
in slot order -/
def corpusCount (N cap : Nat) (corpus : List (List Word)) : List (List Rec) :=
  finish (runCorpus N cap corpus)

/-- sum of the counts of `g` in a list of records -/
def total (g : Gram) (recs : List Rec) : Nat := (recs.map fun e => if e.1 = g then e.2 else 0).sum

end KV.KN.Count
