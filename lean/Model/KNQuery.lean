import Model.KN
/-!
The ARPA back-off query over an estimated model (`lm/model.cc` `FullScore` semantics on
linear values, exact `Rat`): the model is given as per-order entry lists
(`orders[i]` = the entries of order `i+1`, as in `KV.KN.Model.orders`).

Conventions as in `Model/KN.lean`: an n-gram / a context is a **reversed** word list
(head = newest word); backing off drops the oldest word = `List.dropLast`.
-/
namespace KV.KN.Query

/-- the entry of the n-gram `g`: the first entry of order `g.length` whose n-gram is `g` -/
def lookup (orders : List (List Entry)) (g : Gram) : Option Entry :=
  match g with
  | [] => none
  | _ :: _ => (orders.getD (g.length - 1) []).find? (·.gram == g)

/-- the back-off weight charged for leaving the context `ctx`: its `bo` when the context is in
the model, else 1 -/
def boOf (orders : List (List Entry)) (ctx : Gram) : Rat :=
  match lookup orders ctx with
  | some e => e.bo
  | none => 1

/-- `p(w | ctx)` by the ARPA recursion: the stored probability of `w :: ctx` when it is in the
model; else 0 for the empty context (an out-of-vocabulary word; the caller maps it to `<unk>`
first); else `bo(ctx) · p(w | ctx without its oldest word)`. -/
def score (orders : List (List Entry)) (ctx : Gram) (w : Word) : Rat :=
  match lookup orders (w :: ctx) with
  | some e => e.p
  | none =>
    if ctx = [] then 0
    else boOf orders ctx * score orders ctx.dropLast w
termination_by ctx.length
decreasing_by
  cases ctx with
  | nil => contradiction
  | cons a t => simp [List.length_dropLast]

/-- the vocabulary of the model: the words of the order-1 entries (in file order) -/
def vocabOf (orders : List (List Entry)) : List Word :=
  (orders.headD []).map fun e => e.gram.headD unk

/-- the words a sentence position may hold: the vocabulary without `<s>` -/
def vocabNoBos (orders : List (List Entry)) : List Word :=
  (vocabOf orders).filter fun w => w != bos

/-- `Σ_{w ∈ V∖{<s>}} p(w | ctx)` -/
def mass (orders : List (List Entry)) (ctx : Gram) : Rat :=
  ((vocabNoBos orders).map (score orders ctx)).sum

end KV.KN.Query
