import Model.Binary
/-!
Model of `lm/bhiksha.{hh,cc}`: the two encodings of the "next" pointers of a trie middle order.

`DontBhiksha` stores every pointer inline in `RequiredBits(max_next)` bits.
`ArrayBhiksha` chops the high bits off: the inline field keeps `bits = RequiredBits(max_next) - chop`
low bits; the high part `value >> bits` is recovered from a sorted table `offset_begin_[0..count)`
whose entry `j` is the first record index whose pointer has high part ≥ `j`.

Inline fields live in the bit-packed records (`Model/Bits.lean`, property C20); here they are the list
`inl` in record order (`WriteNext` is called with `index = insert_index_ = 0, 1, 2, …` and once more by
`FinishedLoading` for the end pointer).
-/
namespace KV.Bhiksha
open KV.Bits KV.Binary

/-! ## DontBhiksha -/

/-- `WriteNext`: `WriteInt57(base, bit_offset, next_.bits, value)`; what `ReadInt57` later returns for
this field is `value % 2^bits` (C20 `write_read`). -/
def dontInline (maxNext value : Nat) : Nat := value % 2^(requiredBits maxNext)

/-- `DontBhiksha::ReadNext` on the inline fields of record `index` and `index+1`. -/
def dontReadNext (inl : List Nat) (index : Nat) : Nat × Nat := (inl.getD index 0, inl.getD (index + 1) 0)

/-! ## ArrayBhiksha -/

structure Arr where
  bits : Nat             -- `next_inline_.bits`
  count : Nat            -- `offset_end_ - offset_begin_` = `ArrayCount(max_offset, max_next, config)`
  offs : List Nat        -- `offset_begin_[1 .. write_to_)`; `write_to_ - offset_begin_ = offs.length + 1`
  inl : List Nat         -- inline fields in record order
  deriving Repr

def Arr.init (bits count : Nat) : Arr := { bits := bits, count := count, offs := [], inl := [] }

/-- `WriteNext(base, bit_offset, index, value)`:
`encode = value >> bits; for (; write_to_ <= offset_begin_ + encode; ++write_to_) *write_to_ = index;`
`WriteInt57(base, bit_offset, bits, value & mask)`. -/
def Arr.writeNext (a : Arr) (index value : Nat) : Arr :=
  { a with offs := a.offs ++ List.replicate ((value >>> a.bits) - a.offs.length) index
           inl := a.inl ++ [value % 2^a.bits] }

/-- all `WriteNext` calls of one middle order: records `0..n-1` by `Insert`, the end pointer by `FinishedLoading` -/
def writeAll : List Nat → Nat → Arr → Arr
  | [], _, a => a
  | v :: vs, i, a => writeAll vs (i + 1) (a.writeNext i v)

/-- `FinishedLoading`: `*offset_begin_ = 0; if (write_to_ != offset_end_) throw`.  Returns the table. -/
def Arr.finish (a : Arr) : Option (List Nat) :=
  if a.offs.length + 1 = a.count then some (0 :: a.offs) else none

/-- `std::upper_bound(begin, end, x) - begin` on a sorted table: number of leading entries `≤ x`. -/
def upperBound (table : List Nat) (x : Nat) : Nat := (table.takeWhile (· ≤ x)).length

/-- `ArrayBhiksha::ReadNext(base, bit_offset, index, total_bits, out)` -/
def readNext (bits : Nat) (table inl : List Nat) (index : Nat) : Nat × Nat :=
  let b := upperBound table index - 1
  -- for (end_it = begin_it + 1; end_it < offset_end_ && *end_it <= index + 1; ++end_it) {}  --end_it;
  let e := b + 1 + ((table.drop (b + 1)).takeWhile (· ≤ index + 1)).length - 1
  ((b <<< bits) ||| inl.getD index 0, (e <<< bits) ||| inl.getD (index + 1) 0)

/-- whole life of one table: construct, write the pointer sequence, finish, read every record back -/
def roundTrip (maxOffset maxNext bhikshaBits : Nat) (vs : List Nat) : Option (List Nat × List (Nat × Nat)) :=
  let bits := inlineBits true maxOffset maxNext bhikshaBits
  let a := writeAll vs 0 (Arr.init bits (arrayCount maxOffset maxNext bhikshaBits))
  match a.finish with
  | none => none
  | some table => some (table, (List.range (vs.length - 1)).map (readNext bits table a.inl))

def driverLine (maxOffset maxNext bhikshaBits : Nat) (vs : List Nat) : String :=
  let bits := inlineBits true maxOffset maxNext bhikshaBits
  let count := arrayCount maxOffset maxNext bhikshaBits
  match roundTrip maxOffset maxNext bhikshaBits vs with
  | none => s!"bh bits={bits} count={count} err"
  | some (table, reads) =>
    s!"bh bits={bits} count={count} table=" ++ ",".intercalate (table.map toString) ++ " reads="
      ++ ",".intercalate (reads.map fun (b, e) => s!"{b}:{e}")

end KV.Bhiksha
