import Model.Arpa
/-
C10 — the ARPA *loader* as it is, on arbitrary byte strings (DESIGN §5 C10).

`KV.Arpa.parse` (owned by C01) is the grammar of the files our generators and lmplz write.  A mutated
file leaves that grammar, so this file transcribes what lm/read_arpa.cc + util/file_piece.cc +
util/double-conversion really accept:

* numbers: `FilePiece::ReadFloat` = skip `kSpaces`, then double-conversion `StringToFloat` with
  ALLOW_TRAILING_JUNK on the rest of the window: the *longest prefix* that is a number is consumed and
  the junk stays in the stream (`-0.4a b` is probability −0.4 followed by the words `a`, `b`); `inf`,
  `+inf`, `-inf` are numbers; `NaN` (unsigned, exactly these three characters consumed) is a number since the
  FilePiece repair a461449 (before it ParseNumber compared the rest of the *window* with "NaN");
  float32 overflow (|q| ≥ 2¹²⁸ − 2¹⁰³) is ±inf, underflow is 0;
* probabilities: `> 0` (incl. +inf) clamped to 0 (config SILENT, as in the harness); −inf and NaN are *accepted*
  (no check in Read1Gram / ReadNGram; both stored as the non-finite `PVal.negInf`); back-offs: inf / NaN ⇒
  FormatLoadException ("Bad backoff");
* count lines: `ngram ` + `strtol` (leading white space, sign, value taken mod 2³²) + `=` + `istream >> uint64_t`
  (leading white space, sign with wrap-around, trailing junk ignored, > 2⁶⁴−1 ⇒ "Bad count");
* everything else (line reading, section headers, `\end\`, vocabulary ids) as in `KV.Arpa`.

After parsing, the *search builders* reject more files:
* probing (lm/search_hashed.cc): while reading the n-grams of order n it inserts a blank for every missing
  reversed prefix (`FindLower`), requires the context of every n-gram (n ≥ 3) to be in the order-(n−1) table
  *as filled so far* (real entries and blanks; `ActivateLowerMiddle`), and throws `ProbingSizeException`
  when real + blank entries of a middle order reach its bucket count;
* trie (lm/search_trie.cc:520-533): requires the context of every n-gram (n ≥ 3) to be a *real* (n−1)-gram.
So the two families can differ in accept/reject; the model has a `Kind` parameter.
Mathlib-free; used by `Driver/C10.lean` and by the proofs in `Proofs/Loader*.lean`.
-/
namespace KV.LoaderArpa
open KV.Arpa

inductive LErr where
  | format | eof | parse | config | probingSize
deriving Repr, DecidableEq, Inhabited

def LErr.name : LErr → String
  | .format => "format" | .eof => "eof" | .parse => "parse" | .config => "config" | .probingSize => "probing-size"

def LErr.ofArpa : KV.Arpa.Err → LErr
  | .format => .format | .eof => .eof | .parse => .parse | .order => .format

/-! ## numbers (util/double-conversion/string-to-double.cc, StringToIeee with ALLOW_TRAILING_JUNK) -/

inductive Num where
  | fin (q : Rat) (neg : Bool)     -- `neg`: the text had a minus sign (distinguishes -0 from +0)
  | inf (neg : Bool)
  | nan
deriving Repr, DecidableEq, Inhabited

/-- `max_exponent = INT_MAX / 2`: the exponent accumulator saturates there -/
def maxExponent : Nat := 1073741823

/-- exponent part after the mantissa: `e`/`E`, optional sign, at least one digit; otherwise nothing is
consumed (`current = junk_begin`) -/
def scanExp (t : Bytes) : Int × Bytes :=
  match t with
  | [] => (0, t)
  | e :: r =>
    if e == 101 || e == 69 then
      let sr : Bool × Bytes := match r with
        | 45 :: r' => (true, r')
        | 43 :: r' => (false, r')
        | _ => (false, r)
      let dr := sr.2.span isDigit
      if dr.1.isEmpty then (0, t)
      else
        let v : Nat := min (digitsVal dr.1) maxExponent
        ((if sr.1 then - (v : Int) else (v : Int)), dr.2)
    else (0, t)

/-- float32 rounds every |q| ≥ 2¹²⁸ − 2¹⁰³ (max float + half an ulp, ties to even) to infinity -/
def f32Overflows (q : Rat) : Bool := decide (q.abs ≥ ((2 ^ 128 - 2 ^ 103 : Nat) : Rat))

/-- value of mantissa digits `ds` (integer and fractional digits concatenated) times 10^e10, guarded so that
astronomically large exponents never build a huge rational: beyond ±60 decimal orders of magnitude the
float32 result is already decided (inf / 0). -/
def decimalValue (ds : Bytes) (e10 : Int) : Option Rat :=      -- none = overflows to infinity
  let mant := digitsVal ds
  if mant == 0 then some 0
  else if e10 > 60 then none
  else if e10 + (ds.length : Int) < -60 then some 0
  else
    let v : Rat := if e10 ≥ 0 then ((mant * 10 ^ e10.toNat : Nat) : Rat) else mkRat mant (10 ^ (-e10).toNat)
    if f32Overflows v then none else some v

/-- the longest prefix of `t` that double-conversion reads as a number, and the rest; `none` = junk
(`ParseNumberException`).  `t` is non-empty and does not start with white space (after `SkipSpaces`). -/
def scanNumber (t : Bytes) : Option (Num × Bytes) :=
  let st : Bool × Bytes := match t with
    | 45 :: r => (true, r)
    | 43 :: r => (false, r)
    | _ => (false, t)
  let neg := st.1
  let t1 := st.2
  if (str "inf").isPrefixOf t1 then some (.inf neg, t1.drop 3)
  -- ParseNumber accepts NaN only when the consumed characters are exactly "NaN" (a signed NaN is a ParseNumberException)
  else if (str "NaN").isPrefixOf t1 then (if t1.length == t.length then some (.nan, t1.drop 3) else none)
  else
    let ir := t1.span isDigit
    let fr : Bytes × Bytes := match ir.2 with
      | 46 :: r => r.span isDigit
      | _ => ([], ir.2)
    if ir.1.isEmpty && fr.1.isEmpty then none
    else
      let er := scanExp fr.2
      match decimalValue (ir.1 ++ fr.1) (er.1 - (fr.1.length : Int)) with
      | none => some (.inf neg, er.2)
      | some q => some (.fin (if neg then -q else q) neg, er.2)

/-- `FilePiece::ReadFloat` -/
def readNum (s : Bytes) : Except LErr (Num × Bytes) :=
  let s := s.dropWhile isSpace
  if s.isEmpty then .error .eof else
  match scanNumber s with
  | none => .error .parse
  | some r => .ok r

/-- a stored log-probability -/
inductive PVal where
  | fin (q : Rat) (plusZero : Bool)
  | negInf
deriving Repr, DecidableEq, Inhabited

/-- `if (prob > 0.0) prob = 0.0` (positive_log_probability = SILENT) -/
def probOf : Num → PVal
  | .fin q neg => if q > 0 then .fin 0 true else .fin q (decide (q ≥ 0) && !neg)
  | .inf false => .fin 0 true
  | .inf true => .negInf
  | .nan => .negInf

/-- `ReadBackoff(FilePiece&, float&)`'s value check: NaN / ±inf ⇒ "Bad backoff" -/
def backoffOf : Num → Except LErr Rat
  | .fin q _ => .ok (flushBackoff q)
  | _ => .error .format

/-- both `ReadBackoff` overloads; `top = true` is the `Prob` one (highest order) -/
def readBackoff (top : Bool) (s : Bytes) : Except LErr (Rat × Bytes) :=
  match s with
  | [] => .error .eof
  | 9 :: r =>
    match readNum r with
    | .error e => .error e
    | .ok (n, r) =>
      if top then
        match n with
        | .fin q _ => if flushBackoff q != 0 then .error .format else .ok (0, r)
        | _ => .error .format
      else
        match backoffOf n with
        | .error e => .error e
        | .ok q =>
          match r with
          | 10 :: r' => .ok (q, r')
          | 13 :: 10 :: r' => .ok (q, r')
          | [] => .error .eof
          | [13] => .error .eof
          | _ => .error .format
  | 10 :: r => .ok (0, r)
  | 13 :: 10 :: r => .ok (0, r)
  | [13] => .error .eof
  | _ => .error .format

/-! ## `\data\` block (ReadARPACounts) -/

/-- `strtol(…, 10)`: optional white space, optional sign, digits; `none` = no conversion.  Returns the value
as the `unsigned int` the code stores it in (mod 2³², after saturation to `long`) and the rest. -/
def strtolU32 (t : Bytes) : Option (Nat × Bytes) :=
  let t := t.dropWhile isSpace
  let st : Bool × Bytes := match t with
    | 45 :: r => (true, r)
    | 43 :: r => (false, r)
    | _ => (false, t)
  let dr := st.2.span isDigit
  if dr.1.isEmpty then none
  else
    let v := digitsVal dr.1
    let sat : Int := if st.1 then (if v > 2 ^ 63 then -(2 ^ 63 : Int) else -(v : Int))
                     else (if v ≥ 2 ^ 63 then (2 ^ 63 - 1 : Int) else (v : Int))
    some ((sat % (2 ^ 32 : Int)).toNat, dr.2)

/-- `ReadCount`: `std::stringstream(from) >> uint64_t`; `none` = "Bad count".  The C string stops at a NUL. -/
def readCountField (t : Bytes) : Option Nat :=
  let t := t.takeWhile (· != 0)
  let t := t.dropWhile isSpace
  let st : Bool × Bytes := match t with
    | 45 :: r => (true, r)
    | 43 :: r => (false, r)
    | _ => (false, t)
  let ds := st.2.takeWhile isDigit
  if ds.isEmpty then none
  else
    let v := digitsVal ds
    if v ≥ 2 ^ 64 then none
    else some (if st.1 && v != 0 then 2 ^ 64 - v else v)

/-- one `ngram N=C` line, given the number of counts read so far -/
def countLine (l : Bytes) (have_ : Nat) : Except LErr Nat :=
  if l.take 6 != str "ngram " then .error .format else
  let rest := (l.drop 6).takeWhile (· != 0)          -- `std::string remaining(...)` then `.c_str()`: strtol stops at NUL
  match strtolU32 rest with
  | none => .error .format
  | some (len, r) =>
    if (len + 2 ^ 32 - 1) % 2 ^ 32 != have_ then .error .format else
    match r with
    | 61 :: cs =>
      match readCountField cs with
      | none => .error .format
      | some c => .ok c
    | _ => .error .format

/-- count lines until a white-space-only line; fuel = remaining bytes + 1 (every line consumes a byte) -/
def readCounts : Nat → Bytes → List Nat → Except LErr (List Nat × Bytes)
  | 0, _, _ => .error .eof
  | f+1, s, acc =>
    match readLine s with
    | none => .error .eof
    | some (l, r) =>
      if allSpace l then .ok (acc.reverse, r) else
      match countLine l acc.length with
      | .error e => .error e
      | .ok c => readCounts f r (c :: acc)

/-! ## vocabulary and n-gram lines -/

/-- position of the first occurrence of `w`, or `ws.length` -/
def posOf (w : Bytes) : List Bytes → Nat
  | [] => 0
  | x :: xs => if x == w then 0 else posOf w xs + 1

/-- `vocab.Index(word)`: id of the first unigram line with that word, 0 = `<unk>` otherwise -/
def wordId (words : List Bytes) (w : Bytes) : Word :=
  if isUnk w then 0 else
  let p := posOf w words
  if p < words.length then p else 0

/-- (reversed word ids, probability, back-off) -/
abbrev LE := List Word × PVal × Rat

/-- `Read1Gram` -/
def read1Gram (s : Bytes) (v : Vocab) : Except LErr (Vocab × LE × Bytes) :=
  match readNum s with
  | .error e => .error e
  | .ok (n, s) =>
    match s with
    | [] => .error .eof
    | 9 :: s =>
      match readWord s with
      | .error e => .error (LErr.ofArpa e)
      | .ok (w, s) =>
        match readBackoff false s with
        | .error e => .error e
        | .ok (b, s) =>
          if isUnk w then .ok ({ v with sawUnk := true }, ([0], probOf n, b), s)
          else .ok ({ v with words := v.words ++ [w] }, ([v.words.length], probOf n, b), s)
    | _ => .error .format

def read1Grams : Nat → Bytes → Vocab → Except LErr (Vocab × List LE × Bytes)
  | 0, s, v => .ok (v, [], s)
  | k+1, s, v =>
    match read1Gram s v with
    | .error e => .error e
    | .ok (v', e, s') =>
      match read1Grams k s' v' with
      | .error e' => .error e'
      | .ok (v'', es, s'') => .ok (v'', e :: es, s'')

/-- `n` words of one n-gram line, ids returned **reversed** (newest first) -/
def readWords (words : List Bytes) : Nat → Bytes → List Word → Except LErr (List Word × Bytes)
  | 0, s, acc => .ok (acc, s)
  | k+1, s, acc =>
    match readWord s with
    | .error e => .error (LErr.ofArpa e)
    | .ok (w, s) =>
      let id := wordId words w
      if id == 0 && !isUnk w then .error .format       -- "was not seen in the unigrams"
      else readWords words k s (id :: acc)

/-- `ReadNGram` -/
def readNGram (words : List Bytes) (n : Nat) (top : Bool) (s : Bytes) : Except LErr (LE × Bytes) :=
  match readNum s with
  | .error e => .error e
  | .ok (p, s) =>
    match readWords words n s [] with
    | .error e => .error e
    | .ok (g, s) =>
      match readBackoff top s with
      | .error e => .error e
      | .ok (b, s) => .ok ((g, probOf p, b), s)

def readNGrams (words : List Bytes) (n : Nat) (top : Bool) : Nat → Bytes → Except LErr (List LE × Bytes)
  | 0, s => .ok ([], s)
  | k+1, s =>
    match readNGram words n top s with
    | .error e => .error e
    | .ok (e, s') =>
      match readNGrams words n top k s' with
      | .error e' => .error e'
      | .ok (es, s'') => .ok (e :: es, s'')

def readSectionHeader (n : Nat) (s : Bytes) : Except LErr Bytes :=
  match KV.Arpa.readHeader n s with
  | .error e => .error (LErr.ofArpa e)
  | .ok r => .ok r

/-- sections of order `n, n+1, …` for the remaining counts -/
def readOrders (words : List Bytes) (order : Nat) : List Nat → Nat → Bytes → Except LErr (List (List LE) × Bytes)
  | [], _, s => .ok ([], s)
  | c :: cs, n, s =>
    match readSectionHeader n s with
    | .error e => .error e
    | .ok s =>
      match readNGrams words n (n == order) c s with
      | .error e => .error e
      | .ok (es, s) =>
        match readOrders words order cs (n + 1) s with
        | .error e => .error e
        | .ok (ess, s) => .ok (es :: ess, s)

structure LParsed where
  order : Nat
  counts : List Nat
  vocab : List Bytes            -- id → bytes (id 0 = `<unk>`)
  sawUnk : Bool
  grams : List (List LE)        -- `grams[n-1]` = the n-grams in file order
deriving Inhabited

/-- The loader front end shared by all model classes: `ReadARPACounts`, `CheckCounts`, the bigram and
probing-multiplier checks of `InitializeFromARPA`, `Read1Grams`, `ReadNGrams` for 2…N, `ReadEnd`. -/
def parse (maxOrder : Nat) (multOk : Bool) (s : Bytes) : Except LErr LParsed :=
  match skipLines (fun l => allSpace l || l.take 1 == [35]) (s.length + 1) s with
  | none => .error .eof
  | some (l, s) =>
    if l != str "\\data\\" then .error .format else
    match readCounts (s.length + 1) s [] with
    | .error e => .error e
    | .ok (counts, s) =>
      if counts.length > maxOrder then .error .format else
      if counts.length < 2 then .error .format else
      if !multOk then .error .config else
      match counts with
      | [] => .error .format
      | c1 :: cs =>
        match readSectionHeader 1 s with
        | .error e => .error e
        | .ok s =>
          match read1Grams c1 s {} with
          | .error e => .error e
          | .ok (v, uni, s) =>
            match readOrders v.words counts.length cs 2 s with
            | .error e => .error e
            | .ok (rest, s) =>
              match readEnd s with
              | .error e => .error (LErr.ofArpa e)
              | .ok _ =>
                .ok { order := counts.length, counts := counts, vocab := v.words, sawUnk := v.sawUnk, grams := uni :: rest }

/-! ## the search builders' checks -/

inductive Kind where
  | probing | trie
deriving Repr, DecidableEq

def LParsed.entries (p : LParsed) : List LE := p.grams.flatten
def LParsed.keys (p : LParsed) : List (List Word) := p.entries.map (·.1)

/-- trie (search_trie.cc:520-533): an n-gram (n ≥ 3) whose context is not a real (n−1)-gram leaves the
context reader of its order non-empty ⇒ FormatLoadException "context … must appear" -/
def trieContextsOk (p : LParsed) : Bool :=
  p.entries.all fun e => decide (e.1.length < 3) || p.keys.contains e.1.tail

/-- `FindLower`: blanks for `g.take k`, k = |g|−1 … 2, stopping at the first one already in its table.
`keys` = the keys currently in the middle hash tables, all orders together (the order-k table holds exactly
the keys of length k, so one list represents them all). -/
def findLower (g : List Word) : Nat → List (List Word) → List (List Word)
  | 0, keys => keys
  | k+1, keys =>
    if k + 1 < 2 then keys
    else if keys.contains (g.take (k + 1)) then keys
    else findLower g k (g.take (k + 1) :: keys)

/-- one n-gram of order `n` in `ReadNGrams`: `store.Insert` (middle orders only), `FindLower`, `activate`
(the context must be in the order-(n−1) table as filled so far) -/
def probingStep (order : Nat) (st : List (List Word) × Bool) (g : List Word) : List (List Word) × Bool :=
  let n := g.length
  let keys1 := if n < order then g :: st.1 else st.1
  let keys2 := findLower g (n - 1) keys1
  let ctxOk := decide (n < 3) || keys2.contains g.tail
  (keys2, st.2 && ctxOk)

/-- all n-grams of order ≥ 2 in file order -/
def probingRun (p : LParsed) : List (List Word) × Bool :=
  ((p.grams.drop 1).flatten.map (·.1)).foldl (probingStep p.order) ([], true)

/-- `ProbingHashTable::Size` bucket count for the multiplier the harness uses (1.5, exact in float32 for
entries < 2²³): `max(entries + 1, ⌊1.5 · entries⌋)` -/
def buckets15 (entries : Nat) : Nat := max (entries + 1) (3 * entries / 2)

/-- `++entries_ >= buckets_` on some middle table (orders 2 … N−1); the header count sizes the table -/
def probingFull (p : LParsed) (buckets : Nat → Nat) (keys : List (List Word)) : Bool :=
  (List.range p.order).any fun k =>
    decide (2 ≤ k) && decide ((keys.filter (fun g => g.length == k)).length ≥ buckets (p.counts.getD (k - 1) 0))

def buildCheck (k : Kind) (buckets : Nat → Nat) (p : LParsed) : Except LErr Unit :=
  match k with
  | .trie => if trieContextsOk p then .ok () else .error .format
  | .probing =>
    let r := probingRun p
    if !r.2 then .error .format
    else if probingFull p buckets r.1 then .error .probingSize
    else .ok ()

/-! ### trie: duplicates that meet in a merge (lm/trie_sort.cc) -/

/-- bytes of one sort record of order `n`: `n` word ids + probability (+ back-off below the highest order) -/
def trieEntrySize (order n : Nat) : Nat := 4 * n + (if n == order then 4 else 8)

/-- `buffer_use` of `SortedFiles::SortedFiles`: the largest `entry_size * count` over the orders 2 … N (header counts) -/
def trieBufferUse (p : LParsed) : Nat :=
  ((List.range (p.order + 1)).map fun n => if 2 ≤ n then trieEntrySize p.order n * p.counts.getD (n - 1) 0 else 0).foldl max 0

/-- the sort buffer: `min(max(config.building_memory, 1 MB), buffer_use)` (search_trie.cc:585, trie_sort.cc:222) -/
def trieSortMem (p : LParsed) (buildingMemory : Nat) : Nat := min (max buildingMemory 1048576) (trieBufferUse p)

def lexLe : List Nat → List Nat → Bool
  | [], _ => true
  | _ :: _, [] => false
  | a :: as, b :: bs => if a < b then true else if b < a then false else lexLe as bs

/-- some key occurs in two different batches of `b` consecutive records: sort (key, batch) by key and look at neighbours
with equal keys (equal keys are contiguous after sorting; the stable sort keeps their batch numbers ascending, so a
key whose occurrences span several batches shows a neighbour pair with different batches) -/
def mergeF {α} (le : α → α → Bool) : Nat → List α → List α → List α
  | 0, xs, ys => xs ++ ys
  | _, [], ys => ys
  | _, xs, [] => xs
  | f+1, x :: xs, y :: ys => if le x y then x :: mergeF le f xs (y :: ys) else y :: mergeF le f (x :: xs) ys

/-- one bottom-up pass: merge neighbouring runs -/
def mergePass {α} (le : α → α → Bool) : List (List α) → List (List α)
  | a :: b :: rest => mergeF le (a.length + b.length) a b :: mergePass le rest
  | l => l

/-- stable bottom-up merge sort by structural recursion (so that the kernel can evaluate it); `fuel` passes, each
halving the number of runs: `length` passes always suffice -/
def mergePasses {α} (le : α → α → Bool) : Nat → List (List α) → List (List α)
  | 0, runs => runs
  | f+1, runs => match runs with
    | [] => []
    | [r] => [r]
    | _ => mergePasses le f (mergePass le runs)

def sortBy {α} (le : α → α → Bool) (xs : List α) : List α :=
  (mergePasses le xs.length (xs.map fun x => [x])).flatten

def crossBatchDup (keys : List (List Word)) (b : Nat) : Bool :=
  let tagged := keys.zipIdx.map fun (k, i) => (k, i / b)
  let sorted := sortBy (fun x y => lexLe x.1 y.1) tagged
  (sorted.zip (sorted.drop 1)).any fun (x, y) => x.1 == y.1 && x.2 != y.2

/-- `ConvertToSorted` + `MergeSortedFiles(…, ThrowCombine())`: an order whose records do not fit the sort buffer is
sorted in batches of `mem / entry_size` records which are then merged pairwise until one file is left; two equal
n-grams that sit in different batches meet in some merge ⇒ FormatLoadException "Duplicate n-gram detected".
Duplicates inside one batch survive (the common case: one batch). -/
def trieDuplicateAcrossBatches (p : LParsed) (buildingMemory : Nat) : Bool :=
  let mem := trieSortMem p buildingMemory
  (List.range (p.order + 1)).any fun n =>
    decide (2 ≤ n) &&
      (let count := p.counts.getD (n - 1) 0
       let batch := min count (mem / trieEntrySize p.order n)
       decide (0 < batch) && decide (batch < count) && crossBatchDup ((p.grams.getD (n - 1) []).map (·.1)) batch)

/-- number of sorted batches per order 2 … N (reported by the driver) -/
def trieBatches (p : LParsed) (buildingMemory : Nat) : List Nat :=
  let mem := trieSortMem p buildingMemory
  (List.range (p.order + 1)).filterMap fun n =>
    if 2 ≤ n then
      let count := p.counts.getD (n - 1) 0
      let batch := min count (mem / trieEntrySize p.order n)
      some (if batch == 0 then 0 else (count + batch - 1) / batch)
    else none

/-- constructing a model of the given family from ARPA bytes (`buildingMemory` = config.building_memory, trie only) -/
def load (k : Kind) (maxOrder : Nat) (multOk : Bool) (buckets : Nat → Nat) (s : Bytes) (buildingMemory : Nat := 1073741824) :
    Except LErr LParsed :=
  match parse maxOrder multOk s with
  | .error e => .error e
  | .ok p =>
    match buildCheck k buckets p with
    | .error e => .error e
    | .ok _ =>
      if k == .trie && trieDuplicateAcrossBatches p buildingMemory then .error .format else .ok p

/-! ## bridge to the L0 model of C01 -/

def LParsed.finite (p : LParsed) : Bool := p.entries.all fun e => match e.2.1 with | .fin _ _ => true | .negInf => false

def toEntry (e : LE) : List Word × Entry :=
  match e.2.1 with
  | .fin q pz => (e.1, { prob := q, backoff := e.2.2, plusZero := pz && e.1.length == 1 })   -- the sign quirk is a unigram matter
  | .negInf => (e.1, { prob := 0, backoff := e.2.2 })

/-- the `Arpa` of C01 (meaningful when `finite`): hallucinated `<unk>` first, as `KV.Arpa.parse` does -/
def LParsed.toArpa (p : LParsed) (unkMissing : Rat) : Arpa :=
  let es := p.entries.map toEntry
  { order := p.order,
    entries := if p.sawUnk then es else ([0], { prob := unkMissing, backoff := 0 }) :: es,
    unkHallucinated := !p.sawUnk }

/-- requested allocation is feasible (the property's quantifier): every count below the bound -/
def LParsed.feasible (p : LParsed) (bound : Nat) : Bool := p.counts.all (· ≤ bound)

end KV.LoaderArpa
