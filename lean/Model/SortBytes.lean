import Model.Sort
/-!
Byte level of the external sort (C16): util/sized_iterator.hh, util/proxy_iterator.hh and the
temp-file I/O of util/stream/io.cc + sort.hh.

* A chain block / the data file is a flat byte buffer (`Buf = List Nat`, every element a byte);
  a record of size `s` is the byte range `[i*s, i*s + s)`.
* `swapRanges` is `std::swap_ranges` over bytes, `sizedSwap` is
  `swap(SizedProxy, SizedProxy)` (sized_iterator.hh:120-125) — byte-wise, for every size.
  `assignRec` is `SizedProxy::operator=(const SizedProxy&)` (memcpy of one record), `saveRec` /
  `restoreRec` are the `ValueBlock` temporaries `std::sort` creates (`value_type tmp = *it; … ;
  *it = tmp`); the `JustPOD<Size>` specialisations of `SizedSort` (sizes 4,8,12,16,17,20,24,28,32)
  move whole structs, which are the same three operations.
* `std::sort` itself is not modelled: it is *any* sequence `ops` of these operations
  (`execBytes`); what libstdc++ guarantees is a hypothesis on the same sequence run on an abstract
  array of records (`execRecs`): a sorted permutation.
* `wordSwapRanges` is the seeded mutant C16-3 (32-bit words, the last `s % 4` bytes stay behind).
* the temp file: `writeAndRecycle` appends `ValidSize` bytes of each block (io.cc:60-66),
  `blockSorterLog` is what `BlockSorter` appends to `Offsets` (bytes, before sorting),
  `readRunsBytes` reads `[TotalOffset(), +NextSize())` (sort.hh:251-253, 276-278).
-/
namespace KV.Sort

abbrev Buf := List Nat

/-- swap two bytes; outside the buffer (undefined behaviour in C++) nothing happens -/
def swapByte (buf : Buf) (a b : Nat) : Buf :=
  match buf[a]?, buf[b]? with
  | some x, some y => (buf.set a y).set b x
  | _, _ => buf

/-- `std::swap_ranges(first, first + n, second)` over bytes at offsets `a`, `b` -/
def swapRanges : Nat → Buf → Nat → Nat → Buf
  | 0, buf, _, _ => buf
  | n + 1, buf, a, b => swapRanges n (swapByte buf a b) (a + 1) (b + 1)

/-- `swap(SizedProxy first, SizedProxy second)`: byte-wise over `EntrySize()` bytes -/
def sizedSwap (s : Nat) (buf : Buf) (i j : Nat) : Buf := swapRanges s buf (i * s) (j * s)

/-- record `i` of a buffer of `s`-byte records -/
def recAt (s : Nat) (buf : Buf) (i : Nat) : List Nat := (buf.drop (i * s)).take s

/-- `memcpy(inner_.Data(), from, EntrySize())`: overwrite record `i` -/
def writeRec (s : Nat) (buf : Buf) (i : Nat) (v : List Nat) : Buf :=
  buf.take (i * s) ++ v ++ buf.drop (i * s + s)

/-- the mutant of seeded/C16-3: swap 32-bit words, `s / 4` of them -/
def wordSwap (s : Nat) (buf : Buf) (i j : Nat) : Buf := swapRanges (s / 4 * 4) buf (i * s) (j * s)

/-- what `std::sort` may do to the block -/
inductive SortOp where
  | swap (i j : Nat)        -- iter_swap → swap(SizedProxy, SizedProxy)
  | assign (i j : Nat)      -- *it_i = *it_j   (SizedProxy::operator=(const SizedProxy&))
  | save (i : Nat)          -- value_type tmp = *it_i   (ValueBlock, pushed on a stack of temporaries)
  | restore (i t : Nat)     -- *it_i = tmp_t   (SizedProxy::operator=(const ValueBlock&))
  deriving Repr, DecidableEq

/-- state at byte level: the block and the temporaries (each `s` bytes) -/
def stepBytes (s : Nat) (st : Buf × List (List Nat)) : SortOp → Buf × List (List Nat)
  | .swap i j => (sizedSwap s st.1 i j, st.2)
  | .assign i j => (writeRec s st.1 i (recAt s st.1 j), st.2)
  | .save i => (st.1, st.2 ++ [recAt s st.1 i])
  | .restore i t => (writeRec s st.1 i (st.2.getD t []), st.2)

def execBytes (s : Nat) (ops : List SortOp) (buf : Buf) : Buf × List (List Nat) :=
  ops.foldl (stepBytes s) (buf, [])

/-- the same operations on an abstract array of records (index ↦ record) -/
def stepRecs (st : (Nat → List Nat) × List (List Nat)) : SortOp → (Nat → List Nat) × List (List Nat)
  | .swap i j => (fun k => if k = i then st.1 j else if k = j then st.1 i else st.1 k, st.2)
  | .assign i j => (fun k => if k = i then st.1 j else st.1 k, st.2)
  | .save i => (st.1, st.2 ++ [st.1 i])
  | .restore i t => (fun k => if k = i then st.2.getD t [] else st.1 k, st.2)

def execRecs (ops : List SortOp) (a : Nat → List Nat) : (Nat → List Nat) × List (List Nat) :=
  ops.foldl stepRecs (a, [])

/-- all record indices an operation touches are inside the block of `n` records, and a restored
temporary exists -/
def opValid (n : Nat) (ntemps : Nat) : SortOp → Bool
  | .swap i j => decide (i < n) && decide (j < n)
  | .assign i j => decide (i < n) && decide (j < n)
  | .save i => decide (i < n)
  | .restore i t => decide (i < n) && decide (t < ntemps)

/-- validity of a whole sequence (the number of temporaries grows with every `save`) -/
def opsValid (n : Nat) : Nat → List SortOp → Bool
  | _, [] => true
  | nt, op :: ops =>
    opValid n nt op && opsValid n (match op with | .save _ => nt + 1 | _ => nt) ops

/-- the records of a buffer -/
def recsOf (s n : Nat) (buf : Buf) : List (List Nat) := (List.range n).map (recAt s buf)

/-! ### the temp file -/

/-- a chain block: its memory (`block_size` bytes) and `ValidSize()` -/
structure Block where
  mem : Buf
  valid : Nat
  deriving Repr, DecidableEq

/-- `WriteAndRecycle::Run` (io.cc:60-66): append `ValidSize()` bytes of every block -/
def writeAndRecycle (file : Buf) (blocks : List Block) : Buf :=
  blocks.foldl (fun f b => f ++ b.mem.take b.valid) file

/-- the seeded mutant m8: writes `block_size` bytes of every non-empty block -/
def writeAndRecycleM8 (file : Buf) (blocks : List Block) : Buf :=
  blocks.foldl (fun f b => f ++ (if b.valid = 0 then [] else b.mem)) file

/-- what `BlockSorter::Run` logs: `ValidSize()` of every block, in bytes -/
def blockSorterLog (blocks : List Block) : List Nat := blocks.map (·.valid)

/-- read back every run at `(TotalOffset(), NextSize())` from the byte file -/
def readRunsBytes (file : Buf) (lens : List Nat) : Option (List Buf) :=
  match offsetsEncode lens with
  | none => none
  | some r =>
    match r.takeAt r.blockCount with
    | none => none
    | some pairs => some (pairs.map (readAt file))

/-- cut a byte string into `s`-byte records -/
def chunk (s : Nat) : Nat → Buf → List (List Nat)
  | 0, _ => []
  | n + 1, buf => buf.take s :: chunk s n (buf.drop s)

/-- the records of a byte string whose length is a multiple of `s` -/
def recordsOf (s : Nat) (buf : Buf) : List (List Nat) := chunk s (buf.length / s) buf

/-- the bytes of a list of records -/
def bytesOf (recs : List (List Nat)) : Buf := recs.flatten

/-- `SizedSort` of the valid part of a block, as a function on bytes: the records in sorted order.
(That every `std::sort` run — any sequence of byte-wise record swaps and copies whose abstract
result is a sorted permutation — produces such a buffer is `sizedSort_bytes`.) -/
def sizedSortBytes (s : Nat) (lt : List Nat → List Nat → Bool) (bytes : Buf) : Buf :=
  bytesOf (blockSort lt (recordsOf s bytes))

/-- `BlockSorter::Run` on one block: log `ValidSize()`, sort the valid part in place -/
def sortBlock (s : Nat) (lt : List Nat → List Nat → Bool) (b : Block) : Block :=
  { b with mem := sizedSortBytes s lt (b.mem.take b.valid) ++ b.mem.drop b.valid }

/-- the runs (as records) found in the data file after `BlockSorter >> WriteAndRecycle`:
byte-level blocks are sorted in place, their valid bytes appended to the temp file, the valid sizes
logged in bytes, and each run read back at `(TotalOffset(), NextSize())` and cut into records. -/
def afterBlockSorterBytes (s : Nat) (lt : List Nat → List Nat → Bool) (blocks : List Block) :
    Option (List (List (List Nat))) :=
  (readRunsBytes (writeAndRecycle [] (blocks.map (sortBlock s lt))) (blockSorterLog blocks)).map
    (·.map (recordsOf s))

/-- The whole sort with byte-level chain blocks and a byte-level temp file for the spill; the merge
passes work on the records read back from it.  Output as bytes. -/
def codeSortBytes (s : Nat) (lt : List Nat → List Nat → Bool) (comb : List Nat → List Nat → Option (List Nat))
    (pick : Pick (List Nat)) (cfg : Cfg) (lazyMem : Nat) (blocks : List Block) : Except PlanErr (Buf × Nat × Nat) :=
  match afterBlockSorterBytes s lt blocks with
  | none => .error .offsets
  | some runs =>
    match codeMerge lt comb pick cfg lazyMem runs with
    | .error e => .error e
    | .ok m =>
      match codeFinal lt comb pick cfg lazyMem m.runs with
      | .error e => .error e
      | .ok out => .ok (bytesOf out, m.passes, m.ret)

/-- well-formed chain block: `ValidSize() ≤ block_size` and a whole number of records -/
def Block.wf (s : Nat) (b : Block) : Prop := b.valid ≤ b.mem.length ∧ s ∣ b.valid

/-- the records in the valid part of a block -/
def Block.records (s : Nat) (b : Block) : List (List Nat) := recordsOf s (b.mem.take b.valid)

/-- A `Stream` writing `bytes` record by record into chain blocks of `cap` bytes (stream.hh): a
block is passed on when it is full; `Poison` passes the current block with `ValidSize` = what it
holds (its memory beyond that is whatever was there: `pad`).  Fuel ≥ number of blocks. -/
def streamToBlocks (cap : Nat) (pad : Buf) : Nat → Buf → List Block
  | 0, bytes => [⟨bytes ++ pad, bytes.length⟩]
  | f + 1, bytes =>
    if 0 < cap ∧ cap ≤ bytes.length then ⟨bytes.take cap, cap⟩ :: streamToBlocks cap pad f (bytes.drop cap)
    else [⟨bytes ++ pad, bytes.length⟩]

/-! ### a queue entry's file buffer at byte level -/

/-- `MergeQueue::Entry` (sort.hh:154-200) in bytes: `buf` = the bytes from `current_` to
`buffer_end_`, `file` = the `remaining_` bytes of the run still on disk. -/
structure ByteEntry where
  buf : Buf
  file : Buf
  deriving Repr, DecidableEq

/-- `Entry::Read`: load `min(per_buffer, remaining_)` bytes; `none` = nothing remains -/
def ByteEntry.read (cap : Nat) (file : Buf) : Option ByteEntry :=
  match file with
  | [] => none
  | _ :: _ => some ⟨file.take cap, file.drop cap⟩

/-- `Current()`: the record at `current_` -/
def ByteEntry.current (E : Nat) (e : ByteEntry) : List Nat := e.buf.take E

/-- `Entry::Increment`: `current_ += entry_size; if (current_ != buffer_end_) return true; return Read(…)`.
The test is an *equality* test: if fewer than `entry_size` bytes are left in the buffer,
`current_` jumps past `buffer_end_` and the entry keeps reading beyond its buffer — undefined
behaviour, `.error ()` here.  This is why `per_buffer` is rounded down to a multiple of the entry
size (sort.hh:269). -/
def ByteEntry.increment (E cap : Nat) (e : ByteEntry) : Except Unit (Option ByteEntry) :=
  if e.buf.length < E then .error ()
  else if e.buf.length = E then .ok (ByteEntry.read cap e.file)
  else .ok (some ⟨e.buf.drop E, e.file⟩)

/-- the record-level view of a byte-level entry -/
def ByteEntry.abs (E : Nat) (e : ByteEntry) : BufEntry (List Nat) :=
  ⟨recordsOf E e.buf, recordsOf E e.file⟩

/-! ### the chain blocks of the sorted output (sizes in records) -/

/-- `MergingReader::ReadSingle` (sort.hh:308-321): full blocks while more than a block remains,
then one block with the rest (1 … cap records).  Fuel ≥ n. -/
def readSingleBlocks (cap : Nat) : Nat → Nat → List Nat
  | 0, n => [n]
  | fuel + 1, n => if cap < n then cap :: readSingleBlocks cap fuel (n - cap) else [n]

/-- the merging `Stream` (stream.hh:36-49): a block is passed on when it is full; `Poison` passes
the current block with what it holds — nothing, if the last record just filled a block. -/
def streamBlocks (cap n : Nat) : List Nat := List.replicate (n / cap) cap ++ [n % cap]

/-- `PRead::Run` (io.cc:29-48) on a file of `n` records: full blocks while more than a block
remains, then the rest if there is any — nothing at all for an empty file -/
def preadBlocks (cap n : Nat) : List Nat := if n = 0 then [] else readSingleBlocks cap n n

/-- `ErsatzPWrite(fd, data, size, off)` for `off` inside or at the end of the file -/
def pwriteAt (file : Buf) (off : Nat) (bytes : Buf) : Buf :=
  file.take off ++ bytes ++ file.drop (off + bytes.length)

/-- `PWrite::Run` (io.cc:68-76): write every block's valid bytes at the running offset, then trim
the file to that offset -/
def pwriteRun (file : Buf) (blocks : List Block) : Buf :=
  let r := blocks.foldl (fun (st : Buf × Nat) b =>
    (pwriteAt st.1 st.2 (b.mem.take b.valid), st.2 + (b.mem.take b.valid).length)) (file, 0)
  r.1.take r.2

/-- blocks the consumer of `Sort::Output` sees: none for empty input (poison only), `ReadSingle`
for a single run, the merging stream otherwise -/
def outputBlocks (cap nruns nout : Nat) : List Nat :=
  if nruns = 0 then [] else if nruns = 1 then readSingleBlocks cap nout nout else streamBlocks cap nout

/-! ### the merge passes at byte level -/

/-- all records an entry delivers until it is exhausted: `Current()`, `Increment()`, … ; `none` =
undefined behaviour (stepping over `buffer_end_`) or fuel exhausted -/
def drainEntry (E cap : Nat) : Nat → Option ByteEntry → Option (List (List Nat))
  | _, none => some []
  | 0, some _ => none
  | f + 1, some e =>
    match e.increment E cap with
    | .error _ => none
    | .ok r => (drainEntry E cap f r).map (e.current E :: ·)

/-- a run of the data file as the merge sees it: the records a `MergeQueue::Entry` with a
`per_buffer` of `cap` bytes delivers for the byte slice of the run -/
def decodeRun (E cap : Nat) (bytes : Buf) : Option (List (List Nat)) :=
  drainEntry E cap (bytes.length / E + 1) (ByteEntry.read cap bytes)

/-- all or nothing -/
def optAll {β : Type} : List (Option β) → Option (List β)
  | [] => some []
  | none :: _ => none
  | some x :: rest => (optAll rest).map (x :: ·)

/-- The output of a merge pass at byte level: the merged records are written through the pass
chain's `Stream` (blocks of `B` bytes, stale `pad` beyond the valid part of the last block) and
`WriteAndRecycle` into the data file, each merged run is logged with `len · E` bytes, and the next
reader gets each run as the byte slice at `(TotalOffset(), NextSize())`, decoded by a queue entry
with a buffer of `cap` bytes.  (`decodeRun_eq`: the records do not depend on `cap` as long as it is
a positive multiple of `E`, which every `per_buffer` is: `perBuffer_valid`.) -/
def storeRunsBytes (E cap B : Nat) (pad : Buf) (lens : List Nat) (runs : List (List (List Nat))) :
    Option (List (List (List Nat))) :=
  let bytes := (runs.map bytesOf).flatten
  let file := writeAndRecycle [] (streamToBlocks B pad (bytes.length + 1) bytes)
  match readRunsBytes file (lens.map (· * E)) with
  | none => none
  | some rs => optAll (rs.map (decodeRun E cap))

/-- `codePass` with the byte-level file -/
def codePassBytes (lt : List Nat → List Nat → Bool) (comb : List Nat → List Nat → Option (List Nat))
    (pick : Pick (List Nat)) (cfg : Cfg) (pad : Buf) (readingMem : Nat) (runs : List (List (List Nat))) :
    Except PlanErr (List (List (List Nat))) :=
  match runs with
  | [] => .ok []
  | [r] => .ok [r]
  | _ =>
    match codeGroups cfg.entrySize cfg.bufferSize readingMem false runs.length runs with
    | .error e => .error e
    | .ok gs =>
      match storeRunsBytes cfg.entrySize cfg.bufferSize cfg.bufferSize pad
          (gs.map (mergeWritten lt comb pick)) (gs.map (mergeGroup lt comb pick)) with
      | none => .error .offsets
      | some rs => .ok rs

/-- `codeMergeLoop` with the byte-level file in every pass -/
def codeMergeLoopBytes (lt : List Nat → List Nat → Bool) (comb : List Nat → List Nat → Option (List Nat))
    (pick : Pick (List Nat)) (cfg : Cfg) (pad : Buf) (lazyMem : Nat) :
    Nat → List (List (List Nat)) → Nat → Except PlanErr (List (List (List Nat)) × Nat)
  | fuel, runs, n =>
    let lazyArity := max 1 (lazyMem / cfg.bufferSize)
    let size := dataSize cfg runs
    if runs.length ≤ lazyArity ∨ size ≤ lazyMem then .ok (runs, n)
    else
      match fuel with
      | 0 => .error .fuel
      | fuel + 1 =>
        let reading0 := cfg.totalMemory - 2 * cfg.bufferSize
        let reading := if size < reading0 then size else reading0
        match codePassBytes lt comb pick cfg pad reading runs with
        | .error e => .error e
        | .ok runs' => codeMergeLoopBytes lt comb pick cfg pad lazyMem fuel runs' (n + 1)

/-- `Sort::Merge` with the byte-level file in every pass -/
def codeMergeBytes (lt : List Nat → List Nat → Bool) (comb : List Nat → List Nat → Option (List Nat))
    (pick : Pick (List Nat)) (cfg : Cfg) (pad : Buf) (lazyMem : Nat) (runs : List (List (List Nat))) :
    Except PlanErr (MergeResult (List Nat)) :=
  if runs.length ≤ 1 then .ok ⟨runs, 0, 0⟩
  else
    match codeMergeLoopBytes lt comb pick cfg pad lazyMem runs.length runs 0 with
    | .error e => .error e
    | .ok (runs', n) =>
      if runs'.length ≤ 1 then .ok ⟨runs', n, 0⟩
      else .ok ⟨runs', n, min (dataSize cfg runs') (runs'.length * cfg.bufferSize)⟩

/-- The whole sort at byte level: byte blocks sorted in place and spilled (`afterBlockSorterBytes`),
every merge pass through the byte file (`codeMergeBytes`), final lazy merge; output as bytes. -/
def codeSortBytesPasses (lt : List Nat → List Nat → Bool) (comb : List Nat → List Nat → Option (List Nat))
    (pick : Pick (List Nat)) (cfg : Cfg) (pad : Buf) (lazyMem : Nat) (blocks : List Block) :
    Except PlanErr (Buf × Nat × Nat) :=
  match afterBlockSorterBytes cfg.entrySize lt blocks with
  | none => .error .offsets
  | some runs =>
    match codeMergeBytes lt comb pick cfg pad lazyMem runs with
    | .error e => .error e
    | .ok m =>
      match codeFinal lt comb pick cfg lazyMem m.runs with
      | .error e => .error e
      | .ok out => .ok (bytesOf out, m.passes, m.ret)

/-! ### HolePunch -/

/-- `HolePunch(fd, offset, size)`: the bytes in `[offset, offset + size)` read as zero afterwards -/
def holePunch (file : Buf) (off len : Nat) : Buf :=
  file.take off ++ List.replicate (min len (file.length - off)) 0 ++ file.drop (off + len)

/-- `Entry::Read` with its hole punch: the bytes read and the file afterwards.  `page = none`: the
code (`HolePunch(fd, offset_, amount)`); `page = some p`: seeded/C16-8 (punch from the page boundary
below `offset_`, only for reads of at least a page). -/
def readPunch (page : Option Nat) (file : Buf) (off amount : Nat) : Buf × Buf :=
  (readAt file (off, amount),
    match page with
    | none => holePunch file off amount
    | some p => if p ≤ amount then holePunch file (off / p * p) amount else file)

end KV.Sort
