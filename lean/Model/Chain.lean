/-
Models of `util::ThreadPool` (util/thread_pool.hh) and `util::stream::Chain` / `Link` / `Recycler`
(util/stream/chain.hh, chain.cc) at the granularity of whole queue operations: every `PCQueue` is an
atomic bounded FIFO here (what `Model/PCQueue.lean` + `Properties/C17.lean` establish for the real
semaphore/mutex implementation: reads = prefix of writes, occupancy ≤ capacity, a `Produce` blocks iff the
queue is full, a `Consume` blocks iff it is empty).  One step = one whole `Produce`, `Consume`, thread start
or `join`; `step … tid = none` means blocked / finished.  The scheduler is arbitrary.
Core Lean only.
-/
namespace KV.Chain

inductive Item | val (v : Nat) | poison
  deriving DecidableEq, Repr, Inhabited

def Item.isPoison : Item → Bool
  | .poison => true
  | .val _ => false

/-! ## ThreadPool

`ThreadPool(queue_length, workers, …)`; the user thread (tid 0) calls `Produce(r)` for every request and
then runs the destructor: `workers` × `Produce(poison)`, then `Join()` on every worker in order.
Worker `i` is thread `i+1`: `while (1) { in_.Consume(request); if (request == poison_) return; handler(request); }`. -/

inductive WPC | notStarted | running | finished
  deriving DecidableEq, Repr, Inhabited

structure Pool where
  cap      : Nat
  q        : List Item
  /-- main thread: items still to produce (requests, then one poison per worker) -/
  todo     : List Item
  /-- main thread: number of workers already joined -/
  joined   : Nat
  wpc      : List WPC
  /-- per worker: requests handled, in order -/
  handled  : List (List Nat)
  /-- ghost: (worker, item) in the order of the pops -/
  log      : List (Nat × Item)
  deriving Repr

def Pool.init (cap workers : Nat) (requests : List Nat) : Pool :=
  { cap := cap, q := [], todo := requests.map .val ++ List.replicate workers .poison, joined := 0,
    wpc := List.replicate workers .notStarted, handled := List.replicate workers [], log := [] }

def Pool.nworkers (p : Pool) : Nat := p.wpc.length

def Pool.step (p : Pool) (tid : Nat) : Option Pool :=
  match tid with
  | 0 =>
    match p.todo with
    | x :: rest => if p.q.length < p.cap then some { p with q := p.q ++ [x], todo := rest } else none
    | [] =>
      if p.joined < p.wpc.length then
        match p.wpc[p.joined]? with
        | some .finished => some { p with joined := p.joined + 1 }
        | _ => none
      else none
  | i + 1 =>
    match p.wpc[i]? with
    | some .notStarted => some { p with wpc := p.wpc.set i .running }
    | some .running =>
      match p.q with
      | [] => none
      | .poison :: q' => some { p with q := q', wpc := p.wpc.set i .finished, log := p.log ++ [(i, .poison)] }
      | .val v :: q' =>
        some { p with q := q', handled := p.handled.set i ((p.handled.getD i []) ++ [v]),
                      log := p.log ++ [(i, .val v)] }
    | _ => none

def Pool.enabledSet (p : Pool) : List Nat :=
  (List.range (p.wpc.length + 1)).filter (fun t => (p.step t).isSome)

def Pool.mainDone (p : Pool) : Bool := p.todo.isEmpty && p.joined == p.wpc.length

def Pool.allDone (p : Pool) : Bool := p.mainDone && p.wpc.all (· == .finished)

inductive Pool.Reach (p0 : Pool) : Pool → Prop
  | init : Pool.Reach p0 p0
  | step {p p' : Pool} {t : Nat} : Pool.Reach p0 p → p.step t = some p' → Pool.Reach p0 p'

/-- remaining steps: the termination measure -/
def Pool.measure (p : Pool) : Nat :=
  2 * p.todo.length + p.q.length + (p.wpc.length - p.joined) + p.wpc.countP (· == .notStarted)

/-! ## Chain

`b` blocks, `m ≥ 1` workers added with `>>` (stage 0 is the source: it fills blocks with the values `data`
and then calls `Link::Poison()`; stages `1..m-1` pass every block on after applying `xform`), then
`Chain::Wait()`: `CompleteLoop()` adds the `Recycler` (stage `m`), joins all threads in order, then drains
queue 0 until poison.  Queue `i` (capacity `b`) is the input of stage `i`; stage `i < m` writes queue `i+1`,
the recycler writes queue 0, which `Chain::Start` filled with the `b` blocks.  Thread 0 is the user thread,
stage `i` is thread `i+1`.

Every worker is `for (Link l(position); l; ++l) { body }`; `Link` is modelled operation by operation
(util/stream/chain.cc:105-155), including the `poisoned_` flag that decides whether `~Link` forwards the poison:

  Link::Init        poisoned_ = false; in_->Consume(current_);                               pc `init`
  operator++        out_->Produce(current_);                                                 pc `incProduce`
                    in_->Consume(current_);                                                  pc `incConsume`
                    if (!current_) { poisoned_ = true; out_->Produce(current_); }            pc `incPoison`
  Link::Poison      current_.SetToPoison(); out_->Produce(current_); poisoned_ = true;       pc `poisonCall`
  Link::~Link       if (current_) {message} else if (!poisoned_) out_->Produce(current_);    pc `dtor`
-/

inductive LPC | start | init | incProduce | incConsume | incPoison | poisonCall | dtor | finished
  deriving DecidableEq, Repr, Inhabited

structure Stage where
  pc       : LPC := .start
  /-- `Link::current_` (a default `Block` is null = poison) -/
  cur      : Item := .poison
  /-- `Link::poisoned_` -/
  poisoned : Bool := true
  /-- ghost: everything this stage has consumed / produced, in order -/
  inp      : List Item := []
  out      : List Item := []
  deriving Repr, Inhabited

inductive MPC
  | fill (k : Nat)      -- `Chain::Start`: k blocks still to put into queue 0
  | join (i : Nat)      -- `threads_.clear()`: joining thread i (1-based)
  | drain (i : Nat)     -- `for (i = 0; queues_.front().Consume(); ++i)`
  | aborted             -- "Chain ending without poison."
  | finished
  deriving DecidableEq, Repr, Inhabited

/-- what pass-through worker with thread id `j` does to the content of a block -/
def xform (j : Nat) (c : Nat) : Nat := c * 10 + j

def upd {α : Type} (f : Nat → α) (i : Nat) (v : α) : Nat → α := fun j => if j = i then v else f j

/-- the atomic bounded FIFO that `Properties/C17.lean` (`pcqueue_refines_fifo`) shows the semaphore
implementation to refine: `push` is enabled iff the buffer is not full, `pop` iff it is not empty. -/
def fifoPush {α : Type} (cap : Nat) (buf : List α) (x : α) : Option (List α) :=
  if buf.length < cap then some (buf ++ [x]) else none

def fifoPop {α : Type} (buf : List α) : Option (α × List α) :=
  match buf with
  | [] => none
  | x :: rest => some (x, rest)

structure Chain where
  b       : Nat
  /-- stages `0..m`; stage `m` is the recycler -/
  m       : Nat
  data    : List Nat
  q       : Nat → List Item
  main    : MPC
  st      : Nat → Stage
  /-- ghost: what `Chain::Wait` has consumed from queue 0 -/
  drained : List Item
  /-- the loop body of pass-through stage `i` (`1 ≤ i < m`) as a function of everything the stage has received
  so far and the content of the current block: any deterministic, possibly STATEFUL, stream transducer -/
  tr      : Nat → List Item → Nat → Nat := fun i _ v => xform (i + 1) v

def Chain.init (b m : Nat) (data : List Nat) : Chain :=
  { b := b, m := m, data := data, q := fun _ => [], main := .fill b, st := fun _ => {}, drained := [] }

/-- a chain whose pass-through stages run the given transducers -/
def Chain.initT (b m : Nat) (data : List Nat) (tr : Nat → List Item → Nat → Nat) : Chain :=
  { Chain.init b m data with tr := tr }

/-- loop body of stage `i` on a block with content `v` after having received `hist`: `some v'` = pass the block on
with content `v'`, `none` = call `Link::Poison()` and leave the loop -/
def Chain.body (c : Chain) (i : Nat) (hist : List Item) (v : Nat) : Option Nat :=
  if i = 0 then c.data[hist.length]?
  else if i = c.m then some v
  else some (c.tr i hist v)

/-- `Link::~Link` -/
def exitLoop (s : Stage) : Stage :=
  match s.cur with
  | .val _ => { s with pc := .finished }
  | .poison => if s.poisoned then { s with pc := .finished } else { s with pc := .dtor }

/-- the loop condition `l` (operator bool) followed by the body -/
def Chain.loopTest (c : Chain) (i : Nat) (hist : List Item) (s : Stage) : Stage :=
  match s.cur with
  | .val v =>
    match c.body i hist v with
    | some v' => { s with cur := .val v', pc := .incProduce }
    | none => { s with pc := .poisonCall }
  | .poison => exitLoop s

/-- queue written by stage `i` -/
def Chain.outQ (c : Chain) (i : Nat) : Nat := if i = c.m then 0 else i + 1

def Chain.stageStep (c : Chain) (i : Nat) : Option Chain :=
  let s := c.st i
  match s.pc with
  | .start =>
    -- the threads are created by the user thread after `Chain::Start` has filled queue 0
    match c.main with
    | .fill _ => none
    | _ => some { c with st := upd c.st i { s with pc := .init } }
  | .init =>
    match fifoPop (c.q i) with
    | none => none
    | some (x, rest) =>
      let s1 := { s with poisoned := false, cur := x, inp := s.inp ++ [x] }
      some { c with q := upd c.q i rest, st := upd c.st i (c.loopTest i s.inp s1) }
  | .incProduce =>
    match fifoPush c.b (c.q (c.outQ i)) s.cur with
    | none => none
    | some buf =>
      some { c with q := upd c.q (c.outQ i) buf, st := upd c.st i { s with pc := .incConsume, out := s.out ++ [s.cur] } }
  | .incConsume =>
    match fifoPop (c.q i) with
    | none => none
    | some (x, rest) =>
      let s1 := { s with cur := x, inp := s.inp ++ [x] }
      let s2 := match x with
        | .poison => { s1 with poisoned := true, pc := .incPoison }
        | .val _ => c.loopTest i s.inp s1
      some { c with q := upd c.q i rest, st := upd c.st i s2 }
  | .incPoison =>
    match fifoPush c.b (c.q (c.outQ i)) s.cur with
    | none => none
    | some buf =>
      some { c with q := upd c.q (c.outQ i) buf, st := upd c.st i (exitLoop { s with out := s.out ++ [s.cur] }) }
  | .poisonCall =>
    match fifoPush c.b (c.q (c.outQ i)) .poison with
    | none => none
    | some buf =>
      some { c with q := upd c.q (c.outQ i) buf,
                    st := upd c.st i (exitLoop { s with cur := .poison, poisoned := true, out := s.out ++ [.poison] }) }
  | .dtor =>
    match fifoPush c.b (c.q (c.outQ i)) s.cur with
    | none => none
    | some buf =>
      some { c with q := upd c.q (c.outQ i) buf, st := upd c.st i { s with pc := .finished, out := s.out ++ [s.cur] } }
  | .finished => none

def Chain.mainStep (c : Chain) : Option Chain :=
  match c.main with
  | .fill (k + 1) =>
    match fifoPush c.b (c.q 0) (.val 0) with
    | none => none
    | some buf => some { c with q := upd c.q 0 buf, main := if k = 0 then .join 1 else .fill k }
  | .fill 0 => some { c with main := .join 1 }
  | .join i =>
    match (c.st (i - 1)).pc with
    | .finished => some { c with main := if i = c.m + 1 then .drain 0 else .join (i + 1) }
    | _ => none
  | .drain k =>
    match fifoPop (c.q 0) with
    | none => none
    | some (.poison, rest) => some { c with q := upd c.q 0 rest, drained := c.drained ++ [.poison], main := .finished }
    | some (.val v, rest) =>
      some { c with q := upd c.q 0 rest, drained := c.drained ++ [.val v],
                    main := if k = c.b then .aborted else .drain (k + 1) }
  | _ => none

def Chain.step (c : Chain) (tid : Nat) : Option Chain :=
  match tid with
  | 0 => c.mainStep
  | i + 1 => if i ≤ c.m then c.stageStep i else none

def Chain.enabledSet (c : Chain) : List Nat :=
  (List.range (c.m + 2)).filter (fun t => (c.step t).isSome)

def Chain.stagesDone (c : Chain) : Bool := (List.range (c.m + 1)).all (fun i => (c.st i).pc == .finished)

def Chain.allDone (c : Chain) : Bool := c.main == .finished && c.stagesDone

/-- contents of the blocks stage `i` received, in order -/
def Chain.seen (c : Chain) (i : Nat) : List Nat :=
  (c.st i).inp.filterMap fun x => match x with | .val v => some v | .poison => none

inductive Chain.Reach (c0 : Chain) : Chain → Prop
  | init : Chain.Reach c0 c0
  | step {c c' : Chain} {t : Nat} : Chain.Reach c0 c → c.step t = some c' → Chain.Reach c0 c'

/-! ## Stream (util/stream/stream.hh)

A `Stream` iterates over the records of the blocks its `Link` receives.  The blocking behaviour of the `Link` is
covered by the Chain model; here the `Link` is seen sequentially: the current block (`none` = poison; a block =
the list of its valid records, `ValidSize = entry_size * length`), the blocks still to come (the input ends with
the poison), and what has been passed downstream. -/

structure SLink where
  cur      : Option (List Nat)
  rest     : List (List Nat)
  passed   : List (Option (List Nat))
  poisoned : Bool
  deriving Repr, DecidableEq

/-- `Link::Init`: the first `Consume` -/
def SLink.init : List (List Nat) → SLink
  | [] => { cur := none, rest := [], passed := [], poisoned := false }
  | b :: r => { cur := some b, rest := r, passed := [], poisoned := false }

/-- `Link::operator++` (on a non-poison block): pass the block on, take the next; the end of the input is the
poison, which is forwarded at once (`poisoned_ = true`) -/
def SLink.inc (l : SLink) : SLink :=
  match l.rest with
  | [] => { cur := none, rest := [], passed := l.passed ++ [l.cur, none], poisoned := true }
  | b :: r => { cur := some b, rest := r, passed := l.passed ++ [l.cur], poisoned := l.poisoned }

/-- `Link::~Link`: forward the poison unless it has been forwarded -/
def SLink.finish (l : SLink) : List (Option (List Nat)) :=
  if l.poisoned then l.passed else l.passed ++ [none]

structure Stream where
  link : SLink
  /-- `(current_ - block start) / entry_size` and `(end_ - block start) / entry_size` -/
  pos  : Nat
  endp : Nat
  /-- `current_ == NULL` -/
  null : Bool
  deriving Repr, DecidableEq

/-- `for (; block_it_ && !block_it_->ValidSize(); ++block_it_) {}` — skips ALL empty blocks -/
def skipEmpty : Option (List Nat) → List (List Nat) → List (Option (List Nat)) → Bool → SLink
  | some [], b :: r, passed, p => skipEmpty (some b) r (passed ++ [some []]) p
  | some [], [], passed, _ => { cur := none, rest := [], passed := passed ++ [some [], none], poisoned := true }
  | cur, rest, passed, p => { cur := cur, rest := rest, passed := passed, poisoned := p }

/-- `Stream::StartBlock` -/
def startBlock (l : SLink) : Stream :=
  let l' := skipEmpty l.cur l.rest l.passed l.poisoned
  match l'.cur with
  | none => { link := l', pos := 0, endp := 0, null := true }
  | some b => { link := l', pos := 0, endp := b.length, null := false }

/-- `StartBlock` of the change seeded as C17-4: `if (block_it_ && !block_it_->ValidSize()) ++block_it_;` -/
def startBlockOnce (l : SLink) : Stream :=
  let l' := match l.cur with
    | some [] => l.inc
    | _ => l
  match l'.cur with
  | none => { link := l', pos := 0, endp := 0, null := true }
  | some b => { link := l', pos := 0, endp := b.length, null := false }

def Stream.init (blocks : List (List Nat)) : Stream := startBlock (SLink.init blocks)

/-- `*stream`: the record at `current_`; `none` = a read beyond `ValidSize` (or through NULL) -/
def Stream.get (s : Stream) : Option Nat :=
  match s.link.cur with
  | some b => b[s.pos]?
  | none => none

/-- `Stream::operator++` with the given `StartBlock` -/
def Stream.incWith (sb : SLink → Stream) (s : Stream) : Stream :=
  if s.pos + 1 = s.endp then sb s.link.inc else { s with pos := s.pos + 1 }

def Stream.inc (s : Stream) : Stream := s.incWith startBlock

/-- `for (Stream s(position); s; ++s) yield(*s)` with at most `fuel` iterations -/
def Stream.collectWith (sb : SLink → Stream) : Nat → Stream → List (Option Nat) × Stream
  | 0, s => ([], s)
  | f + 1, s =>
    if s.null then ([], s)
    else
      let r := Stream.collectWith sb f (s.incWith sb)
      (s.get :: r.1, r.2)

def Stream.collect (fuel : Nat) (s : Stream) : List (Option Nat) × Stream := Stream.collectWith startBlock fuel s

end KV.Chain
