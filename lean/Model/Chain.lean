/-
Models of `util::ThreadPool` (util/thread_pool.hh) and `util::stream::Chain` / `Link` / `Recycler`
(util/stream/chain.hh, chain.cc) at the granularity of whole queue operations: every `PCQueue` is an
atomic bounded FIFO here (what `Model/PCQueue.lean` + `Properties/C17.lean` establish for the real
semaphore/mutex implementation: reads = prefix of writes, occupancy ≤ capacity, a `Produce` blocks iff the
queue is full, a `Consume` blocks iff it is empty).  One step = one whole `Produce`, `Consume`, thread start
or `join`; `step … tid = none` means blocked / finished.  The scheduler is arbitrary.
Core Lean only.
-/
namespace KV.Chain

inductive Item | val (v : Nat) | poison
  deriving DecidableEq, Repr, Inhabited

def Item.isPoison : Item → Bool
  | .poison => true
  | .val _ => false

/-! ## ThreadPool

`ThreadPool(queue_length, workers, …)`; the user thread (tid 0) calls `Produce(r)` for every request and
then runs the destructor: `workers` × `Produce(poison)`, then `Join()` on every worker in order.
Worker `i` is thread `i+1`: `while (1) { in_.Consume(request); if (request == poison_) return; handler(request); }`. -/

inductive WPC | notStarted | running | finished
  deriving DecidableEq, Repr, Inhabited

structure Pool where
  cap      : Nat
  q        : List Item
  /-- main thread: items still to produce (requests, then one poison per worker) -/
  todo     : List Item
  /-- main thread: number of workers already joined -/
  joined   : Nat
  wpc      : List WPC
  /-- per worker: requests handled, in order -/
  handled  : List (List Nat)
  /-- ghost: (worker, item) in the order of the pops -/
  log      : List (Nat × Item)
  deriving Repr

def Pool.init (cap workers : Nat) (requests : List Nat) : Pool :=
  { cap := cap, q := [], todo := requests.map .val ++ List.replicate workers .poison, joined := 0,
    wpc := List.replicate workers .notStarted, handled := List.replicate workers [], log := [] }

def Pool.nworkers (p : Pool) : Nat := p.wpc.length

def Pool.step (p : Pool) (tid : Nat) : Option Pool :=
  match tid with
  | 0 =>
    match p.todo with
    | x :: rest => if p.q.length < p.cap then some { p with q := p.q ++ [x], todo := rest } else none
    | [] =>
      if p.joined < p.wpc.length then
        match p.wpc[p.joined]? with
        | some .finished => some { p with joined := p.joined + 1 }
        | _ => none
      else none
  | i + 1 =>
    match p.wpc[i]? with
    | some .notStarted => some { p with wpc := p.wpc.set i .running }
    | some .running =>
      match p.q with
      | [] => none
      | .poison :: q' => some { p with q := q', wpc := p.wpc.set i .finished, log := p.log ++ [(i, .poison)] }
      | .val v :: q' =>
        some { p with q := q', handled := p.handled.set i ((p.handled.getD i []) ++ [v]),
                      log := p.log ++ [(i, .val v)] }
    | _ => none

def Pool.enabledSet (p : Pool) : List Nat :=
  (List.range (p.wpc.length + 1)).filter (fun t => (p.step t).isSome)

def Pool.mainDone (p : Pool) : Bool := p.todo.isEmpty && p.joined == p.wpc.length

def Pool.allDone (p : Pool) : Bool := p.mainDone && p.wpc.all (· == .finished)

inductive Pool.Reach (p0 : Pool) : Pool → Prop
  | init : Pool.Reach p0 p0
  | step {p p' : Pool} {t : Nat} : Pool.Reach p0 p → p.step t = some p' → Pool.Reach p0 p'

/-- remaining steps: the termination measure -/
def Pool.measure (p : Pool) : Nat :=
  2 * p.todo.length + p.q.length + (p.wpc.length - p.joined) + p.wpc.countP (· == .notStarted)

/-! ## Chain

`b` blocks, `m ≥ 1` workers added with `>>` (worker 1 is the source: it fills `n` blocks with the values
`data` and then calls `Link::Poison()`; workers `2..m` pass every block on after applying `xform j`), then
`Chain::Wait()`: `CompleteLoop()` adds the `Recycler` (thread `m+1`), joins all threads in order, then drains
queue 0 until poison.  Queue `j` (capacity `b`) connects thread `j` to thread `j+1`; queue 0 is the lead queue
(filled with the `b` blocks by `Chain::Start`) and the output of the recycler.  Thread 0 is the user thread. -/

inductive SPC
  | start
  | consume
  | produce (x : Item) (last : Bool)
  | finished
  deriving DecidableEq, Repr, Inhabited

inductive MPC
  | fill (k : Nat)      -- `Chain::Start`: k blocks still to put into queue 0
  | join (i : Nat)      -- `threads_.clear()`: joining thread i (1-based)
  | drain (i : Nat)     -- `for (i = 0; queues_.front().Consume(); ++i)`
  | aborted             -- "Chain ending without poison."
  | finished
  deriving DecidableEq, Repr, Inhabited

/-- what pass-through worker `j` does to the content of a block -/
def xform (j : Nat) (c : Nat) : Nat := c * 10 + j

structure Chain where
  b      : Nat
  data   : List Nat
  /-- queues 0..m -/
  qs     : List (List Item)
  main   : MPC
  /-- stages 1..m+1 (index i ↦ thread i+1) -/
  spc    : List SPC
  /-- source: number of data blocks sent so far -/
  sent   : Nat
  /-- per stage: contents of the blocks it received, in order -/
  seen   : List (List Nat)
  /-- ghost: everything ever pushed into / popped from each queue -/
  pushed : List (List Item)
  popped : List (List Item)
  deriving Repr

def Chain.init (b m : Nat) (data : List Nat) : Chain :=
  { b := b, data := data, qs := List.replicate (m + 1) [], main := .fill b,
    spc := List.replicate (m + 1) .start, sent := 0, seen := List.replicate (m + 1) [],
    pushed := List.replicate (m + 1) [], popped := List.replicate (m + 1) [] }

def Chain.nstages (c : Chain) : Nat := c.spc.length

def setQ (qs : List (List Item)) (i : Nat) (q : List Item) : List (List Item) := qs.set i q

def Chain.push (c : Chain) (j : Nat) (x : Item) : Chain :=
  { c with qs := c.qs.set j ((c.qs.getD j []) ++ [x]), pushed := c.pushed.set j ((c.pushed.getD j []) ++ [x]) }

def Chain.pop (c : Chain) (j : Nat) (x : Item) (rest : List Item) : Chain :=
  { c with qs := c.qs.set j rest, popped := c.popped.set j ((c.popped.getD j []) ++ [x]) }

/-- stage `i` (0-based; thread `i+1`) reads queue `i` and writes queue `i+1`, the last one writes queue 0 -/
def Chain.outQ (c : Chain) (i : Nat) : Nat := if i + 1 = c.spc.length then 0 else i + 1

/-- reaction of stage `i` to a consumed item: what it will produce next -/
def Chain.react (c : Chain) (i : Nat) (x : Item) : SPC × Nat :=
  match x with
  | .poison => (.produce .poison true, c.sent)
  | .val v =>
    if i = 0 then
      match c.data[c.sent]? with
      | some d => (.produce (.val d) false, c.sent + 1)
      | none => (.produce .poison true, c.sent)
    else if i + 1 = c.spc.length then (.produce (.val 0) false, c.sent)
    else (.produce (.val (xform (i + 1) v)) false, c.sent)

def Chain.step (c : Chain) (tid : Nat) : Option Chain :=
  match tid with
  | 0 =>
    match c.main with
    | .fill (k + 1) =>
      if (c.qs.getD 0 []).length < c.b then
        some { c.push 0 (.val 0) with main := if k = 0 then .join 1 else .fill k }
      else none
    | .fill 0 => some { c with main := .join 1 }
    | .join i =>
      match c.spc[i - 1]? with
      | some .finished => some { c with main := if i = c.spc.length then .drain 0 else .join (i + 1) }
      | _ => none
    | .drain k =>
      match c.qs.getD 0 [] with
      | [] => none
      | .poison :: rest => some { c.pop 0 .poison rest with main := .finished }
      | .val v :: rest =>
        some { c.pop 0 (.val v) rest with main := if k + 1 = c.b + 1 then .aborted else .drain (k + 1) }
    | _ => none
  | i + 1 =>
    match c.spc[i]? with
    | some .start =>
      -- the threads are created by the user thread after `Chain::Start` has filled queue 0
      match c.main with
      | .fill _ => none
      | _ => some { c with spc := c.spc.set i .consume }
    | some .consume =>
      match c.qs.getD i [] with
      | [] => none
      | x :: rest =>
        let c1 := c.pop i x rest
        let (pc, sent) := c.react i x
        let seen := match x with
          | .val v => c.seen.set i ((c.seen.getD i []) ++ [v])
          | .poison => c.seen
        some { c1 with spc := c.spc.set i pc, sent := sent, seen := seen }
    | some (.produce x last) =>
      let j := c.outQ i
      if (c.qs.getD j []).length < c.b then
        some { c.push j x with spc := c.spc.set i (if last then .finished else .consume) }
      else none
    | _ => none

def Chain.enabledSet (c : Chain) : List Nat :=
  (List.range (c.spc.length + 1)).filter (fun t => (c.step t).isSome)

def Chain.allDone (c : Chain) : Bool := c.main == .finished && c.spc.all (· == .finished)

inductive Chain.Reach (c0 : Chain) : Chain → Prop
  | init : Chain.Reach c0 c0
  | step {c c' : Chain} {t : Nat} : Chain.Reach c0 c → c.step t = some c' → Chain.Reach c0 c'

end KV.Chain
