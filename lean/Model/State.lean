import Model.Arpa
/-
lm/state.hh — `State`, `Left`, `ChartState` with `==`, `<`, `Compare`, `hash_value`.
Only `words[0..length)` (resp. `pointers[length-1]`, `full`) take part; everything beyond
`length` is garbage and must not matter.  `memcmp` on little-endian `uint32` words is
byte-wise (not numeric order).  The hash function `H bytes seed` (MurmurHashNative) is a parameter.
-/
namespace KV.State
open KV.Arpa

structure State where
  words : List Word := []
  backoff : List Rat := []
  length : Nat := 0
deriving Repr, DecidableEq, Inhabited

/-- 4 little-endian bytes of a `WordIndex` (uint32) -/
def bytesLE32 (w : Nat) : List Nat := [w % 256, w / 256 % 256, w / 65536 % 256, w / 16777216 % 256]

/-- sign of `memcmp` on two byte strings (lexicographic, unsigned bytes; a proper prefix is smaller —
never happens for equal `length`) -/
def memcmp : List Nat → List Nat → Int
  | [], [] => 0
  | [], _ :: _ => -1
  | _ :: _, [] => 1
  | a :: as, b :: bs => if a < b then -1 else if b < a then 1 else memcmp as bs

/-- the `i`-th word of the fixed-size array (missing = 0, arrays are zero-extended in the model) -/
def State.word (s : State) (i : Nat) : Nat := s.words.getD i 0

/-- the bytes `memcmp`/`MurmurHashNative` look at: `length * sizeof(WordIndex)` bytes of `words` -/
def State.key (s : State) : List Nat := (List.range s.length).flatMap fun i => bytesLE32 (s.word i)

def State.eq (a b : State) : Bool := a.length == b.length && memcmp a.key b.key == 0
def State.compare (a b : State) : Int :=
  if a.length != b.length then (if a.length < b.length then -1 else 1) else memcmp a.key b.key
def State.lt (a b : State) : Bool :=
  if a.length != b.length then a.length < b.length else memcmp a.key b.key < 0
def State.hash (H : List Nat → Nat → Nat) (s : State) (seed : Nat := 0) : Nat := H s.key seed

/-- `ZeroRemaining` -/
def State.zeroRemaining (s : State) : State :=
  { s with words := s.words.take s.length, backoff := s.backoff.take s.length }

structure Left where
  pointers : List Nat := []
  length : Nat := 0
  full : Bool := false
deriving Repr, DecidableEq, Inhabited

def Left.last (l : Left) : Nat := l.pointers.getD (l.length - 1) 0

def Left.eq (a b : Left) : Bool :=
  a.length == b.length && (a.length == 0 || (a.last == b.last && a.full == b.full))
def Left.compare (a b : Left) : Int :=
  if a.length < b.length then -1
  else if a.length > b.length then 1
  else if a.length == 0 then 0
  else if a.last > b.last then 1
  else if a.last < b.last then -1
  else (if a.full then 1 else 0) - (if b.full then 1 else 0)
def Left.lt (a b : Left) : Bool := a.compare b == -1
/-- `hash_value(const Left&)`: Murmur of the two bytes (length, full — `full` only when `length != 0`,
since `==`/`Compare` ignore it for empty left states) seeded with the last pointer (0 if empty) -/
def Left.hash (H : List Nat → Nat → Nat) (l : Left) : Nat :=
  H [l.length % 256, if l.length != 0 && l.full then 1 else 0] (if l.length != 0 then l.last else 0)

/-- `hash_value(const Left&)` as it was before repo patch 61 (hashes `full` unconditionally) -/
def Left.hashOld (H : List Nat → Nat → Nat) (l : Left) : Nat :=
  H [l.length % 256, if l.full then 1 else 0] (if l.length != 0 then l.last else 0)

structure ChartState where
  left : Left := {}
  right : State := {}
deriving Repr, DecidableEq, Inhabited

def ChartState.eq (a b : ChartState) : Bool := a.right.eq b.right && a.left.eq b.left
def ChartState.compare (a b : ChartState) : Int :=
  let l := a.left.compare b.left
  if l != 0 then l else a.right.compare b.right
def ChartState.lt (a b : ChartState) : Bool := a.compare b < 0
def ChartState.hash (H : List Nat → Nat → Nat) (c : ChartState) : Nat := c.right.hash H (c.left.hash H)

def sign (i : Int) : Int := if i < 0 then -1 else if i > 0 then 1 else 0

end KV.State
