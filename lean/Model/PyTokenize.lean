/-
C14 — model of the two tokenisers and the sentence-scoring folds of the Python module
(python/kenlm.pyx, python/score_sentence.cc) and of the void* facade (lm/facade.hh).

Self-contained (core only): the language model is an abstract per-word scoring function, so
nothing here depends on the query-algorithm models.

Bytes are `Nat`s (a byte is `< 256`; the delimiter table lookup of an out-of-range value is
`false`, and Python's `Py_ISSPACE` is false there too, so all theorems hold for every list).
-/
namespace KV.PyTokenize

abbrev Bytes := List Nat

/-! ## util::TokenIter<BoolCharacter, /*SkipEmpty=*/true>  (util/tokenize_piece.hh) -/

/-- `BoolCharacter::Find`'s test `delimiter_[static_cast<unsigned char>(*i)]` -/
def isDelim (tbl : List Bool) (b : Nat) : Bool := tbl.getD b false

/-- `BoolCharacter::Find(in)`: the bytes before the first delimiter, and — when a delimiter
was found — the bytes after it (`none` = `found.data() == in.data() + in.size()`). -/
def find (p : Nat → Bool) : Bytes → Bytes × Option Bytes
  | [] => ([], none)
  | b :: bs => if p b then ([], some bs) else ((b :: (find p bs).1), (find p bs).2)

/-- measure for the two loops: a null `after_` is 0, a non-null one is its size + 1 -/
def meas : Option Bytes → Nat
  | none => 0
  | some a => a.length + 1

theorem find_meas (p : Nat → Bool) (s : Bytes) : meas (find p s).2 < meas (some s) := by
  induction s with
  | nil => simp [find, meas]
  | cons b bs ih =>
    unfold find
    split
    · simp [meas]
    · simp only [meas] at ih ⊢
      cases h : (find p bs).2 with
      | none => simp
      | some r => rw [h] at ih; simp at ih ⊢; omega

/-- iterator state: `current_` and `after_`; `none` is a null `data()` pointer -/
structure Iter where
  current : Option Bytes
  after : Option Bytes
deriving Repr, DecidableEq

/-- `TokenIter::operator++` with `SkipEmpty = true`:
```
do { found = Find(after_); current_ = [after_.begin, found);
     after_ = (found at end) ? NULL : after found;
} while (current_.data() && current_.empty());
```
On a null `after_`, `Find` returns `(NULL+0, 0)`, so `current_` becomes null and the loop stops. -/
def advance (p : Nat → Bool) : Option Bytes → Iter
  | none => ⟨none, none⟩
  | some a =>
    if (find p a).1.isEmpty then advance p (find p a).2 else ⟨some (find p a).1, (find p a).2⟩
termination_by a => meas a
decreasing_by exact find_meas p a

theorem advance_meas (p : Nat → Bool) (a : Option Bytes) (tok : Bytes) (h : (advance p a).current = some tok) :
    meas (advance p a).after < meas a := by
  induction a using advance.induct p with
  | case1 => simp [advance] at h
  | case2 a hemp ih =>
    rw [advance, if_pos hemp] at h ⊢
    exact Nat.lt_trans (ih h) (find_meas p a)
  | case3 a hemp =>
    rw [advance, if_neg hemp]
    exact find_meas p a

/-- the tokens visited by `for (TokenIter i(str, delims); i; ++i)` where the constructor has
set `after_ = str` and performs the first `++`. -/
def collect (p : Nat → Bool) (after : Option Bytes) : List Bytes :=
  match h : (advance p after).current with
  | none => []
  | some tok => tok :: collect p (advance p after).after
termination_by meas after
decreasing_by exact advance_meas p after tok h

/-- `StringPiece(const char*)`: `strlen` — the bytes up to the first NUL -/
def truncNul (s : Bytes) : Bytes := s.takeWhile (· != 0)

/-- tokens seen by `lm::base::ScoreSentence(model, const char *sentence)` -/
def splitSpaces (tbl : List Bool) (s : Bytes) : List Bytes :=
  collect (isDelim tbl) (some (truncNul s))

/-! ## Python `bytes.split()`  (CPython stringlib `split_whitespace`) -/

/-- `Py_ISSPACE(c)` for a byte: `' \t\n\v\f\r'` -/
def pySpace (b : Nat) : Bool := b == 32 || (9 ≤ b && b ≤ 13)

theorem length_dropWhile_le (q : Nat → Bool) (s : Bytes) : (s.dropWhile q).length ≤ s.length := by
  induction s with
  | nil => simp
  | cons b bs ih => simp only [List.dropWhile]; split <;> simp <;> omega

/-- ```
while (1) { while (i < len && ISSPACE(s[i])) i++;
            if (i == len) break;
            j = i; i++;
            while (i < len && !ISSPACE(s[i])) i++;
            append(s[j:i]); }
``` -/
def pySplit (s : Bytes) : List Bytes :=
  match h : s.dropWhile pySpace with
  | [] => []
  | b :: bs => (b :: bs.takeWhile (fun c => !pySpace c)) :: pySplit (bs.dropWhile (fun c => !pySpace c))
termination_by s.length
decreasing_by
  have h1 := length_dropWhile_le pySpace s
  have h2 := length_dropWhile_le (fun c => !pySpace c) bs
  rw [h] at h1; simp at h1; omega

/-! ## bin/query's reader (util/file_piece.hh, lm/ngram_query.hh) -/

/-- `FilePiece::ReadWordSameLine(word, kSpaces)` on the unread bytes: skips delimiters other than `'\n'`;
at `'\n'` or end of input returns `none` (the `'\n'` stays unread); otherwise consumes and returns the bytes up
to the next delimiter (or EOF), leaving the delimiter unread. -/
def readWordSameLine (p : Nat → Bool) : Bytes → Option (Bytes × Bytes)
  | [] => none
  | b :: bs =>
    if p b then (if b == 10 then none else readWordSameLine p bs)
    else some ((b :: bs).takeWhile (fun c => !p c), (b :: bs).dropWhile (fun c => !p c))

theorem readWord_rest_lt (p : Nat → Bool) (s w r : Bytes) (h : readWordSameLine p s = some (w, r)) :
    r.length < s.length := by
  induction s with
  | nil => simp [readWordSameLine] at h
  | cons b bs ih =>
    unfold readWordSameLine at h
    by_cases hb : p b
    · simp only [hb, if_true] at h
      by_cases h10 : (b == 10) = true
      · simp [h10] at h
      · simp only [h10] at h
        have := ih h
        simp; omega
    · simp only [hb, Bool.false_eq_true, if_false, Option.some.injEq, Prod.mk.injEq] at h
      rw [← h.2]
      simp only [List.dropWhile, hb, Bool.not_false]
      have := length_dropWhile_le (fun c => !p c) bs
      simp; omega

/-- the words `lm::ngram::Query` reads from one line (`while (in.ReadWordSameLine(word))`) -/
def queryWords (p : Nat → Bool) (s : Bytes) : List Bytes :=
  match h : readWordSameLine p s with
  | none => []
  | some (w, r) => w :: queryWords p r
termination_by s.length
decreasing_by exact readWord_rest_lt p s w r h

/-! ## the specification all are compared with: split at every delimiter, drop empty pieces -/

/-- split at *every* delimiter (pieces may be empty; always at least one piece) -/
def pieces (p : Nat → Bool) : Bytes → List Bytes
  | [] => [[]]
  | b :: bs =>
    if p b then [] :: pieces p bs
    else match pieces p bs with
      | t :: ts => (b :: t) :: ts
      | [] => [[b]]

/-- maximal runs of non-delimiters -/
def splitSpec (p : Nat → Bool) (s : Bytes) : List Bytes := (pieces p s).filter (fun t => !t.isEmpty)

/-- the sentence rebuilt from a token list with single delimiters -/
def joinWith (d : Nat) : List Bytes → Bytes
  | [] => []
  | [t] => t
  | t :: u :: rest => t ++ d :: joinWith d (u :: rest)

/-! ## the language model seen through the virtual interface -/

/-- `lm::FullScoreReturn` as far as the Python module reads it -/
structure Ret (α : Type) where
  prob : α
  ngramLength : Nat
deriving Repr, DecidableEq

/-- An abstract model: `σ` = state, `α` = log-probability values with the accumulation
operation `add` (float32 `+` in the code: *no algebraic law is assumed*, every fold below
adds in exactly the order the code does). -/
structure LM (σ α : Type) where
  beginState : σ
  nullState : σ
  /-- `Vocabulary::Index(StringPiece)`; `0` is `<unk>` / `NotFound()` -/
  index : Bytes → Nat
  /-- `Vocabulary::EndSentence()` -/
  eos : Nat
  /-- `Model::BaseFullScore(in_state, word, out_state)` -/
  fullScore : σ → Nat → Ret α × σ
  /-- `Model::BaseScore(in_state, word, out_state)` -/
  score : σ → Nat → α × σ
  add : α → α → α
  zero : α

namespace LM
variable {σ α : Type} (M : LM σ α)

/-- the facade law (`ModelFacade::Score` calls `FullScore` and returns `.prob`) -/
def Coherent : Prop := ∀ st w, M.score st w = ((M.fullScore st w).1.prob, (M.fullScore st w).2)

/-- Cython's `self.vocab.Index(word)`: the `.pxd` declares `Index(char*)`, so a Python
`bytes` word is passed as a C string — looked up *up to its first NUL*. -/
def indexC (w : Bytes) : Nat := M.index (truncNul w)

/-- `total += BaseScore(state, w, out); state = out` over a list of word ids -/
def foldScore : σ → α → List Nat → α × σ
  | st, acc, [] => (acc, st)
  | st, acc, w :: ws => foldScore (M.score st w).2 (M.add acc (M.score st w).1) ws

/-- the per-word results of `BaseFullScore` along a list of word ids, and the final state -/
def foldFull : σ → List Nat → List (Ret α × Bool) × σ
  | st, [] => ([], st)
  | st, w :: ws =>
    let r := M.fullScore st w
    let rest := foldFull r.2 ws
    ((r.1, w == 0) :: rest.1, rest.2)

def start (bos : Bool) : σ := if bos then M.beginState else M.nullState

/-- `lm::base::ScoreSentence(model, sentence)` (python/score_sentence.cc): the word ids it scores -/
def fastIds (tbl : List Bool) (s : Bytes) : List Nat := (splitSpaces tbl s).map M.index

def scoreFast (tbl : List Bool) (s : Bytes) : α :=
  let r := M.foldScore M.beginState M.zero (M.fastIds tbl s)
  M.add r.1 (M.score r.2 M.eos).1

/-- word ids of the slow paths: `as_str(sentence).split()` then `vocab.Index(word)` -/
def slowIds (s : Bytes) : List Nat := (pySplit s).map M.indexC

/-- `Model.score` when `not (bos and eos)` (kenlm.pyx) — defined for all four combinations -/
def scoreSlow (s : Bytes) (bos eos : Bool) : α :=
  let r := M.foldScore (M.start bos) M.zero (M.slowIds s)
  if eos then M.add r.1 (M.score r.2 M.eos).1 else r.1

/-- `Model.score(sentence, bos, eos)` -/
def pyScore (tbl : List Bool) (s : Bytes) (bos eos : Bool) : α :=
  if bos && eos then M.scoreFast tbl s else M.scoreSlow s bos eos

/-- `Model.full_scores(sentence, bos, eos)`: `(prob, ngram_length, oov)`;
the `</s>` entry has `oov = False` hard-coded -/
def fullScores (s : Bytes) (bos eos : Bool) : List (Ret α × Bool) :=
  let r := M.foldFull (M.start bos) (M.slowIds s)
  if eos then r.1 ++ [((M.fullScore r.2 M.eos).1, false)] else r.1

/-- left-to-right accumulation `total = 0; for p in probs: total += p` -/
def sumProbs (ps : List α) : α := ps.foldl M.add M.zero

/-- `Model.perplexity(sentence)`: `10.0 ** (-self.score(sentence) / words)`; returned as the
pair (score, words) that determines the exponent -/
def perplexityArgs (tbl : List Bool) (s : Bytes) : α × Nat :=
  (M.pyScore tbl s true true, (pySplit s).length + 1)

/-! ### the stateful API as a client uses it
`BeginSentenceWrite(st)` / `NullContextWrite(st)`, then for each word
`p = BaseScore(st, word, out); st, out = out, st`. `BaseScore(State, str word, State)` converts
the word with `as_str` and passes it as `char*`. -/

def pyBaseScore (st : σ) (w : Bytes) : α × σ := M.score st (M.indexC w)
def pyBaseFullScore (st : σ) (w : Bytes) : (Ret α × Bool) × σ :=
  let r := M.fullScore st (M.indexC w)
  ((r.1, M.indexC w == 0), r.2)

def statefulScores : σ → List Bytes → List α × σ
  | st, [] => ([], st)
  | st, w :: ws =>
    let r := M.pyBaseScore st w
    let rest := statefulScores r.2 ws
    (r.1 :: rest.1, rest.2)

def statefulFull : σ → List Bytes → List (Ret α × Bool) × σ
  | st, [] => ([], st)
  | st, w :: ws =>
    let r := M.pyBaseFullScore st w
    let rest := statefulFull r.2 ws
    (r.1 :: rest.1, rest.2)

/-- the client's total: words of `sentence.split()`, then `</s>` if wanted -/
def statefulTotal (s : Bytes) (bos eos : Bool) : α :=
  let r := M.statefulScores (M.start bos) (pySplit s)
  let t := M.sumProbs r.1
  if eos then M.add t (M.pyBaseScore r.2 [60, 47, 115, 62]).1 else t   -- "</s>"

/-! ### bin/query -/

/-- `lm::ngram::Query` on one line: the typed `FullScore` per word read (looked up with its full length),
from `BeginSentenceState()` plus a final `</s>` when `sentence_context`, else from `NullContextState()`;
the flag is `vocab == NotFound()` -/
def queryFull (tbl : List Bool) (line : Bytes) (ctx : Bool) : List (Ret α × Bool) :=
  let r := M.foldFull (M.start ctx) ((queryWords (isDelim tbl) line).map M.index)
  if ctx then r.1 ++ [((M.fullScore r.2 M.eos).1, M.eos == 0)] else r.1

/-- `float total = 0.0; total += ret.prob;` -/
def queryTotal (tbl : List Bool) (line : Bytes) (ctx : Bool) : α :=
  M.sumProbs ((M.queryFull tbl line ctx).map (·.1.prob))

/-- `word in model` -/
def contains (w : Bytes) : Bool := M.indexC w != 0

end LM

/-! ## lm::base::ModelFacade  (lm/facade.hh): void* states over the typed child class -/

/-- the typed model class (`Child`) -/
structure Typed (σ α : Type) where
  beginState : σ
  nullState : σ
  index : Bytes → Nat
  eos : Nat
  fullScore : σ → Nat → Ret α × σ
  /-- `FullScoreForgotState(context_rbegin, context_rend, new_word, out_state)` -/
  fullScoreForgotState : List Nat → Nat → Ret α × σ
  add : α → α → α
  zero : α

/-- how a `State` lies in raw memory (`reinterpret_cast`); states are POD of `size` bytes -/
structure Layout (σ : Type) where
  size : Nat
  enc : σ → Bytes
  dec : Bytes → σ
  dec_enc : ∀ s, dec (enc s) = s
  enc_len : ∀ s, (enc s).length = size

/-- the untyped object handed out by `LoadVirtual` -/
structure Virtual (α : Type) where
  stateSize : Nat
  beginMemory : Bytes
  nullMemory : Bytes
  index : Bytes → Nat
  eos : Nat
  baseFullScore : Bytes → Nat → Ret α × Bytes
  baseScore : Bytes → Nat → α × Bytes
  baseFullScoreForgotState : List Nat → Nat → Ret α × Bytes
  add : α → α → α
  zero : α

/-- `memcpy(to, from, StateSize())` -/
def memcpyState {α : Type} (V : Virtual α) (src : Bytes) : Bytes := src.take V.stateSize

/-- `ModelFacade<Child,State,Vocabulary>` after `Init(begin_sentence, null_context, vocab, order)`:
`Model(sizeof(State))`, `BaseFullScore` / `BaseFullScoreForgotState` cast and forward,
`Score` = `FullScore(...).prob`, `BaseScore` casts and forwards to `Score`. -/
def facade {σ α : Type} (T : Typed σ α) (L : Layout σ) : Virtual α where
  stateSize := L.size
  beginMemory := L.enc T.beginState
  nullMemory := L.enc T.nullState
  index := T.index
  eos := T.eos
  baseFullScore m w := ((T.fullScore (L.dec m) w).1, L.enc (T.fullScore (L.dec m) w).2)
  baseScore m w := ((T.fullScore (L.dec m) w).1.prob, L.enc (T.fullScore (L.dec m) w).2)
  baseFullScoreForgotState ctx w := ((T.fullScoreForgotState ctx w).1, L.enc (T.fullScoreForgotState ctx w).2)
  add := T.add
  zero := T.zero

/-- the virtual object as the Python module uses it (states are raw memory,
`BeginSentenceWrite`/`NullContextWrite` are `memcpy`s of `StateSize()` bytes) -/
def Virtual.toLM {α : Type} (V : Virtual α) : LM Bytes α where
  beginState := memcpyState V V.beginMemory
  nullState := memcpyState V V.nullMemory
  index := V.index
  eos := V.eos
  fullScore := V.baseFullScore
  score := V.baseScore
  add := V.add
  zero := V.zero

/-- the typed class used directly (`Score` is the facade's default) -/
def Typed.toLM {σ α : Type} (T : Typed σ α) : LM σ α where
  beginState := T.beginState
  nullState := T.nullState
  index := T.index
  eos := T.eos
  fullScore := T.fullScore
  score st w := ((T.fullScore st w).1.prob, (T.fullScore st w).2)
  add := T.add
  zero := T.zero

/-! ## the free model used by the driver: the state is the whole history, a "probability" is
the list of (context, word) queries made — so a fold's value *is* its structure. -/

/-- injective code of a byte string as a word id ≥ 1 (0 stays `<unk>`-free; `</s>` is id 0 here
only in the sense of "not produced by `index`") -/
def codeWord (w : Bytes) : Nat := w.foldl (fun acc b => acc * 256 + b % 256) 1

/-- inverse of `codeWord` on its image (fuel = the number itself suffices) -/
def decodeWord (n : Nat) : Bytes :=
  let rec go : Nat → Nat → Bytes → Bytes
    | 0, _, acc => acc
    | fuel+1, n, acc => if n ≤ 1 then acc else go fuel (n / 256) ((n % 256) :: acc)
  go n n []

/-- one recorded query: start-kind/history marker and the word id -/
abbrev Trace := List (List Nat × Nat)

def freeLM : LM (List Nat) Trace where
  beginState := [1]        -- history marker "B"
  nullState := [2]         -- history marker "N"
  index := codeWord
  eos := 0
  fullScore st w := (⟨[(st, w)], st.length⟩, w :: st)
  score st w := ([(st, w)], w :: st)
  add := (· ++ ·)
  zero := []

end KV.PyTokenize
