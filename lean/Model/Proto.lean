/-
Line-protocol helpers shared by all drivers (Mathlib-free).
A driver reads one operation per line from stdin and prints one canonical result line.
-/
namespace KV.Proto

def words (line : String) : List String :=
  (line.trimAscii.toString.splitOn " ").filter (· ≠ "")

def hexDigit (c : Char) : Option Nat :=
  if '0' ≤ c ∧ c ≤ '9' then some (c.toNat - '0'.toNat)
  else if 'a' ≤ c ∧ c ≤ 'f' then some (c.toNat - 'a'.toNat + 10)
  else if 'A' ≤ c ∧ c ≤ 'F' then some (c.toNat - 'A'.toNat + 10)
  else none

/-- bytes from a hex string "0a1b…" -/
def hexToBytes (s : String) : Option (List Nat) :=
  let rec go : List Char → List Nat → Option (List Nat)
    | [], acc => some acc.reverse
    | [_], _ => none
    | a :: b :: rest, acc =>
      match hexDigit a, hexDigit b with
      | some x, some y => go rest ((x * 16 + y) :: acc)
      | _, _ => none
  go s.toList []

def nibble (n : Nat) : Char :=
  if n < 10 then Char.ofNat ('0'.toNat + n) else Char.ofNat ('a'.toNat + n - 10)

def bytesToHex (bs : List Nat) : String :=
  String.ofList (bs.flatMap fun b => [nibble (b / 16 % 16), nibble (b % 16)])

/-- little-endian bytes → Nat -/
def leToNat (bs : List Nat) : Nat := bs.foldr (fun b acc => b % 256 + 256 * acc) 0

/-- first `n` little-endian bytes of a Nat -/
def natToLe (m : Nat) : Nat → List Nat
  | 0 => []
  | n+1 => (m % 256) :: natToLe (m / 256) n

partial def loop {σ : Type} (h : IO.FS.Stream) (st : σ) (step : σ → String → σ × String) : IO Unit := do
  let line ← h.getLine
  if line.isEmpty then return ()
  let (st', out) := step st line
  IO.println out
  loop h st' step

def runDriver {σ : Type} (init : σ) (step : σ → String → σ × String) : IO Unit := do
  let stdin ← IO.getStdin
  loop stdin init step

end KV.Proto
