import Model.Arpa
import Model.Score
import Model.Probing
import Model.ProbingLM
/-!
L2a builder — `HashedSearch::InitializeFromARPA` (lm/search_hashed.cc): `Read1Grams` (+ the sign fix cdeb133),
`ReadNGrams` for n ≥ 2 line by line in file order (`Insert`, `FindLower`, `AdjustLower`, `MarkLower`, the
`activate` callbacks), then the missing-`<unk>` fix-up of `GenericModel::InitializeFromARPA` (lm/model.cc, incl.
07f95c1).  On top of `Model/Probing.lean` tables; the value stored in a table is an index into the order's
payload list (the `Weights` record of the entry), so the in-place updates through `iter->value` pointers
become payload updates.  `rest = true` is `RestProbingModel` with `REST_MAX` (`MaxRestBuild`), `false` is
`ProbingModel` (`NoRestBuild`).  The word-hash combiner is a parameter (the code: `ProbingLM.combineReal`).
-/
namespace KV.ProbingBuild
open KV.Arpa KV.Score KV.ProbingLM

/-- a stored `ProbBackoff` / `RestWeights`: the float `prob` as sign bit + magnitude (the sign bit means
"does not extend left"), the back-off with its `HasExtension` bit (`+0.0` vs `-0.0`), and `rest` -/
structure W where
  mag : Rat
  neg : Bool
  backoff : Rat
  xr : Bool
  rest : Rat
deriving Repr, DecidableEq

/-- an unused slot reads as "absent / does not extend" -/
instance : Inhabited W := ⟨{ mag := 0, neg := true, backoff := 0, xr := false, rest := 0 }⟩

inductive BErr where
  | format        -- "The context of every n-gram should appear as a (n-1)-gram"
  | probingSize   -- ProbingSizeException
  | diverge       -- a probing loop that does not terminate (excluded by the C20 invariant)
deriving Repr, DecidableEq

def BErr.name : BErr → String
  | .format => "format" | .probingSize => "probing-size" | .diverge => "diverge"

/-- one order's probing table with the payload of its entries -/
structure Ord where
  t : KV.Probing.Table
  pay : List W

instance : Inhabited Ord := ⟨{ t := KV.Probing.emptyTable 1, pay := [] }⟩

structure St where
  uni : List W          -- indexed by word id
  mid : List Ord        -- orders 2 .. N-1 (index = order_minus_2)
  longest : Ord

instance : Inhabited St := ⟨{ uni := [], mid := [], longest := default }⟩

/-- where a `Weights*` of `between` points -/
inductive Ref where
  | uni (w : Word)
  | mid (om2 : Nat) (idx : Nat)
deriving Repr, DecidableEq

def St.get (s : St) : Ref → W
  | .uni w => s.uni.getD w default
  | .mid om2 i => (s.mid.getD om2 default).pay.getD i default

def St.modify (s : St) (r : Ref) (f : W → W) : St :=
  match r with
  | .uni w => { s with uni := s.uni.set w (f (s.uni.getD w default)) }
  | .mid om2 i =>
    let o := s.mid.getD om2 default
    { s with mid := s.mid.set om2 { o with pay := o.pay.set i (f (o.pay.getD i default)) } }

/-- `SetExtension(backoff)`: `-0.0` becomes `+0.0` -/
def setExtension (w : W) : W := if w.backoff = 0 then { w with xr := true } else w

/-- `Build::MarkExtends(weights, to)`: clear the sign bit; `MaxRestBuild` also raises `rest`; returns "changed rest" -/
def markExtends (rest : Bool) (w : W) (toRest : Rat) : W × Bool :=
  let w1 := { w with neg := false }
  if rest then
    if w1.rest ≥ toRest then (w1, false) else ({ w1 with rest := toRest }, true)
  else (w1, false)

/-- `Build::SetRest(ids, n, weights)` for `MaxRestBuild`: `rest = prob; SetSign(rest)`; a no-op for `NoRestBuild` -/
def setRest (rest : Bool) (w : W) : W := if rest then { w with rest := -w.mag } else w

/-- store a float value into `prob` (sign bit = sign of the value) -/
def setProb (w : W) (v : Rat) : W := { w with mag := v.abs, neg := decide (v < 0) }

def tableOp {α} (r : KV.Probing.Res α) : Except BErr α :=
  match r with
  | .ok a => .ok a
  | .full _ => .error .probingSize
  | .diverge => .error .diverge

/-- `Find` on an order's table: payload index -/
def Ord.find (o : Ord) (k : Nat) : Except BErr (Option Nat) :=
  match KV.Probing.find id o.t k with
  | none => .error .diverge
  | some r => .ok r

/-- `store.Insert(entry)` -/
def Ord.insert (o : Ord) (k : Nat) (w : W) : Except BErr Ord := do
  let (_, t') ← tableOp (KV.Probing.insert id o.t k o.pay.length)
  .ok { t := t', pay := o.pay ++ [w] }

/-- `FindOrInsert(entry, iter)`: (found, payload index, table) -/
def Ord.findOrInsert (o : Ord) (k : Nat) (w : W) : Except BErr (Bool × Nat × Ord) := do
  let (found, _, v, t') ← tableOp (KV.Probing.findOrInsert id o.t k o.pay.length)
  if found then .ok (true, v, o) else .ok (false, v, { t := t', pay := o.pay ++ [w] })

/-- the blank entry `FindLower` inserts: back-off `kNoExtensionBackoff`, probability set later by `AdjustLower` -/
def blankW : W := { mag := 0, neg := false, backoff := 0, xr := false, rest := 0 }

/-- `FindLower(keys, unigram, middle, between)`: `lower` counts down from `n-3`; fuel = lower + 1 -/
def findLower (combine : Nat → Word → Nat) (g : List Word) : Nat → St → List Ref → Except BErr (St × List Ref)
  | 0, s, between => .ok (s, between ++ [.uni (g.headD 0)])
  | lower+1, s, between => do
    -- index `lower` into middle_: the entry of order lower+2
    let o := s.mid.getD lower default
    let (found, idx, o') ← o.findOrInsert (hashOf combine (g.take (lower + 2))) blankW
    let s' := { s with mid := s.mid.set lower o' }
    let between' := between ++ [.mid lower idx]
    if found then .ok (s', between') else findLower combine g lower s' between'

/-- the blank-probability loop of `AdjustLower` (`for (; basis < n - 1; ++basis, --change)`): `changes` are the blanks
still to be filled, lowest order first -/
def fillBlanks (combine : Nat → Word → Nat) (rest : Bool) (g : List Word) :
    List Ref → Nat → Rat → St → Except BErr St
  | [], _, _, s => .ok s
  | ch :: more, basis, prob, s => do
    -- context of the blank of order basis+1: words g[1..basis]
    let ctx := (g.drop 1).take basis
    let o := s.mid.getD (basis - 2) default
    let r ← o.find (hashOf combine ctx)
    let (s1, prob1) := match r with
      | some i =>
        let s1 := s.modify (.mid (basis - 2) i) setExtension
        (s1, prob + (s1.get (.mid (basis - 2) i)).backoff)
      | none => (s, prob)
    let s2 := s1.modify ch (fun w => setRest rest (setProb w prob1))
    fillBlanks combine rest g more (basis + 1) prob1 s2

/-- the marking loop at the end of `AdjustLower` -/
def markChain (rest : Bool) : List Ref → Rat → St → St
  | [], _, s => s
  | r :: more, longerRest, s =>
    let s' := s.modify r (fun w => (markExtends rest w longerRest).1)
    markChain rest more (s'.get r).rest s'

/-- `AdjustLower(added, build, between, n, vocab_ids, unigrams, middle)` -/
def adjustLower (combine : Nat → Word → Nat) (rest : Bool) (addedRest : Rat) (g : List Word) (n : Nat)
    (between : List Ref) (s : St) : Except BErr St := do
  match between with
  | [] => .ok s
  | [r] => .ok (s.modify r (fun w => (markExtends rest w addedRest).1))
  | _ =>
    let basisRef := between.getLastD (.uni 0)
    let prob : Rat := -(s.get basisRef).mag
    let basis := n - between.length
    -- the blanks to fill, lowest order first (`--change` walks `between` backwards, skipping the basis)
    let changes := (between.dropLast).reverse
    let (s1, prob1, changes1, basis1) ←
      if basis == 1 then
        match changes with
        | [] => .ok (s, prob, changes, basis)
        | ch :: more =>
          -- hallucinate a bigram from the unigram's back-off and the unigram probability
          let s1 := s.modify (.uni (g.getD 1 0)) setExtension
          let p1 := prob + (s1.get (.uni (g.getD 1 0))).backoff
          let s2 := s1.modify ch (fun w => setRest rest (setProb w p1))
          (.ok (s2, p1, more, 2) : Except BErr (St × Rat × List Ref × Nat))
      else .ok (s, prob, changes, basis)
    let s2 ← fillBlanks combine rest g changes1 basis1 prob1 s1
    .ok (markChain rest between addedRest s2)

/-- `MarkLower` (only `MaxRestBuild::kMarkEvenLower`): keep raising `rest` of the lower-order suffixes -/
def markLower (combine : Nat → Word → Nat) (g : List Word) (longerRest : Rat) : Nat → St → Except BErr St
  | 0, s => .ok s
  | 1, s => .ok (s.modify (.uni (g.headD 0)) (fun w => (markExtends true w longerRest).1))
  | evenLower+2, s => do
    -- middle[evenLower] holds order evenLower+2
    let o := s.mid.getD evenLower default
    match ← o.find (hashOf combine (g.take (evenLower + 2))) with
    | none => .error .diverge       -- UnsafeMutableMustFind: the entry exists by construction
    | some i =>
      let r := markExtends true (s.get (.mid evenLower i)) longerRest
      let s' := s.modify (.mid evenLower i) (fun _ => r.1)
      if r.2 then markLower combine g longerRest (evenLower + 1) s' else .ok s'

/-- `activate(vocab_ids, n)`: `ActivateUnigram` (n = 2) / `ActivateLowerMiddle` (n > 2) -/
def activate (combine : Nat → Word → Nat) (g : List Word) (n : Nat) (s : St) : Except BErr St := do
  if n == 2 then .ok (s.modify (.uni (g.getD 1 0)) setExtension)
  else
    let o := s.mid.getD (n - 3) default
    match ← o.find (hashOf combine (g.drop 1)) with
    | none => .error .format
    | some i => .ok (s.modify (.mid (n - 3) i) setExtension)

/-- the `Weights` read from one n-gram line (`ReadNGram` + `SetRest` + `util::SetSign(prob)`) -/
def lineW (e : Entry) : W :=
  { mag := e.prob.abs, neg := true, backoff := e.backoff, xr := decide (e.backoff ≠ 0), rest := -e.prob.abs }

/-- one line of `ReadNGrams` for order `n ≥ 2`; `g` reversed (newest word first), `top` = highest order -/
def addLine (combine : Nat → Word → Nat) (rest : Bool) (order : Nat) (s : St) (g : List Word) (e : Entry) : Except BErr St := do
  let n := g.length
  let w : W := lineW e
  let key := hashOf combine g
  let s1 ←
    if n == order then do
      let o ← s.longest.insert key w
      .ok { s with longest := o }
    else do
      let o ← (s.mid.getD (n - 2) default).insert key w
      .ok { s with mid := s.mid.set (n - 2) o }
  let (s2, between) ← findLower combine g (n - 2) s1 []
  let s3 ← adjustLower combine rest w.rest g n between s2
  let s4 ← if rest then markLower combine g (s3.get (between.getLastD (.uni 0))).rest (n - between.length - 1) s3 else .ok s3
  activate combine g n s4

/-- `Read1Grams` + `SetSign` on every unigram (cdeb133); a missing `<unk>` occupies slot 0 as zeroed memory
(`+0.0` back-off, sign set by the loop) until the fix-up -/
def initUni (a : Arpa) (nWords : Nat) : List W :=
  -- `ApplyBuild` calls `SetRest` for ids `0 .. counts[0]-1` only (`counts[0]` = number of unigram lines): when `<unk>` is
  -- missing the ids run up to `counts[0]`, so the last word keeps `rest = 0` (zeroed memory).  Mirrored as it is.
  let counts0 := (a.entries.filter fun p => p.1.length == 1).length - (if a.unkHallucinated then 1 else 0)
  (List.range nWords).map fun w =>
    match a.gram [w] with
    | some e =>
      if w == 0 && a.unkHallucinated then { mag := 0, neg := true, backoff := 0, xr := true, rest := 0 }
      else { mag := e.prob.abs, neg := true, backoff := e.backoff, xr := decide (e.backoff ≠ 0),
             rest := if w < counts0 then -e.prob.abs else 0 }
    | none => { mag := 0, neg := true, backoff := 0, xr := true, rest := 0 }

/-- the fix-up in `GenericModel::InitializeFromARPA` when `<unk>` was not in the file (incl. 07f95c1) -/
def fixUnk (a : Arpa) (unkMissing : Rat) (s : St) : St :=
  if a.unkHallucinated then
    s.modify (.uni 0) (fun w => { w with backoff := 0, xr := true, mag := unkMissing.abs, neg := w.neg })
  else s

def emptyOrd (buckets : Nat) : Ord := { t := KV.Probing.emptyTable buckets, pay := [] }

/-- `HashedSearch::InitializeFromARPA` + the `<unk>` fix-up.  `buckets` = bucket count of orders 2..N
(`max(count+1, multiplier*count)`, computed by the caller as the code does in float). -/
def build (combine : Nat → Word → Nat) (rest : Bool) (a : Arpa) (nWords : Nat) (buckets : List Nat) (unkMissing : Rat := -100) :
    Except BErr St := do
  let s0 : St := { uni := initUni a nWords,
                   mid := (List.range (a.order - 2)).map fun i => emptyOrd (buckets.getD i 1),
                   longest := emptyOrd (buckets.getD (a.order - 2) 1) }
  let lines := a.entries.filter fun p => p.1.length ≥ 2
  let s ← lines.foldlM (fun s p => addLine combine rest a.order s p.1 p.2) s0
  .ok (fixUnk a unkMissing s)

/-! ### the search over the built structure -/

def wFound (rest : Bool) (w : W) : Found :=
  { prob := -w.mag, backoff := w.backoff, extendsRight := w.xr, independentLeft := w.neg,
    rest := if rest then w.rest else -w.mag }

/-- the built structure as the probing LM of `Model/ProbingLM.lean` -/
def toPLM (rest : Bool) (order : Nat) (s : St) : PLM where
  order := order
  uni w := wFound rest (s.uni.getD w default)
  middle om2 := (s.mid.getD om2 default).t
  payload om2 i := wFound rest ((s.mid.getD om2 default).pay.getD i default)
  longest := s.longest.t
  longestProb i := -(s.longest.pay.getD i default).mag

end KV.ProbingBuild
