import Model.KNSpec
/-!
Well-formedness of a count table (the list of distinct reversed order-`N` n-grams with their
counts that `Spec.estimateFrom` reads) — exactly the facts about the table and the options
from which `Proofs/KNTable.lean` derives the record hypotheses `Norm.TableOK` and hence
normalisation.  Every field is a decidable statement about the table / the thresholds, true
for the table of any non-empty corpus without special symbols; none mentions a probability.

`tableWFb` is the executable checker of the same facts (`tableWFb_iff`), for the driver.
Core only.
-/
namespace KV.KN.Spec

/-- n-grams are reversed (head = newest word), `N = cfg.order`. -/
structure TableWF (cfg : Cfg) (full : Table) : Prop where
  order2 : 2 ≤ cfg.order
  /-- the corpus is not empty -/
  nonempty : full ≠ []
  len : ∀ e ∈ full, e.1.length = cfg.order
  /-- one row per n-gram -/
  nodup : (full.map (·.1)).Nodup
  pos : ∀ e ∈ full, 1 ≤ e.2
  /-- the newest word is never `<s>` or `<unk>` -/
  headOK : ∀ e ∈ full, e.1.head? ≠ some bos ∧ e.1.head? ≠ some unk
  /-- the second-newest word is never `<unk>` or `</s>` (no special symbols inside the corpus;
  nothing follows `</s>`) -/
  second : ∀ e ∈ full, e.1[1]? ≠ some unk ∧ e.1[1]? ≠ some eos
  /-- `<s>` only occurs as a run at the old end: a row whose natural position 1 is not `<s>`
  has no `<s>` except possibly at natural position 0 -/
  topValid : ∀ e ∈ full, e.1.getD (cfg.order - 2) unk ≠ bos → validAt cfg.order e.1 = true
  /-- every occurrence of an n-gram is preceded by an occurrence of its context (sentences are
  padded with `N-1` times `<s>`): for the suffix `k` of length `n+1 ≥ 2` of a row valid at
  `n+1`, unless the context is the bare `<s>`, `c(k) ≤ c(context of k)` -/
  tailDom : ∀ e ∈ full, ∀ n, n < cfg.order → 1 ≤ n → validAt (n + 1) e.1 = true →
    (e.1.take (n + 1)).tail ≠ [bos] →
    trueCount full (e.1.take (n + 1)) ≤ trueCount full (e.1.take (n + 1)).tail
  /-- pruning thresholds are monotone in the order (`ParsePruning` enforces it) -/
  thrMono : ∀ i, i < cfg.order - 1 → cfg.thr i ≤ cfg.thr (i + 1)

/-- executable form of `TableWF` -/
def tableWFb (cfg : Cfg) (full : Table) : Bool :=
  decide (2 ≤ cfg.order)
  && decide (full ≠ [])
  && decide (∀ e ∈ full, e.1.length = cfg.order)
  && decide ((full.map (·.1)).Nodup)
  && decide (∀ e ∈ full, 1 ≤ e.2)
  && decide (∀ e ∈ full, e.1.head? ≠ some bos ∧ e.1.head? ≠ some unk)
  && decide (∀ e ∈ full, e.1[1]? ≠ some unk ∧ e.1[1]? ≠ some eos)
  && decide (∀ e ∈ full, e.1.getD (cfg.order - 2) unk ≠ bos → validAt cfg.order e.1 = true)
  && decide (∀ e ∈ full, ∀ n, n < cfg.order → 1 ≤ n → validAt (n + 1) e.1 = true →
      (e.1.take (n + 1)).tail ≠ [bos] →
      trueCount full (e.1.take (n + 1)) ≤ trueCount full (e.1.take (n + 1)).tail)
  && decide (∀ i, i < cfg.order - 1 → cfg.thr i ≤ cfg.thr (i + 1))

theorem tableWFb_iff (cfg : Cfg) (full : Table) : tableWFb cfg full = true ↔ TableWF cfg full := by
  simp only [tableWFb, Bool.and_eq_true, decide_eq_true_eq]
  constructor
  · rintro ⟨⟨⟨⟨⟨⟨⟨⟨⟨h1, h2⟩, h3⟩, h4⟩, h5⟩, h6⟩, h7⟩, h8⟩, h9⟩, h10⟩
    exact ⟨h1, h2, h3, h4, h5, h6, h7, h8, h9, h10⟩
  · rintro ⟨h1, h2, h3, h4, h5, h6, h7, h8, h9, h10⟩
    exact ⟨⟨⟨⟨⟨⟨⟨⟨⟨h1, h2⟩, h3⟩, h4⟩, h5⟩, h6⟩, h7⟩, h8⟩, h9⟩, h10⟩

theorem tableWFb_sound (cfg : Cfg) (full : Table) (h : tableWFb cfg full = true) : TableWF cfg full :=
  (tableWFb_iff cfg full).mp h

/-- well-formedness of a unigram table (`cfg.order = 1`, rows `([w], c)`) -/
structure TableWF1 (cfg : Cfg) (full : Table) : Prop where
  order1 : cfg.order = 1
  nonempty : full ≠ []
  len : ∀ e ∈ full, e.1.length = 1
  nodup : (full.map (·.1)).Nodup
  pos : ∀ e ∈ full, 1 ≤ e.2
  /-- `<unk>` and `<s>` do not occur in the corpus -/
  headOK : ∀ e ∈ full, e.1 ≠ [unk] ∧ e.1 ≠ [bos]

def tableWF1b (cfg : Cfg) (full : Table) : Bool :=
  decide (cfg.order = 1) && decide (full ≠ []) && decide (∀ e ∈ full, e.1.length = 1)
  && decide ((full.map (·.1)).Nodup) && decide (∀ e ∈ full, 1 ≤ e.2)
  && decide (∀ e ∈ full, e.1 ≠ [unk] ∧ e.1 ≠ [bos])

theorem tableWF1b_iff (cfg : Cfg) (full : Table) : tableWF1b cfg full = true ↔ TableWF1 cfg full := by
  simp only [tableWF1b, Bool.and_eq_true, decide_eq_true_eq]
  constructor
  · rintro ⟨⟨⟨⟨⟨h1, h2⟩, h3⟩, h4⟩, h5⟩, h6⟩
    exact ⟨h1, h2, h3, h4, h5, h6⟩
  · rintro ⟨h1, h2, h3, h4, h5, h6⟩
    exact ⟨⟨⟨⟨⟨h1, h2⟩, h3⟩, h4⟩, h5⟩, h6⟩

theorem tableWF1b_sound (cfg : Cfg) (full : Table) (h : tableWF1b cfg full = true) : TableWF1 cfg full :=
  (tableWF1b_iff cfg full).mp h

/-! ### The table hypotheses in the "corpus" form (they imply `topValid` and `second`) -/

/-- `<s>` occurs only as a run at the old end of a row -/
def BosRun (N : Nat) (g : Gram) : Prop :=
  ∀ i j, i ≤ j → j < N → g[i]? = some bos → g[j]? = some bos

theorem topValid_of_bosRun {N : Nat} {g : Gram} (hl : g.length = N) (h2 : 2 ≤ N) (h : BosRun N g)
    (hg : g.getD (N - 2) unk ≠ bos) : validAt N g = true := by
  simp only [validAt, Bool.not_eq_eq_eq_not, Bool.not_true, List.contains_eq_mem,
    decide_eq_false_iff_not]
  intro hmem
  obtain ⟨i, hi, hib⟩ := List.mem_iff_getElem.mp hmem
  rw [List.length_take] at hi
  rw [List.getElem_take] at hib
  have h1 : g[i]? = some bos := by rw [List.getElem?_eq_getElem (by omega), hib]
  have := h i (N - 2) (by omega) (by omega) h1
  apply hg
  rw [List.getD_eq_getElem?_getD, this]; rfl

theorem second_of {g : Gram} (hu : unk ∉ g) (he : ∀ i, 0 < i → g[i]? ≠ some eos) :
    g[1]? ≠ some unk ∧ g[1]? ≠ some eos := by
  refine ⟨?_, he 1 (by omega)⟩
  intro h
  exact hu (List.mem_of_getElem? h)

end KV.KN.Spec
