import Model.PCQueue
import Model.Chain
/-!
The composed ("product") system: client threads that touch any number of queues only through `Produce` /
`Consume`, running on the STEP-LEVEL `PCQueue` model (semaphores, mutexes, ring, cursors, hook-point program
counters, EINTR), next to the same clients running on atomic bounded FIFOs (`fifoPush` / `fifoPop`).

A client is an arbitrary program over a local state `σ`: in every local state it either calls `Produce(q, v)`,
calls `Consume(q)` (continuing with the value received), takes a local step, waits for another thread's local
state to satisfy a predicate (thread start / `join`), or has stopped.  Core Lean only.
-/
namespace KV.Sys
open KV.PCQueue
open KV.Chain (fifoPush fifoPop upd)

inductive Act (σ : Type)
  | produce (q v : Nat) (k : σ)
  | consume (q : Nat) (k : Nat → σ)
  | tau (k : σ)
  | await (p : Nat) (pred : σ → Bool) (k : σ)
  | stop

structure Prog (σ : Type) where
  act      : Nat → σ → Act σ
  /-- capacity of queue `q` -/
  cap      : Nat → Nat
  nthreads : Nat

/-! ### the atomic system -/

structure AState (σ : Type) where
  q      : Nat → List Nat
  loc    : Nat → σ
  /-- ghost, per queue: (consumer, value) in pop order -/
  popped : Nat → List (Nat × Nat)

def astep {σ : Type} (P : Prog σ) (a : AState σ) (t : Nat) : Option (AState σ) :=
  if t < P.nthreads then
    match P.act t (a.loc t) with
    | .produce q v k =>
      match fifoPush (P.cap q) (a.q q) v with
      | some buf => some { a with q := upd a.q q buf, loc := upd a.loc t k }
      | none => none
    | .consume q k =>
      match fifoPop (a.q q) with
      | some (v, rest) =>
        some { q := upd a.q q rest, loc := upd a.loc t (k v), popped := upd a.popped q (a.popped q ++ [(t, v)]) }
      | none => none
    | .tau k => some { a with loc := upd a.loc t k }
    | .await p pred k => if pred (a.loc p) then some { a with loc := upd a.loc t k } else none
    | .stop => none
  else none

inductive AReach {σ : Type} (P : Prog σ) (a0 : AState σ) : AState σ → Prop
  | init : AReach P a0 a0
  | step {a a' : AState σ} {t : Nat} : AReach P a0 a → astep P a t = some a' → AReach P a0 a'

/-! ### the step-level system -/

inductive Mode (σ : Type)
  | idle
  | inP (q v : Nat) (k : σ)
  | inC (q : Nat) (k : Nat → σ)

structure CState (σ : Type) where
  /-- every queue is a step-level `PCQueue.State`; its thread list has one entry per client thread -/
  qs   : Nat → State
  loc  : Nat → σ
  mode : Nat → Mode σ

def pcOf (s : State) (t : Nat) : PC :=
  match s.threads[t]? with
  | some th => th.pc
  | none => .done

def lastGot (s : State) (t : Nat) : Nat :=
  match s.threads[t]? with
  | some th => th.got.getLastD 0
  | none => 0

/-- entering `Produce(v)`: the thread's entry in this queue starts at `WaitSemaphore(empty_)` -/
def armProd (s : State) (t v : Nat) : State :=
  s.setT t { role := .prod, pc := .wait, items := [v],
             orig := (s.writes.filter (fun x => x.1 == t)).map (·.2) ++ [v] }

/-- entering `Consume()`: the entry starts at `WaitSemaphore(used_)` -/
def armCons (s : State) (t : Nat) : State :=
  s.setT t { role := .cons, pc := .wait, quota := 1, got := (s.reads.filter (fun x => x.1 == t)).map (·.2) }

def cstep {σ : Type} (P : Prog σ) (c : CState σ) (t : Nat) : Option (CState σ) :=
  if t < P.nthreads then
    match c.mode t with
    | .idle =>
      match P.act t (c.loc t) with
      | .produce q v k => some { c with qs := upd c.qs q (armProd (c.qs q) t v), mode := upd c.mode t (.inP q v k) }
      | .consume q k => some { c with qs := upd c.qs q (armCons (c.qs q) t), mode := upd c.mode t (.inC q k) }
      | .tau k => some { c with loc := upd c.loc t k }
      | .await p pred k =>
        match c.mode p with
        | .idle => if pred (c.loc p) then some { c with loc := upd c.loc t k } else none
        | _ => none
      | .stop => none
    | .inP q _ k =>
      if pcOf (c.qs q) t = .done then some { c with loc := upd c.loc t k, mode := upd c.mode t .idle }   -- return
      else match step (c.qs q) t with
        | some s' => some { c with qs := upd c.qs q s' }
        | none => none
    | .inC q k =>
      if pcOf (c.qs q) t = .done then
        some { c with loc := upd c.loc t (k (lastGot (c.qs q) t)), mode := upd c.mode t .idle }           -- return out
      else match step (c.qs q) t with
        | some s' => some { c with qs := upd c.qs q s' }
        | none => none
  else none

/-- a signal interrupts the `sem_wait` of a thread inside `Produce` / `Consume` (EINTR; `WaitSemaphore` retries) -/
def cintr {σ : Type} (c : CState σ) (t : Nat) : Option (CState σ) :=
  match c.mode t with
  | .idle => none
  | .inP q _ _ => (interrupt (c.qs q) t).map fun s' => { c with qs := upd c.qs q s' }
  | .inC q _ => (interrupt (c.qs q) t).map fun s' => { c with qs := upd c.qs q s' }

def cinit {σ : Type} (P : Prog σ) (loc0 : Nat → σ) : CState σ :=
  { qs := fun q => mkInit (P.cap q) (List.replicate P.nthreads []) [], loc := loc0, mode := fun _ => .idle }

def ainit {σ : Type} (loc0 : Nat → σ) : AState σ := { q := fun _ => [], loc := loc0, popped := fun _ => [] }

inductive CReach {σ : Type} (P : Prog σ) (c0 : CState σ) : CState σ → Prop
  | init : CReach P c0 c0
  | step {c c' : CState σ} {t : Nat} : CReach P c0 c → cstep P c t = some c' → CReach P c0 c'
  | intr {c c' : CState σ} {t : Nat} : CReach P c0 c → cintr c t = some c' → CReach P c0 c'

end KV.Sys
