/-
Model of util/probing_hash_table.hh: `ProbingHashTable` (with `DivMod` / `Power2Mod`) and `AutoProbing`.

Slots are a function `Nat → Option Entry` (`none` = the slot holds the invalid key); only the
indices below the bucket count `N` belong to the table.  Keys and values are naturals, the hash
`h : Nat → Nat` is arbitrary.  Inserting the invalid key is outside the contract of the C++ code
and cannot be expressed here (model keys are exactly the non-invalid ones).

Every unbounded C++ loop takes fuel equal to the number of buckets; `none` / `diverge` means
"the C++ loop does not terminate" (proved: with fuel `N` the scan has seen every bucket, see
`Proofs/ProbingScan.lean`, `scan_none_all_other`).
-/
namespace KV.Probing

abbrev Entry := Nat × Nat                      -- key, value
abbrev Slots := Nat → Option Entry

/-- `DivMod::Next`: `if (++it == end) it = begin;` -/
def next (N i : Nat) : Nat := if i + 1 = N then 0 else i + 1
/-- `Power2Mod::Next`: `(it - begin + 1) & mask_` with `mask_ = buckets - 1` -/
def nextP2 (N i : Nat) : Nat := (i + 1) &&& (N - 1)
/-- `DivMod::Ideal`: `hash % buckets_` -/
def ideal (h : Nat → Nat) (N k : Nat) : Nat := h k % N
/-- `Power2Mod::Ideal`: `hash & mask_` -/
def idealP2 (h : Nat → Nat) (N k : Nat) : Nat := h k &&& (N - 1)

def set (s : Slots) (p : Nat) (x : Option Entry) : Slots := fun i => if i = p then x else s i

/-- `std::fill(old_end, end_, invalid)` -/
def clearRange (s : Slots) (a b : Nat) : Slots := fun i => if a ≤ i ∧ i < b then none else s i

inductive Probe where
  | found (p v : Nat)
  | absent (p : Nat)
  deriving DecidableEq, Repr

/-- the loop of `Find` / `FindOrInsert` / `UnsafeMutableFind` starting at bucket `i`;
`nx` is the `Next` of the modulus policy -/
def scanWith (nx : Nat → Nat) (s : Slots) (k : Nat) : (fuel i : Nat) → Option Probe
  | 0, _ => none
  | f+1, i =>
    match s i with
    | none => some (.absent i)
    | some (k', v) => if k' = k then some (.found i v) else scanWith nx s k f (nx i)

/-- the loop of `UncheckedInsert` -/
def firstEmptyWith (nx : Nat → Nat) (s : Slots) : (fuel i : Nat) → Option Nat
  | 0, _ => none
  | f+1, i =>
    match s i with
    | none => some i
    | some _ => firstEmptyWith nx s f (nx i)

abbrev scan (s : Slots) (N k : Nat) := scanWith (next N) s k
abbrev firstEmpty (s : Slots) (N : Nat) := firstEmptyWith (next N) s

/-- `begin_[0 .. buckets_)`, `buckets_`, `entries_` -/
structure Table where
  s : Slots
  N : Nat
  entries : Nat

/-- `N` buckets all holding the invalid key, `entries_ = 0` -/
def emptyTable (N : Nat) : Table := { s := fun _ => none, N := N, entries := 0 }

/-- result of an operation that can throw `ProbingSizeException` (`full`, with the state the
exception leaves behind: `entries_` has already been incremented) or fail to terminate -/
inductive Res (α : Type) where
  | ok (a : α)
  | full (t : Table)
  | diverge

/-- `Find`: `some (some v)` found, `some none` absent, `none` the loop does not terminate -/
def find (h : Nat → Nat) (t : Table) (k : Nat) : Option (Option Nat) :=
  match scan t.s t.N k t.N (ideal h t.N k) with
  | none => none
  | some (.found _ v) => some (some v)
  | some (.absent _) => some none

/-- `Find` with the position (for the correspondence stream) -/
def findPos (h : Nat → Nat) (t : Table) (k : Nat) : Option Probe :=
  scan t.s t.N k t.N (ideal h t.N k)

/-- `UncheckedInsert` -/
def uncheckedInsert (h : Nat → Nat) (t : Table) (k v : Nat) : Option (Nat × Table) :=
  match firstEmpty t.s t.N t.N (ideal h t.N k) with
  | none => none
  | some q => some (q, { t with s := set t.s q (some (k, v)) })

/-- `Insert`: `UTIL_THROW_IF(++entries_ >= buckets_, …); return UncheckedInsert(t);` -/
def insert (h : Nat → Nat) (t : Table) (k v : Nat) : Res (Nat × Table) :=
  let t1 : Table := { t with entries := t.entries + 1 }
  if t1.entries ≥ t1.N then .full t1
  else match uncheckedInsert h t1 k v with
    | none => .diverge
    | some r => .ok r

/-- `FindOrInsert`: (found?, position, value now stored at the position, table) -/
def findOrInsert (h : Nat → Nat) (t : Table) (k v : Nat) : Res (Bool × Nat × Nat × Table) :=
  match scan t.s t.N k t.N (ideal h t.N k) with
  | none => .diverge
  | some (.found p v') => .ok (true, p, v', t)
  | some (.absent p) =>
    let t1 : Table := { t with entries := t.entries + 1 }
    if t1.entries ≥ t1.N then .full t1
    else .ok (false, p, v, { t1 with s := set t.s p (some (k, v)) })

/-! ### `Double` -/

/-- first loop of `Double`: move the maximal occupied prefix (`i` upwards, at most `n` slots
until `old_end`) into the buffer `rolled_over` -/
def rollPrefix (s : Slots) : (n i : Nat) → Slots × List Entry
  | 0, _ => (s, [])
  | n+1, i =>
    match s i with
    | none => (s, [])
    | some e =>
      let r := rollPrefix (set s i none) n (i + 1)
      (r.1, e :: r.2)

/-- second loop of `Double`: for `i` in `[i, i+n)`: take the entry out and `UncheckedInsert` it
under the new bucket count `N'` -/
def reinsert (h : Nat → Nat) (N' : Nat) : (n i : Nat) → Slots → Option Slots
  | 0, _, s => some s
  | n+1, i, s =>
    match s i with
    | none => reinsert h N' n (i + 1) s
    | some (k, v) =>
      match firstEmpty (set s i none) N' N' (ideal h N' k) with
      | none => none
      | some q => reinsert h N' n (i + 1) (set (set s i none) q (some (k, v)))

/-- third loop of `Double`: `UncheckedInsert` every buffered entry -/
def insertAll (h : Nat → Nat) (N' : Nat) : List Entry → Slots → Option Slots
  | [], s => some s
  | (k, v) :: rest, s =>
    match firstEmpty s N' N' (ideal h N' k) with
    | none => none
    | some q => insertAll h N' rest (set s q (some (k, v)))

/-- `Double(new_base, clear_new = true)` (with `clear_new = false` the caller guarantees the
new half already holds the invalid key, which is the same state) -/
def double (h : Nat → Nat) (t : Table) : Option Table :=
  let N' := 2 * t.N
  let s0 := clearRange t.s t.N N'
  let r := rollPrefix s0 t.N 0
  match reinsert h N' t.N 0 r.1 with
  | none => none
  | some s2 =>
    match insertAll h N' r.2 s2 with
    | none => none
    | some s3 => some { s := s3, N := N', entries := t.entries }

/-- `Double` without the rolled-over buffer (the mutation the property text warns about);
used only for the negative example in Properties/C20.lean -/
def doubleNoRoll (h : Nat → Nat) (t : Table) : Option Table :=
  let N' := 2 * t.N
  match reinsert h N' t.N 0 (clearRange t.s t.N N') with
  | none => none
  | some s2 => some { s := s2, N := N', entries := t.entries }

/-! ### `Power2Mod` -/

/-- `Power2Mod::RoundBuckets` on `uint64_t` -/
def roundBuckets (x : Nat) : Nat :=
  let f0 := (x + 2^64 - 1) % 2^64
  let f1 := f0 ||| (f0 >>> 1)
  let f2 := f1 ||| (f1 >>> 2)
  let f3 := f2 ||| (f2 >>> 4)
  let f4 := f3 ||| (f3 >>> 8)
  let f5 := f4 ||| (f4 >>> 16)
  let f6 := f5 ||| (f5 >>> 32)
  (f6 + 1) % 2^64

/-- the test in the constructor of `Power2Mod`: `!buckets || ((buckets - 1) & buckets)` -/
def isPow2 (n : Nat) : Bool := n ≠ 0 && (n - 1) &&& n = 0

/-- the operations again with the `Power2Mod` policy, literally (mask arithmetic) -/
def findPosP2 (h : Nat → Nat) (t : Table) (k : Nat) : Option Probe :=
  scanWith (nextP2 t.N) t.s k t.N (idealP2 h t.N k)

def uncheckedInsertP2 (h : Nat → Nat) (t : Table) (k v : Nat) : Option (Nat × Table) :=
  match firstEmptyWith (nextP2 t.N) t.s t.N (idealP2 h t.N k) with
  | none => none
  | some q => some (q, { t with s := set t.s q (some (k, v)) })

def insertP2 (h : Nat → Nat) (t : Table) (k v : Nat) : Res (Nat × Table) :=
  let t1 : Table := { t with entries := t.entries + 1 }
  if t1.entries ≥ t1.N then .full t1
  else match uncheckedInsertP2 h t1 k v with
    | none => .diverge
    | some r => .ok r

def findOrInsertP2 (h : Nat → Nat) (t : Table) (k v : Nat) : Res (Bool × Nat × Nat × Table) :=
  match scanWith (nextP2 t.N) t.s k t.N (idealP2 h t.N k) with
  | none => .diverge
  | some (.found p v') => .ok (true, p, v', t)
  | some (.absent p) =>
    let t1 : Table := { t with entries := t.entries + 1 }
    if t1.entries ≥ t1.N then .full t1
    else .ok (false, p, v, { t1 with s := set t.s p (some (k, v)) })

/-- `Double` as `ProbingHashTable<…, Power2Mod>` executes it: `mask_ = (mask_ << 1) | 1` and the
mask versions of `Ideal` / `Next` in every `UncheckedInsert` -/
def reinsertP2 (h : Nat → Nat) (N' : Nat) : (n i : Nat) → Slots → Option Slots
  | 0, _, s => some s
  | n+1, i, s =>
    match s i with
    | none => reinsertP2 h N' n (i + 1) s
    | some (k, v) =>
      match firstEmptyWith (nextP2 N') (set s i none) N' (idealP2 h N' k) with
      | none => none
      | some q => reinsertP2 h N' n (i + 1) (set (set s i none) q (some (k, v)))

def insertAllP2 (h : Nat → Nat) (N' : Nat) : List Entry → Slots → Option Slots
  | [], s => some s
  | (k, v) :: rest, s =>
    match firstEmptyWith (nextP2 N') s N' (idealP2 h N' k) with
    | none => none
    | some q => insertAllP2 h N' rest (set s q (some (k, v)))

def doubleP2 (h : Nat → Nat) (t : Table) : Option Table :=
  let mask' := ((t.N - 1) <<< 1) ||| 1
  let N' := mask' + 1
  let s0 := clearRange t.s t.N (2 * t.N)
  let r := rollPrefix s0 t.N 0
  match reinsertP2 h N' t.N 0 r.1 with
  | none => none
  | some s2 =>
    match insertAllP2 h N' r.2 s2 with
    | none => none
    | some s3 => some { s := s3, N := 2 * t.N, entries := t.entries }

/-! ### `AutoProbing` -/

/-- `backend_` and `threshold_` -/
structure Auto where
  t : Table
  thr : Nat

/-- `std::min<std::size_t>(buckets_ - 1, buckets_ * 0.9)` -/
def thetaReal (N : Nat) : Nat := min (N - 1) (9 * N / 10)

/-- `DoubleIfNeeded`; `θ` recomputes `threshold_` from the new bucket count -/
def doubleIfNeeded (h : Nat → Nat) (θ : Nat → Nat) (a : Auto) : Option Auto :=
  if a.t.entries < a.thr then some a
  else match double h a.t with
    | none => none
    | some t' => some { t := t', thr := θ t'.N }

/-- `AutoProbing::Insert`: `++backend_.entries_; DoubleIfNeeded(); return backend_.UncheckedInsert(t);` -/
def Auto.insert (h : Nat → Nat) (θ : Nat → Nat) (a : Auto) (k v : Nat) : Option (Nat × Auto) :=
  match doubleIfNeeded h θ { a with t := { a.t with entries := a.t.entries + 1 } } with
  | none => none
  | some a2 =>
    match KV.Probing.uncheckedInsert h a2.t k v with
    | none => none
    | some (q, t') => some (q, { a2 with t := t' })

/-- `AutoProbing::FindOrInsert`: `DoubleIfNeeded(); return backend_.FindOrInsert(t, out);` -/
def Auto.findOrInsert (h : Nat → Nat) (θ : Nat → Nat) (a : Auto) (k v : Nat) : Res (Bool × Nat × Nat × Auto) :=
  match doubleIfNeeded h θ a with
  | none => .diverge
  | some a2 =>
    match KV.Probing.findOrInsert h a2.t k v with
    | .diverge => .diverge
    | .full t' => .full t'
    | .ok (b, p, w, t') => .ok (b, p, w, { a2 with t := t' })

def Auto.find (h : Nat → Nat) (a : Auto) (k : Nat) : Option (Option Nat) := KV.Probing.find h a.t k

/-- `AutoProbing` with its real backend `ProbingHashTable<…, Power2Mod>` (mask arithmetic, literally) -/
def doubleIfNeededP2 (h : Nat → Nat) (θ : Nat → Nat) (a : Auto) : Option Auto :=
  if a.t.entries < a.thr then some a
  else match doubleP2 h a.t with
    | none => none
    | some t' => some { t := t', thr := θ t'.N }

def Auto.insertP2 (h : Nat → Nat) (θ : Nat → Nat) (a : Auto) (k v : Nat) : Option (Nat × Auto) :=
  match doubleIfNeededP2 h θ { a with t := { a.t with entries := a.t.entries + 1 } } with
  | none => none
  | some a2 =>
    match KV.Probing.uncheckedInsertP2 h a2.t k v with
    | none => none
    | some (q, t') => some (q, { a2 with t := t' })

def Auto.findOrInsertP2 (h : Nat → Nat) (θ : Nat → Nat) (a : Auto) (k v : Nat) : Res (Bool × Nat × Nat × Auto) :=
  match doubleIfNeededP2 h θ a with
  | none => .diverge
  | some a2 =>
    match KV.Probing.findOrInsertP2 h a2.t k v with
    | .diverge => .diverge
    | .full t' => .full t'
    | .ok (b, p, w, t') => .ok (b, p, w, { a2 with t := t' })

/-! ### operation scripts and their map specification -/

inductive Op where
  | insert (k v : Nat)
  | findOrInsert (k v : Nat)
  | find (k : Nat)

/-- observable result of one operation (positions are not part of the map view) -/
inductive Out where
  | done                          -- Insert returned
  | full                          -- ProbingSizeException
  | got (v : Option Nat)          -- Find
  | foi (found : Bool) (v : Nat)  -- FindOrInsert: found flag and the value stored at `out`
  deriving DecidableEq, Repr

/-- one operation on the fixed-size table; `none` = does not terminate -/
def stepT (h : Nat → Nat) (t : Table) : Op → Option (Out × Table)
  | .insert k v =>
    match insert h t k v with
    | .ok (_, t') => some (.done, t')
    | .full t' => some (.full, t')
    | .diverge => none
  | .findOrInsert k v =>
    match findOrInsert h t k v with
    | .ok (b, _, w, t') => some (.foi b w, t')
    | .full t' => some (.full, t')
    | .diverge => none
  | .find k =>
    match find h t k with
    | some r => some (.got r, t)
    | none => none

def runT (h : Nat → Nat) : Table → List Op → Option (List Out × Table)
  | t, [] => some ([], t)
  | t, op :: ops =>
    match stepT h t op with
    | none => none
    | some (o, t') =>
      match runT h t' ops with
      | none => none
      | some (os, t'') => some (o :: os, t'')

/-- the specification: a finite map with an insertion counter and a capacity -/
structure Spec where
  M : Nat → Option Nat
  count : Nat
  N : Nat

def upd (M : Nat → Option Nat) (k v : Nat) : Nat → Option Nat := fun x => if x = k then some v else M x

/-- `none` = outside the contract (`Insert` of a key that is already present) -/
def stepSpec (σ : Spec) : Op → Option (Out × Spec)
  | .insert k v =>
    match σ.M k with
    | some _ => none
    | none =>
      if σ.count + 1 ≥ σ.N then some (.full, { σ with count := σ.count + 1 })
      else some (.done, { σ with M := upd σ.M k v, count := σ.count + 1 })
  | .findOrInsert k v =>
    match σ.M k with
    | some v' => some (.foi true v', σ)
    | none =>
      if σ.count + 1 ≥ σ.N then some (.full, { σ with count := σ.count + 1 })
      else some (.foi false v, { σ with M := upd σ.M k v, count := σ.count + 1 })
  | .find k => some (.got (σ.M k), σ)

def runSpec : Spec → List Op → Option (List Out × Spec)
  | σ, [] => some ([], σ)
  | σ, op :: ops =>
    match stepSpec σ op with
    | none => none
    | some (o, σ') =>
      match runSpec σ' ops with
      | none => none
      | some (os, σ'') => some (o :: os, σ'')

/-! ### scripts on the fixed-size table with explicit calls of `Double` -/

inductive OpD where
  | base (o : Op)
  | double

def stepTD (h : Nat → Nat) (t : Table) : OpD → Option (Option Out × Table)
  | .base o =>
    match stepT h t o with
    | some (r, t') => some (some r, t')
    | none => none
  | .double =>
    match double h t with
    | some t' => some (none, t')
    | none => none

def runTD (h : Nat → Nat) : Table → List OpD → Option (List (Option Out) × Table)
  | t, [] => some ([], t)
  | t, op :: ops =>
    match stepTD h t op with
    | none => none
    | some (o, t') =>
      match runTD h t' ops with
      | none => none
      | some (os, t'') => some (o :: os, t'')

/-- specification: `Double` doubles the capacity and changes nothing else -/
def stepSpecD (σ : Spec) : OpD → Option (Option Out × Spec)
  | .base o =>
    match stepSpec σ o with
    | some (r, σ') => some (some r, σ')
    | none => none
  | .double => some (none, { σ with N := 2 * σ.N })

def runSpecD : Spec → List OpD → Option (List (Option Out) × Spec)
  | σ, [] => some ([], σ)
  | σ, op :: ops =>
    match stepSpecD σ op with
    | none => none
    | some (o, σ') =>
      match runSpecD σ' ops with
      | none => none
      | some (os, σ'') => some (o :: os, σ'')

/-- one operation on `AutoProbing` -/
def stepA (h : Nat → Nat) (θ : Nat → Nat) (a : Auto) : Op → Option (Out × Auto)
  | .insert k v =>
    match a.insert h θ k v with
    | some (_, a') => some (.done, a')
    | none => none
  | .findOrInsert k v =>
    match a.findOrInsert h θ k v with
    | .ok (b, _, w, a') => some (.foi b w, a')
    | .full t' => some (.full, { a with t := t' })
    | .diverge => none
  | .find k =>
    match a.find h k with
    | some r => some (.got r, a)
    | none => none

def runA (h : Nat → Nat) (θ : Nat → Nat) : Auto → List Op → Option (List Out × Auto)
  | a, [] => some ([], a)
  | a, op :: ops =>
    match stepA h θ a op with
    | none => none
    | some (o, a') =>
      match runA h θ a' ops with
      | none => none
      | some (os, a'') => some (o :: os, a'')

/-- one operation on `AutoProbing` with the literal `Power2Mod` backend -/
def stepAP2 (h : Nat → Nat) (θ : Nat → Nat) (a : Auto) : Op → Option (Out × Auto)
  | .insert k v =>
    match a.insertP2 h θ k v with
    | some (_, a') => some (.done, a')
    | none => none
  | .findOrInsert k v =>
    match a.findOrInsertP2 h θ k v with
    | .ok (b, _, w, a') => some (.foi b w, a')
    | .full t' => some (.full, { a with t := t' })
    | .diverge => none
  | .find k =>
    match findPosP2 h a.t k with
    | some (.found _ v) => some (.got (some v), a)
    | some (.absent _) => some (.got none, a)
    | none => none

def runAP2 (h : Nat → Nat) (θ : Nat → Nat) : Auto → List Op → Option (List Out × Auto)
  | a, [] => some ([], a)
  | a, op :: ops =>
    match stepAP2 h θ a op with
    | none => none
    | some (o, a') =>
      match runAP2 h θ a' ops with
      | none => none
      | some (os, a'') => some (o :: os, a'')

/-- the specification of `AutoProbing`: a plain map, no capacity -/
def stepMap (M : Nat → Option Nat) : Op → Option (Out × (Nat → Option Nat))
  | .insert k v =>
    match M k with
    | some _ => none
    | none => some (.done, upd M k v)
  | .findOrInsert k v =>
    match M k with
    | some v' => some (.foi true v', M)
    | none => some (.foi false v, upd M k v)
  | .find k => some (.got (M k), M)

def runMap : (Nat → Option Nat) → List Op → Option (List Out × (Nat → Option Nat))
  | M, [] => some ([], M)
  | M, op :: ops =>
    match stepMap M op with
    | none => none
    | some (o, M') =>
      match runMap M' ops with
      | none => none
      | some (os, M'') => some (o :: os, M'')

end KV.Probing
