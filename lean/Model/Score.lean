import Model.Arpa
import Model.Table
import Model.State
/-
L1 — the query algorithms of lm/model.cc (lines 134-296), transcribed over an abstract
`Search` (what `HashedSearch` / `TrieSearch` offer to `GenericModel`): `ScoreExceptBackoff`,
`ResumeScore`, `FullScore`, `FullScoreForgotState`, `GetState`.
The node type `ν` is abstract (probing: the 64-bit combined hash; trie: a child range;
table: the reversed n-gram matched so far).
-/
namespace KV.Score
open KV.Arpa KV.Table KV.State

/-- what a `UnigramPointer` / `MiddlePointer` yields -/
structure Found where
  prob : Rat
  backoff : Rat
  /-- `HasExtension(backoff)`: the sign bit distinguishing `+0.0` from `-0.0` -/
  extendsRight : Bool
  independentLeft : Bool
  rest : Rat
deriving Repr, DecidableEq, Inhabited

structure Search (ν : Type) where
  order : Nat
  /-- `LookupUnigram(word, node, independent_left, extend_left)`; precondition `word < Bound()` -/
  lookupUnigram : Word → Found × ν
  /-- `LookupMiddle(order_minus_2, word, node, independent_left, extend_left)`: found entry (or none;
  then the code sets `independent_left = true`) and the new node -/
  lookupMiddle : Nat → Word → ν → Option Found × ν
  /-- `LookupLongest(word, node)` -/
  lookupLongest : Word → ν → Option Rat
  /-- `FastMakeNode(begin, end, node)`: `none` = "known not to exist" -/
  fastMakeNode : List Word → Option ν

def toFound (t : TEntry) : Found :=
  { prob := t.prob, backoff := t.backoff, extendsRight := t.extendsRight,
    independentLeft := !t.extendsLeft, rest := t.prob }

/-- the search over the abstract table: node = reversed n-gram matched so far -/
def tableSearch (T : Table) : Search (List Word) where
  order := T.order
  lookupUnigram w :=
    (match T.lookup [w] with
     | some t => toFound t
     | none => { prob := 0, backoff := 0, extendsRight := false, independentLeft := true, rest := 0 }, [w])
  lookupMiddle _ w node := ((T.lookup (node ++ [w])).map toFound, node ++ [w])
  lookupLongest w node := (T.lookup (node ++ [w])).map (·.prob)
  fastMakeNode ws := if (T.lookup ws).isSome then some ws else none

structure FullScoreReturn (ν : Type) where
  prob : Rat
  ngramLength : Nat
  independentLeft : Bool
  /-- `extend_left`: pointer to the longest found entry (for `ExtendLeft`, C08) -/
  extendLeft : ν
  rest : Rat

/-- loop state of `ResumeScore`: `ret`, the back-offs written to `out_state.backoff` so far,
and `next_use` (= `out_state.length`) -/
structure Acc (ν : Type) where
  ret : FullScoreReturn ν
  backoffOut : List Rat
  nextUse : Nat

/-- `ResumeScore(hist_iter, context_rend, order_minus_2, node, backoff_out, next_use, ret)`;
the list is `[hist_iter, context_rend)`. -/
def resumeScore {ν : Type} (S : Search ν) : List Word → Nat → ν → Acc ν → Acc ν
  | [], _, _, acc => acc                                    -- hist_iter == context_rend
  | x :: rest, om2, node, acc =>
    if acc.ret.independentLeft then acc
    else if om2 == S.order - 2 then
      -- break; longest order
      match S.lookupLongest x node with
      | some p => { acc with ret := { acc.ret with independentLeft := true, prob := p, rest := p, ngramLength := S.order } }
      | none => { acc with ret := { acc.ret with independentLeft := true } }
    else
      match S.lookupMiddle om2 x node with
      | (none, _) => { acc with ret := { acc.ret with independentLeft := true } }
      | (some m, node') =>
        resumeScore S rest (om2 + 1) node'
          { ret := { prob := m.prob, rest := m.rest, ngramLength := om2 + 2,
                     independentLeft := m.independentLeft, extendLeft := node' },
            backoffOut := acc.backoffOut ++ [m.backoff],
            nextUse := if m.extendsRight then om2 + 2 else acc.nextUse }

/-- `ScoreExceptBackoff(context_rbegin, context_rend, new_word, out_state)`; `ctx` newest first. -/
def scoreExceptBackoff {ν : Type} (S : Search ν) (ctx : List Word) (w : Word) : FullScoreReturn ν × State :=
  let (u, node) := S.lookupUnigram w
  let acc0 : Acc ν :=
    { ret := { prob := u.prob, rest := u.rest, ngramLength := 1, independentLeft := u.independentLeft, extendLeft := node },
      backoffOut := [u.backoff], nextUse := if u.extendsRight then 1 else 0 }
  let acc := resumeScore S ctx 0 node acc0
  -- out_state.words[0] = new_word (always written); CopyRemainingHistory copies length-1 more words
  (acc.ret, { length := acc.nextUse, words := w :: ctx.take (acc.nextUse - 1), backoff := acc.backoffOut })

/-- `FullScore(in_state, new_word, out_state)` -/
def fullScore {ν : Type} (S : Search ν) (s : State) (w : Word) : FullScoreReturn ν × State :=
  let (r, out) := scoreExceptBackoff S (s.words.take s.length) w
  ({ r with prob := r.prob + ((s.backoff.take s.length).drop (r.ngramLength - 1)).sum }, out)

/-- the back-off charging loop of `FullScoreForgotState` (lines 160-165) -/
def chargeLoop {ν : Type} (S : Search ν) : List Word → Nat → ν → Rat → Rat
  | [], _, _, acc => acc
  | x :: rest, om2, node, acc =>
    match S.lookupMiddle om2 x node with
    | (none, _) => acc
    | (some p, node') => chargeLoop S rest (om2 + 1) node' (acc + p.backoff)

/-- `FullScoreForgotState(context_rbegin, context_rend, new_word, out_state)` -/
def fullScoreForgotState {ν : Type} (S : Search ν) (ctx : List Word) (w : Word) : FullScoreReturn ν × State :=
  let ctx := ctx.take (S.order - 1)
  let (ret, out) := scoreExceptBackoff S ctx w
  let start := ret.ngramLength
  if ctx.length < start then (ret, out)
  else if start ≤ 1 then
    match ctx with
    | [] => (ret, out)        -- unreachable: ctx.length ≥ start ≥ 1
    | c0 :: rest =>
      let (u, node) := S.lookupUnigram c0
      ({ ret with prob := chargeLoop S rest 0 node (ret.prob + u.backoff) }, out)
  else
    match S.fastMakeNode (ctx.take (start - 1)) with
    | none => (ret, out)
    | some node => ({ ret with prob := chargeLoop S (ctx.drop (start - 1)) (start - 2) node ret.prob }, out)

/-- loop of `GetState` (lines 183-191): returns (length, backoffs written) -/
def getStateLoop {ν : Type} (S : Search ν) : List Word → Nat → ν → Nat → List Rat → Nat × List Rat
  | [], _, _, len, bo => (len, bo)
  | x :: rest, om2, node, len, bo =>
    match S.lookupMiddle om2 x node with
    | (none, _) => (len, bo)
    | (some p, node') => getStateLoop S rest (om2 + 1) node' (if p.extendsRight then om2 + 2 else len) (bo ++ [p.backoff])

/-- `GetState(context_rbegin, context_rend, out_state)` -/
def getState {ν : Type} (S : Search ν) (ctx : List Word) : State :=
  match ctx.take (S.order - 1) with
  | [] => { length := 0 }
  | c0 :: rest =>
    let (u, node) := S.lookupUnigram c0
    let (len, bo) := getStateLoop S rest 0 node (if u.extendsRight then 1 else 0) [u.backoff]
    { length := len, words := (c0 :: rest).take len, backoff := bo }

/-- `BeginSentenceState()` / `NullContextState()` (model.cc:88-98) -/
def beginSentenceState {ν : Type} (S : Search ν) (bos : Word) : State :=
  { length := 1, words := [bos], backoff := [(S.lookupUnigram bos).1.backoff] }
def nullContextState : State := { length := 0 }

/-- left-to-right scoring of a word sequence from a state: total log10 probability and final state -/
def scoreSeq {ν : Type} (S : Search ν) (s : State) : List Word → Rat × State
  | [] => (0, s)
  | w :: ws =>
    let r := fullScore S s w
    let t := scoreSeq S r.2 ws
    (r.1.prob + t.1, t.2)

/-- the specification of a sequence score: Σ textbook scores along the growing (reversed) history -/
def specSeq (a : Arpa) (h : List Word) : List Word → Rat
  | [] => 0
  | w :: ws => score a h w + specSeq a (w :: h) ws

/-- only `[0, length)` of a state is meaningful -/
def State.norm (s : State) : State := { s with words := s.words.take s.length, backoff := s.backoff.take s.length }

end KV.Score
