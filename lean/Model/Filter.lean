/-
Model of lm/filter (kpu/kenlm): what `bin/filter` keeps and what it writes.

Mirrors, function by function:
* util/tokenize_piece.hh  `TokenIter<SingleCharacter,false/true>`      → `splitOn`, `words`
* util/file_piece.cc      `FilePiece::ReadLine('\n', strip_cr=true)`   → `fileLines`
* lm/filter/vocab.hh      `IsTag`, `Single`, `Union`, `Multiple`       → `isTag`, `passSingle`, `passUnion`, `multiVerdict`
* lm/filter/vocab.cc      `ReadSingle`, `ReadMultiple`                → `readSingle`, `readSentences`, `postings`
* util/multi_intersection.hh `FirstIntersectionSorted`, `AllIntersection` → `firstInter`, `allInter`
* lm/filter/wrapper.hh    `ContextFilter`                             → `contextOf`
* lm/filter/arpa_io.{hh,cc}, lm/read_arpa.cc (the part the filter uses) → `parseArpa`, `arpaFile`
* lm/filter/count_io.hh   `ReadCount`, `CountOutput`                  → `rawItems`, `rawFile`
* lm/filter/phrase.{hh,cc} at specification level                    → `Tiles` (see Properties/C11)

Lines are byte strings (`List UInt8`).  Mathlib-free, executable.
-/
namespace KV.Filter

abbrev Bytes := List UInt8

def bytesOfString (s : String) : Bytes := s.toUTF8.toList

/-! ## tokenisation -/

/-- split at every byte satisfying `p`; empty tokens are kept, the empty string yields one
empty token -/
def splitBy (p : UInt8 → Bool) : Bytes → List Bytes
  | [] => [[]]
  | c :: cs =>
    if p c then [] :: splitBy p cs
    else match splitBy p cs with
      | [] => [[c]]
      | t :: ts => (c :: t) :: ts

/-- `TokenIter<SingleCharacter,false>(s, d)`: split on every occurrence of one byte; empty
tokens are kept, the empty string yields one empty token (non-null data pointer). -/
def splitOn (d : UInt8) (s : Bytes) : List Bytes := splitBy (· == d) s

/-- `TokenIter<SingleCharacter,true>(ngram, ' ')`: empty tokens skipped. -/
def words (g : Bytes) : List Bytes := (splitOn 32 g).filter (· ≠ [])

/-- C `isspace` in the "C" locale: \t \n \v \f \r and space. -/
def isSpace (c : UInt8) : Bool := c = 9 || c = 10 || c = 11 || c = 12 || c = 13 || c = 32

def allSpace (l : Bytes) : Bool := l.all isSpace

/-- split on any `isspace` byte, dropping empty tokens (`std::istream >> std::string`). -/
def spaceTokens (s : Bytes) : List Bytes := (splitBy isSpace s).filter (· ≠ [])

def stripCR (l : Bytes) : Bytes :=
  match l.getLast? with
  | some 13 => l.dropLast
  | _ => l

/-- the successive results of `FilePiece::ReadLine()` until `EndOfFileException`:
newline-terminated lines lose one trailing CR; an unterminated last line is returned as is. -/
def fileLines (bs : Bytes) : List Bytes :=
  let segs := splitOn 10 bs
  let body := segs.dropLast.map stripCR
  match segs.getLast? with
  | some [] => body
  | some l => body ++ [l]
  | none => body

/-! ## lm/filter/vocab.hh -/

/-- `IsTag`: first byte `<` and last byte `>` (a one-byte token is never a tag). -/
def isTag (w : Bytes) : Bool :=
  match w.head?, w.getLast? with
  | some 60, some 62 => true
  | _, _ => false

/-- `ReadSingle`: the set of whitespace-separated tokens of the vocabulary file. -/
def readSingle (v : Bytes) : List Bytes := spaceTokens v

/-- `ReadMultiple`: one sentence per line; lines without a token do not get an id. -/
def readSentences (v : Bytes) : List (List Bytes) :=
  ((splitOn 10 v).map spaceTokens).filter (· ≠ [])

/-- posting list of a word: increasing sentence ids whose line contains it (none = word unknown). -/
def postingFrom (w : Bytes) : Nat → List (List Bytes) → List Nat
  | _, [] => []
  | i, s :: ss => if s.contains w then i :: postingFrom w (i+1) ss else postingFrom w (i+1) ss

def posting (sents : List (List Bytes)) (w : Bytes) : Option (List Nat) :=
  match postingFrom w 0 sents with
  | [] => none
  | l => some l

/-- `vocab::Single::PassNGram` -/
def passSingle (V : List Bytes) (ws : List Bytes) : Bool :=
  ws.all fun w => isTag w || V.contains w

/-- the `sets_` vector built by Union / Multiple: `none` when a non-tag word is unknown. -/
def gatherSets (sents : List (List Bytes)) : List Bytes → Option (List (List Nat))
  | [] => some []
  | w :: ws =>
    if isTag w then gatherSets sents ws
    else match posting sents w with
      | none => none
      | some p => (gatherSets sents ws).map (p :: ·)

/-! ## util/multi_intersection.hh -/

/-- `std::lower_bound` on an increasing list, returning the remaining range -/
def lowerBound (h : Nat) (l : List Nat) : List Nat := l.dropWhile (· < h)

inductive Pass where
  | exhausted                                   -- some range became empty
  | same (sets : List (List Nat))               -- every front equals `highest`
  | higher (h : Nat) (sets : List (List Nat))   -- a front above `highest` was found: start over
  deriving Repr

/-- one left-to-right pass of the `for` loop of `FirstIntersectionSorted` with the current
`highest`; the ranges visited are advanced in place (as `advance_begin` does). -/
def pass (h : Nat) : List (List Nat) → Pass
  | [] => .same []
  | s :: rest =>
    match lowerBound h s with
    | [] => .exhausted
    | x :: s' =>
      if h < x then .higher x ((x :: s') :: rest)
      else match pass h rest with
        | .exhausted => .exhausted
        | .same r => .same ((x :: s') :: r)
        | .higher h' r => .higher h' ((x :: s') :: r)

/-- the restart loop; every restart strictly raises `highest` to an element of some range, so
`fuel` = largest element + 1 suffices (`Proofs/FilterInter2.lean: firstInterFuel_complete`). -/
def firstInterFuel : Nat → Nat → List (List Nat) → Option (Option (Nat × List (List Nat)))
  | 0, _, _ => none
  | fuel+1, h, sets =>
    match pass h sets with
    | .exhausted => some none
    | .same r => some (some (h, r))
    | .higher h' r => firstInterFuel fuel h' r

def totalLen (sets : List (List Nat)) : Nat := (sets.map List.length).foldr (· + ·) 0

def maxElem (sets : List (List Nat)) : Nat := sets.flatten.foldr max 0

/-- `detail::FirstIntersectionSorted(sets)` (precondition `sets ≠ []`): lowest common element
and the advanced ranges. -/
def firstInterSets (sets : List (List Nat)) : Option (Nat × List (List Nat)) :=
  match sets with
  | [] => none
  | [] :: _ => none
  | (x :: s) :: rest =>
    match firstInterFuel (maxElem sets + 1) x ((x :: s) :: rest) with
    | some r => r
    | none => none

def firstInter (sets : List (List Nat)) : Option Nat := (firstInterSets sets).map (·.1)

/-- `AllIntersection`: repeat `FirstIntersectionSorted`, then `sets.front().advance_begin(1)`. -/
def allInterFuel : Nat → List (List Nat) → List Nat
  | 0, _ => []
  | fuel+1, sets =>
    match firstInterSets sets with
    | none => []
    | some (m, r) =>
      match r with
      | (_ :: s) :: rest => m :: allInterFuel fuel (s :: rest)
      | _ => [m]

def allInter (sets : List (List Nat)) : List Nat := allInterFuel (totalLen sets + 1) sets

/-- insertion sort by size: one admissible result of `std::sort(.., RangeLessBySize)`; the
theorems hold for *every* order of `sets`, this one is used by the driver. -/
def insertBySize (s : List Nat) : List (List Nat) → List (List Nat)
  | [] => [s]
  | t :: ts => if s.length ≤ t.length then s :: t :: ts else t :: insertBySize s ts

def sortBySize (sets : List (List Nat)) : List (List Nat) := sets.foldr insertBySize []

/-- `vocab::Union::PassNGram` -/
def passUnion (sents : List (List Bytes)) (ws : List Bytes) : Bool :=
  match gatherSets sents ws with
  | none => false
  | some [] => true
  | some sets => (firstInter (sortBySize sets)).isSome

/-- what a filter does with one n-gram: `all` = `output.AddNGram(line)`, `only ks` = one
`output.SingleAddNGram(k, line)` per `k` in order (`only []` = dropped). -/
inductive Verdict where
  | all
  | only (ks : List Nat)
  deriving Repr, DecidableEq

/-- `vocab::Multiple::AddNGram` -/
def multiVerdict (sents : List (List Bytes)) (ws : List Bytes) : Verdict :=
  match gatherSets sents ws with
  | none => .only []
  | some [] => .all
  | some sets => .only (allInter (sortBySize sets))

/-! ## lm/filter/wrapper.hh -/

/-- index of the last space at a position `> 0`, else 0 (the `for` loop of `ContextFilter`) -/
def lastSpaceIdx (g : Bytes) : Nat :=
  let rec go (i : Nat) (l : Bytes) (best : Nat) : Nat :=
    match l with
    | [] => best
    | c :: cs => go (i+1) cs (if c = 32 ∧ i > 0 then i else best)
  go 0 g 0

/-- `ContextFilter::AddNGram`: the n-gram up to (not including) its last space; precondition
`g ≠ []` (the C++ reads `g[-1]` and builds a piece of length −1 otherwise). -/
def contextOf (g : Bytes) : Bytes := g.take (lastSpaceIdx g)


/-! ## lm/filter/phrase.{hh,cc} at specification level

`phrase` mode: the vocabulary file has one sentence per line, phrases separated by tab (or VT),
words by spaces.  An n-gram must be kept for sentence `s` when it can be read off a
concatenation of phrases of `s`: it is a substring of one phrase, or a non-empty suffix of a
phrase, then whole phrases, then a non-empty prefix of a phrase (`BuildGraph`: `SetRight` arcs,
`SetPhrase` arcs between word positions, `FindLeft` for the last segment, `FindSubstring` for
the whole n-gram).  The lazy graph search itself (`Vertex::LowerBound` / `Arc::LowerBound`) and
the 64-bit hashing (collisions make the tool more permissive) are not modelled: `tilesB` is the
lower bound the tool must respect. -/

def isLineBreak (c : UInt8) : Bool := c = 10 || c = 12 || c = 13
def isPhraseSep (c : UInt8) : Bool := c = 9 || c = 11

/-- `phrase::ReadMultiple`: sentences (lines with at least one phrase) of phrases of words -/
def readPhraseSentences (v : Bytes) : List (List (List Bytes)) :=
  ((splitBy isLineBreak v).map fun ln =>
    ((splitBy isPhraseSep ln).map words).filter (· ≠ [])).filter (· ≠ [])

def bEos : Bytes := [60, 47, 115, 62]   -- "</s>"

/-- `detail::MakeHashes`: a tag in first position is skipped, everything from `</s>` on is ignored -/
def phraseWords (ws : List Bytes) : List Bytes :=
  let r := match ws with
    | [] => []
    | w :: r => if isTag w then r else w :: r
  r.takeWhile (· ≠ bEos)

/-- `g` is a contiguous part of `p` -/
def isSubstr (g : List Bytes) : List Bytes → Bool
  | [] => g.isPrefixOf []
  | x :: p => g.isPrefixOf (x :: p) || isSubstr g p

def isSuffixOfAny (phrases : List (List Bytes)) (g : List Bytes) : Bool := phrases.any fun p => g.isSuffixOf p
def isPrefixOfAny (phrases : List (List Bytes)) (g : List Bytes) : Bool := phrases.any fun p => g.isPrefixOf p

/-- the rest after the first segment: whole phrases, then a non-empty prefix of a phrase -/
def tilesRest (phrases : List (List Bytes)) : Nat → List Bytes → Bool
  | 0, _ => false
  | fuel+1, r =>
    (r ≠ [] && isPrefixOfAny phrases r) ||
    phrases.any fun p => p ≠ [] && p.isPrefixOf r && tilesRest phrases fuel (r.drop p.length)

/-- all ways to cut `g` into a non-empty head and a non-empty tail -/
def cuts (g : List Bytes) : List (List Bytes × List Bytes) :=
  (List.range (g.length - 1)).map fun i => (g.take (i+1), g.drop (i+1))

/-- executable `Tiles` for one sentence -/
def tilesB (phrases : List (List Bytes)) (g : List Bytes) : Bool :=
  phrases.any (isSubstr g) ||
  (cuts g).any fun c => isSuffixOfAny phrases c.1 && tilesRest phrases (c.2.length + 1) c.2

/-- the sentences for which the n-gram (already tokenised) must be kept; `none` = all
(no word left after `MakeHashes`) -/
def phraseMust (sents : List (List (List Bytes))) (ws : List Bytes) : Verdict :=
  let g := phraseWords ws
  if g = [] then .all
  else .only ((List.range sents.length).filter fun s => tilesB (sents.getD s []) g)

def phraseMustUnion (sents : List (List (List Bytes))) (ws : List Bytes) : Verdict :=
  match phraseMust sents ws with
  | .all => .all
  | .only [] => .only []
  | .only _ => .all


/-! ### the search graph of `BuildGraph` (semantic tables, no hashing, no lazy evaluation)

`Substrings::AddPhrase` enters every contiguous part of every phrase as a key; `FindX(key)`
fails only when the key is no part of any phrase of any sentence, and then the loops of
`BuildGraph` `break`.  `graphAccept sents s g` = "there is a path of arcs that all contain
sentence `s` into the last vertex" — what `Vertex::LowerBound` computes lazily for all `s` at
once (that lazy evaluation is tied by correspondence only). -/

/-- the key is in the hash table -/
def present (sents : List (List (List Bytes))) (k : List Bytes) : Bool :=
  sents.any fun ph => ph.any (isSubstr k)

/-- the loop reached this key without `break`: every non-empty prefix is in the table -/
def prefixesPresent (sents : List (List (List Bytes))) (k : List Bytes) : Bool :=
  (List.range k.length).all fun i => present sents (k.take (i+1))

/-- arcs from the vertex before `r` to the last vertex: `SetPhrase` arcs over whole phrases,
the last one over a left-aligned part (`FindLeft`) -/
def graphRest (sents : List (List (List Bytes))) (phrases : List (List Bytes)) : Nat → List Bytes → Bool
  | 0, _ => false
  | fuel+1, r =>
    (r ≠ [] && prefixesPresent sents r.dropLast && isPrefixOfAny phrases r) ||
    (cuts r).any fun c => prefixesPresent sents c.1 && phrases.contains c.1 && graphRest sents phrases fuel c.2

def graphAccept (sents : List (List (List Bytes))) (s : Nat) (g : List Bytes) : Bool :=
  let phrases := sents.getD s []
  (prefixesPresent sents g.dropLast && phrases.any (isSubstr g)) ||
  (cuts g).any fun c => prefixesPresent sents c.1 && isSuffixOfAny phrases c.1 &&
    graphRest sents phrases (c.2.length + 1) c.2

/-- what `phrase::Multiple` / `phrase::Union` do with an n-gram, absent hash collisions -/
def phraseVerdict (sents : List (List (List Bytes))) (ws : List Bytes) : Verdict :=
  let g := phraseWords ws
  if g = [] then .all
  else .only ((List.range sents.length).filter fun s => graphAccept sents s g)

def phraseVerdictUnion (sents : List (List (List Bytes))) (ws : List Bytes) : Verdict :=
  match phraseVerdict sents ws with
  | .all => .all
  | .only [] => .only []
  | .only _ => .all

/-! ## modes -/

inductive Mode where
  | copy
  | single (V : List Bytes)
  | union (sents : List (List Bytes))
  | multiple (sents : List (List Bytes))

structure Opts where
  context : Bool := false

/-- verdict for one n-gram field (before the `context` wrapper) -/
def verdictWords (m : Mode) (ws : List Bytes) : Verdict :=
  match m with
  | .copy => .all
  | .single V => if passSingle V ws then .all else .only []
  | .union s => if passUnion s ws then .all else .only []
  | .multiple s => multiVerdict s ws

def verdict (m : Mode) (o : Opts) (ngram : Bytes) : Verdict :=
  match m with
  | .copy => .all
  | _ => verdictWords m (words (if o.context then contextOf ngram else ngram))

/-- number of output files -/
def Mode.outputs : Mode → Nat
  | .multiple s => s.length
  | _ => 1

/-- does output file `k` receive an n-gram with this verdict? -/
def Verdict.hits (v : Verdict) (k : Nat) : Bool :=
  match v with
  | .all => true
  | .only ks => ks.contains k

/-- how many times output `k` receives the line (1 or 0 once `ks` is known duplicate-free) -/
def Verdict.copies (v : Verdict) (k : Nat) : Nat :=
  match v with
  | .all => 1
  | .only ks => ks.count k

/-! ## input formats -/

/-- an item handed to `AddNGram(ngram, line)` -/
structure Item where
  ngram : Bytes
  line : Bytes
  deriving Repr, DecidableEq

inductive Err where
  | eof | format | noTab
  deriving Repr, DecidableEq

def startsWith (p l : Bytes) : Bool := l.take p.length == p

def digitsPrefix : Bytes → Bytes
  | [] => []
  | c :: cs => if 48 ≤ c ∧ c ≤ 57 then c :: digitsPrefix cs else []

def natOfDigits (ds : Bytes) : Nat := ds.foldl (fun a c => 10 * a + (c.toNat - 48)) 0

def natToDigits (n : Nat) : Bytes := (toString n).toUTF8.toList

def bData : Bytes := bytesOfString "\\data\\"
def bEnd : Bytes := bytesOfString "\\end\\"
def bNgram : Bytes := bytesOfString "ngram "
def gramsHeader (n : Nat) : Bytes := [92] ++ natToDigits n ++ bytesOfString "-grams:"

/-- `ReadARPACounts` after `\data\`: returns the counts and the remaining lines -/
def readCountLines : List Bytes → List Nat → Except Err (List Nat × List Bytes)
  | [], _ => .error .eof
  | l :: rest, acc =>
    if allSpace l then .ok (acc.reverse, rest)
    else if !(startsWith bNgram l) then .error .format
    else
      let rem := l.drop 6
      let d := digitsPrefix rem
      if d = [] ∨ natOfDigits d ≠ acc.length + 1 then .error .format
      else match rem.drop d.length with
        | 61 :: cnt =>
          let cnt := cnt.dropWhile isSpace
          let c := digitsPrefix cnt
          if c = [] then .error .format else readCountLines rest (natOfDigits c :: acc)
        | _ => .error .format

def skipBlank : List Bytes → List Bytes
  | [] => []
  | l :: rest => if allSpace l then skipBlank rest else l :: rest

def skipBlankOrComment : List Bytes → List Bytes
  | [] => []
  | l :: rest => if allSpace l || startsWith [35] l then skipBlankOrComment rest else l :: rest

/-- the loop of `ReadNGrams`: `number` lines, each must contain a tab; the n-gram is the
second tab-separated field -/
def readNGramLines : Nat → List Bytes → List Item → Except Err (List Item × List Bytes)
  | 0, ls, acc => .ok (acc.reverse, ls)
  | _+1, [], _ => .error .eof
  | n+1, l :: rest, acc =>
    match splitOn 9 l with
    | _ :: g :: _ => readNGramLines n rest (⟨g, l⟩ :: acc)
    | _ => .error .noTab

def readOrders : Nat → List Nat → List Bytes → List (List Item) → Except Err (List (List Item) × List Bytes)
  | _, [], ls, acc => .ok (acc.reverse, ls)
  | k, n :: ns, ls, acc =>
    match skipBlank ls with
    | [] => .error .eof
    | h :: rest =>
      if h ≠ gramsHeader k then .error .format
      else match readNGramLines n rest [] with
        | .error e => .error e
        | .ok (items, rest') => readOrders (k+1) ns rest' (items :: acc)

structure Arpa where
  counts : List Nat            -- the header counts of the input
  orders : List (List Item)    -- the n-gram lines per order, as handed to the filter
  deriving Repr

/-- `ReadARPA` as used by the filter -/
def parseArpa (bs : Bytes) : Except Err Arpa :=
  match skipBlankOrComment (fileLines bs) with
  | [] => .error .eof
  | d :: rest =>
    if d ≠ bData then .error .format
    else match readCountLines rest [] with
      | .error e => .error e
      | .ok (counts, rest) =>
        match readOrders 1 counts rest [] with
        | .error e => .error e
        | .ok (orders, rest) =>
          match skipBlank rest with
          | [] => .error .eof
          | e :: tail =>
            if e ≠ bEnd then .error .format
            else if tail.all allSpace then .ok ⟨counts, orders⟩ else .error .format

/-- `WriteCounts` -/
def countsHeader (counts : List Nat) : Bytes :=
  let rec go (i : Nat) : List Nat → Bytes
    | [] => []
    | c :: cs => bNgram ++ natToDigits i ++ [61] ++ natToDigits c ++ [10] ++ go (i+1) cs
  [10] ++ bData ++ [10] ++ go 1 counts ++ [10]

def keptLines (vs : Item → Verdict) (k : Nat) (items : List Item) : List Bytes :=
  items.flatMap fun it => List.replicate ((vs it).copies k) it.line

def joinLines (ls : List Bytes) : Bytes := ls.flatMap (· ++ [10])

def sectionsBody (k : Nat) : List (List Bytes) → Bytes
  | [] => []
  | ls :: rest => gramsHeader k ++ [10] ++ joinLines ls ++ [10] ++ sectionsBody (k+1) rest

/-- the bytes of ARPA output file `k`: rewritten header, padding newlines left from the
reservation made with the *input* counts, sections, `\end\`. -/
def arpaFile (a : Arpa) (vs : Item → Verdict) (k : Nat) : Bytes :=
  let kept := a.orders.map (keptLines vs k)
  let hdr := countsHeader (kept.map List.length)
  let reserve := (countsHeader a.counts).length
  hdr ++ List.replicate (reserve - hdr.length) 10 ++ sectionsBody 1 kept ++ bEnd ++ [10]

/-- `ReadCount`: every line; the n-gram is the first tab-separated field -/
def rawItems (bs : Bytes) : List Item :=
  (fileLines bs).map fun l => ⟨(splitOn 9 l).headD [], l⟩

def rawFile (items : List Item) (vs : Item → Verdict) (k : Nat) : Bytes :=
  joinLines (keptLines vs k items)

/-- precondition of the C++ (`ContextFilter` on an empty n-gram field is undefined) -/
def itemsOk (items : List Item) : Bool := items.all (·.ngram ≠ [])

end KV.Filter
