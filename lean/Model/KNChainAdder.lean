import Model.KNChainStages
/-!
`AddRight::Run` (initial_probabilities.cc:40-100) as a stateful reader: it is the SOURCE of the adder
chain (`gamma_out[i] >> AddRight(…, second, …)`), reads the second copy of the context-sorted stream from
another chain's position in arbitrary input blocks and writes one `BufferEntry` per context.  A context
may span input blocks, so the state that crosses a block boundary is the open run
(`previous` + the accumulators, here the records of the run themselves).  Core Lean only.
-/
namespace KV.KN.ChainStages
open KV.KN

/-- one record: same context as the open run ⇒ accumulate, else emit the run's entry and open a new run -/
def arStep (d : Disc) (run : List Emit) (e : Emit) : List Emit × List Gam :=
  match run with
  | [] => ([e], [])
  | f :: _ => if e.gram.tail = f.gram.tail then (run ++ [e], []) else ([e], [addRight d run])

def arRun (d : Disc) : List Emit → List Emit → List Emit × List Gam
  | run, [] => (run, [])
  | run, e :: t =>
    let r := arStep d run e
    let r' := arRun d r.1 t
    (r'.1, r.2 ++ r'.2)

/-- end of the input stream: the entry of the last run (`do … while (++in && …)` leaves the loop) -/
def arFinish (d : Disc) (run : List Emit) : List Gam :=
  match run with
  | [] => []
  | _ :: _ => [addRight d run]

/-- the reader as a per-input-block state transformer -/
def arBlock (d : Disc) : Stage (List Emit) Emit Gam := fun run block => arRun d run block

/-- everything `AddRight` writes when it reads the stream in the input blocks `inBlocks` -/
def addRightStream (d : Disc) (inBlocks : List (List Emit)) : List Gam :=
  let r := arRun d [] inBlocks.flatten
  r.2 ++ arFinish d r.1

end KV.KN.ChainStages
