import Model.KN
/-!
The two in-place, per-block *compacting iterators* of lmplz, as explicit state machines over one
block of records (core Lean only):

* `CollapseStream` (`lm/builder/adjust_counts.cc`): drops the records with `<s>` in natural
  position 1 by overwriting them, when the iterator leaves them, with records taken from the end
  of the block;
* `PruneNGramStream` (`lm/builder/initial_probabilities.cc`): drops the records whose
  `CutoffCount()` is 0 by moving the survivors to the front, in the unrepaired and the repaired
  form of `operator++`.

A block is the list of its slots.  Both machines are generic in the record type.
-/
namespace KV.KN.Blocks

/-! ## 1. `CollapseStream` -/

section Collapse
variable {α : Type}

/-- `UpdateCopyFrom`, on `copyEnd = copy_from_ + 1` (one past the copy source, so that the value
`copy_from_ = base - 1` of the C++ is the natural number 0): `down p slots cur e` is the loop
`for (copy_from_ -= size; copy_from_ >= current_; copy_from_ -= size) if (!p(*copy_from_)) break;`
entered with `copy_from_ = e` (slot index), returning the new `copy_from_ + 1`. -/
def down (p : α → Bool) (slots : List α) (cur : Nat) : Nat → Nat
  | 0 => 0
  | e + 1 =>
    if e < cur then e + 1
    else match slots[e]? with
      | some a => if p a then down p slots cur e else e + 1
      | none => down p slots cur e

/-- iterator state inside one block: the slots, `current_` (slot index), `copy_from_ + 1`, and the
log of the records the consumer saw as `*stream` (newest first) -/
structure CState (α : Type) where
  slots : List α
  cur : Nat
  copyEnd : Nat
  seen : List α
deriving Repr, DecidableEq

/-- `StartBlock` on a non-empty block: `copy_from_ = base + ValidSize; UpdateCopyFrom()` -/
def cstart (p : α → Bool) (block : List α) : CState α :=
  { slots := block, cur := 0, copyEnd := down p block 0 block.length, seen := [] }

/-- `operator++` inside a block (the consumer has seen `slots[cur]`): a record with `<s>` in
position 1 is overwritten by `*copy_from_` while `current_ < copy_from_`, then `UpdateCopyFrom` -/
def cstep (p : α → Bool) (st : CState α) : CState α :=
  match st.slots[st.cur]? with
  | none => st
  | some a =>
    if p a && decide (st.cur + 1 < st.copyEnd) then
      match st.slots[st.copyEnd - 1]? with
      | some b =>
        let sl := st.slots.set st.cur b
        { slots := sl, cur := st.cur + 1, copyEnd := down p sl st.cur (st.copyEnd - 1),
          seen := a :: st.seen }
      | none => { st with cur := st.cur + 1, seen := a :: st.seen }
    else { st with cur := st.cur + 1, seen := a :: st.seen }

def csteps (p : α → Bool) : Nat → CState α → CState α
  | 0, st => st
  | k + 1, st => csteps p k (cstep p st)

/-- one block: what the consumer saw, and the block that flows downstream
(`SetValidSize(copy_from_ + TotalSize - base)`) -/
def collapseBlock (p : α → Bool) (block : List α) : List α × List α :=
  let st := csteps p block.length (cstart p block)
  (st.seen.reverse, st.slots.take st.copyEnd)

/-- a stream cut into blocks (empty blocks are skipped by `StartBlock`: they contribute nothing) -/
def collapseStream (p : α → Bool) (blocks : List (List α)) : List α × List α :=
  (blocks.flatMap fun b => (collapseBlock p b).1, blocks.flatMap fun b => (collapseBlock p b).2)

end Collapse

/-- `<s>` in natural position 1 of a reversed n-gram (`current_.begin()[1] == kBOS`).  The marks
`CollapseStream` sets are a function of the record (count ≤ threshold, excluded word) and are
applied on arrival and on copy-in, i.e. to every slot of the output; the model leaves them out
(`KV.KN.collapse` applies `markOf` to the filtered rows). -/
def bosAt1 (e : Gram × Nat) : Bool :=
  decide (2 ≤ e.1.length) && e.1.getD (e.1.length - 2) unk == bos

/-! ## 2. `PruneNGramStream` -/

section Prune
variable {β : Type}

/-- `current_.Order() == 1 && specials_.IsSpecial(*current_.begin())` -/
def specialUnigram (e : Emit) : Bool := e.gram.length == 1 && e.gram.all isSpecial

/-- iterator state inside one block: the slots *below* `current_` (they hold the values the
consumer wrote, `current_ = slots.length`; the slots from `current_` on are untouched input) and
`dest_` (slot index) -/
structure PState (β : Type) where
  slots : List β
  dest : Nat
deriving Repr, DecidableEq

/-- the consumer writes `f e` into `*current_`, then `operator++`.  `copySpecials = false` is the
code as it stands (a special unigram advances `dest_` without being copied), `true` the repaired
form.  `currentCount_ = e.cutoff` was read on arrival, before the consumer's write. -/
def pstep (copySpecials : Bool) (f : Emit → β) (st : PState β) (e : Emit) : PState β :=
  let cur := st.slots.length
  let slots := st.slots ++ [f e]
  let copied := if st.dest < cur then slots.set st.dest (f e) else slots
  if copySpecials then
    if specialUnigram e || decide (e.cutoff > 0) then ⟨copied, st.dest + 1⟩ else ⟨slots, st.dest⟩
  else
    if specialUnigram e then ⟨slots, st.dest + 1⟩
    else if e.cutoff > 0 then ⟨copied, st.dest + 1⟩
    else ⟨slots, st.dest⟩

def prun (copySpecials : Bool) (f : Emit → β) : PState β → List Emit → PState β
  | st, [] => st
  | st, e :: t => prun copySpecials f (pstep copySpecials f st e) t

/-- one block: `SetValidSize(dest_ - base)` -/
def pruneBlock (copySpecials : Bool) (f : Emit → β) (block : List Emit) : List β :=
  let st := prun copySpecials f ⟨[], 0⟩ block
  st.slots.take st.dest

def pruneStream (copySpecials : Bool) (f : Emit → β) (blocks : List (List Emit)) : List β :=
  blocks.flatMap (pruneBlock copySpecials f)

end Prune

end KV.KN.Blocks
