import Model.Score
import Model.Search
import Model.Binary
import Model.Bhiksha
/-!
L2b — `trie::TrieSearch<Quant, Bhiksha>` (lm/search_trie.hh, lm/trie.{hh,cc}, lm/bhiksha.hh, lm/quantize.hh) over a
little-endian `Nat` memory (`Model/Bits.lean`): the *bytes of a binary file* are the model's state.

* unigrams: array of `UnigramValue { float prob; float backoff; uint64_t next; }`; the child range of word `w` is
  `[unigram[w].next, unigram[w+1].next)`.
* middle order `om2` (n-grams of length `om2+2`): records of `total_bits` bits at `base_`:
  `word (word_bits) | values (quant_bits) | next pointer inline bits`; `Find(word, range)` is `FindBitPacked` =
  `BoundedSortedUniformFind(accessor, begin-1, 0, end, max_vocab, key)` with `Pivot32`, then `Bhiksha::ReadNext`.
* longest order: `word | prob`.
* values: `DontQuantize` (`ReadNonPositiveFloat31`, `ReadFloat32` at +31) or `SeparatelyQuantize` (`ReadInt25` codes
  into float tables stored in the same memory).

Positions: `KV.Search.bfind` keeps array index `i` at position `i+1`, so the call `(begin-1, 0, end, max_vocab)` of the
code (whose `begin-1` wraps for `begin = 0`, consistently in `uint64_t`) is `(begin, 0, end+1, max_vocab)` here.
Values are float32 bit patterns; `fval` (bits → exact rational) is a parameter of `search`.
-/
namespace KV.TrieLM
open KV.Bits KV.Score KV.Arpa KV.Binary

/-- `NodeRange { begin, end }` -/
abbrev Node := Nat × Nat

def load8 (mem byteOff : Nat) : Nat := (mem >>> (8 * byteOff)) % 2^8
def load32 (mem byteOff : Nat) : Nat := (mem >>> (8 * byteOff)) % 2^32
def load64 (mem byteOff : Nat) : Nat := (mem >>> (8 * byteOff)) % 2^64

inductive Bhik where
  | dont (bits : Nat)                          -- `DontBhiksha`: `next_.bits`
  | array (bits offBegin count : Nat)          -- `ArrayBhiksha`: `next_inline_.bits`, `offset_begin_` (byte offset), entries
  deriving Repr, DecidableEq

/-- `SeparatelyQuantize` after `SetupMemory`: bit widths and the byte offsets of the float tables
(`tables_[i][0]`, `tables_[i][1]` for each middle order, then `longest_`) -/
structure Quant where
  probBits : Nat
  backoffBits : Nat
  tables : List Nat
  deriving Repr, DecidableEq

/-- `BitPackedMiddle<Bhiksha>` after construction -/
structure Middle where
  base : Nat            -- byte offset of `base_`
  wordBits : Nat
  totalBits : Nat
  quantBits : Nat
  maxVocab : Nat
  bhik : Bhik
  deriving Repr, DecidableEq

/-- `BitPackedLongest` after `Init` -/
structure Longest where
  base : Nat
  wordBits : Nat
  totalBits : Nat
  maxVocab : Nat
  deriving Repr, DecidableEq

structure Trie where
  mem : Nat
  order : Nat
  bound : Nat            -- vocabulary bound = counts[0]: valid word ids are `[0, bound)`
  unigram : Nat          -- byte offset of the unigram array
  middles : List Middle
  longest : Longest
  quant : Option Quant   -- `none` = `DontQuantize`
  deriving Repr

instance : Inhabited Middle := ⟨⟨0, 0, 0, 0, 0, .dont 0⟩⟩

/-! ## reading records -/

/-- bit address of record `i` of a bit-packed array at byte offset `base` -/
def recAddr (base totalBits i : Nat) : Nat := 8 * base + i * totalBits

/-- `KeyAccessor::operator()(index)` -/
def wordAt (mem base wordBits totalBits i : Nat) : Nat := readInt57 mem (recAddr base totalBits i) wordBits

/-- `FindBitPacked(base, mask, key_bits, total_bits, begin_index, end_index, max_vocab, key, at_index)` -/
def findBitPacked (mem base wordBits totalBits maxVocab key : Nat) (range : Node) : Option Nat :=
  (KV.Search.bfind (fun pos => wordAt mem base wordBits totalBits (pos - 1)) KV.Search.pivot32 key
      (range.2 + 1 - range.1) range.1 0 (range.2 + 1) maxVocab).map (· - 1)

/-- `Bhiksha::ReadNext(base, bit_offset, index, total_bits, out)` -/
def readNext (mem : Nat) (b : Bhik) (bitOff index totalBits : Nat) : Node :=
  match b with
  | .dont bits => (readInt57 mem bitOff bits, readInt57 mem (bitOff + totalBits) bits)
  | .array bits offBegin count =>
    let table := (List.range count).map (fun j => load64 mem (offBegin + 8 * j))
    let bi := KV.Bhiksha.upperBound table index - 1
    let ei := bi + 1 + ((table.drop (bi + 1)).takeWhile (· ≤ index + 1)).length - 1
    ((bi <<< bits) ||| readInt57 mem bitOff bits, (ei <<< bits) ||| readInt57 mem (bitOff + totalBits) bits)

/-- float bits of (prob, backoff) of a middle record whose value field starts at bit `addr`
(`DontQuantize::MiddlePointer` / `SeparatelyQuantize::MiddlePointer`) -/
def middleValues (mem : Nat) (q : Option Quant) (om2 addr : Nat) : Nat × Nat :=
  match q with
  | none => (readNonPositiveFloat31 mem addr, readFloat32 mem (addr + 31))
  | some q =>
    let bcode := readInt25 mem addr q.backoffBits
    let pcode := readInt25 mem (addr + q.backoffBits) q.probBits
    (load32 mem (q.tables.getD (2 * om2) 0 + 4 * pcode), load32 mem (q.tables.getD (2 * om2 + 1) 0 + 4 * bcode))

/-- float bits of the probability of a longest-order record (`LongestPointer::Prob`) -/
def longestValue (mem : Nat) (q : Option Quant) (order addr : Nat) : Nat :=
  match q with
  | none => readNonPositiveFloat31 mem addr
  | some q => load32 mem (q.tables.getD (2 * (order - 2)) 0 + 4 * readInt25 mem addr q.probBits)

/-- `kNoExtensionBackoff = -0.0f` -/
def noExtensionBits : Nat := 0x80000000

/-- what the pointers return: float bits and the child range -/
structure Rec where
  probBits : Nat
  backoffBits : Nat
  range : Node
  deriving Repr, DecidableEq

/-- `Unigram::Find(word, next)` -/
def unigramRec (M : Trie) (w : Word) : Rec :=
  let off := M.unigram + Gen.C04.sizeofTrieUnigramValue * w
  { probBits := load32 M.mem off, backoffBits := load32 M.mem (off + 4),
    range := (load64 M.mem (off + 8), load64 M.mem (off + Gen.C04.sizeofTrieUnigramValue + 8)) }

def Trie.middle (M : Trie) (om2 : Nat) : Middle := M.middles.getD om2 default

/-- record `i` of middle order `om2` (`BitPackedMiddle::Find` after a successful `FindBitPacked`, or `ReadEntry`) -/
def middleRec (M : Trie) (om2 i : Nat) : Rec :=
  let m := M.middle om2
  let addr := recAddr m.base m.totalBits i + m.wordBits
  let v := middleValues M.mem M.quant om2 addr
  { probBits := v.1, backoffBits := v.2, range := readNext M.mem m.bhik (addr + m.quantBits) i m.totalBits }

/-- `BitPackedMiddle::Find(word, range, pointer)`: index of the record, if any -/
def middleFind (M : Trie) (om2 : Nat) (w : Word) (node : Node) : Option Nat :=
  let m := M.middle om2
  findBitPacked M.mem m.base m.wordBits m.totalBits m.maxVocab w node

/-- `BitPackedLongest::Find(word, range)` -/
def longestFind (M : Trie) (w : Word) (node : Node) : Option Nat :=
  findBitPacked M.mem M.longest.base M.longest.wordBits M.longest.totalBits M.longest.maxVocab w node

def longestProbBits (M : Trie) (i : Nat) : Nat :=
  longestValue M.mem M.quant M.order (recAddr M.longest.base M.longest.totalBits i + M.longest.wordBits)

/-! ## the `Search` interface of `GenericModel` -/

def toFound (fval : Nat → Rat) (r : Rec) : Found :=
  { prob := fval r.probBits, backoff := fval r.backoffBits, extendsRight := r.backoffBits != noExtensionBits,
    independentLeft := r.range.1 == r.range.2, rest := fval r.probBits }

/-- `FastMakeNode(begin, end, node)` -/
def fastMakeNode (M : Trie) : List Word → Option Node
  | [] => none
  | w :: rest =>
    let rec go : List Word → Nat → Node → Option Node
      | [], _, node => some node
      | x :: xs, om2, node =>
        if node.1 == node.2 then none
        else match middleFind M om2 x node with
          | none => none
          | some i => go xs (om2 + 1) (middleRec M om2 i).range
    go rest 0 (unigramRec M w).range

/-- `LookupUnigram / LookupMiddle / LookupLongest / FastMakeNode` of `TrieSearch` -/
def search (fval : Nat → Rat) (M : Trie) : Search Node where
  order := M.order
  lookupUnigram w := (toFound fval (unigramRec M w), (unigramRec M w).range)
  lookupMiddle om2 w node :=
    match middleFind M om2 w node with
    | none => (none, node)
    | some i => (some (toFound fval (middleRec M om2 i)), (middleRec M om2 i).range)
  lookupLongest w node := (longestFind M w node).map (fun i => fval (longestProbBits M i))
  fastMakeNode ws := fastMakeNode M ws

/-! ## from the file layout -/

/-- the trie a loader sees in a file: `SetupMemory` offsets of `Model/Binary.lean` over the file's bytes `mem` -/
def ofLayout (mem : Nat) (quant array : Bool) (cfg : Config) (counts : List Nat) (searchStart : Nat) : Trie :=
  let r := trieSetup quant array cfg counts searchStart
  { mem := mem, order := counts.length, bound := cnt counts 0, unigram := r.unigram,
    middles := r.middles.map (fun m =>
      { base := m.packed, wordBits := m.wordBits, totalBits := m.totalBits, quantBits := m.quantBits, maxVocab := cnt counts 0,
        bhik := if array then .array m.inline m.offBegin ((m.offEnd - m.offBegin) / 8) else .dont m.inline }),
    longest := { base := r.longest.1, wordBits := r.longest.2.1, totalBits := r.longest.2.2, maxVocab := cnt counts 0 },
    quant := if quant then some { probBits := cfg.probBits, backoffBits := cfg.backoffBits, tables := r.quantTables } else none }

/-- lookup of a reversed n-gram along the chain of child ranges, as `GenericModel` would do it: the records met -/
def lookupChain (M : Trie) : List Word → List (Option Rec)
  | [] => []
  | w :: rest =>
    let u := unigramRec M w
    let rec go : List Word → Nat → Node → List (Option Rec)
      | [], _, _ => []
      | x :: xs, om2, node =>
        if om2 + 2 = M.order then
          match longestFind M x node with
          | none => [none]
          | some i => [some { probBits := longestProbBits M i, backoffBits := 0, range := (0, 0) }]
        else
          match middleFind M om2 x node with
          | none => [none]
          | some i => some (middleRec M om2 i) :: go xs (om2 + 1) (middleRec M om2 i).range
    some u :: go rest 0 u.range

/-! ## exact value of a float32 bit pattern (inf/NaN do not occur in a model; mapped to 0) -/

def f32ToRat (bits : Nat) : Rat :=
  let e : Nat := bits / 2^23 % 256
  let m : Nat := bits % 2^23
  let num : Nat := if e = 255 then 0 else if e = 0 then m else if e ≥ 150 then (2^23 + m) * 2^(e - 150) else 2^23 + m
  let den : Nat := if e = 255 then 1 else if e = 0 then 2^149 else if e ≥ 150 then 1 else 2^(150 - e)
  let mag : Rat := (num : Rat) / (den : Rat)
  if bits / 2^31 % 2 = 1 then -mag else mag

/-! ## a decidable sufficient condition for `Represents` over a finite table -/

/-- finite table: reversed n-grams (real and blank) with their entries -/
abbrev FT := List (List Word × KV.Table.TEntry)

def tableOf (ft : FT) (order : Nat) : KV.Table.Table := { order := order, lookup := fun g => ft.lookup g }

def idxs (r : Node) : List Nat := List.range' r.1 (r.2 - r.1)

def sortedCheck (key : Nat → Nat) (r : Node) : Bool :=
  (idxs r).all fun i => (idxs r).all fun j => decide (i ≤ j → key i ≤ key j)

def midKey (M : Trie) (om2 : Nat) : Nat → Nat :=
  wordAt M.mem (M.middle om2).base (M.middle om2).wordBits (M.middle om2).totalBits
def longKey (M : Trie) : Nat → Nat := wordAt M.mem M.longest.base M.longest.wordBits M.longest.totalBits

def chkUni (fval : Nat → Rat) (M : Trie) (ft : FT) (rng : List Word → Node) : Bool :=
  (List.range M.bound).all fun w =>
    match ft.lookup [w] with
    | some t => decide (toFound fval (unigramRec M w) = Score.toFound t) && decide ((unigramRec M w).range = rng [w])
    | none => false

def chkBounds (M : Trie) (order : Nat) : Bool :=
  (List.range (order - 2)).all (fun om2 => decide (M.bound ≤ (M.middle om2).maxVocab + 1)) && decide (M.bound ≤ M.longest.maxVocab + 1)

/-- the child range of `g`: sorted, and every record is a table entry with the record's values and child range -/
def chkChildren (fval : Nat → Rat) (M : Trie) (ft : FT) (order : Nat) (rng : List Word → Node) (g : List Word) : Bool :=
  if 1 ≤ g.length ∧ g.length + 1 < order then
    let om2 := g.length - 1
    sortedCheck (midKey M om2) (rng g) &&
    (idxs (rng g)).all fun i =>
      match ft.lookup (g ++ [midKey M om2 i]) with
      | some t => decide (toFound fval (middleRec M om2 i) = Score.toFound t) &&
                  decide ((middleRec M om2 i).range = rng (g ++ [midKey M om2 i]))
      | none => false
  else if 1 ≤ g.length ∧ g.length + 1 = order then
    sortedCheck (longKey M) (rng g) &&
    (idxs (rng g)).all fun i =>
      match ft.lookup (g ++ [longKey M i]) with
      | some t => decide (fval (longestProbBits M i) = t.prob)
      | none => false
  else true

/-- every entry of length ≥ 2 has a record in the child range of its parent -/
def chkComplete (M : Trie) (order : Nat) (rng : List Word → Node) (g' : List Word) : Bool :=
  if 2 ≤ g'.length then
    let g := g'.dropLast
    let w := g'.getLast?.getD 0
    if g'.length < order then (idxs (rng g)).any fun i => decide (midKey M (g.length - 1) i = w)
    else if g'.length = order then (idxs (rng g)).any fun i => decide (longKey M i = w)
    else false
  else true

def check (fval : Nat → Rat) (M : Trie) (ft : FT) (order : Nat) (rng : List Word → Node) : Bool :=
  decide (M.order = order) && chkUni fval M ft rng && chkBounds M order &&
  ft.all (fun p => chkChildren fval M ft order rng p.1) && ft.all (fun p => chkComplete M order rng p.1)

/-! ## a constructive builder: table → trie memory (TrieModel layout: `DontQuantize`, `DontBhiksha`)

What `BuildTrie` / `RecursiveInsert` / `WriteEntries` leave in memory, as a pure fold: level `k+1` is the concatenation, over the
records of level `k` in order, of their children sorted by word id; the `next` pointer of a record is the running count of
children before it; one extra record per order holds the end pointer.  Input is a *bit table*: reversed n-grams (real and
blank) with the float bits of probability and back-off (back-off bits already carry the extension mark). -/

abbrev BT := List (List Word × (Nat × Nat))

def insertNat (x : Nat) : List Nat → List Nat
  | [] => [x]
  | y :: ys => if x ≤ y then x :: y :: ys else y :: insertNat x ys

def sortNat (l : List Nat) : List Nat := l.foldr insertNat []

/-- words `w` such that `g ++ [w]` is a key, ascending -/
def childrenOf (bt : BT) (g : List Word) : List Word :=
  sortNat (bt.filterMap fun p => if p.1.length = g.length + 1 ∧ p.1.dropLast = g then p.1.getLast? else none)

def nextLevel (bt : BT) (lvl : List (List Word)) : List (List Word) :=
  lvl.flatMap fun g => (childrenOf bt g).map (fun w => g ++ [w])

/-- level `k` (1-based): the records of order `k` in array order -/
def level (bt : BT) (bound : Nat) : Nat → List (List Word)
  | 0 => []
  | 1 => (List.range bound).map (fun w => [w])
  | k+1 => nextLevel bt (level bt bound k)

/-- `next` pointers of the records of a level, plus the end pointer -/
def childStarts (bt : BT) (lvl : List (List Word)) : List Nat :=
  (lvl.foldl (fun (acc : List Nat × Nat) g => (acc.1 ++ [acc.2], acc.2 + (childrenOf bt g).length)) ([], 0)).1
    ++ [(lvl.map fun g => (childrenOf bt g).length).sum]

def store (mem byteOff width v : Nat) : Nat := mem ||| ((v % 2^(8 * width)) <<< (8 * byteOff))

def valuesOf (bt : BT) (g : List Word) : Nat × Nat := (bt.lookup g).getD (0, 0)

def countsOf (bt : BT) (bound order : Nat) : List Nat := (List.range order).map fun k => (level bt bound (k + 1)).length

def writeUnigrams (bt : BT) (bound unigram : Nat) (mem : Nat) : Nat :=
  let lvl := level bt bound 1
  let starts := childStarts bt lvl
  let mem := (List.range bound).foldl (fun mem w =>
    let off := unigram + Gen.C04.sizeofTrieUnigramValue * w
    let v := valuesOf bt [w]
    store (store (store mem off 4 v.1) (off + 4) 4 v.2) (off + 8) 8 (starts.getD w 0)) mem
  store mem (unigram + Gen.C04.sizeofTrieUnigramValue * bound + 8) 8 (starts.getD bound 0)

def writeMiddle (bt : BT) (bound k : Nat) (m : Middle) (inline : Nat) (mem : Nat) : Nat :=
  let lvl := level bt bound k
  let starts := childStarts bt lvl
  let mem := (lvl.zip (List.range lvl.length)).foldl (fun mem gi =>
    let a := recAddr m.base m.totalBits gi.2
    let v := valuesOf bt gi.1
    let mem := writeInt57 mem a m.wordBits (gi.1.getLast?.getD 0)
    let mem := writeNonPositiveFloat31 mem (a + m.wordBits) v.1
    let mem := writeFloat32 mem (a + m.wordBits + 31) v.2
    writeInt57 mem (a + m.wordBits + m.quantBits) inline (starts.getD gi.2 0)) mem
  writeInt57 mem (recAddr m.base m.totalBits lvl.length + m.wordBits + m.quantBits) inline (starts.getD lvl.length 0)

def writeLongest (bt : BT) (bound order : Nat) (l : Longest) (mem : Nat) : Nat :=
  let lvl := level bt bound order
  (lvl.zip (List.range lvl.length)).foldl (fun mem gi =>
    let a := recAddr l.base l.totalBits gi.2
    let mem := writeInt57 mem a l.wordBits (gi.1.getLast?.getD 0)
    writeNonPositiveFloat31 mem (a + l.wordBits) (valuesOf bt gi.1).1) mem

def plainCfg : Config := ⟨Gen.C04.defaultMultiplierBits, 8, 8, 22⟩

/-- the same by the `Write*` functions of `Model/Bits.lean` in the order of the real calls (kept as the reference
formulation; `ofTable` below is the same memory as an OR of bit fields, see `C03TrieBuild.ofTable_eq_writes_example`) -/
def ofTableWrites (bt : BT) (bound order start : Nat) : Trie :=
  let counts := countsOf bt bound order
  let shape := ofLayout 0 false false plainCfg counts start
  let mem := writeUnigrams bt bound shape.unigram 0
  let mem := (shape.middles.zip (List.range shape.middles.length)).foldl (fun mem mi =>
    let inline := match mi.1.bhik with | .dont b => b | .array b _ _ => b
    writeMiddle bt bound (mi.2 + 2) mi.1 inline mem) mem
  let mem := writeLongest bt bound order shape.longest mem
  { shape with mem := mem }

/-! ### the built memory as an OR of bit fields -/

/-- a bit field: offset, width, value -/
structure Field where
  off : Nat
  len : Nat
  val : Nat
  deriving DecidableEq, Repr

/-- memory obtained by OR-ing fields into `m` (what a sequence of `Write*` calls does to zero-initialised memory) -/
def orFields (m : Nat) (fs : List Field) : Nat := fs.foldl (fun m f => m ||| (f.val <<< f.off)) m

/-- an array of fixed-stride records: bit offset of record 0, stride, number of records, the slots `(offset, width)` inside a
record, and what is written into slot `s` of record `i` (`none`: never written, stays zero) -/
structure RegionSpec where
  base : Nat
  stride : Nat
  nrec : Nat
  slots : List (Nat × Nat)
  val : Nat → Nat → Option Nat

def RegionSpec.slotOff (R : RegionSpec) (s : Nat) : Nat := (R.slots.getD s (0, 0)).1
def RegionSpec.slotLen (R : RegionSpec) (s : Nat) : Nat := (R.slots.getD s (0, 0)).2
def RegionSpec.fieldAt (R : RegionSpec) (i s v : Nat) : Field := ⟨R.base + i * R.stride + R.slotOff s, R.slotLen s, v⟩

def RegionSpec.fields (R : RegionSpec) : List Field :=
  (List.range R.nrec).flatMap fun i => (List.range R.slots.length).filterMap fun s => (R.val i s).map (R.fieldAt i s)

def allFields (Rs : List RegionSpec) : List Field := Rs.flatMap RegionSpec.fields

/-- `Unigram` array: `UnigramValue { float prob; float backoff; uint64_t next; }`, one extra record for the end pointer -/
def uniRegion (bt : BT) (bound unigram : Nat) : RegionSpec :=
  let starts := childStarts bt (level bt bound 1)
  { base := 8 * unigram, stride := 8 * Gen.C04.sizeofTrieUnigramValue, nrec := bound + 1,
    slots := [(0, 32), (32, 32), (64, 64)],
    val := fun i s =>
      if s = 2 then some (starts.getD i 0 % 2^64)
      else if i < bound then (if s = 0 then some ((valuesOf bt [i]).1 % 2^32) else some ((valuesOf bt [i]).2 % 2^32))
      else none }

/-- middle order `k` (records of `BitPackedMiddle`: word | prob31 | backoff32 | next), one extra record for the end pointer -/
def midRegion (bt : BT) (bound k : Nat) (m : Middle) (inline : Nat) : RegionSpec :=
  let lvl := level bt bound k
  let starts := childStarts bt lvl
  { base := 8 * m.base, stride := m.totalBits, nrec := lvl.length + 1,
    slots := [(0, m.wordBits), (m.wordBits, 31), (m.wordBits + 31, 32), (m.wordBits + m.quantBits, inline)],
    val := fun i s =>
      if s = 3 then some (starts.getD i 0)
      else if i < lvl.length then
        (if s = 0 then some ((lvl.getD i []).getLast?.getD 0)
         else if s = 1 then some ((valuesOf bt (lvl.getD i [])).1 % 2^32 % 2^31)
         else some ((valuesOf bt (lvl.getD i [])).2))
      else none }

/-- longest order (`BitPackedLongest`: word | prob31) -/
def longRegion (bt : BT) (bound order : Nat) (l : Longest) : RegionSpec :=
  let lvl := level bt bound order
  { base := 8 * l.base, stride := l.totalBits, nrec := lvl.length,
    slots := [(0, l.wordBits), (l.wordBits, 31)],
    val := fun i s =>
      if s = 0 then some ((lvl.getD i []).getLast?.getD 0) else some ((valuesOf bt (lvl.getD i [])).1 % 2^32 % 2^31) }

def bhikBits : Bhik → Nat
  | .dont b => b
  | .array b _ _ => b

def regionsOf (bt : BT) (bound order : Nat) (shape : Trie) : List RegionSpec :=
  [uniRegion bt bound shape.unigram]
    ++ (shape.middles.zip (List.range shape.middles.length)).map (fun mi => midRegion bt bound (mi.2 + 2) mi.1 (bhikBits mi.1.bhik))
    ++ [longRegion bt bound order shape.longest]

/-- the trie (search region at offset `start`) built from a bit table: every `Write*` call of `WriteEntries` is one field -/
def ofTable (bt : BT) (bound order start : Nat) : Trie :=
  let shape := ofLayout 0 false false plainCfg (countsOf bt bound order) start
  { shape with mem := orFields 0 (allFields (regionsOf bt bound order shape)) }

/-- ghost child ranges of the built trie -/
def rngOf (bt : BT) (bound : Nat) (g : List Word) : Node :=
  let lvl := level bt bound g.length
  let starts := childStarts bt lvl
  let j := lvl.idxOf g
  (starts.getD j 0, starts.getD (j + 1) 0)

/-- the abstract table of a bit table -/
def ftOf (fval : Nat → Rat) (bt : BT) (order : Nat) : FT :=
  bt.map fun p =>
    (p.1, { prob := fval (if p.1.length = 1 then p.2.1 else p.2.1 % 2^31 + 2^31), backoff := if p.1.length = order then 0 else fval p.2.2,
            extendsLeft := if p.1.length = order then false else !(childrenOf bt p.1).isEmpty,
            extendsRight := if p.1.length = order then false else p.2.2 != noExtensionBits, blank := false })

end KV.TrieLM
