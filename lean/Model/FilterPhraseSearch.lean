import Model.Filter
/-!
The LAZY phrase search of lm/filter/phrase.cc as an executable model:
`BuildGraph` (arcs over semantic `Substrings` tables: posting lists are increasing lists of
sentence ids), `Arc::LowerBound`, `Vertex::LowerBound` with its priority queue, and the
`Evaluate` loops of `phrase::Union` / `phrase::Multiple`.

State: per arc the remaining range `[current_, last_)` of its `Sentences` vector.  The priority
queue `incoming_` of a vertex always holds exactly the arcs into it whose range is non-empty
(`Arc::Set` pushes non-empty arcs; `Vertex::LowerBound` pops the top, advances it, and pushes it
back iff it is still non-empty; nothing else changes an arc), so it is not stored: `topArc`
recomputes its top (least `Current()`; ties: lowest arc number — the real heap may pick another
one of equal key).  `Vertex::current_` is read only right after `Vertex::LowerBound` returned with
a non-empty queue, so `vertexLB` returns it (`none` = `Empty()`).
`mutant = true` is the code of seeded change C11-1 (`Arc::LowerBound` advances its source vertex
to its own candidate straight away); it exists only for the negation theorem in Properties/C11.
-/
namespace KV.Filter

structure PArc where
  from_ : Option Nat     -- `from_` vertex (none: an arc from before the n-gram)
  to : Nat               -- vertex the arc was `Set` on
  sents : List Nat       -- `Sentences`
  deriving Repr, DecidableEq

abbrev PState := List (List Nat)

def restOf (σ : PState) (i : Nat) : List Nat := σ.getD i []

/-- the top of `incoming_` of vertex `v`: (arc number, `Current()`) -/
def topArcFrom (arcs : List PArc) (σ : PState) (v : Nat) : Nat → List PArc → Option (Nat × Nat) → Option (Nat × Nat)
  | _, [], best => best
  | i, a :: rest, best =>
    let best' :=
      if a.to = v then
        match restOf σ i, best with
        | [], b => b
        | h :: _, none => some (i, h)
        | h :: _, some (j, hj) => if h < hj then some (i, h) else some (j, hj)
      else best
    topArcFrom arcs σ v (i+1) rest best'

def topArc (arcs : List PArc) (σ : PState) (v : Nat) : Option (Nat × Nat) := topArcFrom arcs σ v 0 arcs none

/-- `Arc::LowerBound(to)`; `rec` = `Vertex::LowerBound` of lower vertices -/
def arcLB (rec : Nat → Nat → PState → Option Nat × PState) (mutant : Bool) (arcs : List PArc)
    (i : Nat) (to : Nat) (σ : PState) : PState :=
  match arcs[i]? with
  | none => σ
  | some a =>
    let r := lowerBound to (restOf σ i)
    let σ1 := σ.set i r
    match a.from_, r with
    | none, _ => σ1
    | some _, [] => σ1
    | some u, c :: r' =>
      if !mutant && to < c then σ1
      else
        let cand := if mutant then c else to
        let res := rec u cand σ1
        match res.1 with
        | none => res.2.set i []
        | some fc => if cand < fc then res.2.set i (lowerBound fc r') else res.2

/-- the `while (true)` loop of `Vertex::LowerBound(to)` -/
def vertexLoop (rec : Nat → Nat → PState → Option Nat × PState) (mutant : Bool) (arcs : List PArc)
    (v to : Nat) : Nat → PState → Option Nat × PState
  | 0, σ => (none, σ)
  | f+1, σ =>
    match topArc arcs σ v with
    | none => (none, σ)
    | some (i, h) =>
      if to < h then (some h, σ)
      else
        let σ' := arcLB rec mutant arcs i to σ
        match restOf σ' i with
        | [] => vertexLoop rec mutant arcs v to f σ'
        | h' :: _ => if h' = to then (some to, σ') else vertexLoop rec mutant arcs v to f σ'

/-- `Vertex::LowerBound`; `depth` bounds the nesting (arcs lead from lower to higher vertices) -/
def vertexLB (mutant : Bool) (arcs : List PArc) : Nat → Nat → Nat → PState → Option Nat × PState
  | 0, _, _, σ => (none, σ)
  | d+1, v, to, σ => vertexLoop (vertexLB mutant arcs d) mutant arcs v to (arcs.length + 1) σ

def initState (arcs : List PArc) : PState := arcs.map (·.sents)

def maxSent (arcs : List PArc) : Nat := maxElem (arcs.map (·.sents))

/-- `phrase::Union::Evaluate` -/
def unionEval (mutant : Bool) (arcs : List PArc) (last : Nat) : Nat → Nat → PState → Bool
  | 0, _, _ => false
  | f+1, lower, σ =>
    match vertexLB mutant arcs (last + 1) last lower σ with
    | (none, _) => false
    | (some c, σ') => if c = lower then true else unionEval mutant arcs last f c σ'

/-- `phrase::Multiple::Evaluate`: the sentences passed to `SingleAddNGram`, in order -/
def multiEval (mutant : Bool) (arcs : List PArc) (last : Nat) : Nat → Nat → PState → List Nat
  | 0, _, _ => []
  | f+1, lower, σ =>
    match vertexLB mutant arcs (last + 1) last lower σ with
    | (none, _) => []
    | (some c, σ') =>
      if c = lower then lower :: multiEval mutant arcs last f (lower + 1) σ'
      else multiEval mutant arcs last f c σ'

/-! ### BuildGraph over semantic tables -/

/-- the sentences whose phrase list satisfies `P`, increasing (a `Sentences` vector) -/
def sentsWhere (sents : List (List (List Bytes))) (P : List (List Bytes) → Bool) : List Nat :=
  (List.range sents.length).filter fun s => P (sents.getD s [])

/-- the arcs `BuildGraph` sets for the n-gram `g` (vertex `j` = after word `j`) -/
def buildGraph (sents : List (List (List Bytes))) (g : List Bytes) : List PArc :=
  let n := g.length
  -- right-aligned arcs from before the n-gram (`SetRight`), not reaching the last word
  (cuts g).filterMap (fun c =>
    if prefixesPresent sents c.1 then some ⟨none, c.1.length - 1, sentsWhere sents (isSuffixOfAny · c.1)⟩ else none) ++
  -- the whole n-gram as a part of one phrase (`FindSubstring`)
  (if prefixesPresent sents g.dropLast then [⟨none, n - 1, sentsWhere sents (·.any (isSubstr g))⟩] else []) ++
  -- arcs starting at the second or a later word
  (cuts g).flatMap (fun c =>
    (cuts c.2).filterMap (fun d =>
      if prefixesPresent sents d.1 then
        some ⟨some (c.1.length - 1), c.1.length + d.1.length - 1, sentsWhere sents (·.contains d.1)⟩
      else none) ++
    (if prefixesPresent sents c.2.dropLast then
      [⟨some (c.1.length - 1), n - 1, sentsWhere sents (isPrefixOfAny · c.2)⟩] else []))

/-- what `phrase::Multiple` does with an n-gram (absent hash collisions), by the lazy search -/
def phraseSearch (mutant : Bool) (sents : List (List (List Bytes))) (ws : List Bytes) : Verdict :=
  let g := phraseWords ws
  if g = [] then .all
  else
    let arcs := buildGraph sents g
    .only (multiEval mutant arcs (g.length - 1) (maxSent arcs + 2) 0 (initState arcs))

/-- … and `phrase::Union` -/
def phraseSearchUnion (mutant : Bool) (sents : List (List (List Bytes))) (ws : List Bytes) : Verdict :=
  let g := phraseWords ws
  if g = [] then .all
  else
    let arcs := buildGraph sents g
    if unionEval mutant arcs (g.length - 1) (maxSent arcs + 2) 0 (initState arcs) then .all else .only []

end KV.Filter
