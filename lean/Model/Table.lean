import Model.Arpa
/-
L1 — the abstract table (DESIGN §4): what every search structure of kenlm represents after
loading an ARPA file.  Keys are reversed n-grams.  Besides the real entries it contains a
*hallucinated blank* for every proper reversed prefix of a real entry that is not itself
an n-gram of the file (SRI-style pruning), with `prob = score` of that shorter n-gram and
back-off 0 — this is what `FindLower/AdjustLower` (lm/search_hashed.cc) and
`BlankManager/SRISucks` (lm/search_trie.cc) compute.

Marks:
* `extendsLeft g`  ⇔ some entry (real or blank) of the next order has `g` as reversed prefix
  (probing: cleared sign bit of `prob`; trie: non-empty child range) = `!independent_left`;
* `extendsRight g` ⇔ back-off ≠ 0 (as float32) or some entry (real or blank) of the next order has
  `g` as its context (`SetExtension`, `kExtensionBackoff`) = `HasExtension(backoff)`;
  a hallucinated `<unk>` gets `+0.0`, i.e. `extendsRight = true` (model.cc:121-126).
* `unmarked` (pre-observation G): the trie builder loses the `extendsRight` mark of some
  *blanks* (those whose message sorts after the last real entry of the order).  `build` takes
  the set of blanks that lose their mark as a parameter; `fun _ => false` is probing / the
  repaired trie.  The probability theorems hold for every `unmarked`.
-/
namespace KV.Table
open KV.Arpa

structure TEntry where
  prob : Rat
  backoff : Rat
  extendsLeft : Bool
  extendsRight : Bool
  blank : Bool
deriving Repr, DecidableEq, Inhabited

structure Table where
  order : Nat
  lookup : List Word → Option TEntry

/-- some n-gram of the model has `g` as a proper reversed prefix -/
def extendsLeft (a : Arpa) (g : List Word) : Bool :=
  a.entries.any fun p => g.length < p.1.length && g.isPrefixOf p.1

/-- some table entry `x :: c …` (real, or blank = reversed prefix of a real one) has `c` as context -/
def isContext (a : Arpa) (c : List Word) : Bool :=
  a.entries.any fun p => c.length < p.1.length && c.isPrefixOf p.1.tail

def build (a : Arpa) (unmarked : List Word → Bool := fun _ => false) : Table where
  order := a.order
  lookup g :=
    match g with
    | [] => none
    | w :: ctx =>
      match a.gram (w :: ctx) with
      | some e => some { prob := e.prob, backoff := e.backoff, extendsLeft := extendsLeft a (w :: ctx),
                         extendsRight := e.backoff != 0 || isContext a (w :: ctx) ||
                                         (a.unkHallucinated && (w :: ctx) == [0]),
                         blank := false }
      | none =>
        if extendsLeft a (w :: ctx) then
          some { prob := score a ctx w, backoff := 0, extendsLeft := true,
                 extendsRight := isContext a (w :: ctx) && !unmarked (w :: ctx), blank := true }
        else none

/-- The probing structures encode "does not extend left" in the sign bit of `prob`.  `ReadNGrams`
forces the bit on for orders ≥ 2 (`util::SetSign`), but `Read1Gram` stores a unigram probability as
parsed: a unigram whose log-probability is `+0.0` has the bit clear and is reported as extending
left although no bigram ends in it (observable only with an empty supplied context).  The trie
(empty child range) does not have this quirk. -/
def withSignQuirk (a : Arpa) (T : Table) : Table :=
  { T with lookup := fun g =>
      match T.lookup g, g with
      | some t, [w] => if (a.gram [w]).any (·.plusZero) then some { t with extendsLeft := true } else some t
      | r, _ => r }

/-- all keys of the table: real n-grams and blanks (for enumeration / memoisation in drivers) -/
def keys (a : Arpa) : List (List Word) :=
  let real := a.entries.map (·.1)
  let pre := a.entries.flatMap fun p => (List.range p.1.length).filterMap fun n => if n = 0 then none else some (p.1.take n)
  (real ++ pre.filter (fun g => !a.isReal g)).eraseDups

/-- "proper model" of the property text: every stored probability (incl. backed-off blanks) ≤ 0 -/
def proper (a : Arpa) : Bool :=
  (keys a).all fun g => match (build a).lookup g with
    | some t => t.prob ≤ 0
    | none => true

def blankCount (a : Arpa) : Nat := ((keys a).filter (fun g => !a.isReal g)).length

end KV.Table
