/-
Model of util/stream/sort.hh (external merge sort) — core Lean only, executable.

What is mirrored (file:line of /repo at the time of writing):
* `Offsets` (sort.hh:46-121): the run-length encoded log of sorted-run lengths
  (`Append`, `FinishedAppending`, `NextSize`), incl. the leading `(0,0)` entry and the
  fact that zero lengths are never logged.
* `BlockSorter` (sort.hh:361-380): every chain block is sorted on its own and its length
  logged (`blockSort`, `afterBlockSorter`).
* `MergeQueue` + the merge loop of `MergingReader::Run` (sort.hh:124-222, 291-302): a
  priority queue of (current record, rest of the run) entries; `Pop` removes an entry whose
  head is minimal and pushes the rest of that run back; the popped sequence is folded into
  the current output record by the combiner (`combineAdj`: `combine_(str.Get(), queue.Top())`
  only mutates the output record, never the queue).  Which of several *equal* minimal heads
  a binary heap returns is not specified by the code; the model takes an arbitrary function
  `pick` of (the queue as initially filled, the step number, the current queue content) — any
  deterministic heap is such a function — used when it names a minimal head, otherwise the
  first minimal head is taken; every theorem is proved for all `pick`.
* `MergingReader::Run` on zero / one / several runs (poison, `ReadSingle` — *no* combining —,
  grouped merge), `Sort::Merge` = a finite sequence of passes, each over a partition of the
  run list into consecutive groups, and the final lazy merge of `OwningMergingReader`
  (`extSort`).  The concrete arity logic of `Sort::Merge` / `MergingReader::Run`
  (`codeGroups`, `codeMerge`) is mirrored separately below and produces one such plan.

Records are any type `α` with a `Bool` comparison; `Rec` (key words + payload) with the
n-gram orders of lm/common/compare.hh is the instance used by the driver.
Sizes are counted in records, not bytes (the harness checks the byte-level `Offsets`).
-/
namespace KV.Sort

/-! ## Comparisons -/

/-- The strict-weak-order laws a C++ `Compare` has to satisfy. -/
structure StrictWeak {α : Type} (lt : α → α → Bool) : Prop where
  irrefl : ∀ a, lt a a = false
  trans : ∀ a b c, lt a b = true → lt b c = true → lt a c = true
  incompTrans : ∀ a b c, lt a b = false → lt b a = false → lt b c = false → lt c b = false →
    lt a c = false ∧ lt c a = false

/-- `a` may come before `b` in sorted output: `!(b < a)`. -/
def le {α : Type} (lt : α → α → Bool) (a b : α) : Bool := !lt b a

/-- Records the comparison cannot tell apart. -/
def equiv {α : Type} (lt : α → α → Bool) (a b : α) : Bool := !lt a b && !lt b a

/-- A record: the key words (n-gram, or `[n]` for an integer key, or the bytes) and the
rest of the record as a number (e.g. the count). -/
structure Rec where
  key : List Nat
  payload : Nat
  deriving DecidableEq, Repr, Inhabited

/-- Lexicographic `<` on word lists; as `PrefixOrder::Compare` for equal lengths
(compare.hh:160-166: first differing word decides, all equal ⇒ false); a proper prefix is
smaller so that the order is total on all lists. -/
def lexLt : List Nat → List Nat → Bool
  | [], [] => false
  | [], _ :: _ => true
  | _ :: _, [] => false
  | a :: as, b :: bs => if a ≠ b then decide (a < b) else lexLt as bs

/-- `ContextOrder` looks at words `order-2 … 0`, then at the last word (compare.hh:123-129). -/
def contextKey (k : List Nat) : List Nat :=
  match k.reverse with
  | [] => []
  | last :: revInit => revInit ++ [last]

/-- `PrefixOrder` (compare.hh:160). -/
def prefixLt (r s : Rec) : Bool := lexLt r.key s.key
/-- `SuffixOrder`: words `order-1 … 0` (compare.hh:78-84). -/
def suffixLt (r s : Rec) : Bool := lexLt r.key.reverse s.key.reverse
/-- `ContextOrder`. -/
def contextLt (r s : Rec) : Bool := lexLt (contextKey r.key) (contextKey s.key)
/-- Integer order (e.g. `CompareUInt64` of sort_test.cc): the key is the one word `[n]`, compared
as an unsigned integer — i.e. `PrefixOrder` on a one-word key (`intLt_singleton`). -/
def intLt (r s : Rec) : Bool := lexLt r.key s.key
/-- A total order on whole records: key words first, then the payload. -/
def fullLt (r s : Rec) : Bool := lexLt (r.key ++ [r.payload]) (s.key ++ [s.payload])

/-- The counting combiner (`lm::builder::CombineCounts`, combine_counts.hh:16-26):
same words ⇒ add the counts into the first record. -/
def combineCounts (a b : Rec) : Option Rec :=
  if a.key = b.key then some { a with payload := a.payload + b.payload } else none

/-- `NeverCombine` (sort.hh:39-43). -/
def neverCombine {α : Type} (_ _ : α) : Option α := none

/-! ## Offsets: run-length encoded list of run lengths -/

/-- Writer side state: entries already written to the log, `cur_`, `block_count_`. -/
structure Offsets where
  log : List (Nat × Nat)
  cur : Nat × Nat
  blockCount : Nat
  deriving Repr, DecidableEq

/-- `Offsets::Reset` / constructor. -/
def Offsets.reset : Offsets := ⟨[], (0, 0), 0⟩

/-- `Offsets::Append` (sort.hh:54-64). -/
def Offsets.append (o : Offsets) (length : Nat) : Offsets :=
  if length = 0 then o
  else if length = o.cur.1 then
    { o with cur := (o.cur.1, o.cur.2 + 1), blockCount := o.blockCount + 1 }
  else
    { log := o.log ++ [o.cur], cur := (length, 1), blockCount := o.blockCount + 1 }

/-- Reader side state: unread entries of the log, `cur_`, `block_count_`, `output_sum_`. -/
structure OffsetsReader where
  rest : List (Nat × Nat)
  cur : Nat × Nat
  blockCount : Nat
  outputSum : Nat
  deriving Repr, DecidableEq

/-- `Offsets::FinishedAppending` (sort.hh:66-75); `none` = `ReadOrThrow` hits end of file
or an `assert` fails. -/
def Offsets.finish (o : Offsets) : Option OffsetsReader :=
  let file := (o.log ++ [o.cur]).drop 1      -- "Skip 0,0 at beginning."
  if o.blockCount = 0 then some ⟨file, (o.cur.1, 0), 0, 0⟩
  else match file with
    | e :: rest => if e.1 ≠ 0 ∧ e.2 ≠ 0 then some ⟨rest, e, o.blockCount, 0⟩ else none
    | [] => none

/-- `Offsets::NextSize` (sort.hh:85-98); `none` = assertion failure / read past the end. -/
def OffsetsReader.nextSize (r : OffsetsReader) : Option (Nat × OffsetsReader) :=
  if r.blockCount = 0 ∨ r.cur.2 = 0 then none
  else
    let ret := r.cur.1
    let run := r.cur.2 - 1
    let bc := r.blockCount - 1
    if run = 0 ∧ bc ≠ 0 then
      match r.rest with
      | e :: rest => if e.1 ≠ 0 ∧ e.2 ≠ 0 then some (ret, ⟨rest, e, bc, r.outputSum + ret⟩) else none
      | [] => none
    else some (ret, ⟨r.rest, (r.cur.1, run), bc, r.outputSum + ret⟩)

/-- Read `n` sizes. -/
def OffsetsReader.take : Nat → OffsetsReader → Option (List Nat)
  | 0, _ => some []
  | n + 1, r =>
    match r.nextSize with
    | none => none
    | some (s, r') => (OffsetsReader.take n r').map (s :: ·)

/-- The log as written by a sequence of `Append`s followed by `FinishedAppending`. -/
def offsetsEncode (lengths : List Nat) : Option OffsetsReader :=
  (lengths.foldl Offsets.append Offsets.reset).finish

/-- All `RemainingBlocks()` sizes, in order. -/
def offsetsDecode (r : OffsetsReader) : Option (List Nat) := r.take r.blockCount

/-- Cut a file into consecutive pieces of the given lengths (reader side: piece `i` starts
at `TotalOffset()` = sum of the earlier lengths). -/
def splitLens {β : Type} : List Nat → List β → List (List β)
  | [], _ => []
  | n :: ns, xs => xs.take n :: splitLens ns (xs.drop n)

/-- Read `n` (offset, size) pairs the way `MergingReader::Run` does (sort.hh:251-252, 276-277:
"Sequencing is important"): `offset = TotalOffset()` *before* `size = NextSize()`. -/
def OffsetsReader.takeAt : Nat → OffsetsReader → Option (List (Nat × Nat))
  | 0, _ => some []
  | n + 1, r =>
    match r.nextSize with
    | none => none
    | some (s, r') => (OffsetsReader.takeAt n r').map ((r.outputSum, s) :: ·)

/-- the piece of the data file at `[offset, offset + size)` (`ErsatzPRead`) -/
def readAt {β : Type} (data : List β) (p : Nat × Nat) : List β := (data.drop p.1).take p.2

/-- Runs stored as (data file, offsets log) and read back at the logged positions; `none` if the
log cannot be read. -/
def storeRunsLogged {β : Type} (lens : List Nat) (runs : List (List β)) : Option (List (List β)) :=
  match offsetsEncode lens with
  | none => none
  | some r =>
    match r.takeAt r.blockCount with
    | none => none
    | some pairs => some (pairs.map (readAt runs.flatten))

/-- … when the logged lengths are the true lengths of the runs -/
def storeRuns {β : Type} (runs : List (List β)) : Option (List (List β)) :=
  storeRunsLogged (runs.map List.length) runs

/-! ## Block sorting -/

/-- `SizedSort` of one block (a `std::sort`; the model uses a stable merge sort, ties are
not observable by the property). -/
def blockSort {α : Type} (lt : α → α → Bool) (b : List α) : List α := b.mergeSort (le lt)

/-! ## k-way merge through a priority queue -/

/-- A queue entry: current record of a run and the records after it. -/
abbrev QEntry (α : Type) := α × List α

/-- Remove the first entry whose head is minimal. -/
def popMin {α : Type} (lt : α → α → Bool) : QEntry α → List (QEntry α) → QEntry α × List (QEntry α)
  | e, [] => (e, [])
  | e, f :: fs =>
    let r := popMin lt f fs
    if lt r.1.1 e.1 then (r.1, e :: r.2) else (e, f :: fs)

/-- Remove the entry at index `i`. -/
def popAt {α : Type} : List (QEntry α) → Nat → Option (QEntry α × List (QEntry α))
  | [], _ => none
  | e :: q, 0 => some (e, q)
  | e :: q, i + 1 => (popAt q i).map (fun r => (r.1, e :: r.2))

/-- A tie-breaking policy of the priority queue: (queue as initially filled, steps left,
current queue) ↦ index of the entry to pop.  Every deterministic heap is of this form. -/
abbrev Pick (α : Type) := List (QEntry α) → Nat → List (QEntry α) → Nat

/-- `queue_.top()` + `queue_.pop()`: the entry named by `pick` if its head is minimal,
otherwise the first minimal one. -/
def pop {α : Type} (lt : α → α → Bool) (pick : List (QEntry α) → Nat)
    (e : QEntry α) (q : List (QEntry α)) : QEntry α × List (QEntry α) :=
  match popAt (e :: q) (pick (e :: q)) with
  | some r => if (e :: q).all (fun f => !lt f.1 r.1.1) then r else popMin lt e q
  | none => popMin lt e q

/-- `MergeQueue::Pop` (sort.hh:137-142): after removing the top entry, advance it
(`Increment`) and push it back unless its run is exhausted. -/
def requeue {α : Type} (m : QEntry α) (rest : List (QEntry α)) : List (QEntry α) :=
  match m.2 with
  | [] => rest
  | y :: ys => (y, ys) :: rest

/-- Number of records still in the queue. -/
def qsize {α : Type} (q : List (QEntry α)) : Nat := (q.map (fun e => e.2.length + 1)).sum

/-- All records still in the queue. -/
def qflat {α : Type} (q : List (QEntry α)) : List α := q.flatMap (fun e => e.1 :: e.2)

/-- The sequence of `queue.Top()` values over the merge loop, with fuel. -/
def kmergeAux {α : Type} (lt : α → α → Bool) (pick : Nat → List (QEntry α) → Nat) :
    Nat → List (QEntry α) → List α
  | _, [] => []
  | 0, _ :: _ => []
  | n + 1, e :: q =>
    let r := pop lt (pick n) e q
    r.1.1 :: kmergeAux lt pick n (requeue r.1 r.2)

/-- The popped sequence; the fuel `qsize q` is exactly sufficient (`kmergeAux_length`). -/
def kmerge {α : Type} (lt : α → α → Bool) (pick : Pick α) (q : List (QEntry α)) : List α :=
  kmergeAux lt (pick q) (qsize q) q

/-! ### The file buffers behind a queue entry

`MergeQueue::Entry` (sort.hh:154-200) holds only `per_buffer` bytes of its run in memory and
refills from the file (`Read`) when `current_` reaches `buffer_end_`.  `BufEntry` mirrors that;
`bufEntry_step` (Proofs) shows it is a refinement of the `(current, rest)` view used above. -/

/-- `buf` = the records from `current_` to `buffer_end_`; `file` = the `remaining_` records of the
run still on disk. -/
structure BufEntry (α : Type) where
  buf : List α
  file : List α
  deriving Repr

/-- `Entry::Read` with `cap = per_buffer / entry_size` records per buffer: `none` = returns false
(nothing remains); otherwise the next `min(cap, remaining)` records are loaded. -/
def BufEntry.read {α : Type} (cap : Nat) (file : List α) : Option (BufEntry α) :=
  match file with
  | [] => none
  | _ :: _ => some ⟨file.take cap, file.drop cap⟩

/-- `Entry::Increment`: advance `current_`; at the end of the buffer, `Read`. -/
def BufEntry.increment {α : Type} (cap : Nat) (e : BufEntry α) : Option (BufEntry α) :=
  match e.buf.drop 1 with
  | [] => BufEntry.read cap e.file
  | b :: bs => some ⟨b :: bs, e.file⟩

/-- the `(current, rest)` view of a buffered entry -/
def BufEntry.view {α : Type} (e : BufEntry α) : List α := e.buf ++ e.file

/-- The same entry at file level (sort.hh:174-199): the buffer from `current_` on, `offset_` and
`remaining_` (in records) into the shared data file. -/
structure FileEntry (α : Type) where
  buf : List α
  offset : Nat
  remaining : Nat
  deriving Repr

/-- `Entry::Read`: `amount = min(buf_size, remaining_)` records are `pread` at `offset_`; then
`offset_ += amount; remaining_ -= amount`; returns false when nothing remains. -/
def FileEntry.read {α : Type} (data : List α) (cap : Nat) (offset remaining : Nat) : Option (FileEntry α) :=
  if remaining = 0 then none
  else
    let amount := if cap < remaining then cap else remaining
    some ⟨readAt data (offset, amount), offset + amount, remaining - amount⟩

/-- `Entry::Increment` at file level. -/
def FileEntry.increment {α : Type} (data : List α) (cap : Nat) (e : FileEntry α) : Option (FileEntry α) :=
  match e.buf.drop 1 with
  | [] => FileEntry.read data cap e.offset e.remaining
  | b :: bs => some ⟨b :: bs, e.offset, e.remaining⟩

/-- the buffered-entry view of a file-level entry: what is still on disk is the slice
`[offset_, offset_ + remaining_)` of the data file -/
def FileEntry.abs {α : Type} (data : List α) (e : FileEntry α) : BufEntry α :=
  ⟨e.buf, readAt data (e.offset, e.remaining)⟩

/-- `queue.Push` of every non-empty run. -/
def toQueue {α : Type} (runs : List (List α)) : List (QEntry α) :=
  runs.filterMap (fun r => match r with | [] => none | x :: xs => some (x, xs))

/-- The output loop of `MergingReader::Run` (sort.hh:293-300) seen as a fold over the popped
sequence: `cur` is the record at `str.Get()`. -/
def combineGo {α : Type} (comb : α → α → Option α) (cur : α) : List α → List α
  | [] => [cur]
  | y :: ys =>
    match comb cur y with
    | some c => combineGo comb c ys
    | none => cur :: combineGo comb y ys

def combineAdj {α : Type} (comb : α → α → Option α) : List α → List α
  | [] => []
  | x :: xs => combineGo comb x xs

/-- The `written` counter of the output loop (sort.hh:291-300): one `++written` per record that
is followed by a non-combinable one, plus the final one.  This is what is logged to
`out_offsets_` (`Append(written * entry_size)`). -/
def combineWritten {α : Type} (comb : α → α → Option α) (cur : α) : List α → Nat
  | [] => 1
  | y :: ys =>
    match comb cur y with
    | some c => combineWritten comb c ys
    | none => 1 + combineWritten comb y ys

/-- `written` for one merge group -/
def mergeWritten {α : Type} (lt : α → α → Bool) (comb : α → α → Option α)
    (pick : Pick α) (runs : List (List α)) : Nat :=
  match kmerge lt pick (toQueue runs) with
  | [] => 0
  | x :: xs => combineWritten comb x xs

/-- One merge group: the runs pushed into one `MergeQueue`, merged and combined. -/
def mergeGroup {α : Type} (lt : α → α → Bool) (comb : α → α → Option α)
    (pick : Pick α) (runs : List (List α)) : List α :=
  combineAdj comb (kmerge lt pick (toQueue runs))

/-! ## Passes and the whole sort -/

/-- Partition a list into consecutive groups of the given sizes (a size 0 is read as 1 so that
every group is non-empty; what is left over when the sizes run out forms the last group).
Every partition into consecutive non-empty groups arises this way. -/
def splitGroups {β : Type} : List Nat → List β → List (List β)
  | _, [] => []
  | [], x :: xs => [x :: xs]
  | n :: ns, x :: xs => (x :: xs.take (n - 1)) :: splitGroups ns (xs.drop (n - 1))

/-- One pass of `Sort::Merge` = one `MergingReader::Run` with `out_offsets_`: nothing / a
single run is copied (`ReadSingle`), otherwise each group is merged into one run; the new
runs go through the data file and the `Offsets` log. -/
def pass {α : Type} (lt : α → α → Bool) (comb : α → α → Option α) (pick : Pick α)
    (sizes : List Nat) (runs : List (List α)) : Option (List (List α)) :=
  match runs with
  | [] => storeRuns []
  | [r] => storeRuns [r]
  | _ => storeRunsLogged ((splitGroups sizes runs).map (mergeWritten lt comb pick))
      ((splitGroups sizes runs).map (mergeGroup lt comb pick))

/-- A sequence of passes. -/
def passes {α : Type} (lt : α → α → Bool) (comb : α → α → Option α) (pick : Pick α) :
    List (List Nat) → List (List α) → Option (List (List α))
  | [], runs => some runs
  | sizes :: plan, runs =>
    match pass lt comb pick sizes runs with
    | none => none
    | some runs' => passes lt comb pick plan runs'

/-- `OwningMergingReader::Run` = `MergingReader::Run(position, assert_one = true)`:
poison / `ReadSingle` (no combining) / one merge group. -/
def finalMerge {α : Type} (lt : α → α → Bool) (comb : α → α → Option α) (pick : Pick α) :
    List (List α) → List α
  | [] => []
  | [r] => r
  | runs => mergeGroup lt comb pick runs

/-- What `BlockSorter` + `WriteAndRecycle` leave behind: the sorted blocks as runs. -/
def afterBlockSorter {α : Type} (lt : α → α → Bool) (blocks : List (List α)) : Option (List (List α)) :=
  -- `offsets_->Append(link->ValidSize())` is called with the block's size before it is sorted
  storeRunsLogged (blocks.map List.length) (blocks.map (blockSort lt))

/-- The external sort: chain blocks → sorted runs → any finite sequence of passes (each any
partition into consecutive groups) → final merge.  `none` = the `Offsets` log could not be
read back (proved impossible: `extSort_isSome`). -/
def extSort {α : Type} (lt : α → α → Bool) (comb : α → α → Option α) (pick : Pick α)
    (blocks : List (List α)) (plan : List (List Nat)) : Option (List α) :=
  match afterBlockSorter lt blocks with
  | none => none
  | some runs =>
    match passes lt comb pick plan runs with
    | none => none
    | some runs' => some (finalMerge lt comb pick runs')

/-- The specification value the driver prints: sort everything, and combine neighbours unless
the whole input was a single non-empty block (then `ReadSingle` copies the sorted block). -/
def sortSpec {α : Type} (lt : α → α → Bool) (comb : α → α → Option α) (blocks : List (List α)) : List α :=
  let nonempty := blocks.filter (fun b => !b.isEmpty)
  let sorted := blocks.flatten.mergeSort (le lt)
  if nonempty.length ≤ 1 then sorted else combineAdj comb sorted

/-! ## The arity logic of `Sort::Merge` and `MergingReader::Run` (sizes in bytes) -/

/-- Configuration after the `Sort` constructor (sort.hh:392-404): `bufferSize` already rounded
down to a multiple of `entrySize`. -/
structure Cfg where
  entrySize : Nat
  bufferSize : Nat
  totalMemory : Nat
  deriving Repr, DecidableEq

/-- The `for (buf …)` loop (sort.hh:274-280): how many runs of the given byte sizes are pushed
into one queue.  `used` = `buf - buffer.get()`. -/
def groupCount (perBuffer totalMem : Nat) : Nat → List Nat → Nat
  | _, [] => 0
  | used, s :: ss =>
    if used + min perBuffer s ≤ totalMem then 1 + groupCount perBuffer totalMem (used + min s perBuffer) ss
    else 0

/-- `per_buffer` (sort.hh:266-269). -/
def perBuffer (entrySize bufferSize totalMem remaining : Nat) : Nat :=
  let pb := max bufferSize (totalMem / remaining)
  pb - pb % entrySize

/-- Ways the real code stops instead of sorting. -/
inductive PlanErr where
  | notTwo      -- "Bug in sort implementation: not merging at least two stripes." (abort)
  | notOne      -- "should only be one merge group for lazy sort" (abort)
  | emptyQueue  -- no run fits: `queue.Top()` on an empty queue / assert(per_buffer)
  | offsets     -- the Offsets log cannot be read back
  | badConfig   -- `BadSortConfig` thrown by the constructor
  | fuel        -- model only: recursion fuel exhausted (proved unreachable for legal configurations)
  deriving Repr, DecidableEq

/-- The `while (in_offsets_->RemainingBlocks())` loop of `MergingReader::Run`
(sort.hh:264-303) for ≥ 2 runs: cut the run list into the groups the code forms.
`fuel` ≥ number of runs. -/
def codeGroups {α : Type} (entrySize bufferSize totalMem : Nat) (assertOne : Bool) :
    Nat → List (List α) → Except PlanErr (List (List (List α)))
  | _, [] => .ok []
  | 0, _ :: _ => .error .fuel
  | fuel + 1, runs@(_ :: _) =>
    let pb := perBuffer entrySize bufferSize totalMem runs.length
    if pb = 0 then .error .emptyQueue else
    let c := groupCount pb totalMem 0 (runs.map (fun r => r.length * entrySize))
    if c = 0 then .error .emptyQueue
    else if c < 2 ∧ c < runs.length then .error .notTwo
    else if assertOne ∧ c < runs.length then .error .notOne
    else
      match codeGroups entrySize bufferSize totalMem assertOne fuel (runs.drop c) with
      | .error e => .error e
      | .ok gs => .ok (runs.take c :: gs)

/-- One `MergingReader::Run` with an output log (a pass of `Sort::Merge`). -/
def codePass {α : Type} (lt : α → α → Bool) (comb : α → α → Option α) (pick : Pick α)
    (cfg : Cfg) (readingMem : Nat) (runs : List (List α)) : Except PlanErr (List (List α)) :=
  match runs with
  | [] => .ok []
  | [r] => .ok [r]
  | _ =>
    match codeGroups cfg.entrySize cfg.bufferSize readingMem false runs.length runs with
    | .error e => .error e
    | .ok gs =>
      match storeRunsLogged (gs.map (mergeWritten lt comb pick)) (gs.map (mergeGroup lt comb pick)) with
      | none => .error .offsets
      | some rs => .ok rs

/-- Bytes in the data file. -/
def dataSize {α : Type} (cfg : Cfg) (runs : List (List α)) : Nat :=
  (runs.map (fun r => r.length * cfg.entrySize)).sum

/-- The `while (offsets_in->RemainingBlocks() > lazy_arity)` loop of `Sort::Merge`
(sort.hh:436-458).  Returns the runs and the number of passes made. -/
def codeMergeLoop {α : Type} (lt : α → α → Bool) (comb : α → α → Option α) (pick : Pick α)
    (cfg : Cfg) (lazyMem : Nat) : Nat → List (List α) → Nat → Except PlanErr (List (List α) × Nat)
  | fuel, runs, n =>
    let lazyArity := max 1 (lazyMem / cfg.bufferSize)
    let size := dataSize cfg runs
    if runs.length ≤ lazyArity ∨ size ≤ lazyMem then .ok (runs, n)
    else
      match fuel with
      | 0 => .error .fuel
      | fuel + 1 =>
        let reading0 := cfg.totalMemory - 2 * cfg.bufferSize
        let reading := if size < reading0 then size else reading0
        match codePass lt comb pick cfg reading runs with
        | .error e => .error e
        | .ok runs' => codeMergeLoop lt comb pick cfg lazyMem fuel runs' (n + 1)

/-- `codeMergeLoop` that also records the lengths (in records) of the runs after every pass —
what goes into the output `Offsets` log of that pass.  `codeMergeLoopT_eq` (Proofs) shows that it
is `codeMergeLoop` plus the trace. -/
def codeMergeLoopT {α : Type} (lt : α → α → Bool) (comb : α → α → Option α) (pick : Pick α)
    (cfg : Cfg) (lazyMem : Nat) : Nat → List (List α) → Nat → List (List Nat) →
      Except PlanErr (List (List α) × Nat × List (List Nat))
  | fuel, runs, n, hist =>
    let lazyArity := max 1 (lazyMem / cfg.bufferSize)
    let size := dataSize cfg runs
    if runs.length ≤ lazyArity ∨ size ≤ lazyMem then .ok (runs, n, hist)
    else
      match fuel with
      | 0 => .error .fuel
      | fuel + 1 =>
        let reading0 := cfg.totalMemory - 2 * cfg.bufferSize
        let reading := if size < reading0 then size else reading0
        match codePass lt comb pick cfg reading runs with
        | .error e => .error e
        | .ok runs' => codeMergeLoopT lt comb pick cfg lazyMem fuel runs' (n + 1) (hist ++ [runs'.map List.length])

/-- The entries of an `Offsets` log file after `Append`ing the given lengths and
`FinishedAppending` (what the harness observes being written, 16 bytes per entry). -/
def offsetsFile (lengths : List Nat) : List (Nat × Nat) :=
  let o := lengths.foldl Offsets.append Offsets.reset
  o.log ++ [o.cur]

/-- Result of `Sort::Merge(lazy_memory)`. -/
structure MergeResult (α : Type) where
  runs : List (List α)
  passes : Nat
  ret : Nat          -- the return value: memory needed for the lazy merge
  deriving Repr

/-- `Sort::Merge` (sort.hh:412-469). -/
def codeMerge {α : Type} (lt : α → α → Bool) (comb : α → α → Option α) (pick : Pick α)
    (cfg : Cfg) (lazyMem : Nat) (runs : List (List α)) : Except PlanErr (MergeResult α) :=
  if runs.length ≤ 1 then .ok ⟨runs, 0, 0⟩
  else
    match codeMergeLoop lt comb pick cfg lazyMem runs.length runs 0 with
    | .error e => .error e
    | .ok (runs', n) =>
      if runs'.length ≤ 1 then .ok ⟨runs', n, 0⟩
      else .ok ⟨runs', n, min (dataSize cfg runs') (runs'.length * cfg.bufferSize)⟩

/-- `OwningMergingReader::Run`: `MergingReader::Run(position, true)` with
`total_memory_ = lazy_memory`. -/
def codeFinal {α : Type} (lt : α → α → Bool) (comb : α → α → Option α) (pick : Pick α)
    (cfg : Cfg) (lazyMem : Nat) (runs : List (List α)) : Except PlanErr (List α) :=
  match runs with
  | [] => .ok []
  | [r] => .ok r
  | _ =>
    match codeGroups cfg.entrySize cfg.bufferSize lazyMem true runs.length runs with
    | .error e => .error e
    | .ok gs => .ok (gs.map (mergeGroup lt comb pick)).flatten

/-- The `Sort` constructor's configuration checks (sort.hh:398-402). -/
def mkCfg (entrySize bufferSize totalMemory : Nat) : Except PlanErr Cfg :=
  if entrySize = 0 then .error .badConfig else
  let b := bufferSize - bufferSize % entrySize
  if b = 0 then .error .badConfig
  else if totalMemory < b * 4 then .error .badConfig
  else .ok ⟨entrySize, b, totalMemory⟩

/-- `Sort::DefaultLazy` (sort.hh:503-506) in exact arithmetic (the code uses `float`; equal
for `total_memory < 2^24`). -/
def defaultLazy (cfg : Cfg) : Nat :=
  let arity := cfg.totalMemory / cfg.bufferSize
  cfg.totalMemory * (arity - 1) / arity

/-- Block sort, `Sort::Merge(lazy)`, then `Sort::Output(out, lazy)` exactly as the code
plans it.  Returns the output, the number of passes and `Merge`'s return value. -/
def codeSort {α : Type} (lt : α → α → Bool) (comb : α → α → Option α) (pick : Pick α)
    (cfg : Cfg) (lazyMem : Nat) (blocks : List (List α)) : Except PlanErr (List α × Nat × Nat) :=
  match afterBlockSorter lt blocks with
  | none => .error .offsets
  | some runs =>
    match codeMerge lt comb pick cfg lazyMem runs with
    | .error e => .error e
    | .ok m =>
      match codeFinal lt comb pick cfg lazyMem m.runs with
      | .error e => .error e
      | .ok out => .ok (out, m.passes, m.ret)

/-- The way `lmplz` drives the sort (lm/builder/pipeline.cc:69-73, 107-123):
`r = Merge(lazy); …; Output(chain, r)` — `Output` calls `Merge(r)` again and then merges lazily
with `r` bytes.  Returns the output, the total number of passes and `r`. -/
def codeSortRet {α : Type} (lt : α → α → Bool) (comb : α → α → Option α) (pick : Pick α)
    (cfg : Cfg) (lazyMem : Nat) (blocks : List (List α)) : Except PlanErr (List α × Nat × Nat) :=
  match afterBlockSorter lt blocks with
  | none => .error .offsets
  | some runs =>
    match codeMerge lt comb pick cfg lazyMem runs with
    | .error e => .error e
    | .ok m =>
      match codeMerge lt comb pick cfg m.ret m.runs with
      | .error e => .error e
      | .ok m2 =>
        match codeFinal lt comb pick cfg m.ret m2.runs with
        | .error e => .error e
        | .ok out => .ok (out, m.passes + m2.passes, m.ret)

end KV.Sort
