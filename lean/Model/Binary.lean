import Model.Bits
import Generated.C04
/-!
Model of the binary file format arithmetic (lm/binary_format.{hh,cc}, lm/model.cc Size /
SetupMemory, lm/vocab.cc sizes, lm/search_hashed.{hh,cc}, lm/search_trie.{hh,cc},
lm/trie.{hh,cc}, lm/bhiksha.cc sizes, lm/quantize.hh sizes).

Everything is a natural number: file offsets, byte values, bit widths.  Every struct size,
field offset, magic string and version byte comes from `Generated/C04.lean` (the constant
probe `tools/probe_C04.cc` prints them from the real headers and .cc files).

File layout (binary_format.cc):
  header = Sanity | FixedWidthParameters | counts[order] | zero pad to ALIGN8
  | vocabulary lookup | pad (8 bytes iff trie and the ARPA had no <unk>) | search | vocab strings
-/
namespace KV.Binary
open KV.Gen.C04 KV.Bits

/-! ## bytes -/

/-- `ALIGN8(a) = ((a-1)/8+1)*8` (used with `a ≥ 1` only). -/
def align8 (a : Nat) : Nat := ((a - 1) / 8 + 1) * 8

/-- `w` little-endian bytes of `v` (what a `memcpy` of a `w`-byte integer writes on x86-64). -/
def leBytes : Nat → Nat → List Nat
  | 0, _ => []
  | w+1, v => (v % 256) :: leBytes w (v / 256)

/-- little-endian bytes → value -/
def ofLe : List Nat → Nat
  | [] => 0
  | b :: bs => b + 256 * ofLe bs

def zeros (n : Nat) : List Nat := List.replicate n 0

/-! ## header -/

/-- `FixedWidthParameters` (floats as their bit pattern). -/
structure Fixed where
  order : Nat
  multBits : Nat
  modelType : Nat
  hasVocab : Bool
  searchVersion : Nat
  deriving DecidableEq, Repr

/-- `Parameters` -/
structure Params where
  fixed : Fixed
  counts : List Nat
  deriving DecidableEq, Repr

/-- `Sanity::SetToReference()` as bytes: `memset 0`, `memcpy(magic, kMagicBytes, sizeof kMagicBytes)`,
then the test values.  `sanity_eq_ref` (Properties) checks this against the bytes dumped by the probe. -/
def sanityBytes : List Nat :=
  magicBytes ++ zeros (sanityMagicField - magicBytes.length)
    ++ leBytes 4 0 ++ leBytes 4 bitsOneF ++ leBytes 4 bitsMinusHalfF
    ++ leBytes sizeofWordIndex 1 ++ leBytes sizeofWordIndex (2^(8*sizeofWordIndex) - 1) ++ leBytes sizeofWordIndex 0
    ++ leBytes 8 1

/-- `*reinterpret_cast<FixedWidthParameters*>(out) = params.fixed` after `memset(&params, 0, …)`:
fields at their offsets, padding bytes zero. -/
def fixedBytes (f : Fixed) : List Nat :=
  leBytes 1 f.order ++ zeros (offMultiplier - 1)
    ++ leBytes 4 f.multBits
    ++ leBytes sizeofModelType f.modelType
    ++ leBytes 1 (if f.hasVocab then 1 else 0) ++ zeros (offSearchVersion - offHasVocab - 1)
    ++ leBytes sizeofSearchVersion f.searchVersion

def countsBytes (counts : List Nat) : List Nat := counts.flatMap (leBytes 8)

/-- `TotalHeaderSize(order)` -/
def totalHeaderSize (order : Nat) : Nat := align8 (sizeofSanity + sizeofFixed + sizeofCount * order)

/-- `WriteHeader` into a zeroed buffer of `TotalHeaderSize(counts.size())` bytes. -/
def headerBytes (p : Params) : List Nat :=
  let body := sanityBytes ++ fixedBytes p.fixed ++ countsBytes p.counts
  body ++ zeros (totalHeaderSize p.counts.length - body.length)

/-- what `SetupJustVocab` puts at the start of a file under construction:
`strncpy(base, kMagicIncomplete, header_size_)` (zero padded). -/
def incompleteHeader (order : Nat) : List Nat :=
  magicIncomplete ++ zeros (totalHeaderSize order - magicIncomplete.length)

/-- float32 bit pattern for which `!(x >= 1.0)` holds (the `ReadHeader` check, written so that NaN is rejected too) -/
def floatNotGeOne (bits : Nat) : Bool :=
  let isNaN := (bits / 2^23) % 256 = 255 ∧ bits % 2^23 ≠ 0
  if isNaN then true
  else if bits / 2^31 % 2 = 1 then true      -- negative (incl. -0.0)
  else bits < bitsOneF

inductive Recognized where
  | notBinary
  | binary (p : Params)
  | errFormat        -- FormatLoadException (incomplete / version / old 32-bit / sanity / multiplier)
  | errEof           -- file ends inside the fixed parameters or the counts
  deriving DecidableEq, Repr

def readCounts : Nat → List Nat → Option (List Nat)
  | 0, _ => some []
  | n+1, bs =>
    if bs.length < 8 then none
    else match readCounts n (bs.drop 8) with
      | none => none
      | some cs => some (ofLe (bs.take 8) :: cs)

/-- `ReadHeader` on the bytes after the Sanity block. -/
def readFixed (bs : List Nat) : Option Fixed :=
  if bs.length < sizeofFixed then none
  else some {
    order := ofLe ((bs.drop offOrder).take 1)
    multBits := ofLe ((bs.drop offMultiplier).take 4)
    modelType := ofLe ((bs.drop offModelType).take sizeofModelType)
    hasVocab := ofLe ((bs.drop offHasVocab).take 1) ≠ 0
    searchVersion := ofLe ((bs.drop offSearchVersion).take sizeofSearchVersion) }

/-- `IsBinaryFormat` followed by `ReadHeader` (what `RecognizeBinary` and the model constructor do). -/
def recognize (file : List Nat) : Recognized :=
  if file.length ≤ sizeofSanity then .notBinary
  else if file.take sizeofSanity = sanityRef then
    match readFixed (file.drop sizeofSanity) with
    | none => .errEof
    | some f =>
      if floatNotGeOne f.multBits then .errFormat
      else match readCounts f.order (file.drop (sizeofSanity + sizeofFixed)) with
        | none => .errEof
        | some cs => .binary { fixed := f, counts := cs }
  else if magicIncomplete.isPrefixOf file then .errFormat
  else if magicBeforeVersion.isPrefixOf file then .errFormat
  else .notBinary

/-! ## model types -/

inductive Kind where
  | probing (rest : Bool)
  | trie (quant array : Bool)
  deriving DecidableEq, Repr

/-- `kModelType` of the six model classes. -/
def Kind.typeNum : Kind → Nat
  | .probing false => tProbing
  | .probing true => tRestProbing
  | .trie q a => tTrie + (if q then quantAdd else 0) + (if a then arrayAdd else 0)

def Kind.searchVersion : Kind → Nat
  | .probing false => hashedSearchVersion
  | .probing true => restHashedSearchVersion
  | .trie _ _ => trieSearchVersion

def Kind.ofNum (n : Nat) : Option Kind :=
  [Kind.probing false, .probing true, .trie false false, .trie true false, .trie false true, .trie true true].find?
    (fun k => k.typeNum = n)

def Kind.isTrie : Kind → Bool
  | .trie _ _ => true
  | _ => false

/-- the part of `lm::ngram::Config` that decides the layout -/
structure Config where
  multBits : Nat        -- probing_multiplier (float bits)
  probBits : Nat        -- uint8
  backoffBits : Nat     -- uint8
  bhikshaBits : Nat     -- pointer_bhiksha_bits, uint8
  deriving DecidableEq, Repr

/-! ## float32 product of `ProbingHashTable::Size`

`static_cast<uint64_t>(multiplier * static_cast<float>(entries))`: `entries` is rounded to
float32 (round to nearest even, 24 significant bits), the product of two float32 is rounded
the same way, the conversion to `uint64_t` truncates.  For a normal positive multiplier
`M·2^(E-150)` (`M` the 24-bit significand, `E` the biased exponent) all of this is exact
integer arithmetic.  (`Driver/C04.lean` cross-checks this against core `Float32` on every
case, and the harness against the real code.) -/

/-- number of binary digits -/
def bitLen (n : Nat) : Nat := Nat.log2 n + (if n = 0 then 0 else 1)

/-- round `n` to 24 significant bits, ties to even (value, not a mantissa/exponent pair). -/
def rne24 (n : Nat) : Nat :=
  let l := bitLen n
  if l ≤ 24 then n
  else
    let k := l - 24
    let q := n / 2^k
    let r := n % 2^k
    let half := 2^(k-1)
    let q' := if r > half ∨ (r = half ∧ q % 2 = 1) then q + 1 else q
    q' * 2^k

/-- `(uint64_t)(multiplier * (float)entries)` for a normal, positive, finite multiplier. -/
def f32MulTrunc (multBits entries : Nat) : Nat :=
  let e := (multBits / 2^23) % 256
  let m := 2^23 + multBits % 2^23
  let prod := rne24 (rne24 entries * m)
  if e ≥ 150 then prod * 2^(e - 150) else prod / 2^(150 - e)

/-- `Mod::RoundBuckets(std::max(entries + 1, (uint64_t)(multiplier * (float)entries)))` (DivMod: identity) -/
def probingBuckets (multBits entries : Nat) : Nat := max (entries + 1) (f32MulTrunc multBits entries)

/-- `ProbingHashTable<Entry,…>::Size(entries, multiplier)` -/
def probingTableSize (entrySize multBits entries : Nat) : Nat := probingBuckets multBits entries * entrySize

/-! ## vocabulary lookup sizes -/

/-- `SortedVocabulary::Size` -/
def sortedVocabSize (entries : Nat) : Nat := sizeofUint64 + sizeofUint64 * entries

/-- `ProbingVocabulary::Size` -/
def probingVocabSize (multBits entries : Nat) : Nat :=
  align8 sizeofProbingVocabHeader + probingTableSize sizeofProbingVocabEntry multBits entries

def vocabSize (k : Kind) (cfg : Config) (entries : Nat) : Nat :=
  if k.isTrie then sortedVocabSize entries else probingVocabSize cfg.multBits entries

/-- `UnkCountChangePadding()` -/
def unkPadding (k : Kind) (sawUnk : Bool) : Nat :=
  if k.isTrie ∧ !sawUnk then sizeofUint64 else 0

/-! ## hashed search -/

def hashedWeights (rest : Bool) : Nat := if rest then sizeofRestWeights else sizeofProbBackoff
def hashedMiddleEntry (rest : Bool) : Nat := if rest then sizeofRestProbingEntry else sizeofBackoffProbingEntry

/-- `HashedSearch::Unigram::Size` -/
def hashedUnigramSize (rest : Bool) (count : Nat) : Nat := (count + 1) * hashedWeights rest

def cnt (counts : List Nat) (i : Nat) : Nat := counts.getD i 0

/-- `HashedSearch::Size`: `for (n = 1; n < counts.size() - 1; ++n) ret += Middle::Size(counts[n], …)` -/
def hashedSize (rest : Bool) (cfg : Config) (counts : List Nat) : Nat :=
  hashedUnigramSize rest (cnt counts 0)
    + ((List.range' 1 (counts.length - 2)).map
        (fun n => probingTableSize (hashedMiddleEntry rest) cfg.multBits (cnt counts n))).sum
    + probingTableSize sizeofProbEntry cfg.multBits (cnt counts (counts.length - 1))

/-- regions produced by a `SetupMemory`: named start offsets and the end. -/
structure HashedRegions where
  unigram : Nat
  middles : List (Nat × Nat)     -- (start, buckets)
  longest : Nat × Nat
  stop : Nat
  deriving DecidableEq, Repr

/-- the middle loop of `HashedSearch::SetupMemory`:
`for (n = 2; n < counts.size(); ++n) { allocated = Middle::Size(counts[n-1], …); middle_.push_back(Middle(start, allocated)); start += allocated; }` -/
def hashedMiddleLoop (rest : Bool) (cfg : Config) (counts : List Nat) :
    List Nat → Nat → List (Nat × Nat) → Nat × List (Nat × Nat)
  | [], start, acc => (start, acc.reverse)
  | n :: ns, start, acc =>
    let allocated := probingTableSize (hashedMiddleEntry rest) cfg.multBits (cnt counts (n - 1))
    hashedMiddleLoop rest cfg counts ns (start + allocated)
      ((start, probingBuckets cfg.multBits (cnt counts (n - 1))) :: acc)

/-- `HashedSearch::SetupMemory(start, counts, config)` -/
def hashedSetup (rest : Bool) (cfg : Config) (counts : List Nat) (start : Nat) : HashedRegions :=
  let s1 := start + hashedUnigramSize rest (cnt counts 0)
  let r := hashedMiddleLoop rest cfg counts (List.range' 2 (counts.length - 2)) s1 []
  let last := cnt counts (counts.length - 1)
  { unigram := start, middles := r.2, longest := (r.1, probingBuckets cfg.multBits last),
    stop := r.1 + probingTableSize sizeofProbEntry cfg.multBits last }

/-! ## trie search -/

/-- `ChopBits`: `argmin_{chop ∈ [0, min(required, bits)]} (max_next >> (required-chop))*64 - max_offset*chop`,
first minimum wins (`<`).  The C++ computes the difference in wrapping 64-bit arithmetic and reads it
as `int64_t`; for counts below 2^56 that is the exact integer. -/
def chopChange (maxOffset maxNext required chop : Nat) : Int :=
  (((maxNext >>> (required - chop)) * 64 : Nat) : Int) - ((maxOffset * chop : Nat) : Int)

def chopLoop (maxOffset maxNext required : Nat) : List Nat → Nat × Int → Nat × Int
  | [], best => best
  | chop :: rest, best =>
    let change := chopChange maxOffset maxNext required chop
    chopLoop maxOffset maxNext required rest (if change < best.2 then (chop, change) else best)

def chopBits (maxOffset maxNext bhikshaBits : Nat) : Nat :=
  let required := requiredBits maxNext
  (chopLoop maxOffset maxNext required (List.range (min required bhikshaBits + 1)) (0, 2^63 - 1)).1

/-- `ArrayCount` -/
def arrayCount (maxOffset maxNext bhikshaBits : Nat) : Nat :=
  (maxNext >>> (requiredBits maxNext - chopBits maxOffset maxNext bhikshaBits)) + 1

/-- `Bhiksha::Size(max_offset, max_next, config)` -/
def bhikshaSize (array : Bool) (maxOffset maxNext bhikshaBits : Nat) : Nat :=
  if array then sizeofUint64 * (1 + arrayCount maxOffset maxNext bhikshaBits) + arrayBhikshaSlack else 0

/-- `Bhiksha::InlineBits(max_offset, max_next, config)` -/
def inlineBits (array : Bool) (maxOffset maxNext bhikshaBits : Nat) : Nat :=
  if array then requiredBits maxNext - chopBits maxOffset maxNext bhikshaBits else requiredBits maxNext

/-- `AlignTo8` on an address that is congruent to the file offset mod 8 -/
def alignTo8 (a : Nat) : Nat := if a % 8 = 0 then a else a + 8 - a % 8

/-- `Quant::Size(order, config)` -/
def quantSize (quant : Bool) (order : Nat) (cfg : Config) : Nat :=
  if quant then
    let longestTable := 2^cfg.probBits * sizeofFloat
    let middleTable := 2^cfg.backoffBits * sizeofFloat + longestTable
    (order - 2) * middleTable + longestTable + quantHeaderBytes
  else 0

/-- `Quant::MiddleBits(config)` (uint8 sum) -/
def middleBits (quant : Bool) (cfg : Config) : Nat :=
  if quant then (cfg.probBits + cfg.backoffBits) % 256 else dontQuantMiddleBits
/-- `Quant::LongestBits(config)` -/
def longestBits (quant : Bool) (cfg : Config) : Nat :=
  if quant then cfg.probBits else dontQuantLongestBits

/-- `trie::Unigram::Size` -/
def trieUnigramSize (count : Nat) : Nat := (count + 2) * sizeofTrieUnigramValue

/-- `uint8_t total_bits = RequiredBits(max_vocab) + remaining_bits` -/
def totalBits (maxVocab remaining : Nat) : Nat := (requiredBits maxVocab + remaining) % 256

/-- `BitPacked::BaseSize` -/
def baseSize (entries maxVocab remaining : Nat) : Nat :=
  ((1 + entries) * totalBits maxVocab remaining + 7) / 8 + bitPackedSlack

/-- `BitPackedMiddle<Bhiksha>::Size(quant_bits, entries, max_vocab, max_next, config)` -/
def middleSize (array : Bool) (cfg : Config) (quantBits entries maxVocab maxNext : Nat) : Nat :=
  bhikshaSize array (entries + 1) maxNext cfg.bhikshaBits
    + baseSize entries maxVocab ((quantBits + inlineBits array (entries + 1) maxNext cfg.bhikshaBits) % 256)

/-- `BitPackedLongest::Size` -/
def longestSize (quantBits entries maxVocab : Nat) : Nat := baseSize entries maxVocab quantBits

/-- `TrieSearch::Size`: `for (i = 1; i < counts.size() - 1; ++i) ret += Middle::Size(MiddleBits, counts[i], counts[0], counts[i+1], config)` -/
def trieSize (quant array : Bool) (cfg : Config) (counts : List Nat) : Nat :=
  quantSize quant counts.length cfg + trieUnigramSize (cnt counts 0)
    + ((List.range' 1 (counts.length - 2)).map
        (fun i => middleSize array cfg (middleBits quant cfg) (cnt counts i) (cnt counts 0) (cnt counts (i + 1)))).sum
    + longestSize (longestBits quant cfg) (cnt counts (counts.length - 1)) (cnt counts 0)

/-- what the constructor of one `BitPackedMiddle` derives from its base -/
structure MiddleRegion where
  start : Nat            -- `base` handed to the constructor (= Bhiksha header: version, configured bits)
  offBegin : Nat         -- `offset_begin_` (ArrayBhiksha only; 0 otherwise)
  offEnd : Nat           -- `offset_end_`
  inline : Nat           -- bits of the next pointer stored inline
  packed : Nat           -- `base_` of the bit-packed records
  wordBits : Nat
  totalBits : Nat
  quantBits : Nat
  bhikshaBytes : Nat     -- `Bhiksha::Size(entries + 1, max_next, config)`: header + offset table + alignment slack
  packedBytes : Nat      -- `BaseSize(entries, max_vocab, quant_bits + inline bits)`
  deriving DecidableEq, Repr

def mkMiddle (array : Bool) (cfg : Config) (quantBits entries maxVocab maxNext start : Nat) : MiddleRegion :=
  let inl := inlineBits array (entries + 1) maxNext cfg.bhikshaBits
  let ob := if array then alignTo8 start + sizeofUint64 else 0
  { start := start
    offBegin := ob
    offEnd := if array then ob + sizeofUint64 * arrayCount (entries + 1) maxNext cfg.bhikshaBits else 0
    inline := inl
    packed := start + bhikshaSize array (entries + 1) maxNext cfg.bhikshaBits
    wordBits := requiredBits maxVocab
    totalBits := totalBits maxVocab ((quantBits + inl) % 256)
    quantBits := quantBits
    bhikshaBytes := bhikshaSize array (entries + 1) maxNext cfg.bhikshaBits
    packedBytes := baseSize entries maxVocab ((quantBits + inl) % 256) }

structure TrieRegions where
  quant : Nat
  quantTables : List Nat       -- starts of the float tables (prob, backoff per middle order; longest prob)
  unigram : Nat
  middles : List MiddleRegion
  longest : Nat × Nat × Nat    -- base, word bits, total bits
  stop : Nat
  deriving DecidableEq, Repr

/-- `SeparatelyQuantize::SetupMemory`: tables after an 8-byte header -/
def quantTableLoop (cfg : Config) : Nat → Nat → List Nat → Nat × List Nat
  | 0, start, acc => (start, acc.reverse)
  | n+1, start, acc =>
    let s1 := start + 2^cfg.probBits * sizeofFloat
    quantTableLoop cfg n (s1 + 2^cfg.backoffBits * sizeofFloat) (s1 :: start :: acc)

def quantTables (quant : Bool) (order : Nat) (cfg : Config) (start : Nat) : List Nat :=
  if quant then
    let r := quantTableLoop cfg (order - 2) (start + quantHeaderBytes) []
    r.2 ++ [r.1]
  else []

/-- the first loop of `TrieSearch::SetupMemory`:
`for (i = 2; i < counts.size(); ++i) { middle_starts[i-2] = start; start += Middle::Size(MiddleBits, counts[i-1], counts[0], counts[i], config); }`
(the constructors are run afterwards on `middle_starts`; what they compute is `mkMiddle`). -/
def trieMiddleLoop (quant array : Bool) (cfg : Config) (counts : List Nat) :
    List Nat → Nat → List MiddleRegion → Nat × List MiddleRegion
  | [], start, acc => (start, acc.reverse)
  | i :: is, start, acc =>
    let qb := middleBits quant cfg
    trieMiddleLoop quant array cfg counts is
      (start + middleSize array cfg qb (cnt counts (i - 1)) (cnt counts 0) (cnt counts i))
      (mkMiddle array cfg qb (cnt counts (i - 1)) (cnt counts 0) (cnt counts i) start :: acc)

/-- `TrieSearch::SetupMemory(start, counts, config)` -/
def trieSetup (quant array : Bool) (cfg : Config) (counts : List Nat) (start : Nat) : TrieRegions :=
  let s1 := start + quantSize quant counts.length cfg
  let s2 := s1 + trieUnigramSize (cnt counts 0)
  let r := trieMiddleLoop quant array cfg counts (List.range' 2 (counts.length - 2)) s2 []
  let lb := longestBits quant cfg
  { quant := start, quantTables := quantTables quant counts.length cfg start, unigram := s1, middles := r.2,
    longest := (r.1, requiredBits (cnt counts 0), totalBits (cnt counts 0) lb),
    stop := r.1 + longestSize lb (cnt counts (counts.length - 1)) (cnt counts 0) }

/-! ## whole model: `GenericModel::Size`, `SetupMemory`, the writer and the loader -/

/-- `Search::Size(counts, config)` -/
def searchSize (k : Kind) (cfg : Config) (counts : List Nat) : Nat :=
  match k with
  | .probing rest => hashedSize rest cfg counts
  | .trie q a => trieSize q a cfg counts

/-- end of `search_.SetupMemory(start, counts, config)` -/
def searchSetupEnd (k : Kind) (cfg : Config) (counts : List Nat) (start : Nat) : Nat :=
  match k with
  | .probing rest => (hashedSetup rest cfg counts start).stop
  | .trie q a => (trieSetup q a cfg counts start).stop

/-- `GenericModel::Size(counts, config)` -/
def modelSize (k : Kind) (cfg : Config) (counts : List Nat) : Nat :=
  vocabSize k cfg (cnt counts 0) + searchSize k cfg counts

/-- offsets in the file -/
structure FileLayout where
  header : Nat        -- size of the header = offset of the vocabulary lookup
  vocab : Nat         -- size of the vocabulary lookup as the writer allocated it
  pad : Nat
  search : Nat        -- offset of the search structure
  strings : Nat       -- offset of the vocabulary strings = end of search
  fileSize : Nat
  storedCounts : List Nat
  deriving DecidableEq, Repr

/-- counts the writer passes to `FinishFile`: the trie replaces them by the fixed counts
(`<unk>` added, blanks added), the probing model keeps the ARPA header counts. -/
def storedCounts (k : Kind) (arpaCounts fixedCounts : List Nat) : List Nat :=
  if k.isTrie then fixedCounts else arpaCounts

/-- The writer: `SetupJustVocab(VocabularyT::Size(counts[0]), order)` from the ARPA header counts, then
`GrowForSearch(Search::Size(fixed counts), UnkCountChangePadding())`, then `WriteVocabWords`. -/
def writeLayout (k : Kind) (cfg : Config) (arpaCounts fixedCounts : List Nat) (sawUnk includeVocab : Bool)
    (stringsLen : Nat) : FileLayout :=
  let sc := storedCounts k arpaCounts fixedCounts
  let h := totalHeaderSize arpaCounts.length
  let v := vocabSize k cfg (cnt arpaCounts 0)
  let p := unkPadding k sawUnk
  let s := h + v + p
  let e := s + searchSize k cfg sc
  { header := h, vocab := v, pad := p, search := s, strings := e,
    fileSize := e + (if includeVocab then stringsLen else 0), storedCounts := sc }

/-- The loader (`GenericModel` constructor, binary branch): header size from the stored order,
`SetupMemory(LoadBinary(Size(counts, config)), counts, config)` with the *stored* counts, vocabulary
strings at `header + Size`. -/
structure LoadLayout where
  header : Nat
  vocabSize : Nat
  search : Nat
  mapped : Nat         -- total_map = header + Size = VocabStringReadingOffset
  deriving DecidableEq, Repr

def loadLayout (k : Kind) (cfg : Config) (stored : List Nat) : LoadLayout :=
  let h := totalHeaderSize stored.length
  let v := vocabSize k cfg (cnt stored 0)
  { header := h, vocabSize := v, search := h + v, mapped := h + modelSize k cfg stored }

/-! ## parameters stored inside the search area -/

/-- bytes `FinishedLoading` writes at the start of the quantiser block and of every
ArrayBhiksha block: (file offset, byte). -/
def storedParamBytes (k : Kind) (cfg : Config) (counts : List Nat) (searchStart : Nat) : List (Nat × Nat) :=
  match k with
  | .probing _ => []
  | .trie q a =>
    let r := trieSetup q a cfg counts searchStart
    (if q then [(r.quant, separatelyQuantizeVersion), (r.quant + 1, cfg.probBits % 256), (r.quant + 2, cfg.backoffBits % 256)] else [])
    ++ (if a then r.middles.flatMap (fun m => [(m.start, arrayBhikshaVersion), (m.start + 1, cfg.bhikshaBits % 256)]) else [])

inductive LoadErr where
  | quantVersion | bhikshaVersion
  deriving DecidableEq, Repr

/-- `TrieSearch::UpdateConfigFromBinary(file, counts, offset = VocabularyT::Size(counts[0]), config)`
reading bytes of the file through `rd` (absolute file offsets = `header_size_ + offset_excluding_header`). -/
def updateConfigFromBinary (k : Kind) (rd : Nat → Nat) (stored : List Nat) (cfg : Config) : Except LoadErr Config :=
  match k with
  | .probing _ => .ok cfg
  | .trie q a =>
    let off := totalHeaderSize stored.length + vocabSize k cfg (cnt stored 0)
    let c1 : Except LoadErr Config :=
      if q then
        if rd off ≠ separatelyQuantizeVersion then .error .quantVersion
        else .ok { cfg with probBits := rd (off + 1), backoffBits := rd (off + 2) }
      else .ok cfg
    match c1 with
    | .error e => .error e
    | .ok c =>
      if a ∧ stored.length > 2 then
        let boff := off + quantSize q stored.length c + trieUnigramSize (cnt stored 0)
        if rd boff ≠ arrayBhikshaVersion then .error .bhikshaVersion
        else .ok { c with bhikshaBits := rd (boff + 1) }
      else .ok c

end KV.Binary
