import Model.Arpa
import Model.Table
import Model.State
import Model.Score
/-
Chart-state scoring (DESIGN §5 C08): `lm/left.hh:52-211` (`RuleScore`: Terminal, NonTerminal,
BeginSentence, BeginNonTerminal, Finish, ExtendLeft, ProcessRet), `GenericModel::ExtendLeft` and
`InternalUnRest` (`lm/model.cc:195-227, 298-317`) and `lm/partial.hh` (ExtendLoop, RevealBefore,
RevealAfter, Subsume), transcribed over the abstract table of `Model/Table.lean`.

* A *pointer* (`extend_left`, `Left::pointers[i]`) is the reversed n-gram itself (hash at L2a, array
  index at L2b).  `Unpack(pointer, length, node)` is a table lookup.
* Rest costs are a function `R : reversed n-gram → Rat` (`RestWeights::rest`): `noRest` (= prob,
  `NoRestBuild`/every non-REST model), `maxRest` (`MaxRestBuild`: max over the entry and all table entries
  that extend it to the left), `lowerRest` (`LowerRestBuild`: the score in the model of that order).
  The highest order has no rest field (`rest = prob`), which `resumeScore` already does.
* Log-probabilities are exact rationals, as in `Model/Score.lean`.
Everything is executable; the driver `drv_C08` runs exactly these definitions.
-/
namespace KV.Left
open KV.Arpa KV.Table KV.State KV.Score

abbrev Ptr := List Word

/-! ## the search with rest costs -/

def foundOf (T : Table) (R : Ptr → Rat) (g : Ptr) : Option Found :=
  (T.lookup g).map fun t => { toFound t with rest := R g }

def notFound : Found := { prob := 0, backoff := 0, extendsRight := false, independentLeft := true, rest := 0 }

/-- `HashedSearch<RestValue>` / `TrieSearch` seen through `GenericModel`: as `tableSearch`, but `Rest()`
returns `R`. -/
def restSearch (T : Table) (R : Ptr → Rat) : Search Ptr where
  order := T.order
  lookupUnigram w := ((foundOf T R [w]).getD notFound, [w])
  lookupMiddle _ w node := (foundOf T R (node ++ [w]), node ++ [w])
  lookupLongest w node := (T.lookup (node ++ [w])).map (·.prob)
  fastMakeNode ws := if (T.lookup ws).isSome then some ws else none

/-- `NoRestBuild` and all models without separate rest costs: `Rest() = Prob()` -/
def noRest (T : Table) : Ptr → Rat := fun g => match T.lookup g with | some t => t.prob | none => 0

/-- `MaxRestBuild` (`value_build.hh:35-60`, `search_hashed.cc` AdjustLower/MarkLower): every entry starts
with `rest = prob`; each inserted longer entry raises the rest of the entries it extends (all the way
down).  Net effect: the maximum of `prob` over the entry and all table entries (real or blank) having it
as a reversed prefix.  `ks` = all keys of the table. -/
def maxRest (T : Table) (ks : List Ptr) : Ptr → Rat := fun g =>
  ks.foldl (fun m k => if g.isPrefixOf k then
      match T.lookup k with
      | some t => if m < t.prob then t.prob else m
      | none => m
    else m) (noRest T g)

/-- `LowerRestBuild::SetRest`: order 1 → the unigram file's value, order n → `FullScoreForgotState` of the
order-n model (= the textbook score, theorem `KV.C01.forgot_prob`); the highest order keeps `prob`. -/
def lowerRest (T : Table) (uni : Word → Rat) (lower : Nat → Option Arpa) : Ptr → Rat := fun g =>
  match g with
  | [] => 0
  | [w] => uni w
  | w :: ctx =>
    if g.length ≥ T.order then noRest T g else
    match lower g.length with
    | some a => score a ctx w
    | none => noRest T g

/-! ## `GenericModel::ExtendLeft`, `InternalUnRest` -/

structure ExtRet where
  prob : Rat
  rest : Rat
  ngramLength : Nat
  independentLeft : Bool
  extendLeft : Ptr
  /-- what was written to `backoff_out` -/
  backoffOut : List Rat
  nextUse : Nat
deriving Repr, DecidableEq, Inhabited

/-- `ExtendLeft(add_rbegin, add_rend, backoff_in, extend_pointer, extend_length, backoff_out, next_use)`
(`model.cc:195-227`).  `add` = `[add_rbegin, add_rend)`, newest first. -/
def extendLeft (T : Table) (R : Ptr → Rat) (add : List Word) (backoffIn : List Rat) (ptr : Ptr) (extLen : Nat) : ExtRet :=
  let S := restSearch T R
  -- extend_length == 1: LookupUnigram(static_cast<WordIndex>(extend_pointer), …) sets independent_left;
  -- otherwise Unpack(extend_pointer, extend_length, node) and independent_left = false
  let f : Found := (foundOf T R ptr).getD notFound
  let indep := if extLen == 1 then f.independentLeft else false
  let acc0 : Acc Ptr :=
    { ret := { prob := f.prob, rest := f.rest, ngramLength := extLen, independentLeft := indep, extendLeft := ptr },
      backoffOut := [], nextUse := extLen }
  let acc := resumeScore S add (extLen - 1) ptr acc0
  -- charge backoffs: [backoff_in + ngram_length - extend_length, backoff_in + |add|)
  let charged := ((backoffIn.take add.length).drop (acc.ret.ngramLength - extLen)).sum
  { prob := acc.ret.prob + charged - f.rest, rest := acc.ret.rest - f.rest,
    ngramLength := acc.ret.ngramLength, independentLeft := acc.ret.independentLeft,
    extendLeft := acc.ret.extendLeft, backoffOut := acc.backoffOut, nextUse := acc.nextUse - extLen }

def probMinusRest (T : Table) (R : Ptr → Rat) (g : Ptr) : Rat :=
  match foundOf T R g with | some f => f.prob - f.rest | none => 0

/-- `InternalUnRest(pointers_begin, pointers_end, first_length)` (`model.cc:298-317`): Σ prob − rest.
At table level the unigram lookup and `Unpack` are the same lookup, so `first_length` only documents the
call. -/
def unRest (T : Table) (R : Ptr → Rat) (ptrs : List Ptr) (_firstLength : Nat) : Rat :=
  (ptrs.map (probMinusRest T R)).sum

/-! ## chart states and `RuleScore` -/

structure LeftSt where
  /-- `pointers[0..length)` -/
  pointers : List Ptr := []
  full : Bool := false
deriving Repr, DecidableEq, Inhabited

def LeftSt.length (l : LeftSt) : Nat := l.pointers.length

structure Chart where
  left : LeftSt := {}
  right : State := {}
deriving Repr, DecidableEq, Inhabited

/-- only `[0, length)` of a `State` is meaningful; the model keeps right states normalised -/
def normS (s : State) : State := { length := s.length, words := s.words.take s.length, backoff := s.backoff.take s.length }

/-- the members of `RuleScore`: `*out_`, `left_done_`, `prob_` -/
structure RS where
  out : Chart := {}
  leftDone : Bool := false
  prob : Rat := 0
deriving Repr, DecidableEq, Inhabited

/-- constructor / `Reset()` -/
def RS.init : RS := {}

/-- `Reset()` / `Reset(ChartState &replacement)` (`left.hh:158-167`): exactly the fields the code re-initialises —
`prob_ = 0`, `left_done_ = false`, `out_->left.length = 0`, `out_->right.length = 0`.  `out_->left.full` is NOT
written (it keeps whatever the target state held: the previous result for `Reset()`, garbage for a new target, here
any `staleFull`); the words/back-offs beyond `length` are not observable and the model keeps right states normalised. -/
def reset (staleFull : Bool) (_rs : RS) : RS :=
  { out := { left := { pointers := [], full := staleFull }, right := { length := 0 } }, leftDone := false, prob := 0 }

/-- the seeded variant C08-6: the two overloads folded into one that forgets `left_done_ = false` -/
def resetKeepsDone (staleFull : Bool) (rs : RS) : RS :=
  { out := { left := { pointers := [], full := staleFull }, right := { length := 0 } }, leftDone := rs.leftDone, prob := 0 }

/-- `BeginSentence()` -/
def beginSentence (T : Table) (R : Ptr → Rat) (bos : Word) (rs : RS) : RS :=
  { rs with out := { rs.out with right := beginSentenceState (restSearch T R) bos }, leftDone := true }

/-- `Terminal(word)` (`left.hh:65-78`) -/
def terminal (T : Table) (R : Ptr → Rat) (rs : RS) (w : Word) : RS :=
  let copy := rs.out.right
  let (ret, outR) := fullScore (restSearch T R) copy w
  let right' := normS outR
  if rs.leftDone then { rs with out := { rs.out with right := right' }, prob := rs.prob + ret.prob }
  else if ret.independentLeft then
    { out := { rs.out with right := right' }, prob := rs.prob + ret.prob, leftDone := true }
  else
    { out := { left := { rs.out.left with pointers := rs.out.left.pointers ++ [ret.extendLeft] }, right := right' },
      prob := rs.prob + ret.rest,
      leftDone := outR.length != copy.length + 1 }

/-- `ProcessRet` (`left.hh:196-207`) -/
def processRet (rs : RS) (ret : ExtRet) : RS :=
  if rs.leftDone then { rs with prob := rs.prob + ret.prob }
  else if ret.independentLeft then { rs with prob := rs.prob + ret.prob, leftDone := true }
  else { rs with out := { rs.out with left := { rs.out.left with pointers := rs.out.left.pointers ++ [ret.extendLeft] } },
                 prob := rs.prob + ret.rest }

/-- result of the private `RuleScore::ExtendLeft` (`left.hh:176-194`) -/
structure StepOut where
  rs : RS
  nextUse : Nat
  back : List Rat
  /-- `return true`: early exit -/
  exit : Bool

def rsExtendLeft (T : Table) (R : Ptr → Rat) (rs : RS) (inC : Chart) (nextUse : Nat) (extLen : Nat) (backIn : List Rat) : StepOut :=
  let ret := extendLeft T R (rs.out.right.words.take nextUse) backIn (inC.left.pointers.getD (extLen - 1) []) extLen
  let rs1 := processRet rs ret
  if ret.nextUse != rs.out.right.length then
    let rs2 := { rs1 with leftDone := true }
    if ret.nextUse == 0 then
      { rs := { rs2 with out := { rs2.out with right := inC.right },
                         prob := rs2.prob + unRest T R (inC.left.pointers.drop extLen) (extLen + 1) },
        nextUse := 0, back := ret.backoffOut, exit := true }
    else { rs := rs2, nextUse := ret.nextUse, back := ret.backoffOut, exit := false }
  else { rs := rs1, nextUse := ret.nextUse, back := ret.backoffOut, exit := false }

/-- the two loops of `NonTerminal` (`left.hh:120-127`): `extLen = 1 … in.left.length`; `fuel` = remaining pointers -/
def extendAll (T : Table) (R : Ptr → Rat) (inC : Chart) : Nat → Nat → StepOut → StepOut
  | 0, _, st => st
  | fuel+1, extLen, st =>
    if st.exit then st else
    extendAll T R inC fuel (extLen + 1) (rsExtendLeft T R st.rs inC st.nextUse extLen st.back)

/-- `NonTerminal(in, prob)` (`left.hh:87-149`) -/
def nonTerminal (T : Table) (R : Ptr → Rat) (rs : RS) (inC : Chart) (p : Rat) : RS :=
  let rs := { rs with prob := rs.prob + p }
  if inC.left.length == 0 then
    if inC.left.full then
      { rs with prob := rs.prob + (rs.out.right.backoff.take rs.out.right.length).sum, leftDone := true,
                out := { rs.out with right := inC.right } }
    else rs
  else if rs.out.right.length == 0 then
    let rs := { rs with out := { rs.out with right := inC.right } }
    if rs.leftDone then { rs with prob := rs.prob + unRest T R inC.left.pointers 1 }
    else if rs.out.left.length != 0 then { rs with leftDone := true }
    else { rs with out := { rs.out with left := inC.left }, leftDone := inC.left.full }
  else
    let st := extendAll T R inC inC.left.length 1
      { rs := rs, nextUse := rs.out.right.length, back := rs.out.right.backoff.take rs.out.right.length, exit := false }
    if st.exit then st.rs else
    let rs := st.rs
    if inC.left.full then
      { rs with prob := rs.prob + (st.back.take st.nextUse).sum, leftDone := true, out := { rs.out with right := inC.right } }
    else if inC.right.length < inC.left.length then
      { rs with out := { rs.out with right := inC.right } }
    else
      { rs with out := { rs.out with right :=
          { length := inC.right.length + st.nextUse,
            words := inC.right.words.take inC.right.length ++ rs.out.right.words.take st.nextUse,
            backoff := inC.right.backoff.take inC.right.length ++ st.back.take st.nextUse } } }

/-- `BeginNonTerminal(in, prob)` -/
def beginNonTerminal (inC : Chart) (p : Rat) : RS := { out := inC, leftDone := inC.left.full, prob := p }

/-- `Finish()`: sets `left.full`, returns `prob_` -/
def finish (order : Nat) (rs : RS) : Chart × Rat :=
  ({ rs.out with left := { rs.out.left with full := rs.leftDone || rs.out.left.length == order - 1 } }, rs.prob)

/-! ## derivations: arbitrary n-ary trees of terminals and non-terminals -/

mutual
/-- one right-hand-side item: a terminal word or a non-terminal with its own rule application -/
inductive Item where
  | term (w : Word)
  | nt (r : Rule)
/-- a rule application: the items left to right -/
inductive Rule where
  | nil
  | cons (i : Item) (r : Rule)
end

instance : Inhabited Rule := ⟨.nil⟩
instance : Inhabited Item := ⟨.term 0⟩

mutual
def Item.yield : Item → List Word
  | .term w => [w]
  | .nt r => r.yield
def Rule.yield : Rule → List Word
  | .nil => []
  | .cons i r => i.yield ++ r.yield
end

mutual
/-- apply one item to a running `RuleScore`; a non-terminal is scored on its own first (fresh
`RuleScore`, `Finish`) and passed with its inclusive score, as a chart decoder does -/
def applyItem (T : Table) (R : Ptr → Rat) (rs : RS) : Item → RS
  | .term w => terminal T R rs w
  | .nt r =>
    let (c, p) := finish T.order (applyRule T R RS.init r)
    nonTerminal T R rs c p
def applyRule (T : Table) (R : Ptr → Rat) (rs : RS) : Rule → RS
  | .nil => rs
  | .cons i r => applyRule T R (applyItem T R rs i) r
end

/-- score a whole rule application from scratch: with `bos = some <s>` `BeginSentence()` is called first -/
def ruleScore (T : Table) (R : Ptr → Rat) (bos : Option Word) (r : Rule) : Chart × Rat :=
  let rs0 := match bos with
    | some b => beginSentence T R b RS.init
    | none => RS.init
  finish T.order (applyRule T R rs0 r)

/-- the reference: left-to-right scoring with `FullScore` -/
def leftToRight (T : Table) (R : Ptr → Rat) (bos : Option Word) (ws : List Word) : Rat × State :=
  let s0 := match bos with
    | some b => beginSentenceState (restSearch T R) b
    | none => nullContextState
  scoreSeq (restSearch T R) s0 ws

/-! ## `lm/partial.hh` -/

structure ExtendReturn where
  adjust : Rat := 0
  makeFull : Bool := false
  nextUse : Nat
  /-- pointers written through `pointers_write` -/
  written : List Ptr := []
  /-- current `backoff_in` buffer -/
  backIn : List Rat
deriving Repr, DecidableEq, Inhabited

/-- first loop of `ExtendLoop` ("using full context, writing to new left state"); returns the state and
the pointers not yet consumed together with the index `i` -/
def extendLoopWrite (T : Table) (R : Ptr → Rat) (seen : Nat) (add : List Word) (addLength : Nat) :
    List Ptr → Nat → ExtendReturn → ExtendReturn × List Ptr × Nat
  | [], i, v => (v, [], i)
  | p :: ps, i, v =>
    let ret := extendLeft T R (add.take v.nextUse) v.backIn p (i + seen + 1)
    let v := { v with backIn := ret.backoffOut, nextUse := ret.nextUse }
    if ret.independentLeft then
      ({ v with adjust := v.adjust + ret.prob, makeFull := true }, ps, i + 1)
    else
      let v := { v with adjust := v.adjust + ret.rest, written := v.written ++ [ret.extendLeft] }
      if v.nextUse != addLength then ({ v with makeFull := true }, ps, i + 1)
      else extendLoopWrite T R seen add addLength ps (i + 1) v

/-- second loop ("using some of the new context") -/
def extendLoopUse (T : Table) (R : Ptr → Rat) (seen : Nat) (add : List Word) :
    List Ptr → Nat → ExtendReturn → ExtendReturn × List Ptr × Nat
  | [], i, v => (v, [], i)
  | p :: ps, i, v =>
    if v.nextUse == 0 then (v, p :: ps, i) else
    let ret := extendLeft T R (add.take v.nextUse) v.backIn p (i + seen + 1)
    extendLoopUse T R seen add ps (i + 1)
      { v with backIn := ret.backoffOut, nextUse := ret.nextUse, adjust := v.adjust + ret.prob }

/-- `ExtendLoop` (`partial.hh:19-79`); `write = (pointers_write != NULL)`.  The returned `backIn.take nextUse`
is what `std::copy(backoff_in, backoff_in + next_use, backoff_write)` writes. -/
def extendLoop (T : Table) (R : Ptr → Rat) (seen : Nat) (add : List Word) (backoffStart : List Rat)
    (pointers : List Ptr) (write : Bool) : ExtendReturn :=
  let v0 : ExtendReturn := { nextUse := add.length, backIn := backoffStart.take add.length }
  let (v1, rest1, i1) := if write then extendLoopWrite T R seen add add.length pointers 0 v0 else (v0, pointers, 0)
  let (v2, rest2, i2) := extendLoopUse T R seen add rest1 i1 v1
  { v2 with adjust := v2.adjust + unRest T R rest2 (i2 + seen + 1) }

/-- `RevealBefore(model, reveal, seen, reveal_full, left, right)`; precondition (an `assert` in the code):
`seen < reveal.length ∨ reveal_full` -/
def revealBefore (T : Table) (R : Ptr → Rat) (reveal : State) (seen : Nat) (revealFull : Bool)
    (left : LeftSt) (right : State) : Rat × LeftSt × State :=
  let add := (reveal.words.take reveal.length).drop seen
  let v := extendLoop T R seen add ((reveal.backoff.take reveal.length).drop seen) left.pointers (!revealFull)
  let ptrs := if revealFull then [] else v.written
  let makeFull := if revealFull then true else (v.makeFull || ptrs.length == T.order - 1)
  if left.full then
    (v.adjust + (v.backIn.take v.nextUse).sum, { pointers := ptrs, full := true }, right)
  else
    let right' : State :=
      { length := right.length + v.nextUse,
        words := right.words.take right.length ++ add.take v.nextUse,
        backoff := right.backoff.take right.length ++ v.backIn.take v.nextUse }
    (v.adjust, { pointers := ptrs, full := makeFull || right'.length == T.order - 1 }, right')

/-- `RevealAfter(model, left, right, reveal, seen)`; precondition `seen < reveal.length ∨ reveal.full` -/
def revealAfter (T : Table) (R : Ptr → Rat) (left : LeftSt) (right : State) (reveal : LeftSt) (seen : Nat) :
    Rat × LeftSt × State :=
  let add := right.words.take right.length
  let v := extendLoop T R seen add (right.backoff.take right.length) (reveal.pointers.drop seen) (!left.full)
  let (adjust, right', makeFull) :=
    if reveal.full then
      (v.adjust + (v.backIn.take v.nextUse).sum, ({ length := 0 } : State), true)
    else
      (v.adjust, ({ length := v.nextUse, words := add.take v.nextUse, backoff := v.backIn.take v.nextUse } : State),
       v.makeFull || v.nextUse == T.order - 1)
  if left.full then (adjust, left, right')
  else
    let ptrs := left.pointers ++ v.written
    (adjust, { pointers := ptrs, full := makeFull || ptrs.length == T.order - 1 }, right')

/-- `Subsume(model, first_left, first_right, second_left, second_right, between_length)`:
returns the adjustment, the new `first_left` and the new `second_right` -/
def subsume (T : Table) (R : Ptr → Rat) (firstLeft : LeftSt) (firstRight : State) (secondLeft : LeftSt)
    (secondRight : State) (between : Nat) : Rat × LeftSt × State :=
  let add := firstRight.words.take firstRight.length
  let v := extendLoop T R between add (firstRight.backoff.take firstRight.length) secondLeft.pointers (!firstLeft.full)
  let (adjust, right', makeFull) :=
    if secondLeft.full then (v.adjust + (v.backIn.take v.nextUse).sum, secondRight, v.makeFull)
    else
      let r : State :=
        { length := secondRight.length + v.nextUse,
          words := secondRight.words.take secondRight.length ++ add.take v.nextUse,
          backoff := secondRight.backoff.take secondRight.length ++ v.backIn.take v.nextUse }
      (v.adjust, r, v.makeFull || r.length == T.order - 1)
  if firstLeft.full then (adjust, firstLeft, right')
  else
    let ptrs := firstLeft.pointers ++ v.written
    (adjust, { pointers := ptrs, full := makeFull || secondLeft.full || ptrs.length == T.order - 1 }, right')

/-! ### the revelation protocols of `lm/partial_test.cc` (`CheckAdjustment`), one side at a time -/

/-- reveal the pointers `k, k+1, …` of a following fragment's left state one at a time (`after.length = k+1`,
`after.full = false`, `seen = k`), accumulating the adjustments -/
def revealAfterLoop (T : Table) (R : Ptr → Rat) (ptrs : List Ptr) : Nat → Nat → LeftSt × State × Rat → LeftSt × State × Rat
  | 0, _, st => st
  | fuel+1, k, (left, right, acc) =>
    let res := revealAfter T R left right { pointers := ptrs.take (k+1), full := false } k
    revealAfterLoop T R ptrs fuel (k+1) (res.2.1, res.2.2, acc + res.1)

/-- … and finally, if it is full, its `full` flag (`seen = after.length`) -/
def revealAfterAll (T : Table) (R : Ptr → Rat) (between after : Chart) : LeftSt × State × Rat :=
  let st := revealAfterLoop T R after.left.pointers after.left.length 0 (between.left, between.right, 0)
  if after.left.full then
    let res := revealAfter T R st.1 st.2.1 { pointers := after.left.pointers, full := true } after.left.length
    (res.2.1, res.2.2, st.2.2 + res.1)
  else st

/-- reveal the words of a preceding fragment's right state one at a time (`reveal.length = k+1`, `seen = k`,
`reveal_full = false`), accumulating the adjustments -/
def revealBeforeLoop (T : Table) (R : Ptr → Rat) (br : State) : Nat → Nat → LeftSt × State × Rat → LeftSt × State × Rat
  | 0, _, st => st
  | fuel+1, k, (left, right, acc) =>
    let res := revealBefore T R { br with length := k + 1 } k false left right
    revealBeforeLoop T R br fuel (k+1) (res.2.1, res.2.2, acc + res.1)

/-- … and finally, if the preceding fragment's left state is full, `reveal_full` (`seen = before.length`) -/
def revealBeforeAll (T : Table) (R : Ptr → Rat) (before between : Chart) : LeftSt × State × Rat :=
  let st := revealBeforeLoop T R before.right before.right.length 0 (between.left, between.right, 0)
  if before.left.full then
    let res := revealBefore T R before.right before.right.length true st.1 st.2.1
    (res.2.1, res.2.2, st.2.2 + res.1)
  else st

/-- the two-sided protocol: `steps` decides which side reveals next (`true` = one more word of the preceding right state,
`false` = one more pointer of the following left state; a side that is exhausted is skipped) -/
def revealSteps (T : Table) (R : Ptr → Rat) (before after : Chart) :
    List Bool → Nat × Nat × LeftSt × State × Rat → Nat × Nat × LeftSt × State × Rat
  | [], st => st
  | true :: rest, (kb, ka, l, r, acc) =>
    if kb < before.right.length then
      let res := revealBefore T R { before.right with length := kb + 1 } kb false l r
      revealSteps T R before after rest (kb + 1, ka, res.2.1, res.2.2, acc + res.1)
    else revealSteps T R before after rest (kb, ka, l, r, acc)
  | false :: rest, (kb, ka, l, r, acc) =>
    if ka < after.left.length then
      let res := revealAfter T R l r { pointers := after.left.pointers.take (ka + 1), full := false } ka
      revealSteps T R before after rest (kb, ka + 1, res.2.1, res.2.2, acc + res.1)
    else revealSteps T R before after rest (kb, ka, l, r, acc)

/-- … followed by the two final calls in the order of `lm/partial_test.cc`: `after.full`, then `reveal_full` -/
def revealBoth (T : Table) (R : Ptr → Rat) (before between after : Chart) (steps : List Bool) : LeftSt × State × Rat :=
  let st := revealSteps T R before after steps (0, 0, between.left, between.right, 0)
  let st1 : LeftSt × State × Rat :=
    if after.left.full then
      let res := revealAfter T R st.2.2.1 st.2.2.2.1 { pointers := after.left.pointers, full := true } after.left.length
      (res.2.1, res.2.2, st.2.2.2.2 + res.1)
    else (st.2.2.1, st.2.2.2.1, st.2.2.2.2)
  if before.left.full then
    let res := revealBefore T R before.right before.right.length true st1.1 st1.2.1
    (res.2.1, res.2.2, st1.2.2 + res.1)
  else st1

end KV.Left
