/-
Model of the lmplz estimation pipeline (lm/builder), exact `Rat` arithmetic, Mathlib-free.

Two descriptions of every stage:
* the **streaming algorithms** transcribed from the C++ (`adjustStream` = `AdjustCounts::Run`,
  `addRight`/`mergeRight` = `initial_probabilities.cc`, `interpOrder`/`takeBackoffs` =
  `interpolate.cc` + `joint_order.hh`), which the native driver `drv_C05` executes on real
  corpora, and
* the **set-based specification** (`Spec` namespace below: padded n-gram windows, adjusted
  count = number of distinct left extensions, counts-of-counts, Chen–Goodman discounts,
  `u`, `γ`, interpolation by look-up), which the theorems of `Properties/C05.lean` /
  `C06.lean` relate to the streams.

Conventions: a word is a `Nat` (`0 = <unk>`, `1 = <s>`, `2 = </s>`); an n-gram is stored
**reversed** (head = newest word), so "suffix order" (`lm/common/compare.hh` `SuffixOrder`)
is the lexicographic order `<` of `List Nat`, the suffix of length `n` is `List.take n`, the
context is `List.tail`, the back-off n-gram (drop the oldest word) is `List.dropLast`.
-/
namespace KV.KN

abbrev Word := Nat
abbrev Gram := List Word

def unk : Word := 0
def bos : Word := 1
def eos : Word := 2

def isSpecial (w : Word) : Bool := w == unk || w == bos || w == eos

/-! ## 1. Counting (`corpus_count.cc`) -/

/-- all windows of length `n` of `l` (natural order in, reversed n-grams out) -/
def windows (n : Nat) : List Word → List Gram
  | [] => []
  | a :: t => if n ≤ (a :: t).length then ((a :: t).take n).reverse :: windows n t else []

/-- what `Writer::StartSentence`/`Append` see for one sentence: `N-1` times `<s>`, the words, `</s>` -/
def paddedN (N : Nat) (s : List Word) : List Word := List.replicate (N - 1) bos ++ s ++ [eos]

/-- all order-`N` occurrences (reversed), in corpus order -/
def occurrences (N : Nat) (corpus : List (List Word)) : List Gram :=
  corpus.flatMap fun s => windows N (paddedN N s)

/-- run-length combine of a sorted list (`CombineCounts`) -/
def combineSorted : List (Gram × Nat) → List (Gram × Nat)
  | [] => []
  | (g, c) :: t =>
    match combineSorted t with
    | (h, d) :: r => if g = h then (h, c + d) :: r else (g, c) :: (h, d) :: r
    | [] => [(g, c)]

def gramLe (a b : Gram × Nat) : Bool := decide (a.1 ≤ b.1)

/-- the sorted, combined order-`N` counts that `AdjustCounts` reads -/
def countFull (N : Nat) (corpus : List (List Word)) : List (Gram × Nat) :=
  combineSorted (((occurrences N corpus).map fun g => (g, 1)).mergeSort gramLe)

/-! ## 2. Adjusted counts, streaming (`adjust_counts.cc`) -/

structure Cfg where
  order : Nat
  /-- prune threshold of order `i+1` (already padded with the last value, as `ParsePruning` does) -/
  thr : Nat → Nat
  /-- `prune_words_[w]` (false when `--limit_vocab_file` is absent; never true on specials) -/
  excl : Word → Bool
  interpUni : Bool := true
  /-- the tree's final flush passes the adjusted count (fixed) or the true count (unfixed) to `stats.Add` -/
  flushAdjusted : Bool := true
  /-- the tree never marks the special unigrams in the lower-order paths (fixed) -/
  keepSpecials : Bool := true

/-- a lower-order register: `streams[i]` current record plus `actual_counts[i]` -/
structure Reg where
  gram : Gram
  adj : Nat
  actual : Nat
deriving Repr, DecidableEq

/-- an output record of order `gram.length`: adjusted count and the prune mark (top bit of `count`) -/
structure Emit where
  gram : Gram
  count : Nat
  marked : Bool
deriving Repr, DecidableEq

/-- one call `stats.Add(order_minus_1, count, pruned)` / `AddFull` -/
structure AddCall where
  idx : Nat
  count : Nat
  pruned : Bool
deriving Repr, DecidableEq

structure AState where
  regs : List Reg := []
  out : List Emit := []       -- newest first
  adds : List AddCall := []   -- newest first
deriving Repr

def u64max : Nat := 2 ^ 64 - 1

/-- the mark decision of STEP 1 / the final flush / CollapseStream:
`actual <= prune_thresholds_[i]` or some word is excluded.  `keepSpecials` is the repaired
behaviour (special unigrams are never marked, like the order-1 branch does). -/
def markOf (cfg : Cfg) (actual : Nat) (g : Gram) : Bool :=
  if cfg.keepSpecials && g.length == 1 && g.all isSpecial then false
  else decide (actual ≤ cfg.thr (g.length - 1)) || g.any cfg.excl

def Reg.emit (cfg : Cfg) (r : Reg) : Emit :=
  { gram := r.gram, count := r.adj, marked := markOf cfg r.actual r.gram }

/-- `FindDifference`: number of equal words counted from the end, at most the lower order -/
def commonPrefix : Gram → Gram → Nat
  | a :: as, b :: bs => if a = b then commonPrefix as bs + 1 else 0
  | _, _ => 0

/-- STEP 2: every still-matching register gets the full count added to its actual count; the
longest match gets one more distinct left extension -/
def bump (c : Nat) : List Reg → List Reg
  | [] => []
  | [r] => [{ r with adj := r.adj + 1, actual := r.actual + c }]
  | r :: rs => { r with actual := r.actual + c } :: bump c rs

/-- STEP 3: new registers for the suffixes of length `n, n+1, …` of `g` (`ws = g.drop (n-1)`),
up to and including the first one that starts with `<s>` (which gets the full count);
returns `true` when the loop reached the full n-gram (`bos == full->begin()` ⇒ `AddFull`). -/
def newRegs (g : Gram) (c : Nat) : Nat → List Word → List Reg × Bool
  | _, [] => ([], true)
  | _, [_] => ([], true)
  | n, w :: rest =>
    if w = bos then ([⟨g.take n, c, c⟩], false)
    else
      let r := newRegs g c (n + 1) rest
      (⟨g.take n, 1, c⟩ :: r.1, r.2)

/-- the `stats.Add` call that accompanies the emission of a register in STEP 1 -/
def Reg.addCall (cfg : Cfg) (r : Reg) : AddCall :=
  ⟨r.gram.length - 1, (r.emit cfg).count, (r.emit cfg).marked⟩

/-- `same`: how many words (from the end) the full n-gram shares with the longest valid register -/
def sameOf (regs : List Reg) (g : Gram) : Nat :=
  match regs.getLast? with
  | some r => commonPrefix g r.gram
  | none => 0

/-- one iteration of `for (; full; ++full)` -/
def adjustStep (cfg : Cfg) (s : AState) (e : Gram × Nat) : AState :=
  let same := sameOf s.regs e.1
  -- STEP 1 (highest order first)
  let dropped := (s.regs.drop same).reverse
  -- STEP 3
  let nr := newRegs e.1 e.2 (same + 1) (e.1.drop same)
  { -- STEP 2 on the registers that still match, then the new ones
    regs := bump e.2 (s.regs.take same) ++ nr.1,
    out := (dropped.map (Reg.emit cfg)).reverse ++ s.out,
    adds := (if nr.2 then [(⟨e.1.length - 1, e.2, markOf cfg e.2 e.1⟩ : AddCall)] else []) ++
            ((dropped.map (Reg.addCall cfg)).reverse ++ s.adds) }

/-- the final flush loop (lowest order first) -/
def adjustFlush (cfg : Cfg) (s : AState) : AState :=
  { regs := [],
    out := (s.regs.map (Reg.emit cfg)).reverse ++ s.out,
    adds := (s.regs.map fun r =>
      (⟨r.gram.length - 1, if cfg.flushAdjusted then r.adj else r.actual,
        markOf cfg r.actual r.gram⟩ : AddCall)).reverse ++ s.adds }

/-- initialisation: `<unk>` is written with count 0 and `stats.Add(0, 0)`; `<s>` is the first
valid register with count 0 and actual count `UINT64_MAX` ("don't prune `<s>`") -/
def adjustInit : AState :=
  { regs := [⟨[bos], 0, u64max⟩],
    out := [⟨[unk], 0, false⟩],
    adds := [⟨0, 0, false⟩] }

/-- `AdjustCounts::Run` for order ≥ 2 -/
def adjustStream (cfg : Cfg) (full : List (Gram × Nat)) : AState :=
  adjustFlush cfg (full.foldl (adjustStep cfg) adjustInit)

/-- the lower-order output stream of order `n` (in emission order) -/
def AState.stream (s : AState) (n : Nat) : List Emit :=
  (s.out.reverse).filter fun e => e.gram.length == n

/-- `CollapseStream`: the order-N stream that leaves AdjustCounts: everything except the
records with `<s>` in natural position 1, marked by count ≤ threshold or excluded word.
(The in-block compaction permutes the survivors; the stream is sorted again afterwards.) -/
def collapse (cfg : Cfg) (full : List (Gram × Nat)) : List Emit :=
  (full.filter fun e => !(decide (2 ≤ e.1.length) && e.1.getD (e.1.length - 2) unk == bos)).map
    fun e => ⟨e.1, e.2, markOf cfg e.2 e.1⟩

/-- the order-1 special path of `AdjustCounts::Run` (`order == 1`): the unigram stream
(`<unk>`, `<s>` with count 0 first, as `Writer` adds them) is marked; specials never -/
def adjustUnigramOnly (cfg : Cfg) (full : List (Gram × Nat)) : List Emit :=
  full.map fun e =>
    let special := match e.1 with
      | [w] => decide (w ≤ 2)
      | _ => false
    ⟨e.1, e.2, if special then false else decide (e.2 ≤ cfg.thr 0) || e.1.any cfg.excl⟩

/-- per-order statistics `OrderStat` -/
structure OrderStat where
  n0 : Nat := 0
  n1 : Nat := 0
  n2 : Nat := 0
  n3 : Nat := 0
  n4 : Nat := 0
  count : Nat := 0
  countPruned : Nat := 0
deriving Repr, DecidableEq

def OrderStat.add (s : OrderStat) (count : Nat) (pruned : Bool) : OrderStat :=
  let s := { s with count := s.count + 1, countPruned := if pruned then s.countPruned else s.countPruned + 1 }
  match count with
  | 0 => { s with n0 := s.n0 + 1 }
  | 1 => { s with n1 := s.n1 + 1 }
  | 2 => { s with n2 := s.n2 + 1 }
  | 3 => { s with n3 := s.n3 + 1 }
  | 4 => { s with n4 := s.n4 + 1 }
  | _ => s

/-- statistics of order `i+1` from the log of `Add` calls (oldest first) -/
def statsOf (adds : List AddCall) (i : Nat) : OrderStat :=
  (adds.filter fun a => a.idx == i).foldl (fun s a => s.add a.count a.pruned) {}

/-- counts-of-counts of a list of output records (what `stats_eq` compares with) -/
def countsOfCounts (es : List Emit) : OrderStat :=
  es.foldl (fun s e => s.add e.count e.marked) {}

/-- everything AdjustCounts hands on: per-order streams (index `i` = order `i+1`) and statistics -/
structure Adjusted where
  streams : List (List Emit)
  stats : List OrderStat
deriving Repr

def adjust (cfg : Cfg) (full : List (Gram × Nat)) : Adjusted :=
  if cfg.order ≤ 1 then
    let es := adjustUnigramOnly cfg full
    { streams := [es], stats := [countsOfCounts es] }
  else
    let s := adjustStream cfg full
    let adds := s.adds.reverse
    { streams := ((List.range (cfg.order - 1)).map fun i => s.stream (i + 1)) ++ [collapse cfg full],
      stats := (List.range cfg.order).map fun i => statsOf adds i }

/-! ## 3. Discounts (`StatCollector::CalculateDiscounts`) -/

structure Disc where
  d1 : Rat
  d2 : Rat
  d3 : Rat
deriving Repr, DecidableEq

def Disc.get (d : Disc) (c : Nat) : Rat :=
  match c with
  | 0 => 0
  | 1 => d.d1
  | 2 => d.d2
  | _ => d.d3

/-- `Discount::Apply` -/
def Disc.apply (d : Disc) (c : Nat) : Rat := (c : Rat) - d.get c

/-- the Chen–Goodman closed form (equation 26); `none` = `BadDiscountException` -/
def chenGoodman (s : OrderStat) : Option Disc :=
  if s.n1 = 0 ∨ s.n2 = 0 ∨ s.n3 = 0 then none
  else
    let y : Rat := (s.n1 : Rat) / ((s.n1 : Rat) + 2 * (s.n2 : Rat))
    let d1 : Rat := 1 - 2 * y * (s.n2 : Rat) / (s.n1 : Rat)
    let d2 : Rat := 2 - 3 * y * (s.n3 : Rat) / (s.n2 : Rat)
    let d3 : Rat := 3 - 4 * y * (s.n4 : Rat) / (s.n3 : Rat)
    if d1 < 0 ∨ 1 < d1 ∨ d2 < 0 ∨ 2 < d2 ∨ d3 < 0 ∨ 3 < d3 then none
    else some ⟨d1, d2, d3⟩

inductive Err where
  | badDiscount (order : Nat)
  | noMatchingSuffix (order : Nat)
  | backoffMismatch (order : Nat)
  | specialSymbol
deriving Repr, DecidableEq

/-- the discounts of one order: closed form, else the user's fallback (flag `true`), else `none` = `THROW_UP` -/
def discountOf (fallback : Option Disc) (s : OrderStat) : Option (Disc × Bool) :=
  match chenGoodman s with
  | some d => some (d, false)
  | none => fallback.map fun f => (f, true)

def discountsFrom (fallback : Option Disc) : Nat → List OrderStat → Except Err (List (Disc × Bool))
  | _, [] => .ok []
  | i, s :: t =>
    match discountOf fallback s with
    | none => .error (Err.badDiscount (i + 1))
    | some d =>
      match discountsFrom fallback (i + 1) t with
      | .error e => .error e
      | .ok ds => .ok (d :: ds)

/-- per-order discounts (`CalculateDiscounts`) -/
def discounts (fallback : Option Disc) (stats : List OrderStat) : Except Err (List (Disc × Bool)) :=
  discountsFrom fallback 0 stats

/-! ## 4. Initial probabilities (`initial_probabilities.cc`) -/

def Emit.cutoff (e : Emit) : Nat := if e.marked then 0 else e.count

/-- `ContextOrder`: by context (tail of the reversed n-gram), then by the last word -/
def ctxLe (a b : Emit) : Bool :=
  decide (a.gram.tail < b.gram.tail) || (a.gram.tail == b.gram.tail && decide (a.gram.headD 0 ≤ b.gram.headD 0))

/-- split a context-sorted list into runs with equal context (`do … while (!memcmp(previous…))`) -/
def ctxRuns : List Emit → List (List Emit)
  | [] => []
  | e :: t =>
    match ctxRuns t with
    | (f :: r) :: rs => if e.gram.tail = f.gram.tail then (e :: f :: r) :: rs else [e] :: (f :: r) :: rs
    | _ => [[e]]

/-- `BufferEntry` of one context -/
structure Gam where
  ctx : Gram
  den : Nat
  gamma : Rat
deriving Repr

/-- `AddRight` for one run -/
def addRight (d : Disc) (run : List Emit) : Gam :=
  let den : Nat := (run.map (·.count)).sum
  let norm : Nat := (run.map fun e => e.count - e.cutoff).sum
  let dsum : Rat := (run.map fun e => if e.cutoff > 0 then d.get e.cutoff else 0).sum
  { ctx := (run.head?.map (·.gram.tail)).getD [], den := den, gamma := (dsum + (norm : Rat)) / (den : Rat) }

/-- a record after `MergeRight` (uninterpolated probability and interpolation weight) -/
structure Uninterp where
  gram : Gram
  u : Rat
  gamma : Rat
  keep : Bool          -- survives `PruneNGramStream`
deriving Repr

/-- `PruneNGramStream`: keep special unigrams, else keep iff `CutoffCount() > 0` -/
def keptBy (e : Emit) : Bool :=
  (e.gram.length == 1 && e.gram.all isSpecial) || decide (e.cutoff > 0)

/-- the value `grams->Value().count` that the unigram branch of `MergeRight` reads: the raw
64-bit word including the mark bit -/
def Emit.rawCount (e : Emit) : Nat := if e.marked then e.count + 2 ^ 63 else e.count

/-- `MergeRight` for one run of order ≥ 2 -/
def mergeRight (d : Disc) (run : List Emit) : List Uninterp :=
  let g := addRight d run
  run.map fun e => ⟨e.gram, d.apply e.count / (g.den : Rat), g.gamma, keptBy e⟩

/-- `MergeRight`, unigram branch -/
def mergeRightUnigram (interpUni : Bool) (d : Disc) (run : List Emit) : List Uninterp :=
  let g := addRight d run
  let gammaAssign : Rat := if interpUni then g.gamma else 0
  run.map fun e =>
    if e.gram = [unk] then ⟨e.gram, if interpUni then 0 else g.gamma, gammaAssign, keptBy e⟩
    else if e.gram = [bos] then ⟨e.gram, 1, 0, keptBy e⟩
    else ⟨e.gram, d.apply e.rawCount / (g.den : Rat), gammaAssign, keptBy e⟩

def uninterpLe (a b : Uninterp) : Bool := decide (a.gram ≤ b.gram)

/-- stage 3 for one order: context sort, `AddRight`, `MergeRight`, prune, suffix sort.
Returns the surviving records in suffix order and the gammas in context order. -/
def initialOrder (interpUni : Bool) (n : Nat) (d : Disc) (es : List Emit) : List Uninterp × List Gam :=
  let runs := ctxRuns (es.mergeSort ctxLe)
  let gams := runs.map (addRight d)
  let us := if n == 1 then runs.flatMap (mergeRightUnigram interpUni d) else runs.flatMap (mergeRight d)
  ((us.filter (·.keep)).mergeSort uninterpLe, gams)

/-! ## 5. Interpolation (`interpolate.cc`, `joint_order.hh`) -/

/-- a finished record: linear probability and back-off (before `log10`) -/
structure Entry where
  gram : Gram
  p : Rat
  bo : Rat
deriving Repr

/-- the suffix-order join of `JointOrder`: every order-`n` record is entered while the
order-`n-1` stream stands on its suffix (`dropLast` of the reversed n-gram); the lower
stream only moves forward.  `lower` = (n-gram, interpolated probability), strictly sorted. -/
def joinLower : List Uninterp → List (Gram × Rat) → Nat → Except Err (List (Uninterp × Rat))
  | [], _, _ => pure []
  | _ :: _, [], n => throw (Err.noMatchingSuffix n)
  | x :: xs, (k, p) :: ys, n =>
    if x.gram.dropLast = k then do
      let r ← joinLower xs ((k, p) :: ys) n
      pure ((x, p) :: r)
    else joinLower (x :: xs) ys n
termination_by xs ys _ => xs.length + ys.length

/-- `Callback::Enter`, probability part -/
def interpProb (x : Uninterp) (lower : Rat) : Rat := x.u + x.gamma * lower

/-- does the record ask the back-off stream for a value? -/
def wantsBackoff (g : Gram) : Bool :=
  match g with
  | w :: _ => w != unk && w != eos
  | [] => false

/-- `Callback::Enter`, back-off part, when the next order is *not* pruned: the gammas are
consumed strictly in sequence -/
def takeBackoffsSeq : List Gram → List Gam → List Rat
  | [], _ => []
  | g :: gs, gam :: gams => if wantsBackoff g then gam.gamma :: takeBackoffsSeq gs gams
                            else 1 :: takeBackoffsSeq gs (gam :: gams)
  | _ :: gs, [] => 1 :: takeBackoffsSeq gs []

/-- leftover gammas (⇒ "Backoffs do not match" abort in `~Callback`) -/
def leftoverSeq : List Gram → List Gam → Nat
  | [], gams => gams.length
  | g :: gs, gam :: gams => if wantsBackoff g then leftoverSeq gs gams else leftoverSeq gs (gam :: gams)
  | _ :: _, [] => 0

/-- skip gammas until the context matches (`while(current_hash != hashed_backoff->hash_value && ++backoffs_)`);
`none` when the stream runs out -/
def skipTo (g : Gram) : List Gam → Option (Rat × List Gam)
  | [] => none
  | gam :: gams => if gam.ctx = g then some (gam.gamma, gams) else skipTo g gams

/-- the same when the next order *is* pruned (hash-matched gammas; a 64-bit hash collision is
outside the model) -/
def takeBackoffsHash : List Gram → List Gam → List Rat
  | [], _ => []
  | g :: gs, gams =>
    if wantsBackoff g && !gams.isEmpty then
      match skipTo g gams with
      | some (v, rest) => v :: takeBackoffsHash gs rest
      | none => 1 :: takeBackoffsHash gs []
    else 1 :: takeBackoffsHash gs gams

/-- one order of stage 4: probabilities by the join with the lower order, back-offs from the
gammas of the next order (`none` for the highest order) -/
def interpOrder (n : Nat) (us : List Uninterp) (lower : Option (List (Gram × Rat))) (uniform : Rat)
    (nextGams : Option (List Gam × Bool)) : Except Err (List Entry) := do
  let ps ← match lower with
    | none => pure (us.map fun x => (x, uniform))
    | some l => joinLower us l n
  let bos := match nextGams with
    | none => ps.map fun _ => (1 : Rat)
    | some (gams, pruned) =>
      if pruned then takeBackoffsHash (ps.map (·.1.gram)) gams
      else takeBackoffsSeq (ps.map (·.1.gram)) gams
  if let some (gams, false) := nextGams then
    if leftoverSeq (ps.map (·.1.gram)) gams ≠ 0 then throw (Err.backoffMismatch n)
  pure ((ps.zip bos).map fun ((x, lo), b) => ⟨x.gram, interpProb x lo, b⟩)

/-- all orders, lowest first; `stage3[i]` = result of `initialOrder` for order `i+1` -/
def interpAll (pruned : Nat → Bool) (uniform : Rat) : Nat → List (List Uninterp × List Gam) → Option (List (Gram × Rat)) →
    Except Err (List (List Entry))
  | _, [], _ => pure []
  | n, (us, _) :: rest, lower => do
    let next := match rest with
      | (_, gams) :: _ => some (gams, pruned n)
      | [] => none
    let es ← interpOrder n us lower uniform next
    let tl ← interpAll pruned uniform (n + 1) rest (some (es.map fun e => (e.gram, e.p)))
    pure (es :: tl)

/-! ## 6. The whole pipeline -/

structure Model where
  stats : List OrderStat
  discs : List (Disc × Bool)
  /-- header counts (`counts_pruned`) -/
  header : List Nat
  uniform : Rat
  orders : List (List Entry)
deriving Repr

/-- `pruneVocab` = `--limit_vocab_file` given (switches every order to hash-matched gammas) -/
def estimateFrom (cfg : Cfg) (pruneVocab : Bool) (fallback : Option Disc) (full : List (Gram × Nat)) :
    Except Err Model := do
  let adj := adjust cfg full
  let discs ← discounts fallback adj.stats
  let header := adj.stats.map (·.countPruned)
  let uniform : Rat := 1 / ((header.headD 0 - 1 : Nat) : Rat)
  let stage3 := (adj.streams.zip discs).zipIdx.map fun ((es, d), i) => initialOrder cfg.interpUni (i + 1) d.1 es
  -- `prune_vocab_ || prune_thresholds_[order_minus_1 + 1] > 0`
  let orders ← interpAll (fun n => pruneVocab || decide (cfg.thr n > 0)) uniform 1 stage3 none
  pure { stats := adj.stats, discs := discs, header := header, uniform := uniform, orders := orders }

/-- order-1 counting: `Writer` puts `<unk>` and `<s>` (count 0) in front of the unigram counts -/
def countFull1 (corpus : List (List Word)) : List (Gram × Nat) :=
  ([unk], 0) :: ([bos], 0) :: countFull 1 corpus

def estimate (cfg : Cfg) (pruneVocab : Bool) (fallback : Option Disc) (corpus : List (List Word)) :
    Except Err Model :=
  estimateFrom cfg pruneVocab fallback (if cfg.order ≤ 1 then countFull1 corpus else countFull cfg.order corpus)

end KV.KN

namespace KV.KN

/-! ## 0. Text (`CorpusCount::RunWithVocab` reading loop) -/

/-- the delimiter table built from `"\0\t\n\r "` -/
def isDelim (b : UInt8) : Bool := b == 0 || b == 9 || b == 10 || b == 13 || b == 32

/-- pieces between separators (empties included; `#pieces = #separators + 1`) -/
def splitAtSep (p : UInt8 → Bool) (bs : List UInt8) : List (List UInt8) :=
  bs.foldr (fun b acc => if p b then [] :: acc else
    match acc with
    | h :: t => (b :: h) :: t
    | [] => [[b]]) [[]]

/-- complete (newline-terminated) lines, and the unterminated rest -/
def corpusLines (bs : List UInt8) : List (List UInt8) × List UInt8 :=
  let ps := splitAtSep (· == 10) bs
  (ps.dropLast, ps.getLast?.getD [])

/-- `ReadWordSameLine` repeatedly: the non-empty pieces between delimiters -/
def lineTokens (l : List UInt8) : List (List UInt8) :=
  (splitAtSep isDelim l).filter (fun w => !w.isEmpty)

end KV.KN

namespace KV.KN

/-! ## 7. The `--prune` option vector (`ParsePruning`, lmplz_main.cc) -/

inductive PruneErr where
  | badThreshold     -- "Bad pruning threshold x"  (boost::lexical_cast<uint64_t> fails)
  | tooMany          -- "You specified pruning thresholds for orders 1 through k but the model only has order n"
  | decreasing       -- "Pruning thresholds should be in non-decreasing order."
deriving Repr, DecidableEq

/-- `boost::lexical_cast<uint64_t>`: an optional sign and decimal digits; the magnitude must fit
64 bits; a leading `-` negates modulo 2^64 (so `-1` is `UINT64_MAX`) -/
def parseU64 (s : String) : Option Nat :=
  let cs := s.toList
  let (neg, ds) := match cs with
    | '-' :: r => (true, r)
    | '+' :: r => (false, r)
    | r => (false, r)
  if ds.isEmpty || !ds.all Char.isDigit then none
  else
    let v := ds.foldl (fun a c => a * 10 + (c.toNat - '0'.toNat)) 0
    if v ≥ 2 ^ 64 then none
    else some (if neg then (2 ^ 64 - v) % 2 ^ 64 else v)

/-- the check `lower_threshold > *it` over the whole vector, starting from 0 -/
def nonDecreasing : List Nat → Bool
  | a :: b :: t => decide (a ≤ b) && nonDecreasing (b :: t)
  | _ => true

/-- **the option-vector predicate**: at most one value per order, never decreasing -/
def pruneVectorOK (vals : List Nat) (order : Nat) : Bool :=
  decide (vals.length ≤ order) && nonDecreasing vals

/-- padding "to all orders using the last value" (all 0 when the option is absent) -/
def padPrune (vals : List Nat) (i : Nat) : Nat :=
  match vals.getLast? with
  | none => 0
  | some l => vals.getD i l

/-- `ParsePruning`: the threshold of order `i+1`, or the refusal -/
def parsePruning (toks : List String) (order : Nat) : Except PruneErr (Nat → Nat) :=
  match toks.mapM parseU64 with
  | none => .error .badThreshold
  | some vals =>
    if vals.isEmpty then .ok (fun _ => 0)
    else if vals.length > order then .error .tooMany
    else if !nonDecreasing vals then .error .decreasing
    else .ok (padPrune vals)

end KV.KN
