/-
Model of the I/O layer of kenlm (Mathlib-free, executable).

Part 1 (C15): the retry loops of util/file.cc:164-307 (`PartialRead`, `ReadOrThrow`,
`ReadOrEOF`, `WriteOrThrow`, `ErsatzPRead`, `ErsatzPWrite`) and `util::FileStream`
(util/file_stream.hh) against an *adversarial OS oracle*: the answer to the i-th libc call
is `orc i`, one of `ok n` (the OS is willing to move up to `n` bytes), `eintr`, `err e`,
`eof` (return value 0).  One loop iteration = one libc call; the inner `do … while (EINTR)`
and the `continue` of the real loops are the same transition ("call again with the same
arguments"), so they are flattened into one loop with fuel.  Every loop returns the log of
requests it issued, which the correspondence compares with the calls the real code makes.

Part 2 (C09) is in namespace `KV.IO.Fs` below: a file with a volatile and a durable image.
-/
namespace KV.IO

abbrev Bytes := List Nat

/-- answer of the OS to one call -/
inductive Ans where
  | ok (n : Nat)
  | eintr
  | err (e : Nat)
  | eof
  deriving DecidableEq, Repr, Inhabited

/-- the value the libc wrapper returns -/
inductive Ret where
  | count (r : Nat)
  | eintr
  | err (e : Nat)
  deriving DecidableEq, Repr

/-- what a call asking for `req` bytes returns when at most `avail` bytes can be moved
(`avail` = bytes left in the source for reads; = `req` for writes) -/
def Ans.ret (a : Ans) (req avail : Nat) : Ret :=
  match a with
  | .ok n => .count (min n (min req avail))
  | .eintr => .eintr
  | .err e => .err e
  | .eof => .count 0

abbrev Oracle := Nat → Ans

/-- outcome class of a loop -/
inductive Res where
  | ok
  | errno (e : Nat)     -- FDException / ErrnoException carrying errno e
  | eofErr              -- EndOfFileException
  | fuel                -- the model ran out of fuel (never for sufficient fuel: `loops_terminate`)
  deriving DecidableEq, Repr, Inhabited

/-- one request issued to the OS: requested length and (for positional calls) offset -/
structure Call where
  req : Nat
  off : Nat := 0
  deriving DecidableEq, Repr

/-- result of a loop: outcome, index of the next oracle answer, bytes moved (in order),
what was not moved, the requests issued -/
structure Out where
  res : Res
  next : Nat
  moved : Bytes
  rest : Bytes
  log : List Call
  deriving DecidableEq, Repr

def Out.cons (c : Call) (pre : Bytes) (o : Out) : Out :=
  { o with moved := pre ++ o.moved, log := c :: o.log }

/-- the value of `EINTR` (checked against the regenerated constant in Properties/C15.lean) -/
def kEINTR : Nat := 4

/-! ### WriteOrThrow (util/file.cc:210-232)
`while (size) { errno = 0; do ret = write(fd, data, size) while (ret == -1 && errno == EINTR);
 THROW_IF(ret < 1); data += ret; size -= ret; }`
`e0` is the value `errno` has when the call is made: 0 at the top of each outer iteration,
`EINTR` after an interrupted call of the same inner loop.  A zero return does not set errno,
so the exception thrown for `ret == 0` carries that stale value (found by the correspondence
run: the real code reports errno 4 for `EINTR` followed by a zero-length write). -/
def writeOrThrow (orc : Oracle) : (fuel : Nat) → (i : Nat) → (data : Bytes) → (e0 : Nat := 0) → Out
  | _, i, [], _ => ⟨.ok, i, [], [], []⟩
  | 0, i, d :: ds, _ => ⟨.fuel, i, [], d :: ds, []⟩
  | fuel+1, i, d :: ds, e0 =>
    let data := d :: ds
    let c : Call := { req := data.length }
    match (orc i).ret data.length data.length with
    | .eintr => (writeOrThrow orc fuel (i+1) data kEINTR).cons c []
    | .err e => ⟨.errno e, i+1, [], data, [c]⟩
    | .count 0 => ⟨.errno e0, i+1, [], data, [c]⟩      -- `ret < 1`: throws with the stale errno
    | .count (r+1) => (writeOrThrow orc fuel (i+1) (data.drop (r+1)) 0).cons c (data.take (r+1))

/-! ### ErsatzPWrite (util/file.cc:274-307)
`while (size) { ret = pwrite(fd, from, size, off); if (ret <= 0) { if (ret == -1 && errno == EINTR) continue;
 THROW_IF(ret == 0, EndOfFileException); THROW(FDException); } size -= ret; off += ret; from += ret; }` -/
def ersatzPWrite (orc : Oracle) : (fuel : Nat) → (i : Nat) → (data : Bytes) → (off : Nat) → Out
  | _, i, [], _ => ⟨.ok, i, [], [], []⟩
  | 0, i, d :: ds, _ => ⟨.fuel, i, [], d :: ds, []⟩
  | fuel+1, i, d :: ds, off =>
    let data := d :: ds
    let c : Call := { req := data.length, off := off }
    match (orc i).ret data.length data.length with
    | .eintr => (ersatzPWrite orc fuel (i+1) data off).cons c []
    | .err e => ⟨.errno e, i+1, [], data, [c]⟩
    | .count 0 => ⟨.eofErr, i+1, [], data, [c]⟩
    | .count (r+1) =>
      (ersatzPWrite orc fuel (i+1) (data.drop (r+1)) (off + (r+1))).cons c (data.take (r+1))

/-! ### PartialRead (util/file.cc:164-186)
`do ret = read(fd, to, amount) while (ret == -1 && errno == EINTR); THROW_IF(ret < 0); return ret;`
`src` is what the descriptor still has to deliver.  `moved` = the bytes returned. -/
def partialRead (orc : Oracle) : (fuel : Nat) → (i : Nat) → (src : Bytes) → (amount : Nat) → Out
  | 0, i, src, _ => ⟨.fuel, i, [], src, []⟩
  | fuel+1, i, src, amount =>
    let c : Call := { req := amount }
    match (orc i).ret amount src.length with
    | .eintr => (partialRead orc fuel (i+1) src amount).cons c []
    | .err e => ⟨.errno e, i+1, [], src, [c]⟩
    | .count r => ⟨.ok, i+1, src.take r, src.drop r, [c]⟩

/-! ### ReadOrThrow (util/file.cc:188-196)
`while (amount) { ret = PartialRead(fd, to, amount); THROW_IF(ret == 0, EndOfFileException); amount -= ret; to += ret; }` -/
def readOrThrow (orc : Oracle) : (fuel : Nat) → (i : Nat) → (src : Bytes) → (amount : Nat) → Out
  | _, i, src, 0 => ⟨.ok, i, [], src, []⟩
  | 0, i, src, _+1 => ⟨.fuel, i, [], src, []⟩
  | fuel+1, i, src, a+1 =>
    let amount := a + 1
    let c : Call := { req := amount }
    match (orc i).ret amount src.length with
    | .eintr => (readOrThrow orc fuel (i+1) src amount).cons c []
    | .err e => ⟨.errno e, i+1, [], src, [c]⟩
    | .count 0 => ⟨.eofErr, i+1, [], src, [c]⟩
    | .count (r+1) => (readOrThrow orc fuel (i+1) (src.drop (r+1)) (amount - (r+1))).cons c (src.take (r+1))

/-! ### ReadOrEOF (util/file.cc:198-208): as ReadOrThrow, but a zero return ends the loop
successfully with the bytes read so far. -/
def readOrEOF (orc : Oracle) : (fuel : Nat) → (i : Nat) → (src : Bytes) → (amount : Nat) → Out
  | _, i, src, 0 => ⟨.ok, i, [], src, []⟩
  | 0, i, src, _+1 => ⟨.fuel, i, [], src, []⟩
  | fuel+1, i, src, a+1 =>
    let amount := a + 1
    let c : Call := { req := amount }
    match (orc i).ret amount src.length with
    | .eintr => (readOrEOF orc fuel (i+1) src amount).cons c []
    | .err e => ⟨.errno e, i+1, [], src, [c]⟩
    | .count 0 => ⟨.ok, i+1, [], src, [c]⟩
    | .count (r+1) => (readOrEOF orc fuel (i+1) (src.drop (r+1)) (amount - (r+1))).cons c (src.take (r+1))

/-! ### ErsatzPRead (util/file.cc:239-272): `src` = the file content from offset `off` on. -/
def ersatzPRead (orc : Oracle) : (fuel : Nat) → (i : Nat) → (src : Bytes) → (size : Nat) → (off : Nat) → Out
  | _, i, src, 0, _ => ⟨.ok, i, [], src, []⟩
  | 0, i, src, _+1, _ => ⟨.fuel, i, [], src, []⟩
  | fuel+1, i, src, s+1, off =>
    let size := s + 1
    let c : Call := { req := size, off := off }
    match (orc i).ret size src.length with
    | .eintr => (ersatzPRead orc fuel (i+1) src size off).cons c []
    | .err e => ⟨.errno e, i+1, [], src, [c]⟩
    | .count 0 => ⟨.eofErr, i+1, [], src, [c]⟩
    | .count (r+1) =>
      (ersatzPRead orc fuel (i+1) (src.drop (r+1)) (size - (r+1)) (off + (r+1))).cons c (src.take (r+1))

/-- number of `eintr` answers among the oracle's answers `[i, i+n)` -/
def eintrCount (orc : Oracle) (i : Nat) : Nat → Nat
  | 0 => 0
  | n+1 => (if orc i = .eintr then 1 else 0) + eintrCount orc (i+1) n

/-- the oracle built from a finite script; afterwards the OS is ideal (moves everything) -/
def scripted (l : List Ans) (dflt : Ans := .ok (2^64)) : Oracle := fun i => l.getD i dflt

/-- a file image updated by a positional write (zero-extended when written past the end) -/
def writeAt (img : Bytes) (off : Nat) (bs : Bytes) : Bytes :=
  let img' := if img.length < off + bs.length then img ++ List.replicate (off + bs.length - img.length) 0 else img
  img'.take off ++ bs ++ img'.drop (off + bs.length)

/-! ### FileStream (util/file_stream.hh)
`buf` = the bytes between `buf_` and `current_`; `cap = end_ - buf_ = max(buffer_size, kToStringMaxBytes)`. -/
structure Stream where
  cap : Nat
  buf : Bytes := []
  deriving DecidableEq, Repr

/-- operations on a stream: `write` (operator<<(StringPiece) and `write()`), `inplace amount s`
(the `Ensure(amount)`/`AdvanceTo` pair of `CallToString` and `put`: reserves `amount`, then
writes the `s.length ≤ amount` bytes actually produced), `flush`. -/
inductive SOp where
  | write (data : Bytes)
  | inplace (amount : Nat) (s : Bytes)
  | flush
  deriving DecidableEq, Repr

/-- state threaded through a sequence of stream operations -/
structure SRun where
  st : Stream
  res : Res := .ok
  next : Nat := 0
  sink : Bytes := []        -- bytes accepted by the OS so far, in order
  log : List Call := []
  deriving DecidableEq, Repr

def SRun.absorb (r : SRun) (o : Out) : SRun :=
  { r with res := o.res, next := o.next, sink := r.sink ++ o.moved, log := r.log ++ o.log }

def SRun.setBuf (r : SRun) (b : Bytes) : SRun := { r with st := { r.st with buf := b } }

/-- `flush()`: `if (current_ != buf_) { WriteOrThrow(fd_, buf_, current_ - buf_); current_ = buf_; }`.
On an exception `current_` is *not* reset (the statement after the throwing call is skipped). -/
def sFlush (orc : Oracle) (fuel : Nat) (r : SRun) : SRun :=
  if r.st.buf = [] then r
  else if (writeOrThrow orc fuel r.next r.st.buf).res = .ok then
    (r.absorb (writeOrThrow orc fuel r.next r.st.buf)).setBuf []
  else r.absorb (writeOrThrow orc fuel r.next r.st.buf)

/-- second half of `write()`, after the `flush()`:
`if (current_ + length <= end_) memcpy … else WriteOrThrow(fd_, data, length)` -/
def sWriteAfterFlush (orc : Oracle) (fuel : Nat) (r1 : SRun) (data : Bytes) : SRun :=
  if r1.res ≠ .ok then r1
  else if r1.st.buf.length + data.length ≤ r1.st.cap then r1.setBuf (r1.st.buf ++ data)
  else r1.absorb (writeOrThrow orc fuel r1.next data)

/-- `write(data, length)`: `if (current_ + length <= end_) { memcpy; return; } flush(); …` -/
def sWrite (orc : Oracle) (fuel : Nat) (r : SRun) (data : Bytes) : SRun :=
  if r.st.buf.length + data.length ≤ r.st.cap then r.setBuf (r.st.buf ++ data)
  else sWriteAfterFlush orc fuel (sFlush orc fuel r) data

def sAppendIfOk (r1 : SRun) (s : Bytes) : SRun :=
  if r1.res ≠ .ok then r1 else r1.setBuf (r1.st.buf ++ s)

/-- `Ensure(amount)` (flush when the reservation does not fit) followed by the in-place
conversion and `AdvanceTo`. -/
def sInplace (orc : Oracle) (fuel : Nat) (r : SRun) (amount : Nat) (s : Bytes) : SRun :=
  sAppendIfOk (if r.st.buf.length + amount > r.st.cap then sFlush orc fuel r else r) s

def sStep (orc : Oracle) (fuel : Nat) (r : SRun) (op : SOp) : SRun :=
  if r.res ≠ .ok then r else
  match op with
  | .flush => sFlush orc fuel r
  | .write data => sWrite orc fuel r data
  | .inplace amount s => sInplace orc fuel r amount s

/-- a whole life of a FileStream: construct with capacity `max bufferSize kMax`, apply the
operations, destroy (the destructor flushes). -/
def streamRun (orc : Oracle) (fuel : Nat) (cap : Nat) (ops : List SOp) : SRun :=
  sStep orc fuel (ops.foldl (sStep orc fuel) { st := { cap := cap } }) .flush

def SOp.arg : SOp → Bytes
  | .write d => d
  | .inplace _ s => s
  | .flush => []

end KV.IO
