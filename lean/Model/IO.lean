/-
Model of the I/O layer of kenlm (Mathlib-free, executable).

Part 1 (C15): the retry loops of util/file.cc:164-307 (`PartialRead`, `ReadOrThrow`,
`ReadOrEOF`, `WriteOrThrow`, `ErsatzPRead`, `ErsatzPWrite`) and `util::FileStream`
(util/file_stream.hh) against an *adversarial OS oracle*: the answer to the i-th libc call
is `orc i`, one of `ok n` (the OS is willing to move up to `n` bytes), `eintr`, `err e`,
`eof` (return value 0).  One loop iteration = one libc call; the inner `do … while (EINTR)`
and the `continue` of the real loops are the same transition ("call again with the same
arguments"), so they are flattened into one loop with fuel.  Every loop returns the log of
requests it issued, which the correspondence compares with the calls the real code makes.

Part 2 (C09) is in namespace `KV.IO.Fs` below: a file with a volatile and a durable image.
-/
namespace KV.IO

abbrev Bytes := List Nat

/-- answer of the OS to one call -/
inductive Ans where
  | ok (n : Nat)
  | eintr
  | err (e : Nat)
  | eof
  deriving DecidableEq, Repr, Inhabited

/-- the value the libc wrapper returns -/
inductive Ret where
  | count (r : Nat)
  | eintr
  | err (e : Nat)
  deriving DecidableEq, Repr

/-- what a call asking for `req` bytes returns when at most `avail` bytes can be moved
(`avail` = bytes left in the source for reads; = `req` for writes) -/
def Ans.ret (a : Ans) (req avail : Nat) : Ret :=
  match a with
  | .ok n => .count (min n (min req avail))
  | .eintr => .eintr
  | .err e => .err e
  | .eof => .count 0

abbrev Oracle := Nat → Ans

/-- outcome class of a loop -/
inductive Res where
  | ok
  | errno (e : Nat)     -- FDException / ErrnoException carrying errno e
  | eofErr              -- EndOfFileException
  | fuel                -- the model ran out of fuel (never for sufficient fuel: `loops_terminate`)
  deriving DecidableEq, Repr, Inhabited

/-- one request issued to the OS: requested length and (for positional calls) offset -/
structure Call where
  req : Nat
  off : Nat := 0
  deriving DecidableEq, Repr

/-- result of a loop: outcome, index of the next oracle answer, bytes moved (in order),
what was not moved, the requests issued -/
structure Out where
  res : Res
  next : Nat
  moved : Bytes
  rest : Bytes
  log : List Call
  deriving DecidableEq, Repr

def Out.cons (c : Call) (pre : Bytes) (o : Out) : Out :=
  { o with moved := pre ++ o.moved, log := c :: o.log }

/-- the value of `EINTR` (checked against the regenerated constant in Properties/C15.lean) -/
def kEINTR : Nat := 4

/-! ### WriteOrThrow (util/file.cc:210-232)
`while (size) { errno = 0; do ret = write(fd, data, size) while (ret == -1 && errno == EINTR);
 THROW_IF(ret < 1); data += ret; size -= ret; }`
`e0` is the value `errno` has when the call is made: 0 at the top of each outer iteration,
`EINTR` after an interrupted call of the same inner loop.  A zero return does not set errno,
so the exception thrown for `ret == 0` carries that stale value (found by the correspondence
run: the real code reports errno 4 for `EINTR` followed by a zero-length write). -/
def writeOrThrow (orc : Oracle) : (fuel : Nat) → (i : Nat) → (data : Bytes) → (e0 : Nat := 0) → Out
  | _, i, [], _ => ⟨.ok, i, [], [], []⟩
  | 0, i, d :: ds, _ => ⟨.fuel, i, [], d :: ds, []⟩
  | fuel+1, i, d :: ds, e0 =>
    let data := d :: ds
    let c : Call := { req := data.length }
    match (orc i).ret data.length data.length with
    | .eintr => (writeOrThrow orc fuel (i+1) data kEINTR).cons c []
    | .err e => ⟨.errno e, i+1, [], data, [c]⟩
    | .count 0 => ⟨.errno e0, i+1, [], data, [c]⟩      -- `ret < 1`: throws with the stale errno
    | .count (r+1) => (writeOrThrow orc fuel (i+1) (data.drop (r+1)) 0).cons c (data.take (r+1))

/-! ### ErsatzPWrite (util/file.cc:274-307)
`while (size) { ret = pwrite(fd, from, size, off); if (ret <= 0) { if (ret == -1 && errno == EINTR) continue;
 THROW_IF(ret == 0, EndOfFileException); THROW(FDException); } size -= ret; off += ret; from += ret; }` -/
def ersatzPWrite (orc : Oracle) : (fuel : Nat) → (i : Nat) → (data : Bytes) → (off : Nat) → Out
  | _, i, [], _ => ⟨.ok, i, [], [], []⟩
  | 0, i, d :: ds, _ => ⟨.fuel, i, [], d :: ds, []⟩
  | fuel+1, i, d :: ds, off =>
    let data := d :: ds
    let c : Call := { req := data.length, off := off }
    match (orc i).ret data.length data.length with
    | .eintr => (ersatzPWrite orc fuel (i+1) data off).cons c []
    | .err e => ⟨.errno e, i+1, [], data, [c]⟩
    | .count 0 => ⟨.eofErr, i+1, [], data, [c]⟩
    | .count (r+1) =>
      (ersatzPWrite orc fuel (i+1) (data.drop (r+1)) (off + (r+1))).cons c (data.take (r+1))

/-! ### PartialRead (util/file.cc:164-186)
`do ret = read(fd, to, amount) while (ret == -1 && errno == EINTR); THROW_IF(ret < 0); return ret;`
`src` is what the descriptor still has to deliver.  `moved` = the bytes returned. -/
def partialRead (orc : Oracle) : (fuel : Nat) → (i : Nat) → (src : Bytes) → (amount : Nat) → Out
  | 0, i, src, _ => ⟨.fuel, i, [], src, []⟩
  | fuel+1, i, src, amount =>
    let c : Call := { req := amount }
    match (orc i).ret amount src.length with
    | .eintr => (partialRead orc fuel (i+1) src amount).cons c []
    | .err e => ⟨.errno e, i+1, [], src, [c]⟩
    | .count r => ⟨.ok, i+1, src.take r, src.drop r, [c]⟩

/-! ### ReadOrThrow (util/file.cc:188-196)
`while (amount) { ret = PartialRead(fd, to, amount); THROW_IF(ret == 0, EndOfFileException); amount -= ret; to += ret; }` -/
def readOrThrow (orc : Oracle) : (fuel : Nat) → (i : Nat) → (src : Bytes) → (amount : Nat) → Out
  | _, i, src, 0 => ⟨.ok, i, [], src, []⟩
  | 0, i, src, _+1 => ⟨.fuel, i, [], src, []⟩
  | fuel+1, i, src, a+1 =>
    let amount := a + 1
    let c : Call := { req := amount }
    match (orc i).ret amount src.length with
    | .eintr => (readOrThrow orc fuel (i+1) src amount).cons c []
    | .err e => ⟨.errno e, i+1, [], src, [c]⟩
    | .count 0 => ⟨.eofErr, i+1, [], src, [c]⟩
    | .count (r+1) => (readOrThrow orc fuel (i+1) (src.drop (r+1)) (amount - (r+1))).cons c (src.take (r+1))

/-! ### ReadOrEOF (util/file.cc:198-208): as ReadOrThrow, but a zero return ends the loop
successfully with the bytes read so far. -/
def readOrEOF (orc : Oracle) : (fuel : Nat) → (i : Nat) → (src : Bytes) → (amount : Nat) → Out
  | _, i, src, 0 => ⟨.ok, i, [], src, []⟩
  | 0, i, src, _+1 => ⟨.fuel, i, [], src, []⟩
  | fuel+1, i, src, a+1 =>
    let amount := a + 1
    let c : Call := { req := amount }
    match (orc i).ret amount src.length with
    | .eintr => (readOrEOF orc fuel (i+1) src amount).cons c []
    | .err e => ⟨.errno e, i+1, [], src, [c]⟩
    | .count 0 => ⟨.ok, i+1, [], src, [c]⟩
    | .count (r+1) => (readOrEOF orc fuel (i+1) (src.drop (r+1)) (amount - (r+1))).cons c (src.take (r+1))

/-! ### ErsatzPRead (util/file.cc:239-272): `src` = the file content from offset `off` on. -/
def ersatzPRead (orc : Oracle) : (fuel : Nat) → (i : Nat) → (src : Bytes) → (size : Nat) → (off : Nat) → Out
  | _, i, src, 0, _ => ⟨.ok, i, [], src, []⟩
  | 0, i, src, _+1, _ => ⟨.fuel, i, [], src, []⟩
  | fuel+1, i, src, s+1, off =>
    let size := s + 1
    let c : Call := { req := size, off := off }
    match (orc i).ret size src.length with
    | .eintr => (ersatzPRead orc fuel (i+1) src size off).cons c []
    | .err e => ⟨.errno e, i+1, [], src, [c]⟩
    | .count 0 => ⟨.eofErr, i+1, [], src, [c]⟩
    | .count (r+1) =>
      (ersatzPRead orc fuel (i+1) (src.drop (r+1)) (size - (r+1)) (off + (r+1))).cons c (src.take (r+1))

/-- number of `eintr` answers among the oracle's answers `[i, i+n)` -/
def eintrCount (orc : Oracle) (i : Nat) : Nat → Nat
  | 0 => 0
  | n+1 => (if orc i = .eintr then 1 else 0) + eintrCount orc (i+1) n

/-- the oracle built from a finite script; afterwards the OS is ideal (moves everything) -/
def scripted (l : List Ans) (dflt : Ans := .ok (2^64)) : Oracle := fun i => l.getD i dflt

/-- a file image updated by a positional write (zero-extended when written past the end) -/
def writeAt (img : Bytes) (off : Nat) (bs : Bytes) : Bytes :=
  let img' := if img.length < off + bs.length then img ++ List.replicate (off + bs.length - img.length) 0 else img
  img'.take off ++ bs ++ img'.drop (off + bs.length)

/-! ### FileStream (util/file_stream.hh)
`buf` = the bytes between `buf_` and `current_`; `cap = end_ - buf_ = max(buffer_size, kToStringMaxBytes)`. -/
structure Stream where
  cap : Nat
  buf : Bytes := []
  deriving DecidableEq, Repr

/-- operations on a stream: `write` (operator<<(StringPiece) and `write()`), `inplace amount s`
(the `Ensure(amount)`/`AdvanceTo` pair of `CallToString` and `put`: reserves `amount`, then
writes the `s.length ≤ amount` bytes actually produced), `flush`. -/
inductive SOp where
  | write (data : Bytes)
  | inplace (amount : Nat) (s : Bytes)
  | flush
  deriving DecidableEq, Repr

/-- state threaded through a sequence of stream operations -/
structure SRun where
  st : Stream
  res : Res := .ok
  next : Nat := 0
  sink : Bytes := []        -- bytes accepted by the OS so far, in order
  log : List Call := []
  deriving DecidableEq, Repr

def SRun.absorb (r : SRun) (o : Out) : SRun :=
  { r with res := o.res, next := o.next, sink := r.sink ++ o.moved, log := r.log ++ o.log }

def SRun.setBuf (r : SRun) (b : Bytes) : SRun := { r with st := { r.st with buf := b } }

/-- `flush()`: `if (current_ != buf_) { WriteOrThrow(fd_, buf_, current_ - buf_); current_ = buf_; }`.
On an exception `current_` is *not* reset (the statement after the throwing call is skipped). -/
def sFlush (orc : Oracle) (fuel : Nat) (r : SRun) : SRun :=
  if r.st.buf = [] then r
  else if (writeOrThrow orc fuel r.next r.st.buf).res = .ok then
    (r.absorb (writeOrThrow orc fuel r.next r.st.buf)).setBuf []
  else r.absorb (writeOrThrow orc fuel r.next r.st.buf)

/-- second half of `write()`, after the `flush()`:
`if (current_ + length <= end_) memcpy … else WriteOrThrow(fd_, data, length)` -/
def sWriteAfterFlush (orc : Oracle) (fuel : Nat) (r1 : SRun) (data : Bytes) : SRun :=
  if r1.res ≠ .ok then r1
  else if r1.st.buf.length + data.length ≤ r1.st.cap then r1.setBuf (r1.st.buf ++ data)
  else r1.absorb (writeOrThrow orc fuel r1.next data)

/-- `write(data, length)`: `if (current_ + length <= end_) { memcpy; return; } flush(); …` -/
def sWrite (orc : Oracle) (fuel : Nat) (r : SRun) (data : Bytes) : SRun :=
  if r.st.buf.length + data.length ≤ r.st.cap then r.setBuf (r.st.buf ++ data)
  else sWriteAfterFlush orc fuel (sFlush orc fuel r) data

def sAppendIfOk (r1 : SRun) (s : Bytes) : SRun :=
  if r1.res ≠ .ok then r1 else r1.setBuf (r1.st.buf ++ s)

/-- `Ensure(amount)` (flush when the reservation does not fit) followed by the in-place
conversion and `AdvanceTo`. -/
def sInplace (orc : Oracle) (fuel : Nat) (r : SRun) (amount : Nat) (s : Bytes) : SRun :=
  sAppendIfOk (if r.st.buf.length + amount > r.st.cap then sFlush orc fuel r else r) s

def sStep (orc : Oracle) (fuel : Nat) (r : SRun) (op : SOp) : SRun :=
  if r.res ≠ .ok then r else
  match op with
  | .flush => sFlush orc fuel r
  | .write data => sWrite orc fuel r data
  | .inplace amount s => sInplace orc fuel r amount s

/-- a whole life of a FileStream: construct with capacity `max bufferSize kMax`, apply the
operations, destroy (the destructor flushes). -/
def streamRun (orc : Oracle) (fuel : Nat) (cap : Nat) (ops : List SOp) : SRun :=
  sStep orc fuel (ops.foldl (sStep orc fuel) { st := { cap := cap } }) .flush

def SOp.arg : SOp → Bytes
  | .write d => d
  | .inplace _ s => s
  | .flush => []


/-! ## Part 2 (C09): a file with a volatile image and what a crash may leave on disk

An image is a length and a byte function (bytes at or beyond `len` read as 0 through `get`).
Events are what the LD_PRELOAD shim records for the output file of `build_binary`:
`create`, `truncate n`, `pwrite off bytes` (also `write` at the current offset), `store off
bytes` (stores through a shared mapping, recovered by diffing snapshots), `msync lo hi`,
`fsync`, `munmap`, `close`.

Crash model (assumed, not observed — DESIGN §2):
* process kill after `k` events ⇒ the file is the volatile image after `k` events;
* power loss after `k` events ⇒ the length is the length after some `jl ≤ k` events with no
  sync of any kind in `(jl, k]`; every 512-byte sector independently holds its content after
  some `j ≤ k` events with no sync *covering that sector* in `(j, k]` (sector writes are
  atomic; unsynced writes may reach the disk in any order or not at all);
* the path did not exist before (`create` starts from the empty durable image).
-/
namespace Fs

def kSector : Nat := 512

structure Img where
  len : Nat
  byte : Nat → Nat

def Img.get (m : Img) (i : Nat) : Nat := if i < m.len then m.byte i else 0

def Img.empty : Img := ⟨0, fun _ => 0⟩

/-- extensional equality of images -/
def Img.eqv (a b : Img) : Prop := a.len = b.len ∧ ∀ i, a.get i = b.get i

def Img.toList (m : Img) : Bytes := (List.range m.len).map m.byte

def Img.ofArray (a : Array Nat) : Img := ⟨a.size, fun i => a.getD i 0⟩

inductive Ev where
  | create
  | truncate (n : Nat)
  | pwrite (off : Nat) (bs : Array Nat)
  | store (off : Nat) (bs : Array Nat)
  | msync (lo hi : Nat)
  | fsync
  | munmap
  | close
  deriving Repr, Inhabited

def Img.write (m : Img) (off : Nat) (bs : Array Nat) : Img :=
  ⟨max m.len (off + bs.size), fun i => if off ≤ i ∧ i < off + bs.size then bs.getD (i - off) 0 else m.get i⟩

def Img.trunc (m : Img) (n : Nat) : Img := ⟨n, fun i => m.get i⟩

/-- effect of an event on the volatile image (page cache) -/
def Ev.apply (m : Img) : Ev → Img
  | .create => Img.empty
  | .truncate n => m.trunc n
  | .pwrite off bs => m.write off bs
  | .store off bs => m.write off bs
  | _ => m

def Ev.isWrite : Ev → Bool
  | .create | .truncate _ | .pwrite _ _ | .store _ _ => true
  | _ => false

def Ev.isSync : Ev → Bool
  | .msync _ _ | .fsync => true
  | _ => false

/-- does this event force sector `s` of a file of length `len` to stable storage? -/
def Ev.covers (e : Ev) (len s : Nat) : Bool :=
  match e with
  | .fsync => true
  | .msync lo hi => decide (lo ≤ s * kSector) && decide (min ((s + 1) * kSector) len ≤ hi)
  | _ => false

/-- does this event force the whole file (length `len`) to stable storage? -/
def Ev.fullSync (e : Ev) (len : Nat) : Bool :=
  match e with
  | .fsync => true
  | .msync lo hi => decide (lo = 0) && decide (len ≤ hi)
  | _ => false

abbrev Trace := List Ev

/-- volatile image after the first `k` events -/
def vol (t : Trace) (k : Nat) : Img := (t.take k).foldl Ev.apply Img.empty

def final (t : Trace) : Img := vol t t.length

/-- version `j` of sector `s` may still be what the disk holds after `k` events -/
def VerOK (t : Trace) (k s j : Nat) : Prop :=
  j ≤ k ∧ ∀ y, j < y → y ≤ k → ∀ e, t[y - 1]? = some e → e.covers (vol t y).len s = false

def LenOK (t : Trace) (k jl : Nat) : Prop :=
  jl ≤ k ∧ ∀ y, jl < y → y ≤ k → ∀ e, t[y - 1]? = some e → e.isSync = false

/-- `img` is a possible disk content after a power loss following event `k` -/
def Crash (t : Trace) (k : Nat) (img : Img) : Prop :=
  k ≤ t.length ∧
  (∃ jl, LenOK t k jl ∧ img.len = (vol t jl).len) ∧
  ∀ s, ∃ j, VerOK t k s j ∧ ∀ i, i / kSector = s → i < img.len → img.get i = (vol t j).get i

/-- decidable form of `VerOK` (used by the driver's enumeration) -/
def verOKB (t : Trace) (k s j : Nat) : Bool :=
  decide (j ≤ k) && (List.range (k + 1)).all fun y =>
    !(decide (j < y) && decide (y ≤ k)) || !((t.getD (y - 1) .close).covers (vol t y).len s)

/-- decidable form of `LenOK` -/
def lenOKB (t : Trace) (k jl : Nat) : Bool :=
  decide (jl ≤ k) && (List.range (k + 1)).all fun y =>
    !(decide (jl < y) && decide (y ≤ k)) || !((t.getD (y - 1) .close).isSync)

/-- the image with the length of version `jl` and sector `s` at version `choice s`; `vols j` is the
volatile image after `j` events (the driver passes a table of them) -/
def crashImage (vols : Nat → Img) (jl : Nat) (choice : Nat → Nat) : Img :=
  ⟨(vols jl).len, fun i => (vols (choice (i / kSector))).get i⟩

/-- the binary format as far as C09 needs it: the reference `Sanity` bytes (regenerated),
`kMagicIncomplete`, the total header size of this build, the size the header announces
(`LoadBinary`'s `total_map`, as a function of the header bytes) and the remaining header
checks (`ReadHeader`, `MatchCheck`) -/
structure Fmt where
  sanity : Array Nat
  incomplete : Array Nat
  headerSize : Nat
  totalMap : Bytes → Nat
  paramsOK : Bytes → Bool
  hasVocab : Bytes → Bool

def prefixIs (m : Img) (a : Array Nat) : Bool :=
  (List.range a.size).all fun i => m.get i == a.getD i 0

/-- `IsBinaryFormat`: the file is longer than `Sanity` and starts with the reference header -/
def hasSanity (f : Fmt) (m : Img) : Bool := decide (f.sanity.size < m.len) && prefixIs m f.sanity

def header (f : Fmt) (m : Img) : Bytes := (List.range f.headerSize).map m.get

def kUnk : Array Nat := #[60, 117, 110, 107, 62, 0]   -- "<unk>\0"

/-- `ReadWords`' check that the vocabulary strings start with `<unk>\0` (only when the header says
the file has them) -/
def vocabOK (f : Fmt) (m : Img) : Bool :=
  !f.hasVocab (header f m) ||
    (decide (f.totalMap (header f m) + kUnk.size ≤ m.len) &&      -- `ReadOrThrow(fd, check_unk, 6)`: EOF otherwise
     (List.range kUnk.size).all fun i => m.get (f.totalMap (header f m) + i) == kUnk.getD i 0)

/-- the loader accepts: `IsBinaryFormat` ∧ `ReadHeader` can read the whole header and accepts it ∧
`MatchCheck` ∧ the `LoadBinary` size check ∧ the `<unk>` check of `ReadWords` -/
def loads (f : Fmt) (m : Img) : Bool :=
  hasSanity f m && decide (f.headerSize ≤ m.len) && f.paramsOK (header f m) &&
  decide (f.totalMap (header f m) ≤ m.len) && vocabOK f m

/-- queries only look at the mapped region `[0, totalMap)` -/
def queriesEqual (f : Fmt) (a b : Img) : Prop :=
  ∀ i, i < f.totalMap (header f b) → a.get i = b.get i

/-- least `i < n` with `p i` -/
def firstIdx (p : Nat → Bool) : Nat → Option Nat
  | 0 => none
  | n+1 => match firstIdx p n with
    | some i => some i
    | none => if p n then some n else none

/-- index of the commit event: the first event after which the volatile image starts with the
complete `Sanity` header -/
def commitIdx (f : Fmt) (t : Trace) : Option Nat :=
  firstIdx (fun c => prefixIs (vol t (c + 1)) f.sanity) t.length

/-- an event that is not a write, or a write inside `[0, H)` -/
def Ev.inHeader (e : Ev) (H : Nat) : Bool :=
  match e with
  | .pwrite off bs => decide (off + bs.size ≤ H)
  | .store off bs => decide (off + bs.size ≤ H)
  | e => !e.isWrite

/-- between events `a` and `b` (exclusive) only the header `[0, H)` is written -/
def onlyHeaderBetween (t : Trace) (a b H : Nat) : Bool :=
  (List.range t.length).all fun j => !(decide (a < j) && decide (j < b)) || (t.getD j .close).inHeader H

def noWriteBetween (t : Trace) (a b : Nat) : Bool :=
  (List.range t.length).all fun j => !(decide (a < j) && decide (j < b)) || !(t.getD j .close).isWrite

/-- the "incomplete" marker: up to event `c` every non-empty image starts with `kMagicIncomplete`
or with zeros (WRITE_AFTER writes the vocabulary strings first, leaving a hole at offset 0) -/
def markerOK (f : Fmt) (t : Trace) (c : Nat) : Bool :=
  (List.range (c + 1)).all fun j =>
    let m := vol t j
    decide (m.len = 0) || prefixIs m f.incomplete || prefixIs m (Array.replicate f.incomplete.size 0)

/-- **the writer protocol**, decidable, transcribed from lm/binary_format.cc
(SetupJustVocab / GrowForSearch / WriteVocabWords / FinishFile / WriteHeader):
there is a commit event `c` (the first event after which the file starts with the complete
`Sanity`); it is a write inside the header `[0, headerSize)`; the header fits a sector; nothing
is written after it; some earlier event `y` is a sync of the whole file as it then is (already
at least header-size long), and between `y` and `c` only the header is written (the parameters
and counts, when `WriteHeader`'s stores are traced one by one); up to and including that sync
the file shows the incomplete marker. -/
def conforms (f : Fmt) (t : Trace) : Bool :=
  match commitIdx f t with
  | none => false
  | some c =>
    decide (f.headerSize ≤ kSector) && decide (f.sanity.size < f.headerSize) &&
    !prefixIs Img.empty f.sanity &&
    (match t.getD c .close with
     | .pwrite off bs => decide (off + bs.size ≤ f.headerSize)
     | .store off bs => decide (off + bs.size ≤ f.headerSize)
     | _ => false) &&
    noWriteBetween t c t.length &&
    ((List.range c).any fun y =>
      (t.getD y .close).fullSync (vol t (y + 1)).len && decide (f.headerSize ≤ (vol t (y + 1)).len) &&
      onlyHeaderBetween t y c f.headerSize && markerOK f t (y + 1))

/-- the clause "the completed header becomes visible only after all other bytes have been
forced to stable storage", on its own -/
def headerLast (f : Fmt) (t : Trace) : Bool :=
  match commitIdx f t with
  | none => false
  | some c => (List.range c).any fun y =>
      (t.getD y .close).fullSync (vol t (y + 1)).len && decide (f.headerSize ≤ (vol t (y + 1)).len) &&
      onlyHeaderBetween t y c f.headerSize

end Fs

end KV.IO
