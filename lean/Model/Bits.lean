/-
Model of util/bit_packing.hh (little-endian branch) and util/bit_packing.cc.

Memory is one little-endian natural number: byte `i` of the buffer is bits [8i, 8i+8).
Every function transcribes the C++ expression it is named after, including the 64-bit
(resp. 32-bit) truncation of the shifted value.
-/
namespace KV.Bits

/-- `ReadOff`: the unaligned 64-bit load at byte `bit_off >> 3`. -/
def readOff (m : Nat) (bitOff : Nat) : Nat := (m >>> (8 * (bitOff / 8))) % 2^64

/-- `ReadInt57(base, bit_off, length, mask)` with `mask = (1<<length)-1`. -/
def readInt57 (m : Nat) (bitOff len : Nat) : Nat :=
  (readOff m bitOff >>> (bitOff % 8)) % 2^len

/-- `WriteInt57`: `*(uint64_t*)(base + (bit_off>>3)) |= value << (bit_off&7)`. -/
def writeInt57 (m : Nat) (bitOff _len : Nat) (v : Nat) : Nat :=
  m ||| (((v <<< (bitOff % 8)) % 2^64) <<< (8 * (bitOff / 8)))

/-- the unaligned 32-bit load used by `ReadInt25`. -/
def readOff32 (m : Nat) (bitOff : Nat) : Nat := (m >>> (8 * (bitOff / 8))) % 2^32

def readInt25 (m : Nat) (bitOff len : Nat) : Nat :=
  (readOff32 m bitOff >>> (bitOff % 8)) % 2^len

def writeInt25 (m : Nat) (bitOff _len : Nat) (v : Nat) : Nat :=
  m ||| (((v <<< (bitOff % 8)) % 2^32) <<< (8 * (bitOff / 8)))

/-- `ReadFloat32` returns the 32 bits (the float is its bit pattern here). -/
def readFloat32 (m : Nat) (bitOff : Nat) : Nat :=
  (readOff m bitOff >>> (bitOff % 8)) % 2^32

def writeFloat32 (m : Nat) (bitOff : Nat) (bits : Nat) : Nat := writeInt57 m bitOff 32 bits

def kSignBit : Nat := 0x80000000

/-- `ReadNonPositiveFloat31`: 31 stored bits, sign bit forced on. -/
def readNonPositiveFloat31 (m : Nat) (bitOff : Nat) : Nat :=
  ((readOff m bitOff >>> (bitOff % 8)) % 2^32) ||| kSignBit

/-- `WriteNonPositiveFloat31`: clears the sign bit, stores 31 bits. -/
def writeNonPositiveFloat31 (m : Nat) (bitOff : Nat) (bits : Nat) : Nat :=
  writeInt57 m bitOff 31 (bits % 2^32 % 2^31)

/-- `RequiredBits`: `if (!max) return 0; ret = 1; while (max >>= 1) ++ret;` -/
def requiredBitsLoop : Nat → Nat → Nat → Nat
  | 0, _, ret => ret
  | fuel+1, mx, ret => if mx / 2 = 0 then ret else requiredBitsLoop fuel (mx / 2) (ret + 1)

def requiredBits (maxValue : Nat) : Nat :=
  if maxValue = 0 then 0 else requiredBitsLoop 64 maxValue 1

end KV.Bits
