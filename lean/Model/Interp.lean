/-!
# Model of `lm/interpolate` (C13): log-linear interpolation of back-off models

Mathlib-free and executable.  Conventions of this file (a deviation from DESIGN §4, which
stores n-grams reversed): a context `c : List W` is in **natural order** (oldest word first),
so the back-off context `c'` of `c` is `c.tail` and inductions on the context length are
structural inductions on the list.  An n-gram is `ctx ++ [word]`.

Log10 values of the component models and the weights are exact rationals (float32 values of the
intermediate files are dyadic rationals); everything that needs `10^x` is written over an
abstract *linear domain* `F` with a function `E : Rat → F` standing for `x ↦ 10^x`
(`Float` in the driver, `ℝ` with `Real.rpow` in `Proofs/InterpReal.lean`).

What is mirrored (by final values, not by the three streaming passes):
* `merge_vocab.cc` / `universal_vocab.hh`: union vocabulary, renumbering local → universal ids;
* `merge_probabilities.cc`: per component the probability of the longest suffix present
  (`<unk>` of that component when not even the unigram is present) — `LM.rawScore`;
* `normalize.cc`: back-offs charged from the level backed off to (`LM.boOf`, top order of each
  component excluded: `SetupInputs(..., exclude_highest = true)`), the **incremental
  normaliser** `Zinc`, the normalised probabilities and the interpolated back-offs;
* `normalize.cc` `BackoffManager::SkipRecord` + `backoff_reunification.cc`: which n-grams get a
  back-off record at all (`hasBackoffRecord`) and the abort when an order has more probability
  records than back-off records (`stuck`).
-/
namespace KV.Interp

/-- one record of an intermediate / ARPA model: n-gram `ctx ++ [word]`, log10 prob, log10 back-off -/
structure Entry (W : Type) where
  ctx  : List W
  word : W
  prob : Rat
  bo   : Rat
deriving Repr

def Entry.gram {W : Type} (e : Entry W) : List W := e.ctx ++ [e.word]

/-- a component model over universal word ids -/
structure LM (W : Type) where
  order   : Nat
  unk     : W
  entries : List (Entry W)

section Log
variable {W : Type} [DecidableEq W]

def LM.find (m : LM W) (c : List W) (w : W) : Option (Entry W) :=
  m.entries.find? (fun e => decide (e.ctx = c ∧ e.word = w))

def LM.findGram (m : LM W) (g : List W) : Option (Entry W) :=
  m.entries.find? (fun e => decide (e.gram = g))

/-- back-off of the n-gram `c` as seen by the normaliser: only orders below the component's
top order are fed to `BackoffManager` (`exclude_highest`), an absent n-gram contributes 0. -/
def LM.boOf (m : LM W) (c : List W) : Rat :=
  if c.length < m.order then
    match m.findGram c with
    | some e => e.bo
    | none => 0
  else 0

def LM.unkProb (m : LM W) : Rat :=
  match m.find [] m.unk with
  | some e => e.prob
  | none => 0

/-- back-off score on universal ids exactly as passes 1+2 compute it: probability of the
longest suffix of `c ++ [w]` present in the component plus the back-offs of the contexts skipped;
`<unk>` only when the unigram itself is missing. -/
def LM.rawScore (m : LM W) : List W → W → Rat
  | [], w =>
    match m.find [] w with
    | some e => e.prob
    | none => m.unkProb
  | y :: c, w =>
    match m.find (y :: c) w with
    | some e => e.prob
    | none => m.boOf (y :: c) + m.rawScore c w

def LM.known (m : LM W) (w : W) : Bool := (m.find [] w).isSome

/-- a word missing from a component counts as its `<unk>` -/
def LM.norm (m : LM W) (w : W) : W := if m.known w then w else m.unk

/-- the *specified* component score: the ARPA back-off recursion of the component queried with
every word first mapped into the component's vocabulary (what `lm::ngram::Model` would do). -/
def LM.score (m : LM W) (c : List W) (w : W) : Rat :=
  m.rawScore (c.map m.norm) (m.norm w)

/-- weighted components -/
abbrev Comps (W : Type) := List (Rat × LM W)

/-- unnormalised interpolated log score  Σᵢ λᵢ · scoreᵢ(w | c)  (tool semantics) -/
def usum (cs : Comps W) (c : List W) (w : W) : Rat :=
  (cs.map (fun p => p.1 * p.2.rawScore c w)).sum

/-- the same with the specified component score -/
def usumSpec (cs : Comps W) (c : List W) (w : W) : Rat :=
  (cs.map (fun p => p.1 * p.2.score c w)).sum

/-- `backoff_once` of `Recurse::SameContext`:  Σᵢ λᵢ · bᵢ(c) -/
def bsum (cs : Comps W) (c : List W) : Rat :=
  (cs.map (fun p => p.1 * p.2.boOf c)).sum

/-- keep one copy of each element -/
def dedup : List W → List W
  | [] => []
  | x :: xs => if x ∈ xs then dedup xs else x :: dedup xs

/-- words explicitly following `c` in one component -/
def LM.ext (m : LM W) (c : List W) : List W :=
  (m.entries.filter (fun e => decide (e.ctx = c))).map (·.word)

/-- words `x` such that `c ++ [x]` is an n-gram of the union model -/
def explicit (cs : Comps W) (c : List W) : List W :=
  dedup (cs.flatMap (fun p => p.2.ext c))

/-- the n-grams (as `(ctx, word)`) of the union model -/
def unionGrams (cs : Comps W) : List (List W × W) :=
  dedup (cs.flatMap (fun p => p.2.entries.map (fun e => (e.ctx, e.word))))

def maxOrder (cs : Comps W) : Nat := (cs.map (fun p => p.2.order)).foldr max 0

/-- does the union n-gram `g` get a back-off record in pass 2?  Either `SameContext` is run
for it (it has an extension in the union) or some component feeds it to the `BackoffManager`
(it is an n-gram of that component *below the component's top order*), where it is entered or
skipped. -/
def hasBackoffRecord (cs : Comps W) (g : List W) : Bool :=
  !(explicit cs g).isEmpty ||
  cs.any (fun p => decide (g.length < p.2.order) && (p.2.findGram g).isSome)

/-- union n-grams below the maximal order for which pass 3 finds a probability record but no
back-off record: `ReunifyBackoff` then throws "Streams were not the same size during merging". -/
def stuck (cs : Comps W) : List (List W) :=
  ((unionGrams cs).map (fun g => g.1 ++ [g.2])).filter
    (fun g => decide (g.length < maxOrder cs) && !hasBackoffRecord cs g)

/-! ### the pass-1 record and the pass-2 charging, as the code does it

`merge_probabilities.cc` writes for every union n-gram `c ++ [x]` and every component the
probability of the longest suffix the component has (`HandleSuffix`: `fallback_probs`) and the
context length it was found at (`from`).  `normalize.cc` (`SameContext`) then adds the back-offs
of the contexts longer than `from`: all of them to `Prob()`, all but the longest to `LowerProb()`. -/

/-- `(probability of the longest suffix present, its context length)` -/
def LM.merge (m : LM W) : List W → W → Rat × Nat
  | [], w =>
    match m.find [] w with
    | some e => (e.prob, 0)
    | none => (m.unkProb, 0)
  | y :: c, w =>
    match m.find (y :: c) w with
    | some e => (e.prob, (y :: c).length)
    | none => m.merge c w

/-- back-offs of the suffixes of `c` that are longer than `from` -/
def LM.charge (m : LM W) : List W → Nat → Rat
  | [], _ => 0
  | y :: c, from_ => if from_ < (y :: c).length then m.boOf (y :: c) + m.charge c from_ else 0

/-- `input_->Prob()` after the charging loop of `SameContext` -/
def toolProb (cs : Comps W) (c : List W) (x : W) : Rat :=
  (cs.map (fun p => p.1 * ((p.2.merge c x).1 + p.2.charge c (p.2.merge c x).2))).sum

/-- `input_->LowerProb()` after the charging loop of `SameContext` for context `y :: c`:
the uncharged value is the suffix record's, the charges are decided by the `from` of the *full*
record and stop below the longest context. -/
def toolLower (cs : Comps W) (y : W) (c : List W) (x : W) : Rat :=
  (cs.map (fun p => p.1 * ((p.2.merge c x).1 + p.2.charge c (p.2.merge (y :: c) x).2))).sum

end Log

/-! ## Linear domain: the incremental normaliser and the output model -/
section Lin
variable {W : Type} [DecidableEq W]
variable {F : Type} [Zero F] [One F] [Add F] [Sub F] [Mul F] [Div F]

/-- the defining normaliser  Z(c) = Σ_{w ∈ V∖{<s>}} 10^(Σᵢ λᵢ scoreᵢ(w|c)) -/
def Zdirect (E : Rat → F) (cs : Comps W) (V : List W) (bos : W) (c : List W) : F :=
  ((V.filter (fun w => decide (w ≠ bos))).map (fun w => E (usum cs c w))).sum

/-- the incremental normaliser of `normalize.cc` (linear form of
`z = log10(pow(10, z_lower + backoff_once) + z_delta)`); the unigram case subtracts the 1
contributed by `<s>` (`z -= 1.0`). -/
def Zinc (E : Rat → F) (cs : Comps W) (V : List W) : List W → F
  | [] => (V.map (fun w => E (usum cs [] w))).sum - 1
  | y :: c =>
    E (bsum cs (y :: c)) * Zinc E cs V c +
      ((explicit cs (y :: c)).map
        (fun x => E (usum cs (y :: c) x) - E (usum cs c x + bsum cs (y :: c)))).sum

/-- the incremental normaliser written with the pass-1/pass-2 quantities of the code -/
def ZincTool (E : Rat → F) (cs : Comps W) (V : List W) : List W → F
  | [] => (V.map (fun w => E (toolProb cs [] w))).sum - 1
  | y :: c =>
    E (bsum cs (y :: c)) * ZincTool E cs V c +
      ((explicit cs (y :: c)).map
        (fun x => E (toolProb cs (y :: c) x) - E (toolLower cs y c x + bsum cs (y :: c)))).sum

/-- linear value of the probability written for the union n-gram `c ++ [x]`
(`ProbWrite() -= z`) -/
def pOut (E : Rat → F) (cs : Comps W) (V : List W) (c : List W) (x : W) : F :=
  E (usum cs c x) / Zinc E cs V c

/-- linear value of the back-off written by `SameContext`
(`z_lower + backoff_once - z`) -/
def boSame (E : Rat → F) (cs : Comps W) (V : List W) : List W → F
  | [] => 1
  | y :: c => E (bsum cs (y :: c)) * Zinc E cs V c / Zinc E cs V (y :: c)

structure OutEntry (W F : Type) where
  ctx  : List W
  word : W
  p    : F
  b    : F

def OutEntry.gram {W F : Type} (e : OutEntry W F) : List W := e.ctx ++ [e.word]

/-- the ARPA model written by pass 3 (linear values): a probability for every union n-gram;
the back-off is the one of `SameContext` when the n-gram has an extension, `1` (log 0.0) when it
is only skipped by the `BackoffManager`, and — as in ARPA — `1` at the top order. -/
def interpOut (E : Rat → F) (cs : Comps W) (V : List W) : List (OutEntry W F) :=
  (unionGrams cs).map (fun g =>
    let gram := g.1 ++ [g.2]
    { ctx := g.1, word := g.2, p := pOut E cs V g.1 g.2,
      b := if (explicit cs gram).isEmpty then 1 else boSame E cs V gram })

def outFind (o : List (OutEntry W F)) (c : List W) (w : W) : Option (OutEntry W F) :=
  o.find? (fun e => decide (e.ctx = c ∧ e.word = w))

def outBo (o : List (OutEntry W F)) (g : List W) : F :=
  match o.find? (fun e => decide (e.gram = g)) with
  | some e => e.b
  | none => 1

/-- ARPA back-off recursion of the output model, linear form -/
def outScore (o : List (OutEntry W F)) : List W → W → F
  | [], w =>
    match outFind o [] w with
    | some e => e.p
    | none => 0
  | y :: c, w =>
    match outFind o (y :: c) w with
    | some e => e.p
    | none => outBo o (y :: c) * outScore o c w

end Lin

/-! ## Pass 2 as the code runs it: `Recurse::SameContext` / `ExtendContext` over streams

One stream of records per order (order 2 first), each sorted in `ContextOrder`.  `SameContext`
consumes the records of one context from the head of its stream, computes `z` from the `z_lower`
handed down, writes the normalised probabilities and the back-off, and calls the next order's
`ExtendContext`, which loops while the head of *its* stream extends the context to the left.
The functions take fuel (one unit per call); `Proofs/InterpStream.lean` shows how much suffices. -/
section Stream
variable {W : Type} [DecidableEq W]
variable {F : Type} [Zero F] [One F] [Add F] [Sub F] [Mul F] [Div F]

/-- a record of a merged-probability stream: `(context, word)` -/
abbrev Rec (W : Type) := List W × W

/-- what pass 2 writes -/
inductive Ev (W F : Type) where
  | prob : List W → W → F → Ev W F      -- `ProbWrite()` for n-gram `ctx ++ [w]` (linear value)
  | bo   : List W → F → Ev W F          -- `backoff_out_` for n-gram `ctx` (linear value)

/-- `z` of one `SameContext` call from `z_lower` and the words consumed -/
def zStep (E : Rat → F) (cs : Comps W) (c : List W) (zl : F) (xs : List W) : F :=
  E (bsum cs c) * zl + (xs.map (fun x => E (usum cs c x) - E (usum cs c.tail x + bsum cs c))).sum

/-- events of one `SameContext` call -/
def sameEvents (E : Rat → F) (cs : Comps W) (c : List W) (zl : F) (xs : List W) : List (Ev W F) :=
  xs.map (fun x => Ev.prob c x (E (usum cs c x) / zStep E cs c zl xs)) ++
    [Ev.bo c (E (bsum cs c) * zl / zStep E cs c zl xs)]

mutual
/-- generic form of the stream recursion shared by pass 1 (`HandleSuffix`) and pass 2
(`SameContext` / `ExtendContext`): `step c inh xs` is the attribute handed to the next order after the
records `xs` of node `c` were consumed with inherited attribute `inh`; `emit c inh xs` is what is written -/
def sameCtxG {I Evt : Type} (step : List W → I → List W → I) (emit : List W → I → List W → List Evt) :
    Nat → List (List (Rec W)) → List W → I → List (List (Rec W)) × List Evt
  | 0, ss, _, _ => (ss, [])
  | _ + 1, [], _, _ => ([], [])
  | n + 1, s :: ss, c, zl =>
    let mine := s.takeWhile (fun r => decide (r.1 = c))
    let r := extendCtxG step emit n ss c (step c zl (mine.map (·.2)))
    (s.dropWhile (fun r => decide (r.1 = c)) :: r.1, emit c zl (mine.map (·.2)) ++ r.2)
def extendCtxG {I Evt : Type} (step : List W → I → List W → I) (emit : List W → I → List W → List Evt) :
    Nat → List (List (Rec W)) → List W → I → List (List (Rec W)) × List Evt
  | 0, ss, _, _ => (ss, [])
  | _ + 1, [], _, _ => ([], [])
  | _ + 1, [] :: ss, _, _ => ([] :: ss, [])
  | n + 1, (r :: s) :: ss, middle, zl =>
    if r.1.tail = middle then
      let a := sameCtxG step emit n ((r :: s) :: ss) r.1 zl
      let b := extendCtxG step emit n a.1 middle zl
      (b.1, a.2 ++ b.2)
    else ((r :: s) :: ss, [])
end

/-- `Recurse::SameContext(context, z_lower)` of the order whose stream is the head of `ss` -/
abbrev sameCtx (E : Rat → F) (cs : Comps W) :=
  sameCtxG (W := W) (zStep E cs) (sameEvents E cs)

/-- `Recurse::ExtendContext(middle, z_lower)` -/
abbrev extendCtx (E : Rat → F) (cs : Comps W) :=
  extendCtxG (W := W) (zStep E cs) (sameEvents E cs)

/-! The shape of `ContextOrder`-sorted streams: below every context `c` the records of the orders
`|c|+1, |c|+2, …` that have `c` as context suffix are contiguous and grouped by the word that
extends `c` to the left, in one common order of those words.  `X c` = words following `c` in stream
order, `Y c` = words extending `c` to the left in stream order. -/

/-- streams (own order first) of the subtree of context `c`, `d` orders above its own -/
def levels (X Y : List W → List W) : Nat → List W → List (List (Rec W))
  | 0, c => [(X c).map (fun x => (c, x))]
  | d + 1, c =>
    (X c).map (fun x => (c, x)) ::
      (Y c).foldr (fun y acc => List.zipWith (· ++ ·) (levels X Y d (y :: c)) acc) (List.replicate (d + 1) [])

/-- streams of the subtrees of the contexts `y :: c`, `y ∈ ys` -/
def levelsE (X Y : List W → List W) (d : Nat) (ys : List W) (c : List W) : List (List (Rec W)) :=
  ys.foldr (fun y acc => List.zipWith (· ++ ·) (levels X Y d (y :: c)) acc) (List.replicate (d + 1) [])

/-- what the generic recursion must write for the subtree of `c`, as a structural recursion -/
def specSameG {I Evt : Type} (step : List W → I → List W → I) (emit : List W → I → List W → List Evt)
    (X Y : List W → List W) : Nat → List W → I → List Evt
  | 0, c, zl => emit c zl (X c)
  | d + 1, c, zl =>
    emit c zl (X c) ++ (Y c).flatMap (fun y => specSameG step emit X Y d (y :: c) (step c zl (X c)))

/-- what pass 2 must write for the subtree of `c` -/
abbrev specSame (E : Rat → F) (cs : Comps W) (X Y : List W → List W) :=
  specSameG (W := W) (zStep E cs) (sameEvents E cs) X Y

end Stream

/-! ### Pass 1 as the code runs it: `HandleSuffix` over `SuffixOrder`-sorted n-gram streams

`HandleSuffix(suffix g, fallback)` of order `|g|+1` loops over the n-grams `y·g` (smallest `y` first
among the heads of the component streams that end in `g`), writes the merged record and recurses
with `y·g` as the new suffix and the updated per-component values as the new fallback.  It is the
same stream recursion as pass 2 (`sameCtxG`/`extendCtxG`) with one record per node: a record is
`(n-gram, _)`, the inherited attribute is the per-component `(λᵢ·prob, from)` vector.  The k-way
choice of the minimum among the component streams is abstracted into one merged stream per order. -/
section Pass1
variable {W : Type} [DecidableEq W]

/-- per component: probability (times λ) of the longest suffix found so far and its level -/
abbrev Fallback := List (Rat × Nat)

/-- longest suffix of the n-gram `g` present in the component (whole n-gram form of `LM.merge`) -/
def LM.mergeG (m : LM W) : List W → Rat × Nat
  | [] => (m.unkProb, 0)
  | y :: t =>
    match m.findGram (y :: t) with
    | some e => (e.prob, t.length)
    | none => m.mergeG t

/-- the per-component values pass 1 holds for the n-gram `g` -/
def mergeFb (cs : Comps W) (g : List W) : Fallback :=
  cs.map (fun p => (p.1 * (p.2.mergeG g).1, (p.2.mergeG g).2))

/-- the body of the loop of `HandleSuffix` for the n-gram `g`: components that have `g` overwrite
their fallback -/
def mergeStep (cs : Comps W) (g : List W) (fb : Fallback) (_ : List W) : Fallback :=
  List.zipWith (fun p f =>
    match p.2.findGram g with
    | some e => (p.1 * e.prob, g.length - 1)
    | none => f) cs fb

/-- a pass-1 output record: n-gram, `Prob()`, `LowerProb()`, the `from` vector -/
structure P1Rec (W : Type) where
  gram  : List W
  prob  : Rat
  lower : Rat
  from_ : List Nat
deriving DecidableEq

def mergeEmit (cs : Comps W) (g : List W) (fb : Fallback) (xs : List W) : List (P1Rec W) :=
  [{ gram := g, prob := ((mergeStep cs g fb xs).map (·.1)).sum, lower := (fb.map (·.1)).sum,
     from_ := (mergeStep cs g fb xs).map (·.2) }]

/-- the record pass 1 has to write for the n-gram `g` -/
def p1Rec (cs : Comps W) (g : List W) : P1Rec W :=
  { gram := g, prob := ((mergeFb cs g).map (·.1)).sum, lower := ((mergeFb cs g.tail).map (·.1)).sum,
    from_ := (mergeFb cs g).map (·.2) }

/-- what pass 1 has to write below the n-gram `g`, in stream order -/
def specP1 (cs : Comps W) (Y : List W → List W) : Nat → List W → List (P1Rec W)
  | 0, g => [p1Rec cs g]
  | d + 1, g => p1Rec cs g :: (Y g).flatMap (fun y => specP1 cs Y d (y :: g))

/-- `HandleSuffix` started as `HandleNGrams` starts it (fallback = the components' `<unk>`) -/
abbrev handleSuffix (cs : Comps W) :=
  extendCtxG (W := W) (mergeStep cs) (mergeEmit cs)

end Pass1

/-! ### the `ContextOrder`-sorted streams of a concrete union model (universal ids are `Nat`) -/
section Sorted

/-- lexicographic `≤` on word lists -/
def lexLe : List Nat → List Nat → Bool
  | [], _ => true
  | _ :: _, [] => false
  | a :: as, b :: bs => if a < b then true else if b < a then false else lexLe as bs

/-- `ContextOrder` on records of one order: compare the context words from the last to the first,
then the predicted word — i.e. lexicographically on `reverse ctx ++ [word]` -/
def ctxOrderLe (a b : Rec Nat) : Bool :=
  lexLe (a.1.reverse ++ [a.2]) (b.1.reverse ++ [b.2])

/-- the merged-probability stream of order `k` after the sort of pass 2 -/
def sortedStream (cs : Comps Nat) (k : Nat) : List (Rec Nat) :=
  ((unionGrams cs).filter (fun g => g.1.length + 1 == k)).mergeSort ctxOrderLe

/-- words following context `c`, in stream order -/
def sortedX (cs : Comps Nat) (c : List Nat) : List Nat :=
  (explicit cs c).mergeSort (fun a b => decide (a ≤ b))

/-- words `y` such that `y :: c` is the context of some union n-gram, in stream order -/
def sortedY (cs : Comps Nat) (c : List Nat) : List Nat :=
  (dedup ((unionGrams cs).filterMap (fun g =>
    match g.1 with
    | y :: c' => if c' = c then some y else none
    | [] => none))).mergeSort (fun a b => decide (a ≤ b))

end Sorted

/-! ### the back-off stream of pass 2 and the zip of pass 3

`BackoffManager` keeps the heads of all back-off input streams (every component, every order below
the component's top order) in a priority queue ordered by `SuffixLexicographicLess`.
`SameContext(c)` first calls `Enter(c)`: every queued n-gram smaller than `c` is *skipped* (one
record `0.0` per distinct n-gram, written to the back-off stream of its order), the ones equal to
`c` are entered; `SameContext` then writes the back-off of `c` itself.  `Finish()` skips what is left.
Pass 3 sorts the probabilities of each order in `SuffixOrder` and zips them with that order's
back-off stream (`ReunifyBackoff`), throwing if the lengths differ. -/
section Pass3

/-- `SuffixLexicographicLess`: lexicographic from the last word; a proper suffix comes first -/
def sufLt (a b : List Nat) : Bool := lexLe a.reverse b.reverse && !(a == b)

/-- `BackoffManager::Enter(c)` on the merged queue: `(skipped, remaining)` -/
def enterQ (q : List (List Nat)) (c : List Nat) : List (List Nat) × List (List Nat) :=
  (q.takeWhile (fun g => sufLt g c), (q.dropWhile (fun g => sufLt g c)).dropWhile (fun g => g == c))

/-- n-grams of all back-off records written by pass 2, in time order, for the queue `q` and the
contexts visited by `SameContext` in visiting order -/
def backoffRecs : List (List Nat) → List (List Nat) → List (List Nat)
  | q, [] => q
  | q, c :: cs => (enterQ q c).1 ++ c :: backoffRecs (enterQ q c).2 cs

/-- the merged queue: the distinct n-grams the components hold below their own top order -/
def queueGrams (cs : Comps Nat) : List (List Nat) :=
  (dedup (cs.flatMap (fun p =>
    (p.2.entries.filter (fun e => decide (e.gram.length < p.2.order))).map (·.gram)))).mergeSort
      (fun a b => lexLe a.reverse b.reverse)

/-- contexts visited by `SameContext`, in visiting order (pre-order of the context tree) -/
def ctxPre {W : Type} (Y : List W → List W) : Nat → List W → List (List W)
  | 0, c => [c]
  | d + 1, c => c :: (Y c).flatMap (fun y => ctxPre Y d (y :: c))

/-- the back-off stream of order `k` after pass 2 -/
def backoffStream (cs : Comps Nat) (k : Nat) : List (List Nat) :=
  (backoffRecs (queueGrams cs)
    ((sortedY cs []).flatMap (fun y => ctxPre (sortedY cs) (maxOrder cs - 2) [y]))).filter
      (fun g => g.length == k)

/-- the n-grams of the probability stream of order `k` after the `SuffixOrder` sort of pass 3 -/
def probStream3 (cs : Comps Nat) (k : Nat) : List (List Nat) :=
  (((unionGrams cs).map (fun g => g.1 ++ [g.2])).filter (fun g => g.length == k)).mergeSort
    (fun a b => lexLe a.reverse b.reverse)

/-- words `y` such that `y :: g` is an n-gram of the union, in stream order (pass 1) -/
def sortedYg (cs : Comps Nat) (g : List Nat) : List Nat :=
  (dedup ((unionGrams cs).filterMap (fun u =>
    match u.1 ++ [u.2] with
    | y :: t => if t = g then some y else none
    | [] => none))).mergeSort (fun a b => decide (a ≤ b))

/-- the merged n-gram stream of order `k` that `HandleSuffix` walks (records `(n-gram, 0)`) -/
def p1Stream (cs : Comps Nat) (k : Nat) : List (Rec Nat) :=
  (probStream3 cs k).map (fun g => (g, 0))

end Pass3

/-! ### Pass 1 with the component streams kept apart (`NGramHandler::active_`)

Every order has one input stream per component that has that order.  `HandleSuffix` looks at the
*heads* of the active streams only: among the heads that end in the current suffix it takes the
smallest first word, builds the n-gram, lets every stream whose head *is* that n-gram contribute
`λ[model]·prob` at `probs[model]` / `from[model]` (the other components keep the fallback), advances
those streams (erasing exhausted ones), recurses with the n-gram as suffix and continues. -/
section Kway

/-- one element of `active_`: the model number and what is left of that component's stream -/
structure Act where
  model  : Nat
  stream : List (List Nat × Rat)
deriving DecidableEq

/-- first words of the heads that end in the suffix `g` -/
def candFirst (acts : List Act) (g : List Nat) : List Nat :=
  acts.filterMap (fun a =>
    match a.stream with
    | (y :: t, _) :: _ => if t = g then some y else none
    | _ => none)

/-- the `minimum` loop of `HandleSuffix` -/
def minFirst (acts : List Act) (g : List Nat) : Option Nat :=
  match candFirst acts g with
  | [] => none
  | y :: ys => some (ys.foldl min y)

/-- the streams whose head is `gram`: `(model, prob)` of each, and the active list after advancing
them (exhausted streams are erased) -/
def advance (acts : List Act) (gram : List Nat) : List (Nat × Rat) × List Act :=
  (acts.filterMap (fun a =>
      match a.stream with
      | (g, p) :: _ => if g = gram then some (a.model, p) else none
      | [] => none),
   acts.filterMap (fun a =>
      match a.stream with
      | (g, _) :: rest => if g = gram then (if rest = [] then none else some ⟨a.model, rest⟩) else some a
      | [] => none))

/-- `probs[model] = lambdas[model] * prob; from[model] = order - 1` for the contributing streams -/
def applyContrib (lambdas : List Rat) (fb : Fallback) (contrib : List (Nat × Rat)) (lvl : Nat) : Fallback :=
  fb.zipIdx.map (fun fi =>
    match contrib.lookup fi.2 with
    | some p => (lambdas.getD fi.2 0 * p, lvl)
    | none => fi.1)

/-- `HandleSuffix` on the active lists of the orders `|g|+1, |g|+2, …` -/
def handleK (lambdas : List Rat) :
    Nat → List (List Act) → List Nat → Fallback → List (List Act) × List (P1Rec Nat)
  | 0, ss, _, _ => (ss, [])
  | _ + 1, [], _, _ => ([], [])
  | n + 1, a :: rest, g, fb =>
    match minFirst a g with
    | none => (a :: rest, [])
    | some y =>
      let adv := advance a (y :: g)
      let cur := applyContrib lambdas fb adv.1 g.length
      let r1 := handleK lambdas n rest (y :: g) cur
      let r2 := handleK lambdas n (adv.2 :: r1.1) g fb
      (r2.1, { gram := y :: g, prob := (cur.map (·.1)).sum, lower := (fb.map (·.1)).sum,
               from_ := cur.map (·.2) } :: r1.2 ++ r2.2)

/-- what is left of component `m`'s stream when the merged stream is at `M` -/
def strOf (m : LM Nat) (M : List (Rec Nat)) : List (List Nat × Rat) :=
  M.filterMap (fun r => (m.findGram r.1).map (fun e => (r.1, e.prob)))

/-- `active_` when the merged stream of that order is at `M`: model number = position in `cs` -/
def actsOf (cs : Comps Nat) (M : List (Rec Nat)) : List Act :=
  cs.zipIdx.filterMap (fun pi => if strOf pi.1.2 M = [] then none else some ⟨pi.2, strOf pi.1.2 M⟩)

/-- seeded change C13-3: a stream is tagged with its position among the components that *have*
this order (`inputs_.size() - 1`) instead of with its model number -/
def actsOfMut (cs : Comps Nat) (k : Nat) (M : List (Rec Nat)) : List Act :=
  (cs.filter (fun p => decide (k ≤ p.2.order))).zipIdx.filterMap
    (fun pi => if strOf pi.1.2 M = [] then none else some ⟨pi.2, strOf pi.1.2 M⟩)

/-- component `m`'s own input stream of order `k`: its n-grams of that order in `SuffixOrder`, with
their probabilities -/
def compStream (m : LM Nat) (k : Nat) : List (List Nat × Rat) :=
  ((dedup ((m.entries.map (·.gram)).filter (fun g => g.length == k))).mergeSort
      (fun a b => lexLe a.reverse b.reverse)).filterMap
    (fun g => (m.findGram g).map (fun e => (g, e.prob)))

/-- `active_` of order `k` as the `NGramHandler` constructor builds it from the component files:
model number = position on the command line, only non-empty streams -/
def initActs (cs : Comps Nat) (k : Nat) : List Act :=
  cs.zipIdx.filterMap (fun pi => if compStream pi.1.2 k = [] then none else some ⟨pi.2, compStream pi.1.2 k⟩)

end Kway

/-! ### `BackoffManager`'s per-model bookkeeping (`BackoffMatrix`, `Enter` / `Exit` / `Get`)

Every back-off input stream (component `m`, order `k` below the component's top order) owns the
cell `matrix_.Backoff(m, k - 1)`.  `Enter(c)` copies the back-off of the streams whose head is `c`
into their cells, `Exit` zeroes them again (`Next()`), `Get(m, level)` reads a cell.  While
`SameContext(c)` runs, the suffixes of `c` are entered, one per level. -/
section BoMatrix
variable {W : Type} [DecidableEq W]

/-- `BackoffMatrix`: `backing_[model * max_order_ + order_minus_1]` -/
structure BoMat where
  maxOrder : Nat
  backing  : List Rat
deriving DecidableEq

def BoMat.zero (models maxOrder : Nat) : BoMat := ⟨maxOrder, List.replicate (models * maxOrder) 0⟩

def BoMat.get (M : BoMat) (m lvl : Nat) : Rat := M.backing.getD (m * M.maxOrder + lvl) 0

def BoMat.set (M : BoMat) (m lvl : Nat) (v : Rat) : BoMat :=
  { M with backing := M.backing.set (m * M.maxOrder + lvl) v }

/-- `Enter(c)`: the streams whose head is `c` (component has `c` below its top order) copy their
back-off into their cell -/
def enterMat (cs : Comps W) (M : BoMat) (c : List W) : BoMat :=
  cs.zipIdx.foldl (fun M pi =>
    if c.length < pi.1.2.order then
      match pi.1.2.findGram c with
      | some e => M.set pi.2 (c.length - 1) e.bo
      | none => M
    else M) M

/-- `Exit(|c| - 1)`: the entered streams advance, their cells are zeroed -/
def exitMat (cs : Comps W) (M : BoMat) (c : List W) : BoMat :=
  cs.zipIdx.foldl (fun M pi =>
    if c.length < pi.1.2.order then
      match pi.1.2.findGram c with
      | some _ => M.set pi.2 (c.length - 1) 0
      | none => M
    else M) M

/-- the matrix while `SameContext(c)` runs: the suffixes of `c` entered, shortest first -/
def pathMat (cs : Comps W) (K : Nat) : List W → BoMat
  | [] => BoMat.zero cs.length K
  | y :: c => enterMat cs (pathMat cs K c) (y :: c)

/-- the charging loop of `SameContext` for component `m` found at level `from_`, context length `k`
(`order_ = k + 1`): `(added to LowerProb, added to Prob)` before the multiplication by λ -/
def chargeLoop (M : BoMat) (m from_ k : Nat) : Rat × Rat :=
  let lower := ((List.range' from_ (k - 1 - from_)).map (fun bt => M.get m bt)).sum
  (lower, if from_ < k then lower + M.get m (k - 1) else lower)

/-- seeded change C13-5: `Get(m, found)` instead of `Get(m, backed_to)` inside the loop -/
def chargeLoopMut (M : BoMat) (m from_ k : Nat) : Rat × Rat :=
  let lower := ((List.range' from_ (k - 1 - from_)).map (fun _ => M.get m from_)).sum
  (lower, if from_ < k then lower + M.get m (k - 1) else lower)

end BoMatrix

/-! ## Union vocabulary and renumbering (`MergeVocab`, `UniversalVocab`, `Renumber`) -/
section Vocab

/-- component as read from `<base>.vocab` / `<base>.N`: words are local ids, `vocab[0] = "<unk>"` -/
structure LocalLM where
  order   : Nat
  vocab   : List String
  entries : List (Entry Nat)

def unionVocab (ms : List LocalLM) : List String :=
  dedup ("<unk>" :: ms.flatMap (·.vocab))

/-- `UniversalVocab::GetUniversalIdx`: words are identified by their string -/
def toUniv (uv : List String) (vocab : List String) (i : Nat) : Nat :=
  uv.idxOf (vocab.getD i "<unk>")

def LocalLM.globalize (uv : List String) (m : LocalLM) : LM Nat :=
  { order := m.order
    unk := uv.idxOf "<unk>"
    entries := m.entries.map (fun e =>
      { ctx := e.ctx.map (toUniv uv m.vocab), word := toUniv uv m.vocab e.word,
        prob := e.prob, bo := e.bo }) }

def globalizeAll (ms : List LocalLM) (ls : List Rat) : Comps Nat :=
  ls.zip (ms.map (LocalLM.globalize (unionVocab ms)))

end Vocab

/-! ## `BoundedSequenceEncoding` (bounded_sequence_encoding.{hh,cc})

The `from` vector of a pass-1 record (one entry per component, entry `i` bounded by
`min(order, orderᵢ)`) is packed into consecutive bit fields of 64-bit little-endian words; a
field that would cross a word boundary starts a new word.  Memory is a little-endian `Nat`. -/
namespace BSE

structure Ent where
  next  : Bool
  shift : Nat
  len   : Nat
deriving Repr, DecidableEq

/-- `sizeof(unsigned)*8 - __builtin_clz(b)` for `b > 1`, `0` for `b ≤ 1` -/
def bitLen (b : Nat) : Nat := if b ≤ 1 then 0 else Nat.log2 b + 1

/-- the constructor loop: entries, final `entry.shift`, `full` -/
def build : List Nat → Nat → List Ent × Nat × Nat
  | [], s => ([], s, 0)
  | b :: bs, s =>
    if s + bitLen b > 64 then
      let r := build bs (bitLen b)
      (⟨true, 0, bitLen b⟩ :: r.1, r.2.1, r.2.2 + 1)
    else
      let r := build bs (s + bitLen b)
      (⟨false, s, bitLen b⟩ :: r.1, r.2.1, r.2.2)

def entries (bounds : List Nat) : List Ent := (build bounds 0).1

/-- `byte_length_` -/
def byteLength (bounds : List Nat) : Nat :=
  let r := build bounds 0
  r.2.2 * 8 + (r.2.1 + 7) / 8

/-- the 64-bit words produced by `Encode` (the last one is the final `cur`) -/
def encWords : List Ent → List Nat → Nat → List Nat
  | [], _, cur => [cur]
  | _ :: _, [], cur => [cur]
  | e :: es, v :: vs, cur =>
    if e.next then cur :: encWords es vs ((v <<< e.shift) % 2^64)
    else encWords es vs ((cur ||| (v <<< e.shift)) % 2^64)

/-- words laid out little-endian -/
def wordsToNat : List Nat → Nat
  | [] => 0
  | w :: ws => (w % 2^64) ||| (wordsToNat ws <<< 64)

/-- `Encode`: the bytes written (`byte_length_` of them; the last word is cut to `overhang_` bytes) -/
def encode (bounds : List Nat) (vs : List Nat) : Nat :=
  wordsToNat (encWords (entries bounds) vs 0) % 2^(8 * byteLength bounds)

def decM : List Ent → Nat → List Nat
  | [], _ => []
  | e :: es, m =>
    let m' := if e.next then m >>> 64 else m
    (((m' % 2^64) >>> e.shift) % 2^e.len) :: decM es m'

/-- no entry asks for a shift by 64 (undefined behaviour of `uint64_t << 64` in C++): the only
way to get one is a zero-width field (bound ≤ 1) right after a completely full word -/
def ubFree (bounds : List Nat) : Bool := (entries bounds).all (fun e => decide (e.shift < 64))

/-- `Decode` reading `byte_length_` bytes -/
def decode (bounds : List Nat) (m : Nat) : List Nat :=
  decM (entries bounds) (m % 2^(8 * byteLength bounds))

end BSE

/-! ### `MergeVocab` (merge_vocab.cc) and the per-model id maps of `UniversalVocab`

Each component's vocabulary file lists its words (after `<unk>`) in increasing order of their
64-bit hash; a min-heap over the files pops the entries in non-decreasing hash order (ties between
files in heap order, i.e. arbitrary); an entry whose hash differs from the previous one opens a new
universal id; every popped entry `(model, local index)` is mapped to the current universal id. -/
section MergeVocabIds

/-- one pop of the heap: hash, model, local index (`CurrentIndex()`) -/
structure VPop where
  hash  : Nat
  model : Nat
  loc   : Nat
deriving DecidableEq

/-- one call of `InsertUniversalIdx(model, loc, univ)`, with the hash that caused it -/
structure VIns where
  hash  : Nat
  model : Nat
  loc   : Nat
  univ  : Nat
deriving DecidableEq

/-- the `while (!heap.empty())` loop, given the pops in heap order; `prev` = `prev_hash_value`,
`gi` = `global_index` -/
def mergeVocabLoop : List VPop → Nat → Nat → List VIns
  | [], _, _ => []
  | p :: rest, prev, gi =>
    let gi' := if p.hash ≠ prev then gi + 1 else gi
    ⟨p.hash, p.model, p.loc, gi'⟩ :: mergeVocabLoop rest p.hash gi'

/-- all insertions of `MergeVocab`: `<unk>` of every model ↦ 0, then the loop from `(0, 0)` -/
def mergeVocabIns (nModels : Nat) (pops : List VPop) : List VIns :=
  (List.range nModels).map (fun i => ⟨0, i, 0, 0⟩) ++ mergeVocabLoop pops 0 0

end MergeVocabIds

/-- float32 bit pattern → exact rational (finite values; inf/nan ↦ 0) -/
def f32ToRat (b : Nat) : Rat :=
  let neg : Bool := b / 2^31 % 2 = 1
  let e : Nat := b / 2^23 % 256
  let m : Nat := b % 2^23
  let mag : Rat :=
    if e = 255 then 0
    else if e = 0 then mkRat (Int.ofNat m) (2^149)
    else if e ≥ 150 then mkRat (Int.ofNat ((2^23 + m) * 2^(e - 150))) 1
    else mkRat (Int.ofNat (2^23 + m)) (2^(150 - e))
  if neg then -mag else mag

end KV.Interp
