import Model.KN
/-!
The set-based specification of interpolated modified Kneser-Ney estimation with count /
vocabulary pruning, as a function of the table of order-`N` counts (a list of distinct
reversed n-grams with positive counts, in *any* order — nothing here looks at positions).

Everything is defined by filters, sums and look-ups so that it can be read against
Chen & Goodman (1998) §3 and Heafield et al. (2013) §3; it is executable (quadratic) and
the driver runs it (`mode=spec`) on small corpora next to the streaming model.
-/
namespace KV.KN.Spec

abbrev Table := List (Gram × Nat)

/-- the suffix of length `n` of `g` contains `<s>` at most as its first (oldest) word -/
def validAt (n : Nat) (g : Gram) : Bool := !((g.take (n - 1)).contains bos)

/-- the n-grams of order `n` that occur (as suffixes of the padded order-`N` n-grams) -/
def keys (n : Nat) (full : Table) : List Gram :=
  (((full.map (·.1)).filter (validAt n)).map (·.take n)).eraseDups

/-- all table rows whose suffix is `k` -/
def rowsOf (full : Table) (k : Gram) : Table := full.filter fun e => e.1.take k.length == k

/-- the true count `c(k)` -/
def trueCount (full : Table) (k : Gram) : Nat := ((rowsOf full k).map (·.2)).sum

/-- the number of distinct left extensions `N₁₊(• k)` -/
def leftExts (full : Table) (k : Gram) : Nat :=
  (((rowsOf full k).map (·.1.take (k.length + 1))).eraseDups).length

/-- adjusted count: the true count for the highest order and for n-grams that start with
`<s>`, the number of distinct left extensions otherwise -/
def adjCount (N : Nat) (full : Table) (k : Gram) : Nat :=
  if k.length = N ∨ k.getLast? = some bos then trueCount full k else leftExts full k

/-- prune mark: true count at or below the threshold of the order, or an excluded word.
The special unigrams `<unk>`, `<s>`, `</s>` are never pruned. -/
def pruned (cfg : Cfg) (full : Table) (k : Gram) : Bool :=
  if k == [unk] || k == [bos] || k == [eos] then false
  else decide (trueCount full k ≤ cfg.thr (k.length - 1)) || k.any cfg.excl

/-- the order-`n` records (order ≥ 2 model) -/
def ents (cfg : Cfg) (full : Table) (n : Nat) : List Emit :=
  let ks := if n == 1 then [unk] :: [bos] :: keys 1 full
            else if n == cfg.order then
              (full.map (·.1)).filter fun g => !(g.getD (g.length - 2) unk == bos)
            else keys n full
  ks.map fun k =>
    if k == [unk] || k == [bos] then ⟨k, 0, false⟩ else ⟨k, adjCount cfg.order full k, pruned cfg full k⟩

/-- the order-1 model: unigram table with `<unk>`, `<s>` added -/
def ents1 (cfg : Cfg) (full : Table) : List Emit :=
  (([unk], 0) :: ([bos], 0) :: full).map fun e =>
    ⟨e.1, e.2, if e.1 == [unk] || e.1 == [bos] || e.1 == [eos] then false
               else decide (e.2 ≤ cfg.thr 0) || e.1.any cfg.excl⟩

/-- counts-of-counts `n₀…n₄`, number of records, number of unpruned records -/
def stats (es : List Emit) : OrderStat :=
  { n0 := es.countP (·.count == 0), n1 := es.countP (·.count == 1), n2 := es.countP (·.count == 2),
    n3 := es.countP (·.count == 3), n4 := es.countP (·.count == 4),
    count := es.length, countPruned := es.countP (!·.marked) }

/-- the records that share the context of `g` -/
def group (es : List Emit) (ctx : Gram) : List Emit := es.filter fun e => e.gram.tail == ctx

def den (es : List Emit) (ctx : Gram) : Nat := ((group es ctx).map (·.count)).sum

/-- `γ(ctx) = (Σ_{kept} D(c) + Σ_{pruned} c) / Σ c` -/
def gamma (d : Disc) (es : List Emit) (ctx : Gram) : Rat :=
  (((group es ctx).map fun e => if e.marked then (e.count : Rat) else d.get e.count).sum) / (den es ctx : Rat)

/-- uninterpolated probability `u(w | ctx) = (c − D(c)) / Σ c` -/
def uProb (d : Disc) (es : List Emit) (e : Emit) : Rat := d.apply e.count / (den es e.gram.tail : Rat)

structure Ctx where
  cfg : Cfg
  /-- records per order, index `i` = order `i+1` -/
  es : List (List Emit)
  ds : List Disc
  uniform : Rat

def Ctx.esAt (c : Ctx) (n : Nat) : List Emit := c.es.getD (n - 1) []
def Ctx.dAt (c : Ctx) (n : Nat) : Disc := c.ds.getD (n - 1) ⟨0, 0, 0⟩

/-- uninterpolated probability and interpolation weight of the n-gram `g` of order `n` -/
def Ctx.uGamma (c : Ctx) (g : Gram) : Rat × Rat :=
  let n := g.length
  let es := c.esAt n
  let d := c.dAt n
  let cnt := ((es.find? (·.gram == g)).map (·.count)).getD 0
  if n == 1 then
    let gm := gamma d es []
    if g == [bos] then (1, 0)
    else if g == [unk] then (if c.cfg.interpUni then (0, gm) else (gm, 0))
    else (d.apply cnt / (den es [] : Rat), if c.cfg.interpUni then gm else 0)
  else (d.apply cnt / (den es g.tail : Rat), gamma d es g.tail)

/-- interpolated probability: `p(g) = u(g) + γ(ctx g) · p(g without its oldest word)`, down to
the uniform distribution -/
def Ctx.prob (c : Ctx) : Gram → Rat
  | [] => c.uniform
  | w :: t =>
    let ug := c.uGamma (w :: t)
    ug.1 + ug.2 * c.prob (w :: t).dropLast
termination_by g => g.length
decreasing_by simp

/-- back-off weight: `γ(g)` when `g` is a context of some order-`n+1` record (kept or not), else 1 -/
def Ctx.backoff (c : Ctx) (g : Gram) : Rat :=
  let n := g.length
  if n < c.cfg.order && wantsBackoff g && !(group (c.esAt (n + 1)) g).isEmpty then
    gamma (c.dAt (n + 1)) (c.esAt (n + 1)) g
  else 1

def specLe (a b : Entry) : Bool := decide (a.gram ≤ b.gram)

def estimateFrom (cfg : Cfg) (fallback : Option Disc) (full : Table) : Except Err Model := do
  let es := if cfg.order ≤ 1 then [ents1 cfg full]
            else (List.range cfg.order).map fun i => ents cfg full (i + 1)
  let st := es.map stats
  let discs ← discounts fallback st
  let header := st.map (·.countPruned)
  let uniform : Rat := 1 / ((header.headD 0 - 1 : Nat) : Rat)
  let c : Ctx := { cfg := cfg, es := es, ds := discs.map (·.1), uniform := uniform }
  let orders := es.map fun l =>
    ((l.filter keptBy).map fun e => (⟨e.gram, c.prob e.gram, c.backoff e.gram⟩ : Entry)).mergeSort specLe
  pure { stats := st, discs := discs, header := header, uniform := uniform, orders := orders }

def estimate (cfg : Cfg) (_pruneVocab : Bool) (fallback : Option Disc) (corpus : List (List Word)) :
    Except Err Model :=
  estimateFrom cfg fallback (if cfg.order ≤ 1 then countFull 1 corpus else countFull cfg.order corpus)

end KV.KN.Spec
