/-
Model of util/sorted_uniform.hh: BinaryFind, BoundedSortedUniformFind, SortedUniformFind,
Pivot32, Pivot64.

Arrays are functions `a : Nat → Nat` on *positions*: array index `i` lives at position
`i + 1`, so that the exclusive lower bound `begin - 1` used by both call sites
(lm/trie.cc FindBitPacked, lm/vocab.hh SortedVocabulary) is position `begin`.
The pivot is a parameter: `Pivot64` computes it in single-precision floating point, whose
rounding we do not model — the theorems hold for *every* pivot function that returns an
offset below `width`, which `Pivot64` guarantees by its final cap and `Pivot32` by
arithmetic (proved).
-/
namespace KV.Search

/-- `BoundedSortedUniformFind`; `fuel` bounds the loop, `hi - lo` suffices (proved). -/
def bfind (a : Nat → Nat) (pivot : Nat → Nat → Nat → Nat) (key : Nat) :
    (fuel : Nat) → (lo : Nat) → (loV : Nat) → (hi : Nat) → (hiV : Nat) → Option Nat
  | 0, _, _, _, _ => none
  | fuel+1, lo, loV, hi, hiV =>
    if hi - lo > 1 then
      let p := lo + (1 + pivot (key - loV) (hiV - loV) (hi - lo - 1))
      let mid := a p
      if mid < key then bfind a pivot key fuel p mid hi hiV
      else if mid > key then bfind a pivot key fuel lo loV p mid
      else some p
    else none

/-- `Pivot32::Calc` on uint64: `(off * width) / (range + 1)` (the product wraps mod 2^64). -/
def pivot32 (off range width : Nat) : Nat := (off * width) % 2^64 / (range + 1)

/-- `Pivot64::Calc`: an arbitrary float result `f`, then `(ret < width) ? ret : width - 1`. -/
def pivot64 (f : Nat → Nat → Nat → Nat) (off range width : Nat) : Nat :=
  if f off range width < width then f off range width else width - 1

/-- `SortedUniformFind` over positions `[b, e)` (array `[begin, end)`), `n = e - b` elements. -/
def sortedUniformFind (a : Nat → Nat) (pivot : Nat → Nat → Nat → Nat) (key b e : Nat) : Option Nat :=
  if b = e then none
  else
    let below := a b
    if key ≤ below then (if key = below then some b else none)
    else
      let e' := e - 1
      let above := a e'
      if key ≥ above then (if key = above then some e' else none)
      else bfind a pivot key (e' - b) b below e' above

/-- `BinaryFind` over positions `[b, e)`. -/
def binaryFind (a : Nat → Nat) (key : Nat) : (fuel : Nat) → (b e : Nat) → Option Nat
  | 0, _, _ => none
  | fuel+1, b, e =>
    if e > b then
      let p := b + (e - b) / 2
      let mid := a p
      if mid < key then binaryFind a key fuel (p + 1) e
      else if mid > key then binaryFind a key fuel b p
      else some p
    else none

end KV.Search
