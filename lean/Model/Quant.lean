/-!
Model of the value semantics of `lm/quantize.{hh,cc}` (`SeparatelyQuantize`): `MakeBins`,
`Bins::Encode` / `EncodeProb` / `EncodeBackoff`, `Bins::Decode`.

The algorithm is generic in the arithmetic: `Ops α` carries the four float operations the code uses
(`<`, `-`, the mean of a bin, `-inf`).  The theorems (Properties/C04, `quant_exact…`) hold for every
`Ops` that satisfies the few order laws listed in `Laws`; the driver instantiates `Ops` with core
`Float32` / `Float` (IEEE single / double), which is what the C++ executes:
`*centers = std::accumulate(start, finish, 0.0) / static_cast<float>(finish - start)` is a double sum,
a double division and one rounding to float.

Layout sizes of the quantiser block are in `Model/Binary.lean` (`quantSize`, `quantTables`).
-/
namespace KV.Quant

structure Ops (α : Type) where
  lt : α → α → Bool
  sub : α → α → α
  mean : List α → α
  negInf : α

variable {α : Type}

/-- `std::sort(values.begin(), values.end())`: the sorted arrangement of the values.  (Insertion sort, so that the kernel
can evaluate concrete witnesses; for a total order the result of any sort is the same up to the order of equal
elements, which for floats differ at most in the sign of zero.) -/
def insertSorted (ops : Ops α) (x : α) : List α → List α
  | [] => [x]
  | y :: ys => if ops.lt x y then x :: y :: ys else y :: insertSorted ops x ys

def sortVals (ops : Ops α) (vals : List α) : List α := vals.foldr (insertSorted ops) []

/-- one step of the `MakeBins` loop: bin `i` of `bins` over `n = vals.length` sorted values -/
def binCenter (ops : Ops α) (sorted : List α) (bins : Nat) (prev : α) (i : Nat) : α :=
  let start := sorted.length * i / bins
  let finish := sorted.length * (i + 1) / bins
  if finish = start then prev else ops.mean ((sorted.drop start).take (finish - start))

/-- the loop `for (i = 0; i < bins; ++i, ++centers, start = finish)`; `prev` is `*(centers-1)` (`-inf` for `i = 0`) -/
def makeBinsFrom (ops : Ops α) (sorted : List α) (bins : Nat) : Nat → Nat → α → List α
  | 0, _, _ => []
  | fuel+1, i, prev =>
    let c := binCenter ops sorted bins prev i
    c :: makeBinsFrom ops sorted bins fuel (i + 1) c

/-- `MakeBins(values, centers, bins)` -/
def makeBins (ops : Ops α) (vals : List α) (bins : Nat) : List α :=
  makeBinsFrom ops (sortVals ops vals) bins bins 0 ops.negInf

/-- `std::lower_bound(begin + reserved, end, value) - begin` on sorted centres -/
def lowerBound (ops : Ops α) (centers : List α) (reserved : Nat) (v : α) : Nat :=
  reserved + ((centers.drop reserved).takeWhile (fun c => ops.lt c v)).length

/-- `Bins::Encode(value, reserved)` -/
def encode [Inhabited α] (ops : Ops α) (centers : List α) (reserved : Nat) (v : α) : Nat :=
  let above := lowerBound ops centers reserved v
  if above = reserved then reserved
  else if above = centers.length then centers.length - 1
  else above - (if ops.lt (ops.sub v (centers.getD (above - 1) default)) (ops.sub (centers.getD above default) v) then 1 else 0)

/-- `Bins::Decode(off)` -/
def decode [Inhabited α] (centers : List α) (code : Nat) : α := centers.getD code default

/-- `TrainProb`: the probability table of one order (`2^bits` centres) -/
def trainProb (ops : Ops α) (bits : Nat) (probs : List α) : List α := makeBins ops probs (2^bits)

/-- `Train`: the back-off table: two reserved codes (`kNoExtensionBackoff = -0.0`, `kExtensionBackoff = +0.0`)
then `2^bits - 2` centres of the non-zero back-offs -/
def trainBackoff (ops : Ops α) (bits : Nat) (noExt ext : α) (backoffs : List α) : List α :=
  noExt :: ext :: makeBins ops backoffs (2^bits - 2)

/-! ## the IEEE instance used by the driver -/

def f32Ops : Ops Float32 where
  lt a b := a < b
  sub a b := a - b
  mean l := ((l.foldl (fun (s : Float) x => s + x.toFloat) 0.0) / (Float32.ofNat l.length).toFloat).toFloat32
  negInf := Float32.ofBits 0xFF800000

instance : Inhabited Float32 := ⟨Float32.ofBits 0⟩

def driverLine (bits reserved : Nat) (vals queries : List Nat) : String :=
  let fv := vals.map (fun b => Float32.ofBits b.toUInt32)
  let centers :=
    if reserved = 2 then trainBackoff f32Ops bits (Float32.ofBits 0x80000000) (Float32.ofBits 0) fv
    else trainProb f32Ops bits fv
  let enc (q : Nat) : Nat :=
    let f := Float32.ofBits q.toUInt32
    if reserved = 2 ∧ f == Float32.ofBits 0 then (if q = 0x80000000 then 0 else 1)   -- EncodeBackoff: HasExtension
    else encode f32Ops centers reserved f
  "q centers=" ++ ",".intercalate (centers.map fun c => toString c.toBits.toNat) ++ " enc="
    ++ ",".intercalate (queries.map fun q => let c := enc q; s!"{c}:{(decode centers c).toBits.toNat}")

end KV.Quant
