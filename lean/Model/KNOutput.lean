import Model.KN
/-!
The two sinks of the estimated model (`lm/builder/output.cc` `Output::SinkProbs`):

* `ModelBuffer::Sink` (`--intermediate`, `lm/common/model_buffer.cc`): every order's chain is written
  to `<base>.n` as raw records = word ids + `ProbBackoff` (probability *and* back-off for **all**
  orders, the highest included), and the metadata `Counts c1 … cN` = `counts_pruned`;
* `PrintARPA::Run` (`--arpa`, `lm/common/print.cc`): `ngram n=counts[n-1]`, then per order the records
  in stream order, `prob \t words \t backoff` for the orders below the highest and `prob \t words`
  for the highest.

Both read the same chains (with both hooks the ARPA printer is even fed from the files just
written, `buffer_.Source(chains)`).  Values are the linear `Rat`s of `KV.KN.Entry`; `log10` and the
decimal formatting are outside this model.  Core only.
-/
namespace KV.KN.Output

/-- an ARPA line: n-gram (reversed), probability, back-off if printed -/
abbrev ArpaLine := Gram × Rat × Option Rat
/-- an intermediate record: n-gram (reversed), probability, back-off -/
abbrev InterRec := Gram × Rat × Rat

structure ArpaText where
  /-- `ngram n=…` -/
  counts : List Nat
  /-- `\n-grams:` sections, lowest order first -/
  sections : List (List ArpaLine)
deriving Repr, DecidableEq

structure Intermediate where
  /-- `Counts …` of the metadata file -/
  counts : List Nat
  /-- the files `<base>.1 … <base>.N` -/
  files : List (List InterRec)
deriving Repr, DecidableEq

/-- `PrintARPA::Run` -/
def arpaOf (m : Model) : ArpaText :=
  { counts := m.header,
    sections := m.orders.mapIdx fun i l =>
      l.map fun e => (e.gram, e.p, if i + 1 < m.orders.length then some e.bo else none) }

/-- `ModelBuffer::Sink` -/
def interOf (m : Model) : Intermediate :=
  { counts := m.header,
    files := m.orders.map fun l => l.map fun e => (e.gram, e.p, e.bo) }

/-- `Output::SinkProbs` with both hooks installed -/
def writeBoth (m : Model) : ArpaText × Intermediate := (arpaOf m, interOf m)

/-- printing the ARPA from the intermediate files (`buffer_.Source(chains)` + `PrintARPA`): the
back-off field of the highest order is not printed -/
def arpaFromInter (t : Intermediate) : ArpaText :=
  { counts := t.counts,
    sections := t.files.mapIdx fun i l =>
      l.map fun r => (r.1, r.2.1, if i + 1 < t.files.length then some r.2.2 else none) }

end KV.KN.Output
