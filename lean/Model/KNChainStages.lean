import Model.KN
import Model.KNBlocks
/-!
The lmplz stages that live on ONE `util::stream::Chain` as per-block state transformers
(`σ × block → σ × block`), i.e. in the form in which a chain worker runs them
(`for (Link l(position); l; ++l) body` — one block in, the same block out, state kept by the loop),
plus the bookkeeping that turns a block of records into the opaque `Nat` block content of C17's
chain model (`BlockCode`).  Core Lean only.

* `onlyGammaBlock` — `OnlyGamma::Run` (initial_probabilities.cc:104-140): stateless;
* `collapseStage` — `CollapseStream` inside `AdjustCounts` (adjust_counts.cc): stateless per block,
  `KV.KN.Blocks.collapseBlock`;
* `mrBlock` — `MergeRight::Run` for order ≥ 2 over a `PruneNGramStream` (initial_probabilities.cc:
  255-266, 40-100): STATEFUL: the not yet consumed rest of the sums stream coming from the adder chain
  (`summed`), and the sums entry of the current context together with that context (`previous`);
* `mrUnigramBlock` — the order-1 branch as `Model/KN.lean` has it (`mergeRightUnigram`: by value of
  the word; the single sums entry is the state).
-/
namespace KV.KN.ChainStages
open KV.KN KV.KN.Blocks

/-! ## blocks of records as opaque chain blocks -/

/-- an injective coding of record blocks by natural numbers (C17's chain model carries `Nat`s and never
looks inside) -/
structure BlockCode (β : Type) where
  enc : List β → Nat
  dec : Nat → List β
  dec_enc : ∀ b, dec (enc b) = b

/-- a stage: per-block state transformer -/
abbrev Stage (σ β γ : Type) := σ → List β → σ × List γ

/-- the blocks a stage hands on when it receives `blocks` one by one (reference semantics) -/
def runBlocks {σ β γ : Type} (step : Stage σ β γ) : σ → List (List β) → List (List γ)
  | _, [] => []
  | s, b :: bs => (step s b).2 :: runBlocks step (step s b).1 bs

/-! ### a concrete code for blocks of numbers: `enc (a :: l) = (2·enc l + 1)·2^a` -/

def encNats : List Nat → Nat
  | [] => 0
  | a :: l => (2 * encNats l + 1) * 2 ^ a

/-- number of trailing zero bits (with fuel) -/
def tz : Nat → Nat → Nat
  | 0, _ => 0
  | f + 1, n => if n % 2 = 0 ∧ n ≠ 0 then 1 + tz f (n / 2) else 0

def decNatsF : Nat → Nat → List Nat
  | 0, _ => []
  | f + 1, n => if n = 0 then [] else
      let a := tz f n
      a :: decNatsF f ((n / 2 ^ a - 1) / 2)

def decNats (n : Nat) : List Nat := decNatsF n n

/-! ## `OnlyGamma` -/

/-- what is kept of a `BufferEntry`: gamma, and with pruning the context hash (modelled by the
context itself, as `takeBackoffsHash` matches on it) -/
def onlyGamma (pruning : Bool) (g : Gam) : Gram × Rat := (if pruning then g.ctx else [], g.gamma)

def onlyGammaBlock (pruning : Bool) : Stage Unit Gam (Gram × Rat) :=
  fun s block => (s, block.map (onlyGamma pruning))

/-! ## `CollapseStream` -/

/-- the block that flows on (`SetValidSize(copy_from_ + TotalSize - base)`) -/
def collapseStage {α : Type} (p : α → Bool) : Stage Unit α α :=
  fun s block => (s, (collapseBlock p block).2)

/-! ## `MergeRight` over `PruneNGramStream`, order ≥ 2 -/

structure MRState where
  /-- the part of the sums stream (`from_adder_`) not yet consumed -/
  sums : List Gam
  /-- `previous` and `sums` of the context being processed -/
  cur : Option (Gram × Gam) := none
deriving Repr

/-- the payload written for one record under the sums entry `g` -/
def mrOut (d : Disc) (g : Gam) (e : Emit) : Uninterp :=
  ⟨e.gram, d.apply e.count / (g.den : Rat), g.gamma, keptBy e⟩

/-- a sums stream that ends early is a null dereference in the code; the theorems only run the machine
on sums streams that have one entry per context -/
def noSums : Gam := ⟨[], 0, 0⟩

/-- one record: same context as `previous` ⇒ same sums entry, else `++summed` -/
def mrStep (d : Disc) (st : MRState) (e : Emit) : MRState × Uninterp :=
  let pop : MRState × Uninterp :=
    match st.sums with
    | g :: rest => ({ sums := rest, cur := some (e.gram.tail, g) }, mrOut d g e)
    | [] => ({ sums := [], cur := some (e.gram.tail, noSums) }, mrOut d noSums e)
  match st.cur with
  | some (c, g) => if e.gram.tail = c then (st, mrOut d g e) else pop
  | none => pop

def mrRun (d : Disc) : MRState → List Emit → MRState × List Uninterp
  | st, [] => (st, [])
  | st, e :: t =>
    let r := mrStep d st e
    let r' := mrRun d r.1 t
    (r'.1, r.2 :: r'.2)

/-- one block: the consumer writes the payloads in order, `PruneNGramStream` (repaired form,
`KV.KN.Blocks.pruneBlock true`, which moves whole records) keeps the records with `keptBy` -/
def mrBlock (d : Disc) : Stage MRState Emit Uninterp :=
  fun st block => let r := mrRun d st block; (r.1, r.2.filter (·.keep))

/-! ## order 1 -/

/-- `mergeRightUnigram` for one record under the sums entry `g` -/
def mrUniOut (interpUni : Bool) (d : Disc) (g : Gam) (e : Emit) : Uninterp :=
  let gammaAssign : Rat := if interpUni then g.gamma else 0
  if e.gram = [unk] then ⟨e.gram, if interpUni then 0 else g.gamma, gammaAssign, keptBy e⟩
  else if e.gram = [bos] then ⟨e.gram, 1, 0, keptBy e⟩
  else ⟨e.gram, d.apply e.rawCount / (g.den : Rat), gammaAssign, keptBy e⟩

/-- state = the single sums entry read before the loop -/
def mrUnigramBlock (interpUni : Bool) (d : Disc) : Stage Gam Emit Uninterp :=
  fun g block => (g, pruneBlock true (mrUniOut interpUni d g) block)

end KV.KN.ChainStages
