import Generated.C10
import Model.Binary
/-
C10 — binary-header acceptance model: everything the `GenericModel` constructor checks before it trusts a
binary file (lm/binary_format.cc `IsBinaryFormat` / `ReadHeader` / `MatchCheck` / `LoadBinary`'s size check,
lm/model.cc:59-74 `CheckCounts` / enumerate-vocabulary check, lm/vocab.cc `ReadWords`).

A file is a list of bytes (`Nat < 256`).  All struct sizes, field offsets, magic strings, versions and
type numbers come from `Generated/C10.lean` (tools/probe_C10.cc prints them from the real sources), and two
*behavioural* constants say what the current tree does with degenerate headers:
  `checkCountsMinOrder`  smallest header order `CheckCounts` lets through (0 on a tree without a lower bound),
  `readHeaderRejectsNaN` whether `ReadHeader` rejects a NaN probing multiplier.
Where the code goes on with such a header it has undefined behaviour (`counts[0]` of an empty vector,
bucket count 0 ⇒ division by zero; order 1 merely leads to a nonsensical layout that the size check or the
vocabulary check rejects in practice — no claim is made there): the model returns
`.ub` there — never silently `ok` — and `Properties/C10.lean` proves `.ub` is unreachable once the constants
have the safe values.

`size : Params → SizeR` is `Search::UpdateConfigFromBinary` + `GenericModel::Size(counts, config)` (vocabulary +
search structure): a parameter of `loadBinary` so that the header theorems hold for every size function; the
concrete one, `layoutSize`, is C04's layout arithmetic (`KV.Binary.modelSize`) applied to the *stored* parameters,
with the version bytes of the quantiser / ArrayBhiksha blocks read from the file.  It answers `.unknown` only where
the C++ arithmetic itself leaves the integers (a count ≥ 2⁵⁶, or a probing multiplier that is not a normal finite
float whose product with every count stays below 2⁶³ — the float→uint64 conversion is undefined there).
-/
namespace KV.LoaderBin
open KV.Gen.C10

abbrev File := List Nat

/-- little-endian bytes → value -/
def ofLe : List Nat → Nat
  | [] => 0
  | b :: bs => b + 256 * ofLe bs

/-- `ALIGN8(a) = ((a-1)/8+1)*8` -/
def align8 (a : Nat) : Nat := ((a - 1) / 8 + 1) * 8

/-- `TotalHeaderSize(order)` -/
def headerSize (order : Nat) : Nat := align8 (sizeofSanity + sizeofFixed + sizeofCount * order)

/-- `FixedWidthParameters` (the float as its bit pattern) -/
structure Fixed where
  order : Nat
  multBits : Nat
  modelType : Nat
  hasVocab : Bool
  searchVersion : Nat
deriving DecidableEq, Repr, Inhabited

structure Params where
  fixed : Fixed
  counts : List Nat
deriving DecidableEq, Repr, Inhabited

inductive BErr where
  | format | eof
deriving DecidableEq, Repr

/-- result of the size computation for given header parameters -/
inductive SizeR where
  | known (n : Nat)
  | unknown
  | err (e : BErr)       -- `UpdateConfigFromBinary` failed: version byte mismatch (format) or read past the end (eof)
deriving DecidableEq, Repr

inductive Verdict where
  | ok (p : Params)
  | arpa               -- not recognised as binary: the constructor goes on to the ARPA parser
  | error (e : BErr)
  | ub                 -- the current tree proceeds into undefined behaviour (see the header comment)
  | unknownSize        -- header accepted so far; `size` not supplied for these parameters
deriving DecidableEq, Repr

def isNaN (bits : Nat) : Bool := (bits / 2 ^ 23) % 256 == 255 && bits % 2 ^ 23 != 0

/-- float32 bit pattern `< 1.0f`; NaN compares false -/
def floatNotGeOne (bits : Nat) : Bool :=
  if isNaN bits then false
  else if bits / 2 ^ 31 % 2 == 1 then true
  else decide (bits < bitsOneF)

def readFixed (bs : File) : Option Fixed :=
  if bs.length < sizeofFixed then none
  else some {
    order := ofLe ((bs.drop offOrder).take sizeofOrder)
    multBits := ofLe ((bs.drop offMultiplier).take 4)
    modelType := ofLe ((bs.drop offModelType).take sizeofModelType)
    hasVocab := ofLe ((bs.drop offHasVocab).take 1) != 0
    searchVersion := ofLe ((bs.drop offSearchVersion).take sizeofSearchVersion) }

def readCounts : Nat → File → Option (List Nat)
  | 0, _ => some []
  | n+1, bs =>
    if bs.length < sizeofCount then none
    else match readCounts n (bs.drop sizeofCount) with
      | none => none
      | some cs => some (ofLe (bs.take sizeofCount) :: cs)

inductive Recognized where
  | notBinary
  | header (f : Fixed)         -- Sanity block matched and the fixed parameters were read
  | err (e : BErr)
deriving DecidableEq, Repr

/-- `IsBinaryFormat(fd)` then the first `ReadOrThrow` of `ReadHeader` -/
def recognize (file : File) : Recognized :=
  if file.length ≤ sizeofSanity then .notBinary
  else if file.take sizeofSanity == sanityRef then
    match readFixed (file.drop sizeofSanity) with
    | none => .err .eof
    | some f => .header f
  else if magicIncomplete.isPrefixOf file then .err .format        -- "did not finish building"
  else if magicBeforeVersion.isPrefixOf file then .err .format     -- other version / old 32-bit / test values differ
  else .notBinary

/-- what the caller asks for: the class being constructed and whether it wants the vocabulary strings -/
structure Request where
  modelType : Nat
  searchVersion : Nat
  enumerate : Bool
  usesMultiplier : Bool       -- probing classes size their tables with the stored multiplier
deriving DecidableEq, Repr

/-- number of NUL-separated words `ReadWords` enumerates after `<unk>\0` -/
def countWords (rest : File) : Nat :=
  (rest.filter (· == 0)).length + (if rest.isEmpty || rest.getLast? == some 0 then 0 else 1)

/-- `vocab_.LoadedBinary(has_vocabulary, fd, enumerate, offset)`: `ReadWords` when the file has the strings.
`bound` = number of words the vocabulary lookup says it has (incl. `<unk>`). -/
def readWords (file : File) (offset : Nat) (enumerate : Bool) (bound : Nat) : Option BErr :=
  let tail := file.drop offset
  if tail.length < unkCheck.length then some .eof
  else if tail.take unkCheck.length != unkCheck then some .format
  else if !enumerate then none
  else if 1 + countWords (tail.drop unkCheck.length) != bound then some .format
  else none

/-- probing classes: the version field of the vocabulary header right after the file header is not the current one -/
def probingVocabVersionBad (usesMultiplier : Bool) (file : File) (order : Nat) : Bool :=
  usesMultiplier &&
    ofLe ((file.drop (headerSize order + KV.Gen.C04.offVocabHeaderVersion)).take 4) != KV.Gen.C04.probingVocabVersion

/-- the end of the constructor once `Size` is known: `LoadBinary`'s size check, `ProbingVocabulary::LoadedBinary`'s
version field (lm/vocab.cc:279), `ReadWords` when the file carries the vocabulary strings -/
def mapAndVocab (req : Request) (bound : Params → Nat) (file : File) (p : Params) (sz : Nat) : Verdict :=
  let total := headerSize p.fixed.order + sz
  if decide (file.length < total) || probingVocabVersionBad req.usesMultiplier file p.fixed.order then .error .format
  else if p.fixed.hasVocab then
    match readWords file total req.enumerate (bound p) with
    | some e => .error e
    | none => .ok p
  else .ok p

/-- The binary branch of the `GenericModel` constructor, in the order of the code:
`IsBinaryFormat` → `ReadHeader` (multiplier, counts) → `MatchCheck` (type, search version) → `CheckCounts`
→ enumerate-without-vocabulary → `LoadBinary` size check → `ReadWords`.
`bound p` = the vocabulary bound stored in the body (read by the caller from the mapped file). -/
def loadBinary (req : Request) (size : Params → SizeR) (bound : Params → Nat) (file : File) : Verdict :=
  match recognize file with
  | .notBinary => .arpa
  | .err e => .error e
  | .header f =>
    if floatNotGeOne f.multBits then .error .format
    else if isNaN f.multBits && readHeaderRejectsNaN then .error .format
    else
      match readCounts f.order (file.drop (sizeofSanity + sizeofFixed)) with
      | none => .error .eof
      | some cs =>
        let p : Params := { fixed := f, counts := cs }
        if f.modelType != req.modelType then .error .format
        else if f.searchVersion != req.searchVersion then .error .format
        else if f.order > maxOrder then .error .format
        else if f.order < checkCountsMinOrder then .error .format
        else if f.order == 0 then .ub
        else if req.enumerate && !f.hasVocab then .error .format
        else if isNaN f.multBits && req.usesMultiplier then .ub
        else
          match size p with
          | .unknown => .unknownSize
          | .err e => .error e
          | .known sz => mapAndVocab req bound file p sz

/-! ## the concrete size function (C04's layout model) -/

/-- the multiplier is a normal, positive, finite float and `(uint64_t)(multiplier * (float)count)` stays below 2⁶³
for every count: only then is the conversion defined and `KV.Binary.f32MulTrunc` exact -/
def multiplierSafe (bits : Nat) (counts : List Nat) : Bool :=
  let e := (bits / 2 ^ 23) % 256
  decide (bits < 2 ^ 31) && decide (1 ≤ e) && decide (e ≤ 254) &&
    counts.all fun c => decide (KV.Binary.f32MulTrunc bits c < 2 ^ 63)

/-- `Search::UpdateConfigFromBinary(file, counts, VocabularyT::Size(counts[0], config), config)` followed by
`Size(counts, config)`, for the class `k` being constructed with default configuration values. -/
def layoutSize (k : KV.Binary.Kind) (file : File) (p : Params) : SizeR :=
  if p.counts.any (fun c => decide (c ≥ 2 ^ 56)) then .unknown
  else if !k.isTrie && !multiplierSafe p.fixed.multBits p.counts then .unknown
  else
    let cfg0 : KV.Binary.Config :=
      { multBits := p.fixed.multBits, probBits := KV.Gen.C04.defaultProbBits, backoffBits := KV.Gen.C04.defaultBackoffBits,
        bhikshaBits := KV.Gen.C04.defaultBhikshaBits }
    match k with
    | .probing _ => .known (KV.Binary.modelSize k cfg0 p.counts)
    | .trie q a =>
      let off := headerSize p.fixed.order + KV.Binary.vocabSize k cfg0 (KV.Binary.cnt p.counts 0)
      -- SeparatelyQuantize::UpdateConfigFromBinary: 3 bytes (version, prob bits, back-off bits)
      let c1 : Except BErr KV.Binary.Config :=
        if q then
          if file.length < off + 3 then .error .eof
          else if file.getD off 0 != KV.Gen.C04.separatelyQuantizeVersion then .error .format
          else .ok { cfg0 with probBits := file.getD (off + 1) 0, backoffBits := file.getD (off + 2) 0 }
        else .ok cfg0
      match c1 with
      | .error e => .err e
      | .ok c =>
        -- ArrayBhiksha::UpdateConfigFromBinary: 2 bytes (version, configured bits), only for order > 2
        let c2 : Except BErr KV.Binary.Config :=
          if a && decide (p.counts.length > 2) then
            let boff := off + KV.Binary.quantSize q p.counts.length c + KV.Binary.trieUnigramSize (KV.Binary.cnt p.counts 0)
            if file.length < boff + 2 then .error .eof
            else if file.getD boff 0 != KV.Gen.C04.arrayBhikshaVersion then .error .format
            else .ok { c with bhikshaBits := file.getD (boff + 1) 0 }
          else .ok c
        match c2 with
        | .error e => .err e
        | .ok c' => .known (KV.Binary.modelSize k c' p.counts)

end KV.LoaderBin
