import Model.Probing
import Model.Search
/-
Model of the vocabularies of lm/vocab.hh / lm/vocab.cc, which sit on top of the probing hash
table and the interpolation search:

* `GrowableVocab` (lmplz's corpus_count): `util::AutoProbing<ProbingVocabularyEntry, IdentityHash>`
  keyed by the 64-bit MurmurHash of the word, value = `Size()` at insertion time;
* `ProbingVocabulary` (probing models): fixed `ProbingHashTable<…, IdentityHash>` (DivMod), ids in file order;
* `SortedVocabulary` (trie models): hashes collected, `JointSort`ed together with the unigram weights,
  `Index` = `BoundedSortedUniformFind<Pivot64>(begin - 1, 0, end, UINT64_MAX)`.

Words are represented by their hash (a natural number; MurmurHash itself is abstract).  The hash
table's own hash is `util::IdentityHash`, i.e. `id`.  The invalid key of these tables is 0: a word
hashing to 0 is outside the contract of the C++ code (explicit hypothesis / generator precondition).
-/
namespace KV.Vocab
open KV.Probing KV.Search

/-- hashes of the special words: `"<unk>"`, `"<UNK>"`, `"<s>"`, `"</s>"` -/
structure Specials where
  unk : Nat
  unkCap : Nat
  bos : Nat
  eos : Nat

inductive VErr where
  | tooMany      -- VocabLoadException "Too many vocabulary words"
  | full         -- ProbingSizeException
  | diverge      -- the C++ loop would not terminate
  deriving DecidableEq, Repr

/-- `std::numeric_limits<lm::WordIndex>::max()` -/
def kWordIndexMax : Nat := 2^32 - 1

/-! ### `GrowableVocab` -/

/-- `GrowableVocab::FindOrInsert`: `entry = Make(hash, Size()); if (!lookup_.FindOrInsert(entry, it)) { …;
UTIL_THROW_IF(Size() >= max, …) } return it->value;` -/
def gFindOrInsert (a : Auto) (key : Nat) : Except VErr (Nat × Auto) :=
  match a.findOrInsertP2 id thetaReal key a.t.entries with
  | .ok (found, _, w, a') =>
    if !found && a'.t.entries ≥ kWordIndexMax then .error .tooMany else .ok (w, a')
  | .full _ => .error .full
  | .diverge => .error .diverge

/-- `GrowableVocab::Index` -/
def gIndex (a : Auto) (key : Nat) : Option Nat :=
  match findPosP2 id a.t key with
  | none => none
  | some (.found _ v) => some v
  | some (.absent _) => some 0

/-- the body of the constructor: `<unk>`, `<s>`, `</s>` are forced to 0, 1, 2 -/
def gNewFrom (sp : Specials) (a0 : Auto) : Except VErr Auto :=
  match gFindOrInsert a0 sp.unk with
  | .error e => .error e
  | .ok (_, a1) =>
    match gFindOrInsert a1 sp.bos with
    | .error e => .error e
    | .ok (_, a2) =>
      match gFindOrInsert a2 sp.eos with
      | .error e => .error e
      | .ok (_, a3) => .ok a3

/-- `lookup_(initial_size)`: the empty `AutoProbing` with `RoundBuckets(x)` buckets, where `x` is
`max(initial_size + 1, uint64(1.2f * initial_size))` -/
def gTable (x : Nat) : Auto := { t := emptyTable (roundBuckets x), thr := thetaReal (roundBuckets x) }

/-- the constructor of `GrowableVocab` -/
def gNew (sp : Specials) (x : Nat) : Except VErr Auto := gNewFrom sp (gTable x)

/-- the inner loop of `CorpusCount::RunWithVocab` over one line: `word = vocab.FindOrInsert(w);
if (vocab.IsSpecial(word)) continue; writer.Append(word);` -/
def gEncodeLine (a : Auto) : List Nat → Except VErr (List Nat × Auto)
  | [] => .ok ([], a)
  | k :: ks =>
    match gFindOrInsert a k with
    | .error e => .error e
    | .ok (i, a') =>
      match gEncodeLine a' ks with
      | .error e => .error e
      | .ok (ids, a'') => .ok (if i ≤ 2 then ids else i :: ids, a'')

def gEncodeLines (a : Auto) : List (List Nat) → Except VErr (List (List Nat) × Auto)
  | [] => .ok ([], a)
  | l :: ls =>
    match gEncodeLine a l with
    | .error e => .error e
    | .ok (ids, a') =>
      match gEncodeLines a' ls with
      | .error e => .error e
      | .ok (rest, a'') => .ok (ids :: rest, a'')

/-- `CorpusCount::RunWithVocab` on a freshly constructed vocabulary `a` -/
def gEncodeFrom (sp : Specials) (a : Auto) (text : List (List Nat)) : Except VErr (List (List Nat) × Nat) :=
  match gFindOrInsert a sp.eos with      -- `end_sentence = vocab.FindOrInsert("</s>")`
  | .error e => .error e
  | .ok (_, a') =>
    match gEncodeLines a' text with
    | .error e => .error e
    | .ok (ids, a'') => .ok (ids, a''.t.entries)

/-- tokens (as hashes, line by line) → the id sequences `CorpusCount` appends, for the initial table
size argument `x`; also the final vocabulary size (`type_count_`) -/
def growableEncode (sp : Specials) (x : Nat) (text : List (List Nat)) : Except VErr (List (List Nat) × Nat) :=
  (gNew sp x).bind fun a => gEncodeFrom sp a text

/-! the specification: ids by order of first occurrence, no table at all -/

section Spec
variable {α : Type} [DecidableEq α]

/-- id of `k` given the distinct words seen so far (in order of first occurrence), and the new list -/
def specStep (seen : List α) (k : α) : Nat × List α :=
  (seen.idxOf k, if k ∈ seen then seen else seen ++ [k])

def specLine (seen : List α) : List α → List Nat × List α
  | [] => ([], seen)
  | k :: ks =>
    let r := specStep seen k
    let r' := specLine r.2 ks
    (if r.1 ≤ 2 then r'.1 else r.1 :: r'.1, r'.2)

def specLines (seen : List α) : List (List α) → List (List Nat) × List α
  | [] => ([], seen)
  | l :: ls =>
    let r := specLine seen l
    let r' := specLines r.2 ls
    (r.1 :: r'.1, r'.2)

/-- `unk bos eos` are the three special words -/
def specEncode (unk bos eos : α) (text : List (List α)) : List (List Nat) × Nat :=
  let r := specLines [unk, bos, eos] text
  (r.1, r.2.length)
end Spec

/-! ### `ProbingVocabulary` -/

structure PVocab where
  t : Table
  bound : Nat        -- `bound_`
  sawUnk : Bool      -- `saw_unk_`

/-- `SetupMemory`: `N` buckets (all invalid), `bound_ = 1`, `saw_unk_ = false` -/
def pNew (N : Nat) : PVocab := { t := emptyTable N, bound := 1, sawUnk := false }

/-- `ProbingVocabulary::Insert` -/
def pInsert (sp : Specials) (v : PVocab) (key : Nat) : Except VErr (Nat × PVocab) :=
  if key = sp.unk ∨ key = sp.unkCap then .ok (0, { v with sawUnk := true })
  else
    match insert id v.t key v.bound with
    | .ok (_, t') => .ok (v.bound, { v with t := t', bound := v.bound + 1 })
    | .full _ => .error .full
    | .diverge => .error .diverge

/-- `ProbingVocabulary::Index`: `lookup_.Find(hash, i) ? i->value : 0` -/
def pIndex (v : PVocab) (key : Nat) : Option Nat :=
  match find id v.t key with
  | none => none
  | some (some i) => some i
  | some none => some 0

def pInsertAll (sp : Specials) (v : PVocab) : List Nat → Except VErr (List Nat × PVocab)
  | [] => .ok ([], v)
  | k :: ks =>
    match pInsert sp v k with
    | .error e => .error e
    | .ok (i, v') =>
      match pInsertAll sp v' ks with
      | .error e => .error e
      | .ok (ids, v'') => .ok (i :: ids, v'')

/-! ### `SortedVocabulary` -/

structure SVocab where
  keys : List Nat     -- `[begin_, end_)`
  sawUnk : Bool

def sNew : SVocab := { keys := [], sawUnk := false }

/-- `SortedVocabulary::Insert`: returns `end_ - begin_` after the push (a provisional id) -/
def sInsert (sp : Specials) (v : SVocab) (key : Nat) : Nat × SVocab :=
  if key = sp.unk ∨ key = sp.unkCap then (0, { v with sawUnk := true })
  else (v.keys.length + 1, { v with keys := v.keys ++ [key] })

def sInsertAll (sp : Specials) (v : SVocab) : List Nat → List Nat × SVocab
  | [] => ([], v)
  | k :: ks =>
    let r := sInsert sp v k
    let r' := sInsertAll sp r.2 ks
    (r.1 :: r'.1, r'.2)

/-- `util::JointSort(begin_, end_, reorder + 1)`: the (hash, weights) pairs sorted by hash.  `std::sort` is
not stable, but the result on distinct hashes does not depend on the algorithm (`jointSort_unique`) -/
def jointSort {β : Type} (pairs : List (Nat × β)) : List (Nat × β) :=
  pairs.mergeSort (fun a b => decide (a.1 ≤ b.1))

/-- `GenericFinished` without enumeration: sort the hashes, permute `reorder[1 ..]` alongside
(`reorder[0]`, the weights of `<unk>`, stays) -/
def sFinish {β : Type} (v : SVocab) (weights : List β) : SVocab × List β :=
  let r := jointSort (v.keys.zip weights)
  ({ v with keys := r.map (·.1) }, r.map (·.2))

/-- `SortedVocabulary::Index`: `BoundedSortedUniformFind<…, Pivot64>(begin_ - 1, 0, end_, UINT64_MAX, hash, found)
? found - begin_ + 1 : 0`.  Positions: array index `i` is position `i + 1`, `begin_ - 1` is position 0
(never read).  `f` is the floating-point pivot computation. -/
def sIndex (f : Nat → Nat → Nat → Nat) (v : SVocab) (key : Nat) : Nat :=
  let a := fun i => v.keys.getD (i - 1) 0
  match bfind a (pivot64 f) key v.keys.length 0 0 (v.keys.length + 1) (2^64 - 1) with
  | some p => p
  | none => 0

/-- `Bound()` after `FinishedLoading` -/
def sBound (v : SVocab) : Nat := v.keys.length + 1

end KV.Vocab
