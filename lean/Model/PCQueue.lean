/-
Model of `util::PCQueue<T>` (util/pcqueue.hh): two counting semaphores (`empty_`, `used_`),
two mutexes (`produce_at_mutex_`, `consume_at_mutex_`), a ring of `cap` slots with the two
cursors `produce_at_` / `consume_at_`, and any number of threads each executing a sequence of
`Produce` (producers) or `Consume` (consumers) calls.

The program counter of a thread is its position among the synchronisation points of
`Produce` / `Consume` (the scheduling points of hook H1):

  Produce(val):                         Consume(out):
    wait   : WaitSemaphore(empty_)        wait   : WaitSemaphore(used_)
    lock   : lock produce_at_mutex_       lock   : lock consume_at_mutex_
    body   : *produce_at_ = val;          body   : out = *consume_at_;
             if (++produce_at_ == end_)            if (++consume_at_ == end_)
               produce_at_ = storage_               consume_at_ = storage_
    unlock : unlock produce_at_mutex_     unlock : unlock consume_at_mutex_
    post   : used_.post(); return         post   : empty_.post(); return out

`step s tid = none` means thread `tid` is blocked (or finished, or does not exist).
The scheduler is arbitrary: theorems quantify over every sequence of `step`s.
Ghost state: `writes` / `reads` = (thread, value) in critical-section order; `orig` = the
items a producer was given; `got` = the values a consumer has read, in order.
Core Lean only (this file is linked into the native driver).
-/
namespace KV.PCQueue

inductive Role | prod | cons
  deriving DecidableEq, Repr, Inhabited

inductive PC | wait | lock | body | unlock | post | done
  deriving DecidableEq, Repr, Inhabited

structure Thread where
  role  : Role
  pc    : PC
  /-- producer: values not yet written into the ring (head = argument of the current `Produce`) -/
  items : List Nat := []
  /-- producer (ghost): all values this producer was given -/
  orig  : List Nat := []
  /-- consumer: number of `Consume` calls whose read has not happened yet -/
  quota : Nat := 0
  /-- consumer: values read so far, oldest first -/
  got   : List Nat := []
  deriving Repr, Inhabited

structure State where
  cap       : Nat
  empty     : Nat
  used      : Nat
  ring      : Nat → Nat
  produceAt : Nat
  consumeAt : Nat
  pmutex    : Option Nat
  cmutex    : Option Nat
  threads   : List Thread
  /-- ghost: (producer tid, value) in the order of the producer critical sections -/
  writes    : List (Nat × Nat)
  /-- ghost: (consumer tid, value) in the order of the consumer critical sections -/
  reads     : List (Nat × Nat)

/-- `if (++p == end_) p = storage_.get();` on indices -/
def wrap (cap i : Nat) : Nat := if i + 1 = cap then 0 else i + 1

def upd (f : Nat → Nat) (i v : Nat) : Nat → Nat := fun j => if j = i then v else f j

def State.setT (s : State) (tid : Nat) (th : Thread) : State :=
  { s with threads := s.threads.set tid th }

/-- pc after `post`: next call, or finished -/
def nextProd (items : List Nat) : PC := if items.isEmpty then .done else .wait
def nextCons (quota : Nat) : PC := if quota = 0 then .done else .wait

/-- One synchronisation step of thread `tid`; `none` = blocked / finished / no such thread. -/
def step (s : State) (tid : Nat) : Option State :=
  match s.threads[tid]? with
  | none => none
  | some th =>
    match th.role, th.pc with
    | .prod, .wait =>
      if s.empty = 0 then none
      else some { s.setT tid { th with pc := .lock } with empty := s.empty - 1 }
    | .prod, .lock =>
      if s.pmutex.isSome then none
      else some { s.setT tid { th with pc := .body } with pmutex := some tid }
    | .prod, .body =>
      match th.items with
      | [] => none
      | v :: rest =>
        some { s.setT tid { th with pc := .unlock, items := rest } with
               ring := upd s.ring s.produceAt v
               produceAt := wrap s.cap s.produceAt
               writes := s.writes ++ [(tid, v)] }
    | .prod, .unlock => some { s.setT tid { th with pc := .post } with pmutex := none }
    | .prod, .post =>
      some { s.setT tid { th with pc := nextProd th.items } with used := s.used + 1 }
    | .cons, .wait =>
      if s.used = 0 then none
      else some { s.setT tid { th with pc := .lock } with used := s.used - 1 }
    | .cons, .lock =>
      if s.cmutex.isSome then none
      else some { s.setT tid { th with pc := .body } with cmutex := some tid }
    | .cons, .body =>
      let v := s.ring s.consumeAt
      some { s.setT tid { th with pc := .unlock, quota := th.quota - 1, got := th.got ++ [v] } with
             consumeAt := wrap s.cap s.consumeAt
             reads := s.reads ++ [(tid, v)] }
    | .cons, .unlock => some { s.setT tid { th with pc := .post } with cmutex := none }
    | .cons, .post =>
      some { s.setT tid { th with pc := nextCons th.quota } with empty := s.empty + 1 }
    | _, .done => none

def mkProd (items : List Nat) : Thread :=
  { role := .prod, pc := nextProd items, items := items, orig := items }

def mkCons (quota : Nat) : Thread :=
  { role := .cons, pc := nextCons quota, quota := quota }

/-- `PCQueue(cap)` plus producers (tids `0..P-1`, each with its list of values) and consumers
(tids `P..P+C-1`, each with its number of `Consume` calls). -/
def mkInit (cap : Nat) (prods : List (List Nat)) (quotas : List Nat) : State :=
  { cap := cap, empty := cap, used := 0, ring := fun _ => 0, produceAt := 0, consumeAt := 0,
    pmutex := none, cmutex := none,
    threads := prods.map mkProd ++ quotas.map mkCons,
    writes := [], reads := [] }

/-- run a schedule; `none` if some scheduled thread cannot step -/
def runSched (s : State) : List Nat → Option State
  | [] => some s
  | t :: ts => match step s t with
    | none => none
    | some s' => runSched s' ts

/-- reachability under an arbitrary scheduler -/
inductive Reach (s0 : State) : State → Prop
  | init : Reach s0 s0
  | step {s s' : State} {t : Nat} : Reach s0 s → step s t = some s' → Reach s0 s'

def enabled (s : State) (tid : Nat) : Bool := (step s tid).isSome

def enabledSet (s : State) : List Nat :=
  (List.range s.threads.length).filter (enabled s)

def allDone (s : State) : Bool := s.threads.all (fun th => th.pc == .done)

/-- number of items in the ring (written, not yet read) -/
def occupied (s : State) : Nat := s.writes.length - s.reads.length

/-! ### thread classes used by the accounting -/
def b2n (b : Bool) : Nat := if b then 1 else 0

/-- producer that took an `empty_` token and has not written yet -/
def isA (th : Thread) : Nat := b2n (th.role == .prod && (th.pc == .lock || th.pc == .body))
/-- producer that has written and not yet posted `used_` -/
def isB (th : Thread) : Nat := b2n (th.role == .prod && (th.pc == .unlock || th.pc == .post))
/-- consumer that took a `used_` token and has not read yet -/
def isC (th : Thread) : Nat := b2n (th.role == .cons && (th.pc == .lock || th.pc == .body))
/-- consumer that has read and not yet posted `empty_` -/
def isD (th : Thread) : Nat := b2n (th.role == .cons && (th.pc == .unlock || th.pc == .post))

def remP (th : Thread) : Nat := match th.role with | .prod => th.items.length | .cons => 0
def remC (th : Thread) : Nat := match th.role with | .prod => 0 | .cons => th.quota

def sumBy (f : Thread → Nat) (l : List Thread) : Nat := (l.map f).sum

def inFlightProducers (s : State) : Nat := sumBy isA s.threads + sumBy isB s.threads
def inFlightConsumers (s : State) : Nat := sumBy isC s.threads + sumBy isD s.threads

/-- remaining synchronisation steps of a thread: the termination measure -/
def pcRank : PC → Nat
  | .wait => 5 | .lock => 4 | .body => 3 | .unlock => 2 | .post => 1 | .done => 0

def stepsLeft (th : Thread) : Nat :=
  match th.role, th.pc with
  | _, .done => 0
  | .prod, pc => (if pc = .wait ∨ pc = .lock ∨ pc = .body then 5 * (th.items.length - 1) else 5 * th.items.length) + pcRank pc
  | .cons, pc => (if pc = .wait ∨ pc = .lock ∨ pc = .body then 5 * (th.quota - 1) else 5 * th.quota) + pcRank pc

def measure (s : State) : Nat := sumBy stepsLeft s.threads

/-! ### `WaitSemaphore` and EINTR (util/pcqueue.hh:59-71)

`while (1) { try { on.wait(); break; } catch (interprocess_exception &e) { if (e.get_native_error() != EINTR) throw; } }`
`sem_wait` may return EINTR any number of times (a signal handled without SA_RESTART) before it takes a token. -/

inductive WaitOutcome | taken | eintr
  deriving DecidableEq, Repr

/-- the OS side of one `sem_wait` on a semaphore holding `count` tokens; `none` = this outcome cannot happen -/
def osWait (count : Nat) : WaitOutcome → Option Nat
  | .taken => if count = 0 then none else some (count - 1)
  | .eintr => some count

/-- `WaitSemaphore` run against the sequence of outcomes of its `sem_wait` calls: `some (count', unused outcomes)`
when the loop has been left, `none` while it is still waiting -/
def waitSemaphore : Nat → List WaitOutcome → Option (Nat × List WaitOutcome)
  | _, [] => none
  | c, .taken :: os => match osWait c .taken with
    | some c' => some (c', os)      -- `break`
    | none => none
  | c, .eintr :: os => waitSemaphore c os   -- EINTR caught: go round the loop again

/-- the loop of the change seeded as C17-3 (`do { interrupted = false; try { on.wait(); } catch (EINTR) {} }
while (interrupted);`): leaves the loop after the first `sem_wait`, whatever it returned -/
def waitSemaphoreFlagNeverSet : Nat → List WaitOutcome → Option (Nat × List WaitOutcome)
  | _, [] => none
  | c, o :: os => match osWait c o with
    | some c' => some (c', os)
    | none => none

/-- a signal interrupts the `sem_wait` of thread `tid` while it is at (or inside) its `WaitSemaphore`: the loop
retries; nothing else happens -/
def interrupt (s : State) (tid : Nat) : Option State :=
  match s.threads[tid]? with
  | some th => if th.pc = .wait then some s else none
  | none => none

/-- reachability when signals may interrupt any waiting thread at any time -/
inductive ReachI (s0 : State) : State → Prop
  | init : ReachI s0 s0
  | step {s s' : State} {t : Nat} : ReachI s0 s → step s t = some s' → ReachI s0 s'
  | intr {s s' : State} {t : Nat} : ReachI s0 s → interrupt s t = some s' → ReachI s0 s'

/-! ### the exception path of `Produce` / `Consume` (util/pcqueue.hh: `catch (...) { sem.post(); throw; }`)

`T::operator=` may throw inside the critical section.  The catch block gives the semaphore token back and rethrows;
unwinding releases the mutex; the cursor has NOT been advanced (the wrap is after the `try`), no ghost history entry
is made.  The caller (here) retries the same call: the thread is back at `WaitSemaphore`.  The slot a failed
`Produce` was writing may be left with arbitrary content `g` (it holds no unread value). -/

/-- the copy of thread `tid` (which is at its critical-section body) throws -/
def fail (s : State) (tid : Nat) (g : Nat) : Option State :=
  match s.threads[tid]? with
  | none => none
  | some th =>
    match th.role, th.pc with
    | .prod, .body =>
      some { s.setT tid { th with pc := .wait } with
             empty := s.empty + 1
             pmutex := none
             ring := upd s.ring s.produceAt g }
    | .cons, .body =>
      some { s.setT tid { th with pc := .wait } with
             used := s.used + 1
             cmutex := none }
    | _, _ => none

/-- the exception path of the change seeded as C17-5: the cursor is advanced (helper `Advance`) BEFORE the copy
runs, so it has moved although the token is given back -/
def failCursorFirst (s : State) (tid : Nat) (g : Nat) : Option State :=
  match s.threads[tid]? with
  | none => none
  | some th =>
    match th.role, th.pc with
    | .prod, .body =>
      some { s.setT tid { th with pc := .wait } with
             empty := s.empty + 1
             pmutex := none
             ring := upd s.ring s.produceAt g
             produceAt := wrap s.cap s.produceAt }
    | .cons, .body =>
      some { s.setT tid { th with pc := .wait } with
             used := s.used + 1
             cmutex := none
             consumeAt := wrap s.cap s.consumeAt }
    | _, _ => none

/-- reachability when any copy may fail at any time (and signals may interrupt) -/
inductive ReachF (s0 : State) : State → Prop
  | init : ReachF s0 s0
  | step {s s' : State} {t : Nat} : ReachF s0 s → step s t = some s' → ReachF s0 s'
  | intr {s s' : State} {t : Nat} : ReachF s0 s → interrupt s t = some s' → ReachF s0 s'
  | fail {s s' : State} {t g : Nat} : ReachF s0 s → fail s t g = some s' → ReachF s0 s'

end KV.PCQueue
