/-
Model of util/file_piece.{hh,cc} (kpu/kenlm): a sliding / growing window over a byte source
that is delivered in adversarially sized chunks, and the abstract *spec* of every reading
operation on the whole remaining byte string.

Faithfulness notes (what is transcribed, line numbers of util/file_piece.cc):
* `St` is exactly the private state of `FilePiece`: `position_`, `position_end_`, `data_`
  are `pos`, `win.length`, `win` (the bytes of `[data_.begin(), position_end_)`);
  `last_space_` is `ls1 = (last_space_ - data_.begin()) + 1` (so "no space at or after
  position_" is `ls1 ≤ pos`, the C++ `last_space_ < position_`); `mapped_offset_`,
  `default_map_size_`, `at_end_`, `fallback_to_read_` (= `mode`).  `started` is
  `position_ != NULL`.  `readOff` is the state of the descriptor / reader behind `fell_back_`
  (how many plain bytes it has delivered).
* `shift` = `Shift` (252-266), `mmapShift` = `MMapShift` (273-309, incl. the EINVAL fall
  back to read() for a zero-length map), `readShift` = `ReadShift` (327-365).
* `Cfg.fixH` / `Cfg.fixI` / `Cfg.fixF` select the repaired code (true) or today's code (false):
  H: `ReadShift`'s memmove branch adds the discarded prefix to `mapped_offset_`;
  I: `peek()` throws after `Shift()` iff `position_ == position_end_` (today: iff `at_end_`);
  F: `MMapShift`'s fall back to read() after a failed mmap sets `mapped_offset_ = desired_begin`
     (today: left at the offset of the window that was just unmapped).
* The number grammar (`strtol`, `strtoul`, double-conversion) is the parameter `P` of
  `readNumber`: it receives exactly the bytes the C++ passes to `ParseNumber`.
No Mathlib. Everything is computable and used unchanged by the native driver.
-/
namespace KV.FilePiece

abbrev Byte := Nat

/-- `util::kSpaces` (util/spaces.cc); tied to the regenerated table in Properties/C18. -/
def isSpace (b : Byte) : Bool := b == 9 || b == 10 || b == 11 || b == 12 || b == 13 || b == 32

inductive Mode | mmap | read
  deriving DecidableEq, Repr

structure Cfg where
  page : Nat := 4096
  fixH : Bool := true
  fixI : Bool := true
  fixF : Bool := true
  deriving Repr

/-- the environment an execution runs in: the (decompressed) bytes of the input, and the
adversary that decides how many bytes each `Read` returns. -/
structure Env where
  cfg : Cfg
  bytes : List Byte
  orc : Nat → Nat
  /-- does `mmap` of the window starting at this (page-aligned) file offset fail?  (adversarial; a
  zero-length map always fails with EINVAL) -/
  mmapFail : Nat → Bool := fun _ => false

/-- result of `fell_back_.Read(to, req)` issued when `i` plain bytes have been delivered and
`avail` remain: `0` iff nothing remains (or nothing was requested), else any number in
`1 … min req avail`, chosen by `orc`.  Indexing the adversary by the number of bytes delivered
so far loses no generality: that number strictly grows with every non-empty read, so every
sequence of legal return values is produced by some `orc`. -/
def chunk (orc : Nat → Nat) (i req avail : Nat) : Nat :=
  if avail = 0 ∨ req = 0 then 0 else max 1 (min (orc i) (min req avail))

structure St where
  mode : Mode
  mapSize : Nat
  mappedOffset : Nat
  win : List Byte
  pos : Nat
  ls1 : Nat
  atEnd : Bool
  started : Bool
  readOff : Nat
  /-- bytes of the `kMagicSize` header that `ReadFactory` read ahead and `UncompressedWithHeader` still has to
  hand out before it passes the descriptor to `Uncompressed` (read_compressed.cc:77-106, 358-394) -/
  hdrLeft : Nat
  deriving Repr

/-- `[position_, position_end_)` -/
def St.visible (st : St) : List Byte := st.win.drop st.pos

/-- `FilePiece::Offset()` -/
def St.offset (st : St) : Nat := st.pos + st.mappedOffset

/-! ### scanning helpers -/

/-- index of the first byte satisfying `p` -/
def idxOf (p : Byte → Bool) : List Byte → Option Nat
  | [] => none
  | b :: bs => if p b then some 0 else (idxOf p bs).map (· + 1)

/-- the same scan started `skip` bytes in (the `position_ + skip` of ReadLine / FindDelimiterOrEOF) -/
def idxFrom (p : Byte → Bool) (l : List Byte) (skip : Nat) : Option Nat :=
  (idxOf p (l.drop skip)).map (· + skip)

/-- 1 + index of the last byte satisfying `p`, or 0 -/
def lastIdx1 (p : Byte → Bool) : List Byte → Nat
  | [] => 0
  | b :: bs => match lastIdx1 p bs with
    | 0 => if p b then 1 else 0
    | n + 1 => n + 2

/-- the loop at the end of `Shift` that recomputes `last_space_` -/
def computeLs1 (win : List Byte) (pos : Nat) : Nat := pos + lastIdx1 isSpace (win.drop pos)

/-! ### Shift -/

/-- `ReadCompressed::kMagicSize` (regenerated and compared in Properties/C18) -/
def kMagicSize : Nat := 6

/-- `TransitionToRead`: a fresh empty buffer; `fell_back_.Reset(fd)` = `ReadFactory` reads `kMagicSize` bytes ahead
(`hdr`); the reader continues at `frm`.  (`Reset(istream)` reads nothing ahead: `hdr = 0`.) -/
def transitionToRead (st : St) (frm : Nat) (hdr : Nat := kMagicSize) : St :=
  { st with mode := .read, win := [], pos := 0, readOff := frm, started := true, hdrLeft := hdr }

def readShift (env : Env) (st : St) : St :=
  -- "Start at the beginning of the buffer if there's nothing useful in it."
  let st1 := if st.pos = st.win.length then
      { st with mappedOffset := st.mappedOffset + st.win.length, win := [], pos := 0 } else st
  let st2 :=
    if st1.win.length = st1.mapSize then
      if st1.pos = 0 then { st1 with mapSize := 2 * st1.mapSize }          -- "Buffer too small."
      else { st1 with win := st1.win.drop st1.pos, pos := 0,                 -- memmove
                      mappedOffset := if env.cfg.fixH then st1.mappedOffset + st1.pos
                                      else st1.mappedOffset }
    else st1
  -- `UncompressedWithHeader::Read` hands out at most the rest of the header; afterwards the OS decides
  let want := if st2.hdrLeft > 0 then st2.hdrLeft else env.orc st2.readOff
  let n := chunk (fun _ => want) st2.readOff (st2.mapSize - st2.win.length) (env.bytes.length - st2.readOff)
  { st2 with win := st2.win ++ (env.bytes.drop st2.readOff).take n,
             readOff := st2.readOff + n, hdrLeft := st2.hdrLeft - n,
             atEnd := st2.atEnd || n == 0 }

def mmapShift (env : Env) (st : St) : St :=
  let desired := st.offset
  let ignore := desired % env.cfg.page
  -- "Duplicate request for Shift means give more data."
  let mapSize := if st.pos = ignore ∧ st.started then 2 * st.mapSize else st.mapSize
  let mo := desired - ignore
  let total := env.bytes.length
  if total - mo = 0 ∨ env.mmapFail mo then
    -- mmap failed (EINVAL for an empty range, or the kernel refused): `SeekOrThrow(desired_begin);
    -- at_end_ = false; TransitionToRead(); return;` and Shift then calls ReadShift
    readShift env (transitionToRead
      { st with mapSize := mapSize, atEnd := false,
                mappedOffset := (if env.cfg.fixF then desired else st.mappedOffset) } desired)
  else if mapSize ≥ total - mo then
    { st with mapSize := mapSize, mappedOffset := mo, win := (env.bytes.drop mo).take (total - mo),
              pos := ignore, atEnd := true, started := true }
  else
    { st with mapSize := mapSize, mappedOffset := mo, win := (env.bytes.drop mo).take mapSize,
              pos := ignore, atEnd := false, started := true }

inductive Err | eof | fuel
  deriving DecidableEq, Repr

def shift (env : Env) (st : St) : Except Err St :=
  if st.atEnd then .error .eof
  else
    let st' := match st.mode with
      | .mmap => mmapShift env st
      | .read => readShift env st
    .ok { st' with ls1 := computeLs1 st'.win st'.pos }

/-! ### construction -/

/-- `InitializeNoRead`: `default_map_size_ = page * max(min_buffer / page + 1, 2)` -/
def initMapSize (page minBuffer : Nat) : Nat := page * max (minBuffer / page + 1) 2

inductive Backend
  | file      -- regular uncompressed file: mmap, `Initialize` performs the first Shift
  | pipe      -- read() from the start, `Initialize` performs the first Shift
  | lazy      -- std::istream constructor (and, up to read sizes, a regular *compressed* file after the magic
              -- was seen): read mode, empty buffer, no Shift yet, nothing read ahead
  deriving DecidableEq, Repr

def st0 (page minBuffer : Nat) (mode : Mode) : St :=
  { mode := mode, mapSize := initMapSize page minBuffer, mappedOffset := 0, win := [], pos := 0,
    ls1 := 0, atEnd := false, started := false, readOff := 0, hdrLeft := 0 }

def init (env : Env) (minBuffer : Nat) : Backend → St
  | .file => match shift env (st0 env.cfg.page minBuffer .mmap) with
    | .ok st => st | .error _ => st0 env.cfg.page minBuffer .mmap
  | .pipe => match shift env (transitionToRead (st0 env.cfg.page minBuffer .read) 0) with
    | .ok st => st | .error _ => st0 env.cfg.page minBuffer .read
  | .lazy => transitionToRead (st0 env.cfg.page minBuffer .read) 0 0

/-! ### operations -/

inductive Res
  | eof                          -- EndOfFileException (ReadLineOrEOF: `false`)
  | bytes (b : List Byte)        -- a line or a word
  | noWord                       -- ReadWordSameLine returned false
  | char (c : Byte)
  | num (v : Int)
  | parseErr (tok : List Byte)   -- ParseNumberException; `tok` = the bytes given to ParseNumber up to the first space
  | skipped                      -- SkipSpaces returned
  | fuel                         -- never produced (theorem `op_transparent`)
  deriving DecidableEq, Repr

/-- The idiom `if (position_ == position_end_) { Shift(); if (position_ == position_end_) … }`
shared by `peek`, `SkipSpaces` and `ReadWordSameLine`. -/
inductive Front
  | byte (c : Byte) (st : St)    -- `*position_` is readable
  | endSeen (st : St)            -- Shift() returned without data: end of input seen just now
  | eofExc (st : St)             -- Shift() threw EndOfFileException (the end had been seen before)

def front (env : Env) (st : St) : Front :=
  match st.visible with
  | c :: _ => .byte c st
  | [] =>
    match shift env st with
    | .error _ => .eofExc st
    | .ok st' =>
      match st'.visible with
      | [] => .endSeen st'
      | c :: _ => .byte c st'

/-- `peek()` (file_piece.hh:85-91).  Repaired: `Shift(); if (position_ == position_end_) throw`;
today: `Shift(); if (at_end_) throw`. -/
def peek (env : Env) (st : St) : Res × St :=
  if env.cfg.fixI then
    match front env st with
    | .byte c st' => (.char c, st')
    | .endSeen st' => (.eof, st')
    | .eofExc st' => (.eof, st')
  else
    match st.visible with
    | c :: _ => (.char c, st)
    | [] =>
      match shift env st with
      | .error _ => (.eof, st)
      | .ok st' => if st'.atEnd then (.eof, st') else (.char (st'.visible.headD 0), st')

/-- `get()` -/
def get (env : Env) (st : St) : Res × St :=
  match peek env st with
  | (.char c, st') => (.char c, { st' with pos := st'.pos + 1 })
  | r => r

/-- `SkipSpaces(delim)` (file_piece.hh:160-171); one iteration of the `for` per unit of fuel -/
def skipSpaces (env : Env) (delim : Byte → Bool) : Nat → St → Res × St
  | 0, st => (.fuel, st)
  | f + 1, st =>
    match front env st with
    | .byte c st' => if delim c then skipSpaces env delim f { st' with pos := st'.pos + 1 } else (.skipped, st')
    | .endSeen st' => (.skipped, st')            -- "And break out at end of file."
    | .eofExc st' => (.eof, st')

/-- `Consume(to)` with `to = position_ + n` -/
def consume (st : St) (n : Nat) : List Byte × St :=
  (st.visible.take n, { st with pos := st.pos + n })

/-- `ReadLine(delim, strip_cr)` (76-99) -/
def readLine (env : Env) (delim : Byte) (stripCr : Bool) : Nat → Nat → St → Res × St
  | 0, _, st => (.fuel, st)
  | f + 1, skip, st =>
    match idxFrom (· == delim) st.visible skip with
    | some i =>
      let sub := if stripCr && decide (i > 0) && (st.visible.getD (i - 1) 0 == 13) then 1 else 0
      (.bytes (st.visible.take (i - sub)), { st with pos := st.pos + i + 1 })
    | none =>
      if st.atEnd then
        match st.visible with
        | [] => (.eof, st)                                  -- Shift() throws
        | _ :: _ => let (b, st') := consume st st.visible.length; (.bytes b, st')
      else
        match shift env st with
        | .error _ => (.eof, st)
        | .ok st' => readLine env delim stripCr f st.visible.length st'

/-- `FindDelimiterOrEOF(delim)` (237-250): offset of the delimiter from `position_`, or of the end -/
def findDelimiterOrEOF (env : Env) (delim : Byte → Bool) : Nat → Nat → St → Except Err (Nat × St)
  | 0, _, _ => .error .fuel
  | f + 1, skip, st =>
    match idxFrom delim st.visible skip with
    | some i => .ok (i, st)
    | none =>
      if st.atEnd then
        match st.visible with
        | [] => .error .eof
        | _ :: _ => .ok (st.visible.length, st)
      else
        match shift env st with
        | .error _ => .error .eof
        | .ok st' => findDelimiterOrEOF env delim f st.visible.length st'

/-- `ReadDelimited(delim)` -/
def readDelimited (env : Env) (delim : Byte → Bool) (fuel : Nat) (st : St) : Res × St :=
  match skipSpaces env delim fuel st with
  | (.skipped, st1) =>
    match findDelimiterOrEOF env delim fuel 0 st1 with
    | .error .eof => (.eof, st1)
    | .error .fuel => (.fuel, st1)
    | .ok (n, st2) => let (b, st3) := consume st2 n; (.bytes b, st3)
  | r => r

/-- the first loop of `ReadWordSameLine` (file_piece.hh:107-118): `.skipped` = a word starts at
`position_` (the `break`), `.noWord` = `return false` -/
def wordSkip (env : Env) (delim : Byte → Bool) : Nat → St → Res × St
  | 0, st => (.fuel, st)
  | f + 1, st =>
    match front env st with
    | .byte c st' =>
      if !delim c then (.skipped, st')
      else if c == 10 then (.noWord, st')
      else wordSkip env delim f { st' with pos := st'.pos + 1 }
    | .endSeen st' => (.noWord, st')
    | .eofExc st' => (.noWord, st')

/-- `ReadWordSameLine(to, delim)` -/
def readWordSameLine (env : Env) (delim : Byte → Bool) (fuel : Nat) (st : St) : Res × St :=
  match wordSkip env delim fuel st with
  | (.skipped, st1) =>
    match findDelimiterOrEOF env delim fuel 0 st1 with
    | .error .eof => (.eof, st1)
    | .error .fuel => (.fuel, st1)
    | .ok (n, st2) => let (b, st3) := consume st2 n; (.bytes b, st3)
  | r => r

/-- the number grammar: given the bytes handed to `ParseNumber`, either the exception or
(value, number of bytes consumed). -/
abbrev Grammar := List Byte → Option (Int × Nat)

def firstToken (s : List Byte) : List Byte := s.takeWhile (fun b => !isSpace b)

def applyParse (P : Grammar) (str : List Byte) (st : St) : Res × St :=
  match P str with
  | none => (.parseErr (firstToken str), st)
  | some (v, cnt) => (.num v, { st with pos := st.pos + cnt })

/-- the `while (last_space_ < position_)` loop of `ReadNumber` (217-235) -/
def numLoop (env : Env) (P : Grammar) : Nat → St → Res × St
  | 0, st => (.fuel, st)
  | f + 1, st =>
    if st.ls1 ≤ st.pos then
      if st.atEnd then applyParse P st.visible st          -- "Hallucinate a null off the end of the file."
      else
        match shift env st with
        | .error _ => (.eof, st)
        | .ok st' => numLoop env P f st'
    else applyParse P (st.visible.take (st.ls1 - 1 - st.pos)) st

/-- `ReadNumber<T>()` -/
def readNumber (env : Env) (P : Grammar) (fuel : Nat) (st : St) : Res × St :=
  match skipSpaces env isSpace fuel st with
  | (.skipped, st1) => numLoop env P fuel st1
  | r => r

/-! ### the operation alphabet and transcripts -/

inductive NumKind | float | double | long | ulong
  deriving DecidableEq, Repr

inductive Op
  | peek | get
  | skipSpaces (delim : Byte → Bool)
  | readLine (delim : Byte) (stripCr : Bool)
  | readLineOrEOF (delim : Byte) (stripCr : Bool)
  | readDelimited (delim : Byte → Bool)
  | readWordSameLine (delim : Byte → Bool)
  | readNumber (k : NumKind)

/-- fuel that is always enough (theorem `op_transparent`): one unit per byte plus one per Shift -/
def fuelFor (env : Env) : Nat := 2 * env.bytes.length + 4

def runOp (env : Env) (G : NumKind → Grammar) (op : Op) (st : St) : Res × St :=
  match op with
  | .peek => peek env st
  | .get => get env st
  | .skipSpaces d => skipSpaces env d (fuelFor env) st
  | .readLine d s => readLine env d s (fuelFor env) 0 st
  | .readLineOrEOF d s => readLine env d s (fuelFor env) 0 st
  | .readDelimited d => readDelimited env d (fuelFor env) st
  | .readWordSameLine d => readWordSameLine env d (fuelFor env) st
  | .readNumber k => readNumber env (G k) (fuelFor env) st

/-- What the property allows to differ at the end of the input: `SkipSpaces` may return or
report EOF (it never returns data), and a number read with nothing left may report EOF or a
parse failure of the empty token.  Everything else is compared exactly. -/
def canon (op : Op) (r : Res) : Res :=
  match op, r with
  | .skipSpaces _, .eof => .skipped
  | .readNumber _, .parseErr [] => .eof
  | _, r => r

def transcript (env : Env) (G : NumKind → Grammar) : List Op → St → List (Res × Nat)
  | [], _ => []
  | op :: ops, st =>
    let (r, st') := runOp env G op st
    (canon op r, st'.offset) :: transcript env G ops st'

/-! ### Spec: the same operations on the whole remaining byte string -/

/-- result and number of bytes consumed -/
def specOp (G : NumKind → Grammar) (op : Op) (rest : List Byte) : Res × Nat :=
  match op with
  | .peek => match rest with | [] => (.eof, 0) | c :: _ => (.char c, 0)
  | .get => match rest with | [] => (.eof, 0) | c :: _ => (.char c, 1)
  | .skipSpaces d => (.skipped, (rest.takeWhile d).length)
  | .readLine d s | .readLineOrEOF d s =>
    match rest with
    | [] => (.eof, 0)
    | _ :: _ =>
      match idxOf (· == d) rest with
      | none => (.bytes rest, rest.length)
      | some i =>
        let sub := if s && decide (i > 0) && (rest.getD (i - 1) 0 == 13) then 1 else 0
        (.bytes (rest.take (i - sub)), i + 1)
  | .readDelimited d =>
    let sp := (rest.takeWhile d).length
    match rest.drop sp with
    | [] => (.eof, sp)
    | r@(_ :: _) => let w := r.takeWhile (fun b => !d b); (.bytes w, sp + w.length)
  | .readWordSameLine d =>
    let sp := (rest.takeWhile (fun b => d b && b != 10)).length
    match rest.drop sp with
    | [] => (.noWord, sp)
    | c :: r => if d c then (.noWord, sp)     -- a newline: left unread
                else let w := (c :: r).takeWhile (fun b => !d b); (.bytes w, sp + w.length)
  | .readNumber k =>
    let sp := (rest.takeWhile isSpace).length
    match rest.drop sp with
    | [] => (.eof, sp)
    | r@(_ :: _) =>
      let tok := r.takeWhile (fun b => !isSpace b)
      match G k tok with
      | none => (.parseErr tok, sp)
      | some (v, cnt) => (.num v, sp + cnt)

def specTranscript (G : NumKind → Grammar) (bytes : List Byte) : List Op → Nat → List (Res × Nat)
  | [], _ => []
  | op :: ops, off =>
    let (r, n) := specOp G op (bytes.drop off)
    (r, off + n) :: specTranscript G bytes ops (off + n)

end KV.FilePiece

/-! ### util::ReadCompressed: chaining of members (read_compressed.cc:110-146, 358-395)

A compressed input is a chain of members; each member decodes (by a trusted third-party
decoder) to some plain bytes.  The state of `ReadCompressed` is the plain output still owed by
each remaining member (head = the member being decoded).  `StreamCompressed::Read` returns
whatever the decoder produced this round — any positive amount up to the request — and when the
current member ends without having produced anything it replaces itself by the reader of the
next member (`ReadFactory`) and forwards the call; `Complete::Read` returns 0. -/
namespace KV.FilePiece

abbrev Chain := List (List Byte)

/-- `ReadCompressed::Read(to, amount)` when `i` plain bytes have been delivered so far -/
def rcRead (orc : Nat → Nat) : Chain → Nat → Nat → List Byte × Chain
  | [], _, _ => ([], [])
  | [] :: ms, i, a => rcRead orc ms i a
  | (c :: r) :: ms, i, a =>
    let n := chunk orc i a (r.length + 1)
    ((c :: r).take n, (c :: r).drop n :: ms)

/-- call `Read` with request sizes `amt` until it returns 0 (`ReadOrEOF`, `LineInput::Run`, `ReadShift`) -/
def rcReadAll (orc amt : Nat → Nat) : Nat → Chain → Nat → List Byte
  | 0, _, _ => []
  | f + 1, ch, i =>
    match rcRead orc ch i (amt i) with
    | ([], _) => []
    | (b :: bs, ch') => (b :: bs) ++ rcReadAll orc amt f ch' (i + (bs.length + 1))

/-- members of a raw file: `dec` decodes one member off the front (`none`: corrupt) -/
def decodeChain (dec : List Byte → Option (List Byte × List Byte)) : Nat → List Byte → Option Chain
  | 0, _ => none
  | f + 1, raw =>
    if raw.isEmpty then some []
    else match dec raw with
      | none => none
      | some (plain, rest) => (decodeChain dec f rest).map (plain :: ·)

end KV.FilePiece

/-! ### LineIterator (file_piece.hh:33-59): `for (StringPiece l : FilePiece(...))` -/
namespace KV.FilePiece

/-- `LineIterator::operator++` until `ReadLineOrEOF` returns false (at most `fuel` lines) -/
def lineIter (env : Env) (G : NumKind → Grammar) (d : Byte) (strip : Bool) : Nat → St → List (List Byte)
  | 0, _ => []
  | f + 1, st =>
    match runOp env G (.readLineOrEOF d strip) st with
    | (.bytes b, st') => b :: lineIter env G d strip f st'
    | _ => []

/-- the lines of a byte string, by the spec -/
def specLines (G : NumKind → Grammar) (d : Byte) (strip : Bool) : Nat → List Byte → List (List Byte)
  | 0, _ => []
  | f + 1, rest =>
    match specOp G (.readLineOrEOF d strip) rest with
    | (.bytes b, n) => b :: specLines G d strip f (rest.drop n)
    | _ => []

end KV.FilePiece

/-! ### the integer grammars behind `ReadLong` / `ReadULong`
`strtol(str, &end, 10)` / `strtoul` as specified by ISO C (leading white space, optional sign, decimal digits,
ERANGE on overflow) followed by kenlm's test `errno || end == str` (file_piece.cc:201-214).  They satisfy
`GrammarOK` (Proofs/FilePieceNum.lean); the floating-point grammar is in the driver. -/
namespace KV.FilePiece

def isDigit (b : Byte) : Bool := 48 ≤ b && b ≤ 57
def digitsVal (ds : List Byte) : Nat := ds.foldl (fun a d => a * 10 + (d - 48)) 0

/-- (has a sign, is negative, rest) -/
def splitSign (s : List Byte) : Bool × Bool × List Byte :=
  match s with
  | 43 :: r => (true, false, r)
  | 45 :: r => (true, true, r)
  | _ => (false, false, s)

def gLong (s : List Byte) : Option (Int × Nat) :=
  let s0 := s.dropWhile isSpace
  let ds := (splitSign s0).2.2.takeWhile isDigit
  if ds.isEmpty then none else
  let m := digitsVal ds
  let cnt := (s.length - s0.length) + (if (splitSign s0).1 then 1 else 0) + ds.length
  if (splitSign s0).2.1 then (if m ≤ 2^63 then some (-(m : Int), cnt) else none)
  else (if m < 2^63 then some ((m : Int), cnt) else none)

/-- `strtoul`: a minus sign negates modulo 2^64; only the magnitude can overflow -/
def gULong (s : List Byte) : Option (Int × Nat) :=
  let s0 := s.dropWhile isSpace
  let ds := (splitSign s0).2.2.takeWhile isDigit
  if ds.isEmpty then none else
  let m := digitsVal ds
  let cnt := (s.length - s0.length) + (if (splitSign s0).1 then 1 else 0) + ds.length
  if m ≥ 2^64 then none
  else some (((if (splitSign s0).2.1 then (2^64 - m) % 2^64 else m : Nat) : Int), cnt)

end KV.FilePiece

/-! ### the floating-point grammar behind `ReadFloat` / `ReadDouble`
double-conversion's `StringToIeee` with kenlm's flags (ALLOW_TRAILING_JUNK | ALLOW_LEADING_SPACES, "inf", "NaN",
empty and junk strings give NaN) followed by kenlm's test `isnan(out) && str != "NaN" && str != "nan"`
(file_piece.cc:189-200).  Values are the IEEE bit patterns (via Lean's `Float`/`Float32.ofScientific`);
`nanCode` stands for any NaN.  Today's NaN test (`gFloatOld`) does **not** satisfy `GrammarOK.prefix_det` on the
tokens `NaN` / `nan` (Properties/C18 `Old.nan_not_prefix_determined`); the repaired one (`gFloat`) does on all. -/
namespace KV.FilePiece

inductive Conv
  | junk                                   -- junk_string_value_ / empty_string_value_ = NaN, count 0
  | nan (cnt : Nat)
  | inf (neg : Bool) (cnt : Nat)
  | val (neg : Bool) (m : Nat) (e : Int) (cnt : Nat)

def startsWith (l p : List Byte) : Bool := l.take p.length == p

/-- the fractional part: `.` followed by digits (the point is consumed even without digits) -/
def convFrac (c3 : List Byte) : List Byte × List Byte :=
  match c3 with
  | 46 :: r => (r.takeWhile isDigit, r.dropWhile isDigit)
  | _ => ([], c3)

/-- the exponent part: `e`/`E`, optional sign, at least one digit — otherwise nothing is consumed
(ALLOW_TRAILING_JUNK); the value saturates at `INT_MAX / 2` -/
def convExp (c4 : List Byte) : Int × List Byte :=
  match c4 with
  | e :: r =>
    if e == 101 || e == 69 then
      let ds := (splitSign r).2.2.takeWhile isDigit
      if ds.isEmpty then (0, c4)
      else ((if (splitSign r).2.1 then -((min (digitsVal ds) 1073741823 : Nat) : Int) else ((min (digitsVal ds) 1073741823 : Nat) : Int)),
            (splitSign r).2.2.dropWhile isDigit)
    else (0, c4)
  | [] => (0, c4)

/-- digits [. digits] [exponent]; "." alone (no digit anywhere) is junk; "5." and "0." are numbers and consume
the point.  `n` = length of the whole input, for the count of consumed characters. -/
def convNum (neg : Bool) (n : Nat) (c1 : List Byte) : Conv :=
  let zs := c1.takeWhile (· == 48)
  let c2 := c1.dropWhile (· == 48)
  let ip := c2.takeWhile isDigit
  let c3 := c2.dropWhile isDigit
  if zs.isEmpty && ip.isEmpty && (convFrac c3).1.isEmpty then .junk
  else .val neg (digitsVal (ip ++ (convFrac c3).1)) ((convExp (convFrac c3).2).1 - ((convFrac c3).1.length : Int))
         (n - (convExp (convFrac c3).2).2.length)

/-- `StringToDoubleConverter::StringToIeee` with ALLOW_TRAILING_JUNK | ALLOW_LEADING_SPACES,
"inf", "NaN" (util/double-conversion/string-to-double.cc:419ff); the input starts at a non-space. -/
def conv (s : List Byte) : Conv :=
  if s.isEmpty then .junk else
  match (splitSign s).2.2 with
  | [] => .junk
  | c :: r =>
    if (splitSign s).1 && isSpace c then .junk
    else if c == 105 then
      (if startsWith (c :: r) [105, 110, 102] then .inf (splitSign s).2.1 (s.length - ((c :: r).length - 3)) else .junk)
    else if c == 78 then
      (if startsWith (c :: r) [78, 97, 78] then .nan (s.length - ((c :: r).length - 3)) else .junk)
    else convNum (splitSign s).2.1 s.length (c :: r)

def numDigits (m : Nat) : Nat := (toString m).length

def toDoubleBits (neg : Bool) (m : Nat) (e : Int) : Nat :=
  let mag : Float :=
    if m == 0 then 0.0
    else if e + numDigits m > 400 then (1.0 : Float) / 0.0
    else if e + numDigits m < -400 then 0.0
    else if e ≥ 0 then Float.ofScientific m false e.toNat else Float.ofScientific m true (-e).toNat
  ((if neg then -mag else mag).toBits).toNat

def toFloatBits (neg : Bool) (m : Nat) (e : Int) : Nat :=
  let mag : Float32 :=
    if m == 0 then 0.0
    else if e + numDigits m > 400 then (1.0 : Float32) / 0.0
    else if e + numDigits m < -400 then 0.0
    else if e ≥ 0 then Float32.ofScientific m false e.toNat else Float32.ofScientific m true (-e).toNat
  ((if neg then -mag else mag).toBits).toNat

/-- value used for NaN in the protocol (`V nan`) -/
def nanCode : Int := -(2^70)

/-- kenlm's `ParseNumber(StringPiece str, float/double&)` as repaired (file_piece.cc:189-200): the converter, then
`isnan(out) && StringPiece(str.data(), count) != "NaN"` ⇒ ParseNumberException: NaN is accepted exactly when
the converter consumed the literal `NaN` symbol (no sign); junk and the empty string (count 0) are rejected. -/
def gFloat (dbl : Bool) (s : List Byte) : Option (Int × Nat) :=
  match conv s with
  | .junk => none
  | .nan cnt => if s.take cnt == [78, 97, 78] then some (nanCode, cnt) else none
  | .inf neg cnt => some (((if dbl then toDoubleBits neg 1 1000 else toFloatBits neg 1 1000 : Nat) : Int), cnt)
  | .val neg m e cnt => some (((if dbl then toDoubleBits neg m e else toFloatBits neg m e : Nat) : Int), cnt)

/-- the same before the repair: `isnan(out) && str != "NaN" && str != "nan"` with `str` = everything from
`position_` to the last space of the window -/
def gFloatOld (dbl : Bool) (s : List Byte) : Option (Int × Nat) :=
  let ok := s == [78, 97, 78] || s == [110, 97, 110]
  match conv s with
  | .junk => if ok then some (nanCode, 0) else none
  | .nan cnt => if ok then some (nanCode, cnt) else none
  | .inf neg cnt => some (((if dbl then toDoubleBits neg 1 1000 else toFloatBits neg 1 1000 : Nat) : Int), cnt)
  | .val neg m e cnt => some (((if dbl then toDoubleBits neg m e else toFloatBits neg m e : Nat) : Int), cnt)

/-- today's grammars (`fixN = false`: the NaN test on the whole window string) -/
def grammarOld : NumKind → Grammar
  | .float => gFloatOld false
  | .double => gFloatOld true
  | .long => gLong
  | .ulong => gULong

def grammar : NumKind → Grammar
  | .float => gFloat false
  | .double => gFloat true
  | .long => gLong
  | .ulong => gULong


end KV.FilePiece

namespace KV.FilePiece

/-! ### util::stream::LineInput::Run (util/stream/line_input.cc)
Fills blocks of `B` bytes from a `ReadCompressed`, cuts each full block after its last newline and carries the
rest over to the next block; the last block (at EOF) is handed out as it is. -/

/-- `while (to != end) { got = reader.Read(to, end - to); if (!got) EOF; to += got; }` : (bytes read, reader, hit EOF) -/
def liFill (orc : Nat → Nat) : Nat → Chain → Nat → Nat → List Byte × Chain × Bool
  | 0, ch, _, _ => ([], ch, false)
  | f + 1, ch, i, need =>
    if need = 0 then ([], ch, false)
    else match rcRead orc ch i need with
      | ([], ch') => ([], ch', true)
      | (b :: bs, ch') =>
        let r := liFill orc f ch' (i + (bs.length + 1)) (need - (bs.length + 1))
        (b :: bs ++ r.1, r.2.1, r.2.2)

/-- index of the last newline + 1, or 0 -/
def lastNl1 (l : List Byte) : Nat := lastIdx1 (· == 10) l

inductive LiErr | noNewline | fuel
  deriving DecidableEq, Repr

/-- the blocks (valid bytes) `LineInput::Run` passes down the chain -/
def liRun (orc : Nat → Nat) (B : Nat) : Nat → Chain → Nat → List Byte → Except LiErr (List (List Byte))
  | 0, _, _, _ => .error .fuel
  | f + 1, ch, i, carry =>
    let r := liFill orc (B + 1) ch i (B - carry.length)
    let buf := carry ++ r.1
    if r.2.2 then .ok [buf]                       -- EOF: SetValidSize(to - begin); poison
    else match lastNl1 buf with
      | 0 => .error .noNewline                    -- "Did not find a newline in … bytes of input"
      | k + 1 =>
        match liRun orc B f r.2.1 (i + r.1.length) (buf.drop (k + 1)) with
        | .ok bl => .ok (buf.take (k + 1) :: bl)
        | .error e => .error e


end KV.FilePiece

/-! ### util::ReadCompressed, concretely: `ReadFactory`, `Complete`, `Uncompressed`, `UncompressedWithHeader`,
`StreamCompressed<…>` (read_compressed.cc:53-146, 358-394)

The descriptor delivers `fd` (bytes not yet read).  The third-party decoders enter through `Codecs`: for raw bytes
starting at a member boundary `member` tells how many raw bytes the member occupies and what it decodes to;
`magic` is `DetectMagic`.  One `inflate` / `BZ2_bzDecompress` / `lzma_code` call (`Process`) consumes some of the
input buffer and produces some output, as an adversarial oracle decides, but makes progress whenever progress is
possible (the libraries' contract; otherwise they report a buffer error and kenlm throws).  `Process` reports the
end of the stream exactly when the member's raw bytes are consumed and its plain bytes are produced. -/
namespace KV.FilePiece

structure Codecs where
  member : List Byte → Option (Nat × List Byte)
  magic : List Byte → Bool

/-- `kInputBuffer` -/
def kInputBuffer : Nat := 16384

inductive Rd
  | complete
  | uncompressed
  | withHeader (buf : List Byte)
  | stream (inbuf : List Byte) (rawLeft : Nat) (plainLeft : List Byte)
  deriving Repr

structure RcSt where
  fd : List Byte
  rd : Rd
  deriving Repr

inductive RcErr | corrupt | uncompressedAfterCompressed | fuel
  deriving DecidableEq, Repr

/-- `ReadFactory(fd, raw_amount, already_data, already_size, require_compressed)` -/
def readFactory (C : Codecs) (fd already : List Byte) (requireCompressed : Bool) : Except RcErr RcSt :=
  let header := already ++ fd.take (kMagicSize - already.length)      -- top up to kMagicSize with ReadOrEOF
  let fd' := fd.drop (kMagicSize - already.length)
  if header.isEmpty then .ok ⟨fd', .complete⟩
  else if C.magic header then
    match C.member (header ++ fd') with
    | some (len, plain) => .ok ⟨fd', .stream header len plain⟩
    | none => .error .corrupt
  else if requireCompressed then .error .uncompressedAfterCompressed
  else .ok ⟨fd', .withHeader header⟩

/-- one `Process()`: (input bytes consumed, output bytes produced) -/
def decStep (dorc : Nat → Nat → Nat → Nat → Nat × Nat) (inLen rawLeft plainLen availOut : Nat) : Nat × Nat :=
  let ci := min (dorc inLen rawLeft plainLen availOut).1 (min inLen rawLeft)
  let po := min (dorc inLen rawLeft plainLen availOut).2 (min availOut plainLen)
  if ci = 0 ∧ po = 0 then
    if 0 < min availOut plainLen then (0, 1)
    else if 0 < min inLen rawLeft then (1, 0)
    else (0, 0)
  else (ci, po)

/-- `ReadCompressed::Read(to, amount)` on the concrete readers; `os` = sizes of the OS's reads. -/
def rcRead2 (C : Codecs) (os : Nat → Nat) (dorc : Nat → Nat → Nat → Nat → Nat × Nat) :
    Nat → RcSt → Nat → Except RcErr (List Byte × RcSt)
  | 0, _, _ => .error .fuel
  | f + 1, s, amount =>
    match s.rd with
    | .complete => .ok ([], s)
    | .uncompressed =>
      let n := chunk os s.fd.length amount s.fd.length                       -- PartialRead
      .ok (s.fd.take n, ⟨s.fd.drop n, .uncompressed⟩)
    | .withHeader buf =>
      let n := min amount buf.length
      .ok (buf.take n, ⟨s.fd, if n = buf.length then .uncompressed else .withHeader (buf.drop n)⟩)
    | .stream inbuf rawLeft plainLeft =>
      if amount = 0 then .ok ([], s) else
      -- `if (!back_.Stream().avail_in) ReadInput(thunk);`
      let inbuf1 := if inbuf.isEmpty then s.fd.take kInputBuffer else inbuf
      let fd1 := if inbuf.isEmpty then s.fd.drop kInputBuffer else s.fd
      let st := decStep dorc inbuf1.length rawLeft plainLeft.length amount
      let out := plainLeft.take st.2
      if rawLeft - st.1 = 0 ∧ plainLeft.drop st.2 = [] then
        -- stream end: hand the rest of the input buffer to the reader of the next member
        match readFactory C fd1 (inbuf1.drop st.1) true with
        | .error e => .error e
        | .ok s' => if out.isEmpty then rcRead2 C os dorc f s' amount else .ok (out, s')
      else if !out.isEmpty then .ok (out, ⟨fd1, .stream (inbuf1.drop st.1) (rawLeft - st.1) (plainLeft.drop st.2)⟩)
      else if st.1 = 0 then .error .corrupt
      else rcRead2 C os dorc f ⟨fd1, .stream (inbuf1.drop st.1) (rawLeft - st.1) (plainLeft.drop st.2)⟩ amount

/-- `ReadCompressed::Reset(fd)` -/
def rcOpen (C : Codecs) (raw : List Byte) : Except RcErr RcSt := readFactory C raw [] false

end KV.FilePiece
