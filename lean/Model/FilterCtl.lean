import Model.Filter
/-
Transition-system model of the threaded filter (lm/filter/thread.hh, lm/filter/format.hh
`MultipleOutputBuffer`, util/thread_pool.hh, util/pcqueue.hh).

Threads: the reader (`Controller`, driven by `ReadARPA` / `ReadCount`), `workers`
`FilterWorker`s, one `OutputWorker`; at the end the reader runs the destructors of the two
`ThreadPool`s (poison + join).  Three bounded FIFO queues of capacity `queue`
(`filter_.in_`, `output_.in_`, `to_read_`) — that a `PCQueue` *is* a bounded FIFO delivering
every item exactly once is property C17's theorem and is assumed here.  Every `Produce` /
`Consume` is one atomic step together with the thread-local computation next to it (a batch is
owned by exactly one thread or queue at any time, so local computations commute with the
other threads' steps).  The scheduler is an arbitrary choice among enabled threads.

Memory: the model moves values, not addresses.  The one place where the C++ depends on addresses
staying put is `InputBuffer`: every `Line` holds a `StringPiece` into its own `std::string`
(small strings live inside the object), so `lines_` must never reallocate; `Controller` guarantees
it by `Reserve(batch_size)` per batch and by sending a batch as soon as it holds `batch_size` lines.
The model-side half is `KV.C12.batch_never_exceeds_reserve` (a batch receives at most `batch_size`
lines before `FlushInput`); the reservation itself is checked on the real tool by the
large-batch / short-lines class of checks/C12.py.

`Variant` selects the code the model mirrors: `Variant.fixed` is the tree with the two repairs
in thread.hh / format.hh (repo_patches/1x-fix-filter-*.patch), `Variant.old` is the code before
them (kept so that the negation theorems of `Properties/C12.lean`, section `Old`, stay
checkable).  The third repair (B2) is in the reader *program*: `rawProgram` ends with `flush`,
`rawProgramOld` does not.
-/
namespace KV.FilterCtl
open KV.Filter (Verdict)

structure Variant where
  /-- B1: `NewInput` always takes a fresh sequence number (`Fill(sequence_++)`), also when the
  previous one was never sent -/
  burnSeq : Bool
  /-- B3: `MultipleOutputBuffer::Flush` leaves `last_` set -/
  keepLast : Bool
  deriving DecidableEq, Repr

def Variant.fixed : Variant := ⟨false, false⟩
def Variant.old : Variant := ⟨true, true⟩

/-- calls made by the reader thread on the output object itself -/
inductive Mark where
  | beginLength (k : Nat)
  | endLength (k : Nat)
  | finish
  deriving DecidableEq, Repr

/-- one call on the real output: `AddNGram(line)` (`t = none`, all files),
`SingleAddNGram(k, line)` (`t = some k`), or a section mark written by the reader -/
inductive OutEv (α : Type) where
  | line (t : Option Nat) (x : α)
  | mark (m : Mark)
  deriving DecidableEq, Repr

/-- what the input parser asks of the `Controller` -/
inductive ROp (α : Type) where
  | add (x : α)      -- Controller::AddNGram
  | flush            -- Controller::Flush
  | emit (m : Mark)  -- BeginLength / EndLength / Finish directly on the output
  deriving DecidableEq, Repr

/-- `MultipleOutputBuffer::Annotated`; lists are kept newest-first (`rev.head = back()`) -/
structure Annot (α : Type) where
  systems : List Nat
  line : α
  deriving DecidableEq, Repr

/-- address and length of an input line: (batch, index in the batch, length).  Distinct
indices of a batch are distinct `std::string`s; a recycled batch reuses the same storage. -/
abbrev Addr := Nat × Nat × Nat

structure OutBuf (α : Type) where
  rev : List (Annot α) := []
  last : Option Addr := none
  deriving DecidableEq, Repr

structure Batch (α : Type) where
  id : Nat
  seq : Nat
  input : List α
  out : OutBuf α := {}
  deriving DecidableEq, Repr

structure Cfg (α : Type) where
  batchSize : Nat
  queue : Nat
  workers : Nat
  variant : Variant
  f : α → Verdict
  len : α → Nat

variable {α : Type}

/-! ## MultipleOutputBuffer (BinaryOutputBuffer is the special case without `only`) -/

def OutBuf.addAll (b : OutBuf α) (x : α) : OutBuf α := { b with rev := ⟨[], x⟩ :: b.rev }

/-- `SingleAddNGram`.  The flag reports `annotated_.back()` on an empty vector (undefined
behaviour; observed: the entry is lost or the process crashes). -/
def OutBuf.addSingle (b : OutBuf α) (a : Addr) (k : Nat) (x : α) : OutBuf α × Bool :=
  if b.last = some a then
    match b.rev with
    | [] => (b, true)
    | t :: r => ({ b with rev := { t with systems := t.systems ++ [k] } :: r }, false)
  else ({ rev := ⟨[k], x⟩ :: b.rev, last := some a }, false)

def addKs (a : Addr) (x : α) : List Nat → OutBuf α × Bool → OutBuf α × Bool
  | [], st => st
  | k :: ks, st => let r := st.1.addSingle a k x; addKs a x ks (r.1, st.2 || r.2)

def addItem (cfg : Cfg α) (id i : Nat) (x : α) (st : OutBuf α × Bool) : OutBuf α × Bool :=
  match cfg.f x with
  | .all => (st.1.addAll x, st.2)
  | .only ks => addKs (id, i, cfg.len x) x ks st

/-- `InputBuffer::CallFilter` from index `i` -/
def callFilterFrom (cfg : Cfg α) (id : Nat) : Nat → List α → OutBuf α × Bool → OutBuf α × Bool
  | _, [], st => st
  | i, x :: xs, st => callFilterFrom cfg id (i+1) xs (addItem cfg id i x st)

def Annot.events (a : Annot α) : List (OutEv α) :=
  match a.systems with
  | [] => [.line none a.line]
  | ks => ks.map fun k => .line (some k) a.line

/-- the calls `MultipleOutputBuffer::Flush` makes on the real output -/
def OutBuf.events (b : OutBuf α) : List (OutEv α) := b.rev.reverse.flatMap Annot.events

def OutBuf.flushed (v : Variant) (b : OutBuf α) : OutBuf α :=
  { rev := [], last := if v.keepLast then b.last else none }

/-! ## state -/

inductive RPc where
  | run | waitOne | waitAll
  | poisonW (k : Nat)   -- `~ThreadPool` of `filter_`: k poisons still to produce, then join
  | poisonO | joinO     -- `~ThreadPool` of `output_`
  | done
  deriving DecidableEq, Repr

inductive WSt (α : Type) where
  | idle | holding (b : Batch α) | exited
  deriving DecidableEq, Repr

def WSt.isExited : WSt α → Bool
  | .exited => true
  | _ => false

structure State (α : Type) where
  prog : List (ROp α)
  rpc : RPc
  localRead : List (Batch α)            -- `local_read_`, head = top(); at `run` the top is `input_`
  seqNo : Nat                           -- `sequence_`
  toRead : List (Batch α)               -- queue `to_read_`, head = oldest
  filterQ : List (Option (Batch α))     -- `filter_.in_`; `none` = poison
  workers : List (WSt α)
  doneQ : List (Option (Batch α))       -- `output_.in_`
  ordering : List (Option (Batch α))    -- `OutputWorker::ordering_`
  baseSeq : Nat
  oExited : Bool
  out : List (OutEv α)                  -- calls made on the real output so far
  ub : Bool                             -- `back()` on an empty vector happened

inductive Tid where
  | reader | outw | worker (i : Nat)
  deriving DecidableEq, Repr

/-! ## reader -/

def fill (b : Batch α) (seq : Nat) : Batch α := { b with seq := seq, input := [] }

/-- `Controller::NewInput` -/
def newInput (cfg : Cfg α) (s : State α) : State α :=
  match s.localRead with
  | [] => s
  | top :: lr =>
    { s with localRead := fill top s.seqNo :: lr,
             seqNo := if cfg.variant.burnSeq then s.seqNo + 1 else s.seqNo }

/-- the sending part of `Controller::FlushInput` -/
def send (cfg : Cfg α) (s : State α) (top : Batch α) (lr : List (Batch α)) : State α :=
  { s with filterQ := s.filterQ ++ [some top], localRead := lr,
           seqNo := if cfg.variant.burnSeq then s.seqNo else s.seqNo + 1 }

def readerStep (cfg : Cfg α) (s : State α) : Option (State α) :=
  match s.rpc with
  | .run =>
    match s.prog with
    | [] => some { s with rpc := .poisonW cfg.workers }
    | .emit m :: rest => some { s with prog := rest, out := s.out ++ [.mark m] }
    | .add x :: rest =>
      match s.localRead with
      | [] => none
      | top :: lr =>
        let top' := { top with input := top.input ++ [x] }
        if top'.input.length = cfg.batchSize then
          if s.filterQ.length < cfg.queue then
            let s' := send cfg { s with prog := rest } top' lr
            if lr.isEmpty then some { s' with rpc := .waitOne } else some (newInput cfg s')
          else none
        else some { s with prog := rest, localRead := top' :: lr }
    | .flush :: rest =>
      match s.localRead with
      | [] => none
      | top :: lr =>
        if top.input.isEmpty then some { s with prog := rest, rpc := .waitAll }
        else if s.filterQ.length < cfg.queue then
          some { send cfg { s with prog := rest } top lr with rpc := .waitAll }
        else none
  | .waitOne =>
    match s.toRead with
    | [] => none
    | b :: tr => some (newInput cfg { s with toRead := tr, localRead := b :: s.localRead, rpc := .run })
  | .waitAll =>
    if s.localRead.length < cfg.queue then
      match s.toRead with
      | [] => none
      | b :: tr => some { s with toRead := tr, localRead := b :: s.localRead }
    else some (newInput cfg { s with rpc := .run })
  | .poisonW 0 => if s.workers.all WSt.isExited then some { s with rpc := .poisonO } else none
  | .poisonW (k+1) =>
    if s.filterQ.length < cfg.queue then some { s with filterQ := s.filterQ ++ [none], rpc := .poisonW k }
    else none
  | .poisonO =>
    if s.doneQ.length < cfg.queue then some { s with doneQ := s.doneQ ++ [none], rpc := .joinO } else none
  | .joinO => if s.oExited then some { s with rpc := .done } else none
  | .done => none

/-! ## filter workers -/

def callFilter (cfg : Cfg α) (b : Batch α) : Batch α × Bool :=
  let r := callFilterFrom cfg b.id 0 b.input (b.out, false)
  ({ b with out := r.1 }, r.2)

def workerStep (cfg : Cfg α) (s : State α) (i : Nat) : Option (State α) :=
  match s.workers[i]? with
  | some .idle =>
    match s.filterQ with
    | [] => none
    | some b :: q => some { s with filterQ := q, workers := s.workers.set i (.holding b) }
    | none :: q => some { s with filterQ := q, workers := s.workers.set i .exited }
  | some (.holding b) =>
    if s.doneQ.length < cfg.queue then
      let r := callFilter cfg b
      some { s with doneQ := s.doneQ ++ [some r.1], workers := s.workers.set i .idle, ub := s.ub || r.2 }
    else none
  | _ => none

/-! ## output worker -/

def outStep (cfg : Cfg α) (s : State α) : Option (State α) :=
  if s.oExited then none else
  match s.ordering with
  | some b :: rest =>
    if s.toRead.length < cfg.queue then
      some { s with out := s.out ++ b.out.events,
                    toRead := s.toRead ++ [{ b with out := b.out.flushed cfg.variant }],
                    ordering := rest, baseSeq := s.baseSeq + 1 }
    else none
  | _ =>
    match s.doneQ with
    | [] => none
    | none :: q => some { s with doneQ := q, oExited := true }
    | some b :: q =>
      let pos := b.seq - s.baseSeq
      let ord := s.ordering ++ List.replicate (pos + 1 - s.ordering.length) none
      some { s with doneQ := q, ordering := ord.set pos (some b) }

/-! ## the system -/

def step (cfg : Cfg α) (s : State α) : Tid → Option (State α)
  | .reader => readerStep cfg s
  | .outw => outStep cfg s
  | .worker i => workerStep cfg s i

def init (cfg : Cfg α) (prog : List (ROp α)) : State α :=
  newInput cfg
    { prog := prog, rpc := .run,
      localRead := (List.range cfg.queue).reverse.map fun i => { id := i, seq := 0, input := [] },
      seqNo := 0, toRead := [], filterQ := [], workers := List.replicate cfg.workers .idle,
      doneQ := [], ordering := [], baseSeq := 0, oExited := false, out := [], ub := false }

inductive Reach (cfg : Cfg α) (prog : List (ROp α)) : State α → Prop where
  | init : Reach cfg prog (init cfg prog)
  | step {s s' : State α} (t : Tid) : Reach cfg prog s → step cfg s t = some s' → Reach cfg prog s'

def allTids (cfg : Cfg α) : List Tid := .reader :: .outw :: (List.range cfg.workers).map .worker

def enabled (cfg : Cfg α) (s : State α) : List Tid :=
  (allTids cfg).filter fun t => (step cfg s t).isSome

def Terminal (s : State α) : Prop := s.rpc = .done

instance (s : State α) : Decidable (Terminal s) := by unfold Terminal; infer_instance

/-- no thread can move although the run is not finished -/
def Deadlocked (cfg : Cfg α) (s : State α) : Prop := s.rpc ≠ .done ∧ enabled cfg s = []

instance (cfg : Cfg α) (s : State α) : Decidable (Deadlocked cfg s) := by unfold Deadlocked; infer_instance

/-- run a given schedule; `none` when a scheduled thread is not enabled -/
def exec (cfg : Cfg α) : State α → List Tid → Option (State α)
  | s, [] => some s
  | s, t :: ts => match step cfg s t with
    | none => none
    | some s' => exec cfg s' ts

/-! ## the sequential filter (threads:1) as a log of calls on the output -/

def itemEvents (f : α → Verdict) (x : α) : List (OutEv α) :=
  match f x with
  | .all => [.line none x]
  | .only ks => ks.map fun k => .line (some k) x

def seqLog (f : α → Verdict) : List (ROp α) → List (OutEv α)
  | [] => []
  | .add x :: r => itemEvents f x ++ seqLog f r
  | .flush :: r => seqLog f r
  | .emit m :: r => .mark m :: seqLog f r

/-- `ReadARPA` driving `DispatchARPAInput`: per order BeginLength, the n-grams, Flush +
EndLength; Finish at the end -/
def arpaOrders : Nat → List (List α) → List (ROp α)
  | _, [] => [.emit .finish]
  | k, o :: os => .emit (.beginLength k) :: (o.map .add ++ .flush :: .emit (.endLength k) :: arpaOrders (k+1) os)

def arpaProgram (orders : List (List α)) : List (ROp α) := arpaOrders 1 orders

/-- `ReadCount` driving `DispatchInput`, with the repair (Flush after the last line) -/
def rawProgram (items : List α) : List (ROp α) := items.map .add ++ [.flush]

/-- … and before the repair -/
def rawProgramOld (items : List α) : List (ROp α) := items.map .add

/-- every `emit` and the end of the program are reached with nothing buffered since the last
`flush` (`d` = something was added since) -/
def wf : Bool → List (ROp α) → Bool
  | d, [] => !d
  | _, .add _ :: r => wf true r
  | _, .flush :: r => wf false r
  | d, .emit _ :: r => !d && wf false r

/-! ## what each output file receives -/

/-- the calls that reach output file `k` -/
def fileLog (k : Nat) : List (OutEv α) → List (Sum Mark α)
  | [] => []
  | .mark m :: r => .inl m :: fileLog k r
  | .line none x :: r => .inr x :: fileLog k r
  | .line (some j) x :: r => if j = k then .inr x :: fileLog k r else fileLog k r

/-! ## a seeded scheduler for the driver (any choice among enabled threads) -/

structure RunResult (α : Type) where
  final : State α
  schedule : List Tid
  status : String     -- "done" | "deadlock" | "fuel"

def lcg (x : Nat) : Nat := (x * 6364136223846793005 + 1442695040888963407) % 18446744073709551616

def runRandom (cfg : Cfg α) : Nat → Nat → State α → List Tid → RunResult α
  | 0, _, s, acc => ⟨s, acc.reverse, "fuel"⟩
  | fuel+1, seed, s, acc =>
    if s.rpc = .done then ⟨s, acc.reverse, "done"⟩ else
    match enabled cfg s with
    | [] => ⟨s, acc.reverse, "deadlock"⟩
    | en =>
      let seed' := lcg seed
      let t := en.getD ((seed' / 65536) % en.length) .reader
      match step cfg s t with
      | none => ⟨s, acc.reverse, "deadlock"⟩
      | some s' => runRandom cfg fuel seed' s' (t :: acc)

end KV.FilterCtl
