/-
lm/quantize.cc `MakeBins` (equal-*population* bins, centre = mean) and lm/quantize.hh `Bins::Encode`
(nearest centre via lower_bound) / `Decode`, over exact rationals.  `none` = −∞ (leading empty bins).
Used by C01/C03 for the lossless-quantisation clause (pre-observation D).
-/
namespace KV.QuantBins

/-- half-open index range of bin `i` among `n` sorted values -/
def binLo (n bins i : Nat) : Nat := n * i / bins
def binHi (n bins i : Nat) : Nat := n * (i + 1) / bins

def mean (l : List Rat) : Rat := l.sum / (l.length : Nat)

/-- the values `MakeBins` averages for bin `i`: `[values.begin()+n*i/bins, values.begin()+n*(i+1)/bins)` -/
def seg (vals : List Rat) (bins i : Nat) : List Rat :=
  (vals.drop (binLo vals.length bins i)).take (binHi vals.length bins i - binLo vals.length bins i)

/-- centre of bin `i` as the loop of `MakeBins` computes it: the mean of the bin, or — zero-length bucket —
the previous centre (`-inf` = `none` for a leading empty bin) -/
def centreAt (vals : List Rat) (bins : Nat) : Nat → Option Rat
  | 0 => if (seg vals bins 0).isEmpty then none else some (mean (seg vals bins 0))
  | i+1 => if (seg vals bins (i+1)).isEmpty then centreAt vals bins i else some (mean (seg vals bins (i+1)))

/-- `MakeBins(values, centers, bins)`; `vals` already sorted ascending -/
def makeBins (vals : List Rat) (bins : Nat) : List (Option Rat) := (List.range bins).map (centreAt vals bins)

def ltOpt (c : Option Rat) (v : Rat) : Bool := match c with | none => true | some x => x < v

/-- `std::lower_bound(begin, end, value)` on sorted centres -/
def lowerBound (cs : List (Option Rat)) (v : Rat) : Nat := (cs.takeWhile (ltOpt · v)).length

/-- `Bins::Encode(value, reserved = 0)` -/
def encode (cs : List (Option Rat)) (v : Rat) : Nat :=
  let above := lowerBound cs v
  if above = 0 then 0
  else if above = cs.length then cs.length - 1
  else
    match cs.getD (above - 1) none, cs.getD above none with
    | some lo, some hi => if v - lo < hi - v then above - 1 else above
    | _, _ => above

/-- `Bins::Encode(value, reserved)`: `cs` are the centres *after* the reserved codes -/
def encodeFrom (reserved : Nat) (cs : List (Option Rat)) (v : Rat) : Nat :=
  let above := lowerBound cs v
  if above = 0 then reserved
  else if above = cs.length then reserved + cs.length - 1
  else
    match cs.getD (above - 1) none, cs.getD above none with
    | some lo, some hi => if v - lo < hi - v then reserved + above - 1 else reserved + above
    | _, _ => reserved + above

def decode (cs : List (Option Rat)) (code : Nat) : Option Rat := cs.getD code none

/-- quantise-then-dequantise a value with bins trained on `vals` -/
def roundTrip (vals : List Rat) (bins : Nat) (v : Rat) : Option Rat :=
  let cs := makeBins vals bins
  decode cs (encode cs v)

end KV.QuantBins
