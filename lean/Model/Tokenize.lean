/-
Model of util/tokenize_piece.hh: `TokenIter<BoolCharacter, SkipEmpty>` over a byte string and a
delimiter set (`util::kSpaces` by default).  The iterator state is `(current_, after_)`, both
"pointer or NULL" string pieces, modelled as `Option (List Byte)`; `next` transcribes
`operator++` (tokenize_piece.hh:126-137) including the `do … while (SkipEmpty && …)` loop.
`tokens` drains the iterator the way `for (TokenIter<…> i(str, delim); i; ++i)` does.
`splitSpec` is the specification: the maximal delimiter-free pieces of the input.
No Mathlib; computable (used by lean/Driver/C18.lean; meant to be imported by the C14 model).
-/
namespace KV.Tokenize

abbrev Byte := Nat

/-- `BoolCharacter::Find`: the piece before the first delimiter and, if there is one, the rest
after it. -/
def findSplit (d : Byte → Bool) : List Byte → List Byte × Option (List Byte)
  | [] => ([], none)
  | b :: bs =>
    if d b then ([], some bs)
    else let (t, r) := findSplit d bs; (b :: t, r)

structure Iter where
  current : Option (List Byte)   -- `current_` (none: `current_.data() == NULL`, the end iterator)
  after : Option (List Byte)     -- `after_`   (none: `StringPiece(NULL, 0)`)
  deriving Repr, DecidableEq

/-- one pass of the `do` body of `operator++` -/
def advance (d : Byte → Bool) (it : Iter) : Iter :=
  match it.after with
  | none => { current := none, after := none }           -- Find on (NULL,0) returns (NULL,0)
  | some a => let (t, r) := findSplit d a; { current := some t, after := r }

/-- `operator++` (fuel = an upper bound on the number of empty tokens skipped; `a.length + 2`
always suffices, theorem `next_fuel`) -/
def next (d : Byte → Bool) (skipEmpty : Bool) : Nat → Iter → Iter
  | 0, it => advance d it
  | f + 1, it =>
    let it' := advance d it
    if skipEmpty && it'.current == some [] then next d skipEmpty f it' else it'

def afterLen (it : Iter) : Nat := match it.after with | none => 0 | some a => a.length + 1

/-- `TokenIter(str, delim)`: `after_ = str; ++*this` -/
def start (d : Byte → Bool) (skipEmpty : Bool) (s : List Byte) : Iter :=
  next d skipEmpty (s.length + 2) { current := none, after := some s }

/-- drain: `for (; it; ++it) out.push_back(*it)` -/
def drain (d : Byte → Bool) (skipEmpty : Bool) : Nat → Iter → List (List Byte)
  | 0, _ => []
  | f + 1, it =>
    match it.current with
    | none => []
    | some t => t :: drain d skipEmpty f (next d skipEmpty (afterLen it + 1) it)

def tokens (d : Byte → Bool) (skipEmpty : Bool) (s : List Byte) : List (List Byte) :=
  drain d skipEmpty (s.length + 2) (start d skipEmpty s)

/-- Specification: split at every delimiter (n delimiters give n+1 pieces)… -/
def splitAll (d : Byte → Bool) : List Byte → List (List Byte)
  | [] => [[]]
  | b :: bs =>
    if d b then [] :: splitAll d bs
    else match splitAll d bs with
      | [] => [[b]]
      | t :: ts => (b :: t) :: ts

/-- …and, with SkipEmpty, keep the non-empty pieces (Python's `bytes.split()` for `kSpaces`). -/
def splitSpec (d : Byte → Bool) (skipEmpty : Bool) (s : List Byte) : List (List Byte) :=
  if skipEmpty then (splitAll d s).filter (fun t => !t.isEmpty) else splitAll d s

end KV.Tokenize
