import Model.Score
import Model.Probing
/-! L2a — `HashedSearch` (lm/search_hashed.hh): per-order probing tables keyed by the chained 64-bit hash of the
reversed n-gram; node = the hash so far.  Table values are indices into a payload array. -/
namespace KV.ProbingLM
open KV.Arpa KV.Score

/-- `detail::CombineWordHash(current, next)` on `uint64_t` -/
def twoTo64 : Nat := 18446744073709551616

def combineReal (cur : Nat) (next : Word) : Nat :=
  (cur * 8978948897894561157 % twoTo64) ^^^ ((1 + next) * 17894857484156487943 % twoTo64)

/-- the key of a reversed n-gram (the combining function is a parameter; the code uses `combineReal`): first word, then `CombineWordHash` along the context (`FastMakeNode`, `ReadNGrams`) -/
def hashOf (combine : Nat → Word → Nat) : List Word → Nat
  | [] => 0
  | w :: rest => rest.foldl combine w

structure PLM where
  order : Nat
  uni : Word → Found
  middle : Nat → KV.Probing.Table
  payload : Nat → Nat → Found
  longest : KV.Probing.Table
  longestProb : Nat → Rat

/-- `HashedSearch::LookupUnigram / LookupMiddle / LookupLongest / FastMakeNode` (IdentityHash on the key) -/
def search (combine : Nat → Word → Nat) (P : PLM) : Search Nat where
  order := P.order
  lookupUnigram w := (P.uni w, w)
  lookupMiddle om2 w node :=
    let k := combine node w
    (match KV.Probing.find id (P.middle om2) k with
     | some (some v) => some (P.payload om2 v)
     | _ => none, k)
  lookupLongest w node :=
    match KV.Probing.find id P.longest (combine node w) with
    | some (some v) => some (P.longestProb v)
    | _ => none
  fastMakeNode ws := match ws with | [] => none | _ => some (hashOf combine ws)

end KV.ProbingLM
