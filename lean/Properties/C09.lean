import Proofs.IOFs
import Generated.C09
/-!
# C09 — An interrupted binary build never yields a file that loads as a model

Theorems over the crash model of `Model/IO.lean` (`KV.IO.Fs`), for **every** trace that
satisfies the decidable writer protocol `conforms`, every crash point, every mixture of
unsynced sectors, every truncation length.  The protocol is decided on the *real* trace of
`build_binary` on every run (checks/C09.py); the OS's persistence order is the assumed crash
model, not observed.
-/
namespace KV.C09
open KV.IO KV.IO.Fs

/-- what `conforms` says, as propositions -/
structure Protocol (f : Fmt) (t : Trace) (c y : Nat) : Prop where
  hc : commitIdx f t = some c
  hH : f.headerSize ≤ kSector
  hS : f.sanity.size < f.headerSize
  hne : prefixIs Img.empty f.sanity = false
  hlen : f.headerSize ≤ (vol t (y + 1)).len
  hcommit : (t.getD c .close).inHeader f.headerSize = true
  hafter : noWriteBetween t c t.length = true
  hy : y < c
  hsync : (t.getD y .close).fullSync (vol t (y + 1)).len = true
  hbetween : onlyHeaderBetween t y c f.headerSize = true

theorem conforms_unpack (f : Fmt) (t : Trace) (h : conforms f t = true) : ∃ c y, Protocol f t c y := by
  unfold conforms at h
  cases hc : commitIdx f t with
  | none => rw [hc] at h; cases h
  | some c =>
    rw [hc] at h
    simp only [Bool.and_eq_true, decide_eq_true_eq, List.any_eq_true, List.mem_range, Bool.not_eq_true'] at h
    obtain ⟨⟨⟨⟨⟨hH, hS⟩, hne⟩, hcm⟩, haf⟩, ⟨y, hy, ⟨⟨hsy, hlen⟩, hbt⟩, _⟩⟩ := h
    refine ⟨c, y, ⟨hc, hH, hS, hne, hlen, ?_, haf, hy, hsy, hbt⟩⟩
    cases hg : t.getD c .close <;> rw [hg] at hcm <;> simp [Ev.inHeader] at hcm ⊢ <;> exact hcm

section
variable {f : Fmt} {t : Trace} {c y : Nat} (P : Protocol f t c y)
include P

theorem Protocol.c_lt : c < t.length := (firstIdx_spec _ _ _ P.hc).1

theorem Protocol.committed : prefixIs (vol t (c + 1)) f.sanity = true := (firstIdx_spec _ _ _ P.hc).2.1

theorem Protocol.not_before : ∀ j, j ≤ c → prefixIs (vol t j) f.sanity = false := by
  intro j hj
  cases j with
  | zero => rw [vol_zero]; exact P.hne
  | succ j => exact (firstIdx_spec _ _ _ P.hc).2.2 j (by omega)

/-- after the commit event the volatile image is the final image -/
theorem Protocol.after_commit : ∀ k, c + 1 ≤ k → vol t k = final t := by
  intro k hk
  rcases Nat.le_total k t.length with hle | hge
  · have h1 := vol_frame t (c + 1) k hk hle (fun j e h1 h2 he =>
      noWriteBetween_spec t c t.length P.hafter j e (by omega) (by omega) he)
    have h2 := vol_frame t (c + 1) t.length (by have := P.c_lt; omega) (Nat.le_refl _) (fun j e h1 h2 he =>
      noWriteBetween_spec t c t.length P.hafter j e (by omega) (by omega) he)
    unfold final; rw [h1, h2]
  · exact vol_beyond t k hge

/-- from the full sync on, the length is final and every byte outside the header is final -/
theorem Protocol.after_sync : ∀ k, y + 1 ≤ k →
    (vol t k).len = (final t).len ∧ ∀ i, f.headerSize ≤ i → (vol t k).get i = (final t).get i := by
  have hcl := P.c_lt
  -- every event in [y+1, length) is a non-write or the commit event (inside the header)
  have hev : ∀ j e, y + 1 ≤ j → j < t.length → t[j]? = some e → e.inHeader f.headerSize = true := by
    intro j e h1 h2 he
    by_cases hjc : j = c
    · subst hjc
      have : t.getD j .close = e := by rw [List.getD_eq_getElem?_getD, he]; rfl
      rw [← this]; exact P.hcommit
    · rcases Nat.lt_or_ge j c with hlt | hge
      · exact onlyHeaderBetween_spec t y c _ P.hbetween j e (by omega) hlt he
      · exact nonwrite_inHeader e _ (noWriteBetween_spec t c t.length P.hafter j e (by omega) h2 he)
  have hl : f.headerSize ≤ (vol t (y + 1)).len := P.hlen
  have hfin := vol_frame_header t (y + 1) f.headerSize hl t.length (by have := P.hy; omega) (Nat.le_refl _)
    (fun j e h1 h2 he => hev j e h1 h2 he)
  intro k hk
  rcases Nat.le_total k t.length with hle | hge
  · have hk' := vol_frame_header t (y + 1) f.headerSize hl k hk hle
      (fun j e h1 h2 he => hev j e h1 (by omega) he)
    unfold final
    exact ⟨by rw [hk'.1, hfin.1], fun i hi => by rw [hk'.2 i hi, hfin.2 i hi]⟩
  · rw [vol_beyond t k hge]; exact ⟨rfl, fun _ _ => rfl⟩

end

theorem loads_prefix (f : Fmt) (m : Img) (h : loads f m = true) :
    prefixIs m f.sanity = true ∧ f.sanity.size < m.len ∧ f.headerSize ≤ m.len ∧
    f.totalMap (header f m) ≤ m.len := by
  unfold loads hasSanity at h
  simp only [Bool.and_eq_true, decide_eq_true_eq] at h
  exact ⟨h.1.1.1.1.2, h.1.1.1.1.1, h.1.1.1.2, h.1.2⟩

/-- **Process kill at any event boundary**: under the writer protocol, the file left behind is
rejected, or it *is* the complete file. -/
theorem kill_safe (f : Fmt) (t : Trace) (hc : conforms f t = true) (k : Nat) :
    loads f (vol t k) = false ∨ vol t k = final t := by
  obtain ⟨c, y, P⟩ := conforms_unpack f t hc
  rcases Nat.lt_or_ge c k with hk | hk
  · exact Or.inr (P.after_commit k hk)
  · left
    cases hl : loads f (vol t k) with
    | false => rfl
    | true =>
      have := (loads_prefix f _ hl).1
      rw [P.not_before k hk] at this; cases this

/-- **Power loss at any event boundary**: every image the crash model allows (any durable
length since the last sync, every sector at any version since the last sync covering it) is
rejected, or it is byte-for-byte the complete file. -/
theorem power_safe (f : Fmt) (t : Trace) (hc : conforms f t = true) (k : Nat) (img : Img)
    (hcr : Crash t k img) : loads f img = false ∨ img.eqv (final t) := by
  obtain ⟨c, y, P⟩ := conforms_unpack f t hc
  cases hl : loads f img with
  | false => exact Or.inl rfl
  | true =>
    right
    obtain ⟨hpre, hSlen, _, _⟩ := loads_prefix f img hl
    obtain ⟨hkl, ⟨jl, hjl, hlen⟩, hsec⟩ := hcr
    have hcl := P.c_lt
    have hy := P.hy
    -- sector 0 comes from a version after the commit
    obtain ⟨j0, hv0, hb0⟩ := hsec 0
    have hj0 : c + 1 ≤ j0 := by
      rcases Nat.lt_or_ge c j0 with h | h
      · exact h
      · exfalso
        have hnb := P.not_before j0 h
        have : prefixIs (vol t j0) f.sanity = true := by
          rw [prefixIs_iff]
          intro i hi
          have hi512 : i / kSector = 0 := Nat.div_eq_of_lt (by have := P.hS; have := P.hH; unfold kSector at *; omega)
          rw [← hb0 i hi512 (by omega)]
          exact (prefixIs_iff img f.sanity).mp hpre i hi
        rw [hnb] at this; cases this
    have hk : c + 1 ≤ k := Nat.le_trans hj0 hv0.1
    -- the full sync at event y supersedes every older version of every sector, and the length
    have hey : t[y]? = some (t.getD y .close) := by
      rw [List.getD_eq_getElem?_getD, List.getElem?_eq_getElem (by omega)]; rfl
    have ver_ge : ∀ s j, VerOK t k s j → y + 1 ≤ j := by
      intro s j hv
      rcases Nat.lt_or_ge y j with h | h
      · exact h
      · exfalso
        have := hv.2 (y + 1) (by omega) (by omega) (t.getD y .close) (by simpa using hey)
        rw [fullSync_covers _ _ s P.hsync] at this; cases this
    have jl_ge : y + 1 ≤ jl := by
      rcases Nat.lt_or_ge y jl with h | h
      · exact h
      · exfalso
        have := hjl.2 (y + 1) (by omega) (by omega) (t.getD y .close) (by simpa using hey)
        rw [fullSync_isSync _ _ P.hsync] at this; cases this
    have hlenfin : img.len = (final t).len := by rw [hlen]; exact (P.after_sync jl jl_ge).1
    refine ⟨hlenfin, ?_⟩
    intro i
    by_cases hi : i < img.len
    · by_cases hs0 : i / kSector = 0
      · rw [hb0 i hs0 hi, P.after_commit j0 hj0]
      · obtain ⟨j, hv, hb⟩ := hsec (i / kSector)
        rw [hb i rfl hi]
        have hiH : f.headerSize ≤ i := by
          have := P.hH
          have : kSector ≤ i := by
            rcases Nat.lt_or_ge i kSector with h | h
            · exact absurd (Nat.div_eq_of_lt h) hs0
            · exact h
          omega
        exact (P.after_sync j (ver_ge _ j hv)).2 i hiH
    · have h1 : img.get i = 0 := by unfold Img.get; simp [hi]
      have h2 : (final t).get i = 0 := by unfold Img.get; rw [← hlenfin]; simp [hi]
      rw [h1, h2]

/-- **Every strict prefix of a file is rejected unless only bytes after the mapped region
(`total_map` = where the vocabulary strings start) are missing, in which case queries read the
same bytes.**  Holds for every image `fin`, complete or not. -/
theorem prefix_rejected (f : Fmt) (fin : Img) (n : Nat) (hn : n < fin.len) :
    loads f (fin.trunc n) = false ∨
    (f.totalMap (header f fin) ≤ n ∧ queriesEqual f (fin.trunc n) fin) := by
  cases hl : loads f (fin.trunc n) with
  | false => exact Or.inl rfl
  | true =>
    right
    obtain ⟨_, _, hH, htm⟩ := loads_prefix f _ hl
    have hget : ∀ i, i < n → (fin.trunc n).get i = fin.get i := by
      intro i hi
      show (if i < n then fin.get i else 0) = fin.get i
      simp [hi]
    have hlen : (fin.trunc n).len = n := rfl
    rw [hlen] at hH
    have hhdr : header f (fin.trunc n) = header f fin := by
      unfold header
      apply List.map_congr_left
      intro i hi
      have : i < f.headerSize := List.mem_range.mp hi
      exact hget i (by omega)
    rw [hhdr, hlen] at htm
    exact ⟨htm, fun i hi => hget i (by omega)⟩

/-- **The complete header becomes visible only after everything else is on stable storage**:
under the protocol there is a commit event `c` and an earlier event `y` that syncs the whole
file as it then is (so it covers every sector), with nothing but header bytes written in between
and nothing after `c`. -/
theorem header_last (f : Fmt) (t : Trace) (hc : conforms f t = true) :
    headerLast f t = true ∧
    ∃ c y, commitIdx f t = some c ∧ y < c ∧
      (∀ s, (t.getD y .close).covers (vol t (y + 1)).len s = true) ∧
      (∀ j e, y < j → j < c → t[j]? = some e → e.inHeader f.headerSize = true) ∧
      (∀ j e, c < j → j < t.length → t[j]? = some e → e.isWrite = false) := by
  obtain ⟨c, y, P⟩ := conforms_unpack f t hc
  refine ⟨?_, c, y, P.hc, P.hy, fun s => fullSync_covers _ _ s P.hsync,
    onlyHeaderBetween_spec t y c _ P.hbetween, noWriteBetween_spec t c t.length P.hafter⟩
  unfold headerLast
  rw [P.hc]
  simp only [List.any_eq_true, List.mem_range, Bool.and_eq_true]
  exact ⟨y, P.hy, ⟨P.hsync, decide_eq_true P.hlen⟩, P.hbetween⟩

/-! ### The driver's power-loss enumeration and the `Crash` relation
`lean/Driver/C09.lean` emits `crashImage vols jl choice` for pairs `(jl, choice)` that pass the
decidable tests `lenOKB` / `verOKB`, with `vols j = vol t j` for `j ≤ k` (a table). -/

/-- **soundness**: every image the driver emits is a crash image of the model. -/
theorem crash_enumeration_sound (t : Trace) (k jl : Nat) (choice : Nat → Nat) (vols : Nat → Img)
    (hk : k ≤ t.length) (hv : ∀ j, j ≤ k → vols j = vol t j)
    (hl : lenOKB t k jl = true) (hc : ∀ s, verOKB t k s (choice s) = true) :
    Crash t k (crashImage vols jl choice) := by
  have hL := (lenOKB_iff t k jl).mp hl
  refine ⟨hk, ⟨jl, hL, by show (vols jl).len = _; rw [hv jl hL.1]⟩, fun s => ?_⟩
  have hV := (verOKB_iff t k s (choice s)).mp (hc s)
  refine ⟨choice s, hV, fun i his hi => ?_⟩
  have hi' : i < (vols jl).len := hi
  rw [crashImage_get vols jl choice i hi', his, hv (choice s) hV.1]

/-- **completeness at the level of (length version, sector versions)**: every crash image of the
model is, byte for byte, `crashImage` of some pair that passes the driver's tests.  (That the
driver's mixed-radix counter visits every such pair — up to sectors with equal content — when
their number is ≤ the cap is executable glue in `Driver/C09.lean`, not a theorem.) -/
theorem crash_enumeration_complete (t : Trace) (k : Nat) (img : Img) (h : Crash t k img) :
    ∃ jl choice, lenOKB t k jl = true ∧ (∀ s, verOKB t k s (choice s) = true) ∧
      img.eqv (crashImage (vol t) jl choice) := by
  obtain ⟨_, ⟨jl, hjl, hlen⟩, hsec⟩ := h
  have hch : ∀ s, ∃ j, VerOK t k s j ∧ ∀ i, i / kSector = s → i < img.len → img.get i = (vol t j).get i := hsec
  let choice : Nat → Nat := fun s => Classical.choose (hch s)
  have hspec : ∀ s, VerOK t k s (choice s) ∧ ∀ i, i / kSector = s → i < img.len → img.get i = (vol t (choice s)).get i :=
    fun s => Classical.choose_spec (hch s)
  refine ⟨jl, choice, (lenOKB_iff t k jl).mpr hjl, fun s => (verOKB_iff t k s _).mpr (hspec s).1, ?_, ?_⟩
  · exact hlen
  · intro i
    by_cases hi : i < img.len
    · rw [crashImage_get (vol t) jl choice i (by rw [← hlen]; exact hi)]
      exact (hspec (i / kSector)).2 i rfl hi
    · have h1 : img.get i = 0 := by unfold Img.get; simp [hi]
      have h2 : (crashImage (vol t) jl choice).get i = 0 := by
        unfold Img.get crashImage; simp only; rw [← hlen]; simp [hi]
      rw [h1, h2]

/-! ### Non-vacuity and the two write methods in miniature
A toy format with a 4-byte "Sanity" `[9,9,9,9]`, marker `[7,7]`, header size 8. -/
def toyFmt : Fmt :=
  { sanity := #[9, 9, 9, 9], incomplete := #[7, 7], headerSize := 8,
    totalMap := fun _ => 12, paramsOK := fun _ => true, hasVocab := fun _ => false }

/-- WRITE_MMAP without vocabulary strings: truncate, store marker+body, msync all, store header, msync -/
def toyMmap : Trace :=
  [.create, .truncate 12, .store 0 #[7, 7, 0, 0, 0, 0, 0, 0, 1, 2, 3, 4], .msync 0 12,
   .store 0 #[9, 9, 9, 9, 5, 5, 5, 5], .msync 0 12, .munmap, .close]

/-- WRITE_AFTER with vocabulary strings: strings first (hole before), body, fsync, header -/
def toyAfter : Trace :=
  [.create, .truncate 0, .pwrite 12 #[60, 117], .pwrite 0 #[7, 7, 0, 0, 0, 0, 0, 0, 1, 2, 3, 4], .fsync,
   .pwrite 0 #[9, 9, 9, 9, 5, 5, 5, 5], .close]

/-- WRITE_MMAP *with* vocabulary strings as the unchanged code does it (§6-E): the strings are
`write()`n beyond the mapping, the `msync` covers only the mapping, no `fsync`. -/
def toyMmapVocab : Trace :=
  [.create, .truncate 12, .store 0 #[7, 7, 0, 0, 0, 0, 0, 0, 1, 2, 3, 4], .msync 0 12, .munmap,
   .pwrite 12 #[60, 117], .msync 0 12,
   .store 0 #[9, 9, 9, 9, 5, 5, 5, 5], .msync 0 12, .munmap, .close]

example : conforms toyFmt toyMmap = true := by decide
example : conforms toyFmt toyAfter = true := by decide
example : loads toyFmt (final toyMmap) = true := by decide

/-- **Deviation E, at model level**: the trace shape of WRITE_MMAP with vocabulary strings
violates the "in particular" clause (no sync of the whole file precedes the header). -/
theorem mmap_vocab_header_not_last : headerLast toyFmt toyMmapVocab = false ∧ conforms toyFmt toyMmapVocab = false := by
  decide

/-- non-vacuity on the E-shaped toy trace after the header store (k = 8): the length is durable since
the last msync (event 7), but sector 0 — which here also holds the `write()`n strings the msync
does not cover — may still be at any version since the *first* msync (event 4), not older. -/
example : lenOKB toyMmapVocab 8 7 = true ∧ lenOKB toyMmapVocab 8 6 = false ∧
    verOKB toyMmapVocab 8 0 4 = true ∧ verOKB toyMmapVocab 8 0 3 = false := by
  decide

/-- with an `fsync` before the header (the repair) the same shape conforms -/
example : conforms toyFmt
    [.create, .truncate 12, .store 0 #[7, 7, 0, 0, 0, 0, 0, 0, 1, 2, 3, 4], .msync 0 12, .munmap,
     .pwrite 12 #[60, 117], .msync 0 12, .fsync,
     .store 0 #[9, 9, 9, 9, 5, 5, 5, 5], .msync 0 12, .munmap, .close] = true := by decide

/-- `WriteHeader` traced store by store with the Sanity block LAST (the repaired order): the
parameter stores lie between the full sync and the commit, inside the header — conforms. -/
example : conforms toyFmt
    [.create, .truncate 12, .store 0 #[7, 7, 0, 0, 0, 0, 0, 0, 1, 2, 3, 4], .msync 0 12,
     .store 4 #[5, 5], .store 6 #[5, 5], .store 0 #[9, 9, 9, 9], .msync 0 12, .munmap, .close] = true := by decide

/-- **Sanity block FIRST** (the order of the unchanged `WriteHeader`): the commit event precedes the
parameter stores, so the protocol is violated ("nothing is written after the commit"), and the
volatile image right after the Sanity store — a reachable process-kill image when writing
through a shared mapping — loads although its parameters differ from the final file's. -/
theorem sanity_first_not_conforming :
    let t : Trace := [.create, .truncate 12, .store 0 #[7, 7, 0, 0, 0, 0, 0, 0, 1, 2, 3, 4], .msync 0 12,
      .store 0 #[9, 9, 9, 9], .store 4 #[5, 5], .store 6 #[5, 5], .msync 0 12, .munmap, .close]
    conforms toyFmt t = false ∧ loads toyFmt (vol t 5) = true ∧ (vol t 5).get 4 ≠ (final t).get 4 := by
  decide

/-- a writer that puts the complete header first does not conform -/
example : conforms toyFmt
    [.create, .truncate 12, .store 0 #[9, 9, 9, 9, 5, 5, 5, 5], .store 8 #[1, 2, 3, 4], .msync 0 12, .close] = false := by
  decide

/-- the regenerated header of the real format fits one sector for every order up to KENLM_MAX_ORDER,
and the reference `Sanity` is shorter than the header (hypotheses `hH`, `hS` of the protocol) -/
theorem real_header_fits_sector :
    KV.Gen.C09.totalHeaderSizeMax ≤ kSector ∧ KV.Gen.C09.sanityBytes.size = KV.Gen.C09.sizeofSanity ∧
    KV.Gen.C09.sizeofSanity < KV.Gen.C09.sizeofSanity + KV.Gen.C09.sizeofFixed ∧
    KV.Gen.C09.magicIncomplete.size < KV.Gen.C09.magicBytesLen := by decide

end KV.C09
