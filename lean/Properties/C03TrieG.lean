import Proofs.TrieOfTableG
import Proofs.TrieShapeG
import Proofs.BinaryQuant
import Properties.C03TrieBuild
/-!
# C03 (trie clause) — all four trie classes: `ofTable` for the ArrayBhiksha and SeparatelyQuantize layouts (gap G4)

Model: `Model/TrieG.lean` (`ofTableG bt bound order start q array bhikshaBits`: the search region of a `TrieModel`,
`ArrayTrieModel`, `QuantTrieModel` or `QuantArrayTrieModel` file as an OR of bit fields over `Binary.trieSetup quant array`;
`QSpec.train` = `TrainQuantizer` + `EncodeProb` / `EncodeBackoff`).  Tie: check C04, stream `triebuild4` — the memory of the model
builder (`buildTableArpa` then `ofTableG`, quantiser trained with IEEE single arithmetic) equals **byte for byte** the search
region `build_binary` wrote for all four types, for random `-q`, `-b`, `-a` settings.

* `reads_represents` (Proofs/TrieReads.lean): layout-independent half — if the records of the level arrays read back as (word,
  two value bit patterns, running child counts), the memory represents the table of those values.
* `ofTableG_represents`: for every bit table and each of the four layouts the built memory reads back that way.  ArrayBhiksha:
  `ReadNext` over the offset table region + inline low bits returns (own pointer, next pointer) by `bhiksha_array_roundtrip`
  on the monotone pointer sequence `childStarts` (`readNext_array`, `offG_read`); SeparatelyQuantize: a record's codes index the
  float tables of its order, the value returned is the centre (`tab_read`).
* `trie_build_represents_array`, `trie_end_to_end_array`: ARPA → builder → `ArrayTrieModel` (or `TrieModel`) memory →
  `FullScore = score a h w`, same hypotheses as `trie_end_to_end`.
* quantised: `quant_trie_refines` — FullScore over the quantised trie = FullScore over the table whose values are replaced by the
  bin centres their codes point to (all five components); structure (n-gram length, left-independence, out-state words) is that
  of the unquantised model by `C03Trie.table_structural` whenever the reserved back-off codes are respected;
  `train_exact` + `trie_end_to_end_quant_exact`: if every order has at most as many values as bins (`quant_exact`), decoding is
  the identity and FullScore over the `QuantTrieModel` / `QuantArrayTrieModel` memory = `score a h w`.
* ROUND 9 — `shape_g` (Proofs/TrieShapeG.lean, `shapeG_of_small`): the layout hypothesis `ShapeG` (bit widths, no `uint8` wrap,
  `ArrayCount` entries of the offset table inside its block, float tables after the quant header, all regions in file order) is
  DERIVED from `Binary.trieSetup` for all four classes and every `-a`/`-q`/`-b` (closed forms `setupG_closed`,
  `quantTableLoop_closed`/`quantTables_getD`; `midG_fields`, `midG_pos` via `array_table_fits`; `middle_block`, `quant_block`;
  ordering by `pw_cut` / `pw_blocks`).  `trie_build_represents_array`, `trie_end_to_end_array`, `trie_end_to_end_quant_exact` now
  assume only sizes below 2^57 (`SmallOK`), like `trie_end_to_end`.
* ROUND 9 — C03's structural clause on the built memories: `quant_structural_built` / `quant_structural_end_to_end`: the
  quantised (array or not) and the unquantised (array or not) memories built from one table / one ARPA model return the same
  n-gram length, left-independence and out-state for every query; `StructEq` is discharged by `struct_eq_built` from
  `ofTableG_represents` and `train_markOK` (reserved back-off codes: a record decodes to `-0.0` iff the value was `-0.0`; needs
  only that the arithmetic never yields `-0.0` as a bin centre — true of IEEE means of non-zero values and of `-inf`).
* Hypotheses kept visible: arithmetic facts of the quantiser's `Ops` on bit patterns — the mean of 32-bit patterns is a 32-bit
  pattern; the order laws `Quant.Laws` for the exact case; the mean of non-zero values is never `-0.0` for the structural case
  (checked on the real IEEE tables on every run: `negzero=0` in stream `triebuild4`).  They are jointly satisfiable:
  `okLaws` + `example_end_to_end_quant_exact` (all hypotheses of `trie_end_to_end_quant_exact` hold for the example model),
  `example_quant_structural`.
-/
set_option maxRecDepth 8000
namespace KV.C03TrieG
open KV.Arpa KV.TrieLM KV.TrieBuild KV.Table KV.Score KV.State KV.C03TrieBuild

/-- **ofTableG_represents** (all four layouts) -/
theorem ofTableG_represents (fval : Nat → Rat) (bt : BT) (bound order start : Nat) (q : Option QSpec) (array : Bool) (bh : Nat)
    (ok : BTOK bt bound order) (hv : ValsOK bt) (sh : ShapeG bt bound order start q array bh) (qk : QOK' order q) :
    Represents fval (ofTableG bt bound order start q array bh) (tableOf (ftV fval bt order (pvG bt q) (bvG bt q)) order)
      (rngOf bt bound) :=
  KV.TrieLM.ofTableG_represents fval bt bound order start q array bh ok hv sh qk

/-- **quant_trie_refines** — FullScore over the memory of any of the four layouts = FullScore over the table of the values its
pointers return (for a quantised layout: every value replaced by the bin centre its code points to) -/
theorem quant_trie_refines (fval : Nat → Rat) (bt : BT) (bound order start : Nat) (q : Option QSpec) (array : Bool) (bh : Nat)
    (ok : BTOK bt bound order) (hv : ValsOK bt) (sh : ShapeG bt bound order start q array bh) (qk : QOK' order q)
    (s : State) (w : Word) (hw : w < bound) (hs : ∀ x ∈ s.words.take s.length, x < bound) :
    (fullScore (search fval (ofTableG bt bound order start q array bh)) s w).1.prob
      = (fullScore (tableSearch (tableOf (ftV fval bt order (pvG bt q) (bvG bt q)) order)) s w).1.prob ∧
    (fullScore (search fval (ofTableG bt bound order start q array bh)) s w).1.ngramLength
      = (fullScore (tableSearch (tableOf (ftV fval bt order (pvG bt q) (bvG bt q)) order)) s w).1.ngramLength ∧
    (fullScore (search fval (ofTableG bt bound order start q array bh)) s w).1.independentLeft
      = (fullScore (tableSearch (tableOf (ftV fval bt order (pvG bt q) (bvG bt q)) order)) s w).1.independentLeft ∧
    (fullScore (search fval (ofTableG bt bound order start q array bh)) s w).1.rest
      = (fullScore (tableSearch (tableOf (ftV fval bt order (pvG bt q) (bvG bt q)) order)) s w).1.rest ∧
    (fullScore (search fval (ofTableG bt bound order start q array bh)) s w).2
      = (fullScore (tableSearch (tableOf (ftV fval bt order (pvG bt q) (bvG bt q)) order)) s w).2 := by
  have hb := ofTableG_bound bt bound order start q array bh (by have := ok.order2; omega)
  exact KV.C03Trie.trie_refines fval _ _ _ (ofTableG_represents fval bt bound order start q array bh ok hv sh qk) ok.order2 s w
    (by rw [hb]; exact hw) (by rw [hb]; exact hs)

/-- **shape_g** — the layout facts (`ShapeG`: bit widths, no `uint8` wrap, `ArrayCount` entries of the offset table inside its block,
float tables after the quant header, all regions in file order) follow from `Binary.trieSetup` for all four trie classes -/
theorem shape_g (bt : BT) (bound order start : Nat) (q : Option QSpec) (array : Bool) (bh : Nat)
    (sm : SmallG bt bound order q) (qk : QOK' order q) : ShapeG bt bound order start q array bh :=
  shapeG_of_small bt bound order start q array bh sm qk

theorem TableAgree.of_map {T1 T2 : Table} (ho : T1.order = T2.order)
    (h : ∀ g, (T1.lookup g).map Score.toFound = (T2.lookup g).map Score.toFound) : TableAgree T1 T2 := by
  refine ⟨ho, fun g => ?_⟩
  have := h g
  cases h1 : T1.lookup g <;> cases h2 : T2.lookup g <;> simp only [h1, h2, Option.map_some, Option.map_none] at this ⊢
  · cases this
  · cases this
  · exact Option.some.inj this

/-- unquantised layouts return the stored bits: the table of `ofTableG … none …` is the table `ftOf` of `ofTable` -/
theorem plain_values_agree (fval : Nat → Rat) (bt : BT) (order : Nat) :
    TableAgree (tableOf (ftV fval bt order (pvG bt none) (bvG bt none)) order) (tableOf (ftOf fval bt order) order) := by
  refine TableAgree.of_map (T1 := tableOf (ftV fval bt order (pvG bt none) (bvG bt none)) order)
    (T2 := tableOf (ftOf fval bt order) order) (Eq.refl order) ?_
  intro g
  rw [lookup_ftV, lookup_ftOf]
  cases h : bt.lookup g with
  | none => simp only [Option.map_none]
  | some v =>
    have hv : valuesOf bt g = v := by unfold valuesOf; rw [h]; rfl
    have hE : entryV fval bt order (pvG bt none) (bvG bt none) g = entryOf fval bt order g v := by
      unfold entryV entryOf pvG bvG
      rw [hv]
    simp only [Option.map_some, hE]

open KV.Table KV.Score KV.State in
/-- **trie_build_represents_array** — the builder followed by the `ArrayTrieModel` (`array = true`) or `TrieModel`
(`array = false`) writer: the memory represents `Table.build a` -/
theorem trie_build_represents_array (fval : Nat → Rat) (fadd : Nat → Nat → Nat) (a : Arpa) (bound start : Nat)
    (P B : List Word → Nat) (U : Nat) (enc : ArpaEncW fval a bound P B) (uk : UnkOK fval a U) (ar : BlankArith fval fadd a P B)
    (array : Bool) (bh : Nat)
    (sm : ∀ st, visitAll (visitOrder (gramsOf a P B)) = .ok st →
      SmallOK (fixUnk (unkOf a U) (genTable fadd a.order (visitOrder (gramsOf a P B)) st.blanks)) bound a.order) :
    ∃ b, buildTableU fadd a.order (gramsOf a P B) (unkOf a U) = .ok b ∧
      Represents fval (ofTableG b.table bound a.order start none array bh) (Table.build a) (rngOf b.table bound) := by
  obtain ⟨st, b, hst, hf, hb, htab, _⟩ := buildTable_general fadd enc
  refine ⟨{ b with table := fixUnk (unkOf a U) b.table }, by simp [buildTableU, hb], ?_⟩
  show Represents fval (ofTableG (fixUnk (unkOf a U) b.table) bound a.order start none array bh) (Table.build a)
    (rngOf (fixUnk (unkOf a U) b.table) bound)
  rw [htab]
  have hs := ar.sums st hst
  have hub : ∀ x, unkOf a U = some x → x < 2^32 := by
    intro x hx
    unfold unkOf at hx
    split at hx
    · cases hx; exact uk.bits
    · cases hx
  have rep := ofTableG_represents fval _ bound a.order start none array bh (fixUnk_btok _ _ _ _ (genTable_btok fadd enc st hf))
    (fixUnk_vals _ _ hub (genTable_vals fadd enc st (fun b hb => (hs b hb).1)))
    (shapeG_of_small _ bound a.order start none array bh ⟨sm st hst, fun qs h => by cases h⟩ (fun qs h => by cases h))
    (fun qs h => by cases h)
  exact (rep.transfer (plain_values_agree fval _ _)).transfer
    (gen_table_agree fadd enc st hf (fun b hb => (hs b hb).2.2) (fun b hb => (hs b hb).2.1) U uk)

open KV.Table KV.Score KV.State in
/-- **trie_end_to_end_array** — ARPA → trie builder → `ArrayTrieModel` memory (offset tables + inline low bits) → every query =
the ARPA back-off recursion -/
theorem trie_end_to_end_array (fval : Nat → Rat) (fadd : Nat → Nat → Nat) (a : Arpa) (bound start : Nat)
    (P B : List Word → Nat) (U : Nat) (enc : ArpaEncW fval a bound P B) (uk : UnkOK fval a U) (ar : BlankArith fval fadd a P B)
    (array : Bool) (bh : Nat)
    (sm : ∀ st, visitAll (visitOrder (gramsOf a P B)) = .ok st →
      SmallOK (fixUnk (unkOf a U) (genTable fadd a.order (visitOrder (gramsOf a P B)) st.blanks)) bound a.order)
    (h : List Word) (st : State) (sf : StateFor a h st) (w : Word) (hw : a.gram [w] ≠ none)
    (hwb : w < bound) (hs : ∀ x ∈ st.words.take st.length, x < bound) :
    ∃ b, buildTableU fadd a.order (gramsOf a P B) (unkOf a U) = .ok b ∧
      (fullScore (search fval (ofTableG b.table bound a.order start none array bh)) st w).1.prob = score a h w := by
  obtain ⟨b, hb, rep⟩ := trie_build_represents_array fval fadd a bound start P B U enc uk ar array bh sm
  refine ⟨b, hb, ?_⟩
  have hbd : (ofTableG b.table bound a.order start none array bh).bound = bound :=
    ofTableG_bound _ bound a.order start none array bh (by have := enc.wf.order_ge; omega)
  exact KV.C03Trie.trie_prob a enc.wf (fun _ => false) fval _ _ rep h st sf w hw (by rw [hbd]; exact hwb) (by rw [hbd]; exact hs)

/-! ## the trained quantiser -/

section Train
open KV.Quant

theorem length_makeBinsFrom (ops : Ops Nat) (sorted : List Nat) (bins : Nat) : ∀ fuel i prev,
    (makeBinsFrom ops sorted bins fuel i prev).length = fuel := by
  intro fuel
  induction fuel with
  | zero => intro i prev; rfl
  | succ f ih => intro i prev; simp [makeBinsFrom, ih]

/-- every centre `MakeBins` produces is `-inf` or the mean of some of the values -/
theorem makeBinsFrom_pred (ops : Ops Nat) (Pr In : Nat → Prop) (hm : ∀ l, (∀ x ∈ l, In x) → Pr (ops.mean l))
    (sorted : List Nat) (hin : ∀ x ∈ sorted, In x) (bins : Nat) :
    ∀ fuel i prev, Pr prev → ∀ x ∈ makeBinsFrom ops sorted bins fuel i prev, Pr x := by
  intro fuel
  induction fuel with
  | zero => intro i prev _ x hx; simp [makeBinsFrom] at hx
  | succ f ih =>
    intro i prev hp x hx
    have hc : Pr (binCenter ops sorted bins prev i) := by
      unfold binCenter
      dsimp only
      split
      · exact hp
      · exact hm _ (fun x hx => hin x (List.mem_of_mem_drop (List.mem_of_mem_take hx)))
    simp only [makeBinsFrom, List.mem_cons] at hx
    rcases hx with rfl | hx
    · exact hc
    · exact ih _ _ hc x hx

theorem makeBins_pred (ops : Ops Nat) (Pr In : Nat → Prop) (hm : ∀ l, (∀ x ∈ l, In x) → Pr (ops.mean l)) (hn : Pr ops.negInf)
    (vals : List Nat) (hin : ∀ x ∈ vals, In x) (bins : Nat) : ∀ x ∈ makeBins ops vals bins, Pr x :=
  makeBinsFrom_pred ops Pr In hm _ (fun x hx => hin x ((mem_sortVals ops x vals).mp hx)) bins _ _ _ hn

theorem encode_lt (ops : Ops Nat) (centers : List Nat) (reserved v : Nat) (h : reserved < centers.length) :
    encode ops centers reserved v < centers.length := by
  have hab : lowerBound ops centers reserved v ≤ centers.length := by
    unfold lowerBound
    have := (List.takeWhile_sublist (l := centers.drop reserved) (fun c => ops.lt c v)).length_le
    rw [List.length_drop] at this
    omega
  unfold encode
  simp only
  split
  · exact h
  · split
    · omega
    · split <;> omega

/-- **train_qok** — `QSpec.train` is a usable quantiser: full tables of 32-bit patterns, codes inside the tables -/
theorem train_qok (ops : Ops Nat) (pb bb : Nat) (bt : BT) (order : Nat) (hpb : pb ≤ 25) (hbb : bb ≤ 25) (hbb1 : 2 ≤ bb)
    (hv : ValsOK bt) (hm : ∀ l, (∀ x ∈ l, x < 2^32) → ops.mean l < 2^32) (hn : ops.negInf < 2^32) :
    QOK order (QSpec.train ops pb bb bt order) := by
  have hinP : ∀ k, ∀ x ∈ (keysOfLen bt k).map (·.2.1), x < 2^32 := by
    intro k x hx
    obtain ⟨p, hp, rfl⟩ := List.mem_map.mp hx
    exact (hv p (List.mem_filter.mp hp).1).1
  have hinB : ∀ k, ∀ x ∈ ((keysOfLen bt k).map (·.2.2)).filter (fun b => b ≠ noExtensionBits ∧ b ≠ 0), x < 2^32 := by
    intro k x hx
    obtain ⟨p, hp, rfl⟩ := List.mem_map.mp (List.mem_filter.mp hx).1
    exact (hv p (List.mem_filter.mp hp).1).2
  have hplen : ∀ vals, (trainProb ops pb vals).length = 2^pb := by
    intro vals; simp [trainProb, makeBins, length_makeBinsFrom]
  have h4 : 4 ≤ 2^bb := by
    have : 2^2 ≤ 2^bb := Nat.pow_le_pow_right (by decide) hbb1
    simpa using this
  have h2 : 1 < 2^bb := by omega
  have hblen : ∀ vals, (trainBackoff ops bb noExtensionBits 0 vals).length = 2^bb := by
    intro vals; simp [trainBackoff, makeBins, length_makeBinsFrom]; omega
  refine ⟨hpb, hbb, fun t => hplen _, fun t => hblen _, ?_, ?_, ?_, ?_⟩
  · intro t x hx
    exact makeBins_pred ops (· < 2^32) (· < 2^32) hm hn _ (hinP _) _ x hx
  · intro t x hx
    simp only [QSpec.train, trainBackoff, List.mem_cons] at hx
    rcases hx with rfl | rfl | hx
    · decide
    · decide
    · exact makeBins_pred ops (· < 2^32) (· < 2^32) hm hn _ (hinB _) _ x hx
  · intro g
    show encode ops (trainProb ops pb _) 0 _ < 2^pb
    have := encode_lt ops (trainProb ops pb ((keysOfLen bt (g.length - 2 + 2)).map (·.2.1))) 0 (valuesOf bt g).1
      (by rw [hplen]; exact Nat.two_pow_pos _)
    rw [hplen] at this; exact this
  · intro g
    show encodeBackoff ops (trainBackoff ops bb noExtensionBits 0 _) _ < 2^bb
    unfold encodeBackoff
    split
    · exact Nat.two_pow_pos _
    · split
      · exact h2
      · have := encode_lt ops (trainBackoff ops bb noExtensionBits 0
            (((keysOfLen bt (g.length - 2 + 2)).map (·.2.2)).filter fun b => b ≠ noExtensionBits ∧ b ≠ 0)) 2 (valuesOf bt g).2
          (by rw [hblen]; omega)
        rw [hblen] at this; exact this

/-- decoding is the identity on the values of the table -/
structure QExact (bt : BT) (order : Nat) (qs : QSpec) : Prop where
  prob : ∀ p ∈ bt, 2 ≤ p.1.length → (qs.ptab (p.1.length - 2)).getD (qs.pcode p.1) 0 = p.2.1
  backoff : ∀ p ∈ bt, 2 ≤ p.1.length → (qs.btab (p.1.length - 2)).getD (qs.bcode p.1) 0 = p.2.2

/-- **train_exact** — with at most as many values as bins in every order (`quant_exact`; counts with multiplicity, blanks
included), the trained quantiser decodes every value of the table to itself -/
theorem train_exact (ops : Ops Nat) (laws : Laws ops) (pb bb : Nat) (bt : BT) (order : Nat) (hnd : (bt.map (·.1)).Nodup)
    (hfitP : ∀ k, 2 ≤ k → (keysOfLen bt k).length ≤ 2^pb)
    (hfitB : ∀ k, 2 ≤ k → (((keysOfLen bt k).map (·.2.2)).filter fun b => b ≠ noExtensionBits ∧ b ≠ 0).length ≤ 2^bb - 2) :
    QExact bt order (QSpec.train ops pb bb bt order) := by
  have hval : ∀ p ∈ bt, valuesOf bt p.1 = p.2 := by
    intro p hp
    unfold valuesOf
    rw [lookup_of_mem_nodup bt p.1 p.2 hnd hp]; rfl
  have hk : ∀ p : List Word × (Nat × Nat), 2 ≤ p.1.length → p.1.length - 2 + 2 = p.1.length := by intro p h; omega
  constructor
  · intro p hp hl
    have hmem : p.2.1 ∈ (keysOfLen bt (p.1.length - 2 + 2)).map (·.2.1) := by
      rw [hk p hl]
      exact List.mem_map.mpr ⟨p, by simp [keysOfLen, hp], rfl⟩
    have := quant_exact ops laws ((keysOfLen bt (p.1.length - 2 + 2)).map (·.2.1)) (2^pb) 0 [] rfl
      (by rw [List.length_map]; exact hfitP _ (by omega)) p.2.1 hmem
    show (trainProb ops pb _).getD (encode ops (trainProb ops pb _) 0 (valuesOf bt p.1).1) 0 = p.2.1
    rw [hval p hp]
    exact this
  · intro p hp hl
    show (trainBackoff ops bb noExtensionBits 0 _).getD (encodeBackoff ops (trainBackoff ops bb noExtensionBits 0 _) (valuesOf bt p.1).2) 0 = p.2.2
    rw [hval p hp]
    unfold encodeBackoff
    split
    · rename_i h; rw [h]; rfl
    · split
      · rename_i h; rw [h]; rfl
      · rename_i h1 h2
        have hmem : p.2.2 ∈ ((keysOfLen bt (p.1.length - 2 + 2)).map (·.2.2)).filter fun b => b ≠ noExtensionBits ∧ b ≠ 0 := by
          rw [hk p hl, List.mem_filter]
          exact ⟨List.mem_map.mpr ⟨p, by simp [keysOfLen, hp], rfl⟩, by simp [h1, h2]⟩
        exact quant_exact ops laws _ (2^bb - 2) 2 [noExtensionBits, 0] rfl (hfitB _ (by omega)) p.2.2 hmem

end Train

/-! ## quantised layouts, exact case -/

/-- the 31-bit non-positive encoding of the unquantised layouts loses nothing on the values of the table -/
def SignOK (fval : Nat → Rat) (bt : BT) : Prop := ∀ p ∈ bt, 2 ≤ p.1.length → fval (p.2.1 % 2^31 + 2^31) = fval p.2.1

theorem quant_exact_agree (fval : Nat → Rat) (bt : BT) (order : Nat) (qs : QSpec) (hlen : ∀ p ∈ bt, 1 ≤ p.1.length)
    (qe : QExact bt order qs) (sg : SignOK fval bt) :
    TableAgree (tableOf (ftV fval bt order (pvG bt (some qs)) (bvG bt (some qs))) order) (tableOf (ftOf fval bt order) order) := by
  refine TableAgree.of_map (T1 := tableOf (ftV fval bt order (pvG bt (some qs)) (bvG bt (some qs))) order)
    (T2 := tableOf (ftOf fval bt order) order) (Eq.refl order) ?_
  intro g
  rw [lookup_ftV, lookup_ftOf]
  cases h : bt.lookup g with
  | none => simp only [Option.map_none]
  | some v =>
    have hmem : (g, v) ∈ bt := KV.TrieLM.lookup_some_mem bt g v h
    have hv : valuesOf bt g = v := by unfold valuesOf; rw [h]; rfl
    have hl := hlen (g, v) hmem
    have hE : entryV fval bt order (pvG bt (some qs)) (bvG bt (some qs)) g = entryOf fval bt order g v := by
      unfold entryV entryOf pvG bvG
      simp only
      by_cases h1 : g.length = 1
      · simp only [h1, if_true, hv]
      · have h2 : 2 ≤ g.length := by simp only at hl; omega
        have e1 := qe.prob (g, v) hmem h2
        have e2 := qe.backoff (g, v) hmem h2
        have e3 := sg (g, v) hmem h2
        simp only at e1 e2 e3
        simp only [h1, if_false, e1, e2, e3]
    simp only [Option.map_some, hE]

theorem mem_fixUnk (u : Option Nat) (T : BT) (p : List Word × (Nat × Nat)) (hp : p ∈ fixUnk u T) : p.1 = [0] ∨ p ∈ T := by
  cases u with
  | none => right; exact hp
  | some x =>
    simp only [fixUnk, List.mem_map] at hp
    obtain ⟨q, hq, rfl⟩ := hp
    by_cases h0 : q.1 = [0]
    · left; simp [h0]
    · right; simp [h0, hq]

open KV.Table KV.Score KV.State in
/-- **trie_end_to_end_quant_exact** — ARPA → trie builder → `TrainQuantizer` → `QuantTrieModel` / `QuantArrayTrieModel` memory
(codes in the records, centres in the tables, optional ArrayBhiksha offsets): if every order has at most as many values as bins
(probabilities of real n-grams and blanks ≤ `2^probBits`, non-zero back-offs ≤ `2^backoffBits − 2`), every query = the ARPA
back-off recursion.  Beyond that bound values move to bin centres (`quant_trie_refines`; `C04.quant_lossy_when_count_exceeds_bins`). -/
theorem trie_end_to_end_quant_exact (fval : Nat → Rat) (fadd : Nat → Nat → Nat) (a : Arpa) (bound start : Nat)
    (P B : List Word → Nat) (U : Nat) (enc : ArpaEncW fval a bound P B) (uk : UnkOK fval a U) (ar : BlankArith fval fadd a P B)
    (ops : KV.Quant.Ops Nat) (laws : KV.Quant.Laws ops) (pb bb : Nat) (hpb : pb ≤ 25) (hbb : bb ≤ 25) (hbb1 : 2 ≤ bb)
    (hm : ∀ l, (∀ x ∈ l, x < 2^32) → ops.mean l < 2^32) (hn : ops.negInf < 2^32) (array : Bool) (bh : Nat)
    (fit : ∀ st, visitAll (visitOrder (gramsOf a P B)) = .ok st → ∀ k, 2 ≤ k →
      (keysOfLen (fixUnk (unkOf a U) (genTable fadd a.order (visitOrder (gramsOf a P B)) st.blanks)) k).length ≤ 2^pb ∧
      (((keysOfLen (fixUnk (unkOf a U) (genTable fadd a.order (visitOrder (gramsOf a P B)) st.blanks)) k).map (·.2.2)).filter
        fun b => b ≠ noExtensionBits ∧ b ≠ 0).length ≤ 2^bb - 2)
    (sm : ∀ st, visitAll (visitOrder (gramsOf a P B)) = .ok st →
      SmallOK (fixUnk (unkOf a U) (genTable fadd a.order (visitOrder (gramsOf a P B)) st.blanks)) bound a.order)
    (h : List Word) (st : State) (sf : StateFor a h st) (w : Word) (hw : a.gram [w] ≠ none)
    (hwb : w < bound) (hs : ∀ x ∈ st.words.take st.length, x < bound) :
    ∃ b, buildTableU fadd a.order (gramsOf a P B) (unkOf a U) = .ok b ∧
      (fullScore (search fval (ofTableG b.table bound a.order start (some (QSpec.train ops pb bb b.table a.order)) array bh)) st w).1.prob
        = score a h w := by
  obtain ⟨vs, b, hst, hf, hb, htab, _⟩ := buildTable_general fadd enc
  refine ⟨{ b with table := fixUnk (unkOf a U) b.table }, by simp [buildTableU, hb], ?_⟩
  show (fullScore (search fval (ofTableG (fixUnk (unkOf a U) b.table) bound a.order start
    (some (QSpec.train ops pb bb (fixUnk (unkOf a U) b.table) a.order)) array bh)) st w).1.prob = score a h w
  rw [htab]
  generalize hT : fixUnk (unkOf a U) (genTable fadd a.order (visitOrder (gramsOf a P B)) vs.blanks) = T
  have hsums := ar.sums vs hst
  have hub : ∀ x, unkOf a U = some x → x < 2^32 := by
    intro x hx
    unfold unkOf at hx
    split at hx
    · cases hx; exact uk.bits
    · cases hx
  have hok : BTOK T bound a.order := by rw [← hT]; exact fixUnk_btok _ _ _ _ (genTable_btok fadd enc vs hf)
  have hvals : ValsOK T := by
    rw [← hT]; exact fixUnk_vals _ _ hub (genTable_vals fadd enc vs (fun b hb => (hsums b hb).1))
  have hqk : QOK' a.order (some (QSpec.train ops pb bb T a.order)) := by
    intro qs hq; cases hq; exact train_qok ops pb bb T a.order hpb hbb hbb1 hvals hm hn
  have hsh : ShapeG T bound a.order start (some (QSpec.train ops pb bb T a.order)) array bh :=
    shapeG_of_small T bound a.order start _ array bh
      ⟨by rw [← hT]; exact sm vs hst, fun qs h => by cases h; exact ⟨hpb, hbb⟩⟩ hqk
  have rep := ofTableG_represents fval T bound a.order start _ array bh hok hvals hsh hqk
  have qe : QExact T a.order (QSpec.train ops pb bb T a.order) :=
    train_exact ops laws pb bb T a.order hok.nodup (fun k hk => by rw [← hT]; exact (fit vs hst k hk).1)
      (fun k hk => by rw [← hT]; exact (fit vs hst k hk).2)
  have sg : SignOK fval T := by
    intro p hp hl
    rw [← hT] at hp
    rcases mem_fixUnk _ _ p hp with h0 | hp
    · rw [h0] at hl; simp at hl
    · simp only [genTable, List.mem_append, List.mem_map] at hp
      rcases hp with ⟨r, hr, rfl⟩ | ⟨bl, hbl, rfl⟩
      · obtain ⟨hreal, hp1, _⟩ := w_mem_real enc r hr
        cases hge : a.gram r.key with
        | none => exact absurd hge hreal
        | some e =>
          have hnu : ¬(a.unkHallucinated = true ∧ r.key = [0]) := by
            rintro ⟨_, h0⟩; rw [h0] at hl; simp at hl
          obtain ⟨_, h2, h3⟩ := enc.pval _ e hge hnu
          have hne1 : r.key.length ≠ 1 := by simp only at hl; omega
          simp only [hne1, if_false] at h2
          simp only [hp1]
          rw [h2, h3]
      · exact (hsums bl hbl).2.1
  have rep2 : Represents fval (ofTableG T bound a.order start (some (QSpec.train ops pb bb T a.order)) array bh)
      (Table.build a) (rngOf T bound) := by
    have ag := gen_table_agree fadd enc vs hf (fun b hb => (hsums b hb).2.2) (fun b hb => (hsums b hb).2.1) U uk
    rw [hT] at ag
    exact (rep.transfer (quant_exact_agree fval T a.order _ (fun p hp => (hok.len p hp).1) qe sg)).transfer ag
  have hbd : (ofTableG T bound a.order start (some (QSpec.train ops pb bb T a.order)) array bh).bound = bound :=
    ofTableG_bound _ bound a.order start _ array bh (by have := enc.wf.order_ge; omega)
  exact KV.C03Trie.trie_prob a enc.wf (fun _ => false) fval _ _ rep2 h st sf w hw (by rw [hbd]; exact hwb) (by rw [hbd]; exact hs)

/-! ## non-vacuity: the layout hypotheses hold for the example model in all three new layouts -/

section Examples
open KV.Table KV.Score

instance : DecidableRel RegionSpec.Before := fun R R' => inferInstanceAs (Decidable (R.base + R.nrec * R.stride ≤ R'.base))

/-- the bit table the builder makes of `kArpa` (hallucinated `<unk>`, n-grams ending in `<unk>`, one blank) -/
def kTable : BT :=
  fixUnk (unkOf kArpa unkBits) (genTable kAdd kArpa.order (visitOrder (gramsOf kArpa kP kB)) [⟨[2, 3], 1, 3217031168⟩])

/-- a quantiser shape with 2-bit probability and 3-bit back-off codes (values irrelevant for the layout) -/
def q23 : QSpec := ⟨2, 3, fun _ => List.replicate 4 0, fun _ => List.replicate 8 0, fun _ => 0, fun _ => 0⟩

theorem k_shape (q : Option QSpec) (array : Bool) (bh : Nat)
    (h1 : (setupG kTable 5 3 144 q array bh).middles.length = 1)
    (h2 : (midG kTable 5 3 144 q array bh 0).wordBits = KV.Bits.requiredBits 5 ∧
      (midG kTable 5 3 144 q array bh 0).quantBits = QB q ∧
      (midG kTable 5 3 144 q array bh 0).totalBits = KV.Bits.requiredBits 5 + QB q + (midG kTable 5 3 144 q array bh 0).inline ∧
      (midG kTable 5 3 144 q array bh 0).inline ≤ 57 ∧
      (array = false → (level kTable 5 3).length < 2^(midG kTable 5 3 144 q array bh 0).inline) ∧
      (array = true → ((midG kTable 5 3 144 q array bh 0).offEnd - (midG kTable 5 3 144 q array bh 0).offBegin) / 8
        = ((level kTable 5 3).length >>> (midG kTable 5 3 144 q array bh 0).inline) + 1))
    (h3 : (setupG kTable 5 3 144 q array bh).longest.2.1 = KV.Bits.requiredBits 5 ∧
      (setupG kTable 5 3 144 q array bh).longest.2.2 = KV.Bits.requiredBits 5 + LB q)
    (h4 : (regionsG kTable 5 3 144 q array bh).Pairwise RegionSpec.Before) : ShapeG kTable 5 3 144 q array bh := by
  refine ⟨h1, ?_, h3, h4, by decide +kernel, ⟨by decide, ?_⟩⟩
  · intro om2 h
    have : om2 = 0 := by omega
    subst this; exact h2
  · intro k hk
    have : k = 0 ∨ k = 1 ∨ k = 2 ∨ k = 3 := by omega
    rcases this with rfl | rfl | rfl | rfl <;> decide +kernel

theorem k_shape_array : ShapeG kTable 5 3 144 none true 3 :=
  k_shape none true 3 (by decide +kernel) (by decide +kernel) (by decide +kernel) (by decide +kernel)

theorem k_shape_quant : ShapeG kTable 5 3 144 (some q23) false 0 :=
  k_shape (some q23) false 0 (by decide +kernel) (by decide +kernel) (by decide +kernel) (by decide +kernel)

theorem k_shape_quant_array : ShapeG kTable 5 3 144 (some q23) true 2 :=
  k_shape (some q23) true 2 (by decide +kernel) (by decide +kernel) (by decide +kernel) (by decide +kernel)

theorem k_small : SmallOK kTable 5 3 := by
  refine ⟨by decide, by decide, ?_⟩
  intro k hk
  have : k = 0 ∨ k = 1 ∨ k = 2 ∨ k = 3 := by omega
  rcases this with rfl | rfl | rfl | rfl <;> decide +kernel

/-- **non-vacuity of `trie_end_to_end_array`**: all hypotheses hold for the example model with a hallucinated `<unk>` and a blank;
every `FullScore` over the `ArrayTrieModel` memory (search region at byte 144, `-a 3`) is the ARPA recursion -/
theorem example_end_to_end_array (h : List Word) (st : KV.State.State)
    (sf : StateFor kArpa h st) (w : Word) (hw : kArpa.gram [w] ≠ none) (hwb : w < 5)
    (hs : ∀ x ∈ st.words.take st.length, x < 5) :
    ∃ b, buildTableU kAdd kArpa.order (gramsOf kArpa kP kB) (unkOf kArpa unkBits) = .ok b ∧
      (fullScore (search f32ToRat (ofTableG b.table 5 kArpa.order 144 none true 3)) st w).1.prob = score kArpa h w :=
  trie_end_to_end_array f32ToRat kAdd kArpa 5 144 kP kB unkBits k_enc k_unk k_arith true 3
    (fun vs hvs => by rw [k_blanks vs hvs]; exact k_small) h st sf w hw hwb hs

end Examples

/-! ## structure of quantised vs unquantised built tries (C03's clause, on the built memories) -/

section Struct
open KV.Quant

/-- the reserved back-off codes are respected: a record decodes to `-0.0` ("does not extend right") iff the value was `-0.0` -/
def MarkOK (bt : BT) (qs : QSpec) : Prop :=
  ∀ p ∈ bt, 2 ≤ p.1.length → ((qs.btab (p.1.length - 2)).getD (qs.bcode p.1) 0 = noExtensionBits ↔ p.2.2 = noExtensionBits)

/-- the tables of the quantised and of the unquantised layout of one bit table have the same keys and extension marks -/
theorem struct_eq_built (fval₁ fval₂ : Nat → Rat) (bt : BT) (order : Nat) (qs : QSpec) (hnd : (bt.map (·.1)).Nodup)
    (hlen : ∀ p ∈ bt, 1 ≤ p.1.length) (mk : MarkOK bt qs) :
    KV.C03Trie.StructEq (tableOf (ftV fval₁ bt order (pvG bt (some qs)) (bvG bt (some qs))) order)
      (tableOf (ftV fval₂ bt order (pvG bt none) (bvG bt none)) order) := by
  refine ⟨Eq.refl order, ?_⟩
  intro g
  rw [lookup_ftV, lookup_ftV]
  cases h : bt.lookup g with
  | none => simp only [Option.map_none]
  | some v =>
    have hmem : (g, v) ∈ bt := KV.TrieLM.lookup_some_mem bt g v h
    have hv : valuesOf bt g = v := by unfold valuesOf; rw [h]; rfl
    have hl := hlen (g, v) hmem
    simp only [Option.map_some]
    refine ⟨rfl, ?_⟩
    simp only [entryV, bvG, hv]
    by_cases ho : g.length = order
    · simp only [ho, if_true]
    · simp only [ho, if_false]
      by_cases h1 : g.length = 1
      · simp only [h1, if_true]
      · simp only [h1, if_false]
        have h2 : 2 ≤ g.length := by simp only at hl; omega
        have := mk (g, v) hmem h2
        simp only at this
        apply Bool.eq_iff_iff.mpr
        simp only [bne_iff_ne, ne_eq, this]

theorem encode_ge (ops : Ops Nat) (centers : List Nat) (reserved v : Nat) (h : reserved < centers.length) :
    reserved ≤ encode ops centers reserved v := by
  have hab : reserved ≤ lowerBound ops centers reserved v := by unfold lowerBound; omega
  unfold encode
  simp only
  split
  · exact Nat.le_refl _
  · split
    · omega
    · split <;> omega

/-- `QSpec.train` respects the reserved codes (no bin centre is `-0.0`: a mean of non-zero values never is, nor is `-inf`) -/
theorem train_markOK (ops : Ops Nat) (pb bb : Nat) (bt : BT) (order : Nat) (hbb1 : 2 ≤ bb) (hnd : (bt.map (·.1)).Nodup)
    (hmz : ∀ l, (∀ x ∈ l, x ≠ noExtensionBits ∧ x ≠ 0) → ops.mean l ≠ noExtensionBits) (hnz : ops.negInf ≠ noExtensionBits) :
    MarkOK bt (QSpec.train ops pb bb bt order) := by
  intro p hp hl
  have hval : valuesOf bt p.1 = p.2 := by
    unfold valuesOf
    rw [lookup_of_mem_nodup bt p.1 p.2 hnd hp]; rfl
  have h4 : 4 ≤ 2^bb := by
    have : 2^2 ≤ 2^bb := Nat.pow_le_pow_right (by decide) hbb1
    simpa using this
  show (trainBackoff ops bb noExtensionBits 0 _).getD (encodeBackoff ops (trainBackoff ops bb noExtensionBits 0 _) (valuesOf bt p.1).2) 0
    = noExtensionBits ↔ _
  rw [hval]
  generalize hvals : (((keysOfLen bt (p.1.length - 2 + 2)).map (·.2.2)).filter fun b => b ≠ noExtensionBits ∧ b ≠ 0) = vals
  have hblen : (trainBackoff ops bb noExtensionBits 0 vals).length = 2^bb := by
    simp [trainBackoff, makeBins, length_makeBinsFrom]; omega
  unfold encodeBackoff
  split
  · rename_i h; simp [h, trainBackoff]
  · rename_i h
    split
    · rename_i h0
      simp only [trainBackoff, List.getD_cons_succ, List.getD_cons_zero, h0]
    · constructor
      · intro e
        exfalso
        have hge := encode_ge ops (trainBackoff ops bb noExtensionBits 0 vals) 2 p.2.2 (by rw [hblen]; omega)
        have hlt := encode_lt ops (trainBackoff ops bb noExtensionBits 0 vals) 2 p.2.2 (by rw [hblen]; omega)
        generalize encode ops (trainBackoff ops bb noExtensionBits 0 vals) 2 p.2.2 = c at *
        obtain ⟨k, rfl⟩ : ∃ k, c = k + 2 := ⟨c - 2, by omega⟩
        simp only [trainBackoff, List.getD_cons_succ] at e
        have hkl : k < (makeBins ops vals (2^bb - 2)).length := by
          simp only [trainBackoff, List.length_cons] at hlt; omega
        rw [List.getD_eq_getElem?_getD, List.getElem?_eq_getElem hkl, Option.getD_some] at e
        have hinz : ∀ x ∈ vals, x ≠ noExtensionBits ∧ x ≠ 0 := by
          intro x hx; rw [← hvals] at hx; simpa using (List.mem_filter.mp hx).2
        exact makeBins_pred ops (· ≠ noExtensionBits) (fun x => x ≠ noExtensionBits ∧ x ≠ 0) hmz hnz vals hinz _ _
          (List.getElem_mem hkl) e
      · intro e; exact absurd e h

end Struct

section StructBuilt
open KV.Quant KV.Table KV.Score KV.State

/-- **quant_structural_built** — C03's clause "a quantised trie returns the same structural results as the unquantised trie" as a
theorem about the built memories: for every bit table, the `QuantTrieModel` / `QuantArrayTrieModel` memory (quantiser trained on
the table) and the `TrieModel` / `ArrayTrieModel` memory give, for every state and word, the same matched n-gram length, the same
left-independence flag and the same out-state length and words.  No `Represents`, `StructEq` or layout hypothesis: only sizes
below 2^57, code widths, and that the arithmetic never produces `-0.0` as a bin centre. -/
theorem quant_structural_built (fval₁ fval₂ : Nat → Rat) (bt : BT) (bound order start₁ start₂ : Nat)
    (ops : Ops Nat) (pb bb : Nat) (a₁ a₂ : Bool) (bh₁ bh₂ : Nat)
    (ok : BTOK bt bound order) (hv : ValsOK bt) (sm : SmallOK bt bound order)
    (hpb : pb ≤ 25) (hbb : bb ≤ 25) (hbb1 : 2 ≤ bb) (hm : ∀ l, (∀ x ∈ l, x < 2^32) → ops.mean l < 2^32) (hn : ops.negInf < 2^32)
    (hmz : ∀ l, (∀ x ∈ l, x ≠ noExtensionBits ∧ x ≠ 0) → ops.mean l ≠ noExtensionBits) (hnz : ops.negInf ≠ noExtensionBits)
    (s : State) (w : Word) (hw : w < bound) (hs : ∀ x ∈ s.words.take s.length, x < bound) :
    (fullScore (search fval₁ (ofTableG bt bound order start₁ (some (QSpec.train ops pb bb bt order)) a₁ bh₁)) s w).1.ngramLength
      = (fullScore (search fval₂ (ofTableG bt bound order start₂ none a₂ bh₂)) s w).1.ngramLength ∧
    (fullScore (search fval₁ (ofTableG bt bound order start₁ (some (QSpec.train ops pb bb bt order)) a₁ bh₁)) s w).1.independentLeft
      = (fullScore (search fval₂ (ofTableG bt bound order start₂ none a₂ bh₂)) s w).1.independentLeft ∧
    (fullScore (search fval₁ (ofTableG bt bound order start₁ (some (QSpec.train ops pb bb bt order)) a₁ bh₁)) s w).2.length
      = (fullScore (search fval₂ (ofTableG bt bound order start₂ none a₂ bh₂)) s w).2.length ∧
    (fullScore (search fval₁ (ofTableG bt bound order start₁ (some (QSpec.train ops pb bb bt order)) a₁ bh₁)) s w).2.words
      = (fullScore (search fval₂ (ofTableG bt bound order start₂ none a₂ bh₂)) s w).2.words := by
  have ho : 1 ≤ order := by have := ok.order2; omega
  have hqk : QOK' order (some (QSpec.train ops pb bb bt order)) := by
    intro qs hq; cases hq; exact train_qok ops pb bb bt order hpb hbb hbb1 hv hm hn
  have sh₁ := shapeG_of_small bt bound order start₁ (some (QSpec.train ops pb bb bt order)) a₁ bh₁
    ⟨sm, fun qs h => by cases h; exact ⟨hpb, hbb⟩⟩ hqk
  have sh₂ := shapeG_of_small bt bound order start₂ none a₂ bh₂ ⟨sm, fun qs h => by cases h⟩ (fun qs h => by cases h)
  have rep₁ := ofTableG_represents fval₁ bt bound order start₁ _ a₁ bh₁ ok hv sh₁ hqk
  have rep₂ := ofTableG_represents fval₂ bt bound order start₂ none a₂ bh₂ ok hv sh₂ (fun qs h => by cases h)
  have hb₁ := ofTableG_bound bt bound order start₁ (some (QSpec.train ops pb bb bt order)) a₁ bh₁ ho
  have hb₂ := ofTableG_bound bt bound order start₂ none a₂ bh₂ ho
  exact KV.C03Trie.quant_structural_tries fval₁ fval₂ _ _ _ _ _ _ rep₁ rep₂
    (struct_eq_built fval₁ fval₂ bt order _ ok.nodup (fun p hp => (ok.len p hp).1)
      (train_markOK ops pb bb bt order hbb1 ok.nodup hmz hnz))
    ok.order2 s w (by rw [hb₁]; exact hw) (by rw [hb₂]; exact hw) (by rw [hb₁]; exact hs) (by rw [hb₂]; exact hs)

/-- … in particular for the table the trie builder makes of an ARPA model: all four trie classes built from one ARPA file agree
on the structural results of every query -/
theorem quant_structural_end_to_end (fval fval₁ fval₂ : Nat → Rat) (fadd : Nat → Nat → Nat) (a : Arpa) (bound start₁ start₂ : Nat)
    (P B : List Word → Nat) (U : Nat) (enc : ArpaEncW fval a bound P B) (uk : UnkOK fval a U) (ar : BlankArith fval fadd a P B)
    (ops : Ops Nat) (pb bb : Nat) (a₁ a₂ : Bool) (bh₁ bh₂ : Nat)
    (sm : ∀ st, visitAll (visitOrder (gramsOf a P B)) = .ok st →
      SmallOK (fixUnk (unkOf a U) (genTable fadd a.order (visitOrder (gramsOf a P B)) st.blanks)) bound a.order)
    (hpb : pb ≤ 25) (hbb : bb ≤ 25) (hbb1 : 2 ≤ bb) (hm : ∀ l, (∀ x ∈ l, x < 2^32) → ops.mean l < 2^32) (hn : ops.negInf < 2^32)
    (hmz : ∀ l, (∀ x ∈ l, x ≠ noExtensionBits ∧ x ≠ 0) → ops.mean l ≠ noExtensionBits) (hnz : ops.negInf ≠ noExtensionBits)
    (s : State) (w : Word) (hw : w < bound) (hs : ∀ x ∈ s.words.take s.length, x < bound) :
    ∃ b, buildTableU fadd a.order (gramsOf a P B) (unkOf a U) = .ok b ∧
      (fullScore (search fval₁ (ofTableG b.table bound a.order start₁ (some (QSpec.train ops pb bb b.table a.order)) a₁ bh₁)) s w).1.ngramLength
        = (fullScore (search fval₂ (ofTableG b.table bound a.order start₂ none a₂ bh₂)) s w).1.ngramLength ∧
      (fullScore (search fval₁ (ofTableG b.table bound a.order start₁ (some (QSpec.train ops pb bb b.table a.order)) a₁ bh₁)) s w).1.independentLeft
        = (fullScore (search fval₂ (ofTableG b.table bound a.order start₂ none a₂ bh₂)) s w).1.independentLeft ∧
      (fullScore (search fval₁ (ofTableG b.table bound a.order start₁ (some (QSpec.train ops pb bb b.table a.order)) a₁ bh₁)) s w).2.length
        = (fullScore (search fval₂ (ofTableG b.table bound a.order start₂ none a₂ bh₂)) s w).2.length ∧
      (fullScore (search fval₁ (ofTableG b.table bound a.order start₁ (some (QSpec.train ops pb bb b.table a.order)) a₁ bh₁)) s w).2.words
        = (fullScore (search fval₂ (ofTableG b.table bound a.order start₂ none a₂ bh₂)) s w).2.words := by
  obtain ⟨vs, b, hst, hf, hb, htab, _⟩ := buildTable_general fadd enc
  refine ⟨{ b with table := fixUnk (unkOf a U) b.table }, by simp [buildTableU, hb], ?_⟩
  show _ ∧ _ ∧ _ ∧ _
  simp only [htab]
  have hsums := ar.sums vs hst
  have hub : ∀ x, unkOf a U = some x → x < 2^32 := by
    intro x hx
    unfold unkOf at hx
    split at hx
    · cases hx; exact uk.bits
    · cases hx
  exact quant_structural_built fval₁ fval₂ _ bound a.order start₁ start₂ ops pb bb a₁ a₂ bh₁ bh₂
    (fixUnk_btok _ _ _ _ (genTable_btok fadd enc vs hf))
    (fixUnk_vals _ _ hub (genTable_vals fadd enc vs (fun b hb => (hsums b hb).1))) (sm vs hst)
    hpb hbb hbb1 hm hn hmz hnz s w hw hs

end StructBuilt

section StructExample
open KV.Quant KV.Table KV.Score KV.State

/-- an arithmetic for the non-vacuity instance (order on bit patterns of negative floats, constant mean) -/
def trivOps : Ops Nat := { lt := fun a b => b < a, sub := fun a b => a - b, mean := fun _ => 0, negInf := 0xFF800000 }

theorem k_table_ok : BTOK kTable 5 3 ∧ ValsOK kTable := by
  obtain ⟨st, hst, hf⟩ := w_visit k_enc
  have hb := k_blanks st hst
  have hT : kTable = fixUnk (unkOf kArpa unkBits) (genTable kAdd kArpa.order (visitOrder (gramsOf kArpa kP kB)) st.blanks) := by
    rw [hb]; rfl
  rw [hT]
  have hs := k_arith.sums st hst
  exact ⟨fixUnk_btok _ _ _ _ (genTable_btok kAdd k_enc st hf),
    fixUnk_vals _ _ (fun x hx => by simp [unkOf, kArpa] at hx; subst hx; decide)
      (genTable_vals kAdd k_enc st (fun b hb => (hs b hb).1))⟩

/-- **non-vacuity of `quant_structural_built`**: the quantised array trie (`-q 2 -b 3 -a 2`) and the plain trie of the example
table agree on the structure of every query -/
theorem example_quant_structural (s : State) (w : Word) (hw : w < 5) (hs : ∀ x ∈ s.words.take s.length, x < 5) :
    (fullScore (search f32ToRat (ofTableG kTable 5 3 144 (some (QSpec.train trivOps 2 3 kTable 3)) true 2)) s w).1.ngramLength
      = (fullScore (search f32ToRat (ofTableG kTable 5 3 144 none false 0)) s w).1.ngramLength ∧
    (fullScore (search f32ToRat (ofTableG kTable 5 3 144 (some (QSpec.train trivOps 2 3 kTable 3)) true 2)) s w).2.words
      = (fullScore (search f32ToRat (ofTableG kTable 5 3 144 none false 0)) s w).2.words := by
  have := quant_structural_built f32ToRat f32ToRat kTable 5 3 144 144 trivOps 2 3 true false 2 0 k_table_ok.1 k_table_ok.2 k_small
    (by decide) (by decide) (by decide) (fun _ _ => (by decide : (0:Nat) < 2^32)) (by decide) (fun _ _ => (by decide : (0:Nat) ≠ noExtensionBits)) (by decide) s w hw hs
  exact ⟨this.1, this.2.2.2⟩

end StructExample

section QuantExactExample
open KV.Quant KV.Table KV.Score KV.State

/-- an arithmetic satisfying the order laws of `quant_exact` on all of `Nat` (a total order with `-inf` at the bottom) -/
def keyN (a : Nat) : Nat := if a = 0xFF800000 then 0 else a + 1
def okOps : Ops Nat :=
  { lt := fun a b => decide (keyN a < keyN b), sub := fun _ _ => 0xFF800000, mean := fun l => l.headD 0, negInf := 0xFF800000 }

theorem keyN_inj (a b : Nat) (h : keyN a = keyN b) : a = b := by
  unfold keyN at h
  split at h <;> split at h <;> omega

theorem okLaws : Laws okOps where
  irrefl a := by simp [okOps]
  trans a b c h1 h2 := by simp only [okOps, decide_eq_true_eq] at *; omega
  tri a b h1 h2 := by
    simp only [okOps, decide_eq_false_iff_not] at *
    exact keyN_inj a b (by omega)
  negInf_min a := by simp [okOps, keyN]
  mean_single a := rfl
  sub_close p v _ := by simp [okOps]

/-- **non-vacuity of `trie_end_to_end_quant_exact`**: all its hypotheses hold together — the example model (hallucinated `<unk>`,
a blank), 2-bit probability and 3-bit back-off codes (4 and 2 values per order ≤ 4 bins; 3 non-zero back-offs ≤ 6 bins), any `-a`:
every `FullScore` over the quantised memory is the ARPA recursion -/
theorem example_end_to_end_quant_exact (start : Nat) (array : Bool) (bh : Nat) (h : List Word) (st : State)
    (sf : StateFor kArpa h st) (w : Word) (hw : kArpa.gram [w] ≠ none) (hwb : w < 5)
    (hs : ∀ x ∈ st.words.take st.length, x < 5) :
    ∃ b, buildTableU kAdd kArpa.order (gramsOf kArpa kP kB) (unkOf kArpa unkBits) = .ok b ∧
      (fullScore (search f32ToRat (ofTableG b.table 5 kArpa.order start (some (QSpec.train okOps 2 3 b.table kArpa.order)) array bh)) st w).1.prob
        = score kArpa h w := by
  refine trie_end_to_end_quant_exact f32ToRat kAdd kArpa 5 start kP kB unkBits k_enc k_unk k_arith okOps okLaws 2 3
    (by decide) (by decide) (by decide) ?_ (by decide) array bh ?_ ?_ h st sf w hw hwb hs
  · intro l hl
    cases l with
    | nil => decide
    | cons x xs => exact hl x (by simp)
  · intro vs hvs k hk
    rw [k_blanks vs hvs]
    show (keysOfLen kTable k).length ≤ 2^2 ∧
      (((keysOfLen kTable k).map (·.2.2)).filter fun b => b ≠ noExtensionBits ∧ b ≠ 0).length ≤ 2^3 - 2
    by_cases h3 : k ≤ 3
    · have : k = 2 ∨ k = 3 := by omega
      rcases this with rfl | rfl <;> decide +kernel
    · have he : keysOfLen kTable k = [] := by
        unfold keysOfLen
        rw [List.filter_eq_nil_iff]
        intro p hp
        have := (k_table_ok.1.len p hp).2
        simp only [decide_eq_true_eq]; omega
      rw [he]; decide
  · intro vs hvs; rw [k_blanks vs hvs]; exact k_small

end QuantExactExample

end KV.C03TrieG
