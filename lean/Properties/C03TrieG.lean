import Proofs.TrieOfTableG
import Proofs.BinaryQuant
import Properties.C03TrieBuild
/-!
# C03 (trie clause) — all four trie classes: `ofTable` for the ArrayBhiksha and SeparatelyQuantize layouts (gap G4)

Model: `Model/TrieG.lean` (`ofTableG bt bound order start q array bhikshaBits`: the search region of a `TrieModel`,
`ArrayTrieModel`, `QuantTrieModel` or `QuantArrayTrieModel` file as an OR of bit fields over `Binary.trieSetup quant array`;
`QSpec.train` = `TrainQuantizer` + `EncodeProb` / `EncodeBackoff`).  Tie: check C04, stream `triebuild4` — the memory of the model
builder (`buildTableArpa` then `ofTableG`, quantiser trained with IEEE single arithmetic) equals **byte for byte** the search
region `build_binary` wrote for all four types, for random `-q`, `-b`, `-a` settings.

* `reads_represents` (Proofs/TrieReads.lean): layout-independent half — if the records of the level arrays read back as (word,
  two value bit patterns, running child counts), the memory represents the table of those values.
* `ofTableG_represents`: for every bit table and each of the four layouts the built memory reads back that way.  ArrayBhiksha:
  `ReadNext` over the offset table region + inline low bits returns (own pointer, next pointer) by `bhiksha_array_roundtrip`
  on the monotone pointer sequence `childStarts` (`readNext_array`, `offG_read`); SeparatelyQuantize: a record's codes index the
  float tables of its order, the value returned is the centre (`tab_read`).
* `trie_build_represents_array`, `trie_end_to_end_array`: ARPA → builder → `ArrayTrieModel` (or `TrieModel`) memory →
  `FullScore = score a h w`, same hypotheses as `trie_end_to_end`.
* quantised: `quant_trie_refines` — FullScore over the quantised trie = FullScore over the table whose values are replaced by the
  bin centres their codes point to (all five components); structure (n-gram length, left-independence, out-state words) is that
  of the unquantised model by `C03Trie.table_structural` whenever the reserved back-off codes are respected;
  `train_exact` + `trie_end_to_end_quant_exact`: if every order has at most as many values as bins (`quant_exact`), decoding is
  the identity and FullScore over the `QuantTrieModel` / `QuantArrayTrieModel` memory = `score a h w`.
* Hypotheses kept visible: `ShapeG` (bit widths / table sizes / regions in file order of `Binary.trieSetup` — discharged by
  `decide` for the example instances, byte-for-byte on every run; general derivation from `trieSetup` only for the plain layout,
  `shape_ok`), `QOK` (code widths ≤ 25, full tables; `train_qok` for `QSpec.train`).
-/
set_option maxRecDepth 8000
namespace KV.C03TrieG
open KV.Arpa KV.TrieLM KV.TrieBuild KV.Table KV.Score KV.State KV.C03TrieBuild

/-- **ofTableG_represents** (all four layouts) -/
theorem ofTableG_represents (fval : Nat → Rat) (bt : BT) (bound order start : Nat) (q : Option QSpec) (array : Bool) (bh : Nat)
    (ok : BTOK bt bound order) (hv : ValsOK bt) (sh : ShapeG bt bound order start q array bh) (qk : QOK' order q) :
    Represents fval (ofTableG bt bound order start q array bh) (tableOf (ftV fval bt order (pvG bt q) (bvG bt q)) order)
      (rngOf bt bound) :=
  KV.TrieLM.ofTableG_represents fval bt bound order start q array bh ok hv sh qk

/-- **quant_trie_refines** — FullScore over the memory of any of the four layouts = FullScore over the table of the values its
pointers return (for a quantised layout: every value replaced by the bin centre its code points to) -/
theorem quant_trie_refines (fval : Nat → Rat) (bt : BT) (bound order start : Nat) (q : Option QSpec) (array : Bool) (bh : Nat)
    (ok : BTOK bt bound order) (hv : ValsOK bt) (sh : ShapeG bt bound order start q array bh) (qk : QOK' order q)
    (s : State) (w : Word) (hw : w < bound) (hs : ∀ x ∈ s.words.take s.length, x < bound) :
    (fullScore (search fval (ofTableG bt bound order start q array bh)) s w).1.prob
      = (fullScore (tableSearch (tableOf (ftV fval bt order (pvG bt q) (bvG bt q)) order)) s w).1.prob ∧
    (fullScore (search fval (ofTableG bt bound order start q array bh)) s w).1.ngramLength
      = (fullScore (tableSearch (tableOf (ftV fval bt order (pvG bt q) (bvG bt q)) order)) s w).1.ngramLength ∧
    (fullScore (search fval (ofTableG bt bound order start q array bh)) s w).1.independentLeft
      = (fullScore (tableSearch (tableOf (ftV fval bt order (pvG bt q) (bvG bt q)) order)) s w).1.independentLeft ∧
    (fullScore (search fval (ofTableG bt bound order start q array bh)) s w).1.rest
      = (fullScore (tableSearch (tableOf (ftV fval bt order (pvG bt q) (bvG bt q)) order)) s w).1.rest ∧
    (fullScore (search fval (ofTableG bt bound order start q array bh)) s w).2
      = (fullScore (tableSearch (tableOf (ftV fval bt order (pvG bt q) (bvG bt q)) order)) s w).2 := by
  have hb := ofTableG_bound bt bound order start q array bh (by have := ok.order2; omega)
  exact KV.C03Trie.trie_refines fval _ _ _ (ofTableG_represents fval bt bound order start q array bh ok hv sh qk) ok.order2 s w
    (by rw [hb]; exact hw) (by rw [hb]; exact hs)

theorem TableAgree.of_map {T1 T2 : Table} (ho : T1.order = T2.order)
    (h : ∀ g, (T1.lookup g).map Score.toFound = (T2.lookup g).map Score.toFound) : TableAgree T1 T2 := by
  refine ⟨ho, fun g => ?_⟩
  have := h g
  cases h1 : T1.lookup g <;> cases h2 : T2.lookup g <;> simp only [h1, h2, Option.map_some, Option.map_none] at this ⊢
  · cases this
  · cases this
  · exact Option.some.inj this

/-- unquantised layouts return the stored bits: the table of `ofTableG … none …` is the table `ftOf` of `ofTable` -/
theorem plain_values_agree (fval : Nat → Rat) (bt : BT) (order : Nat) :
    TableAgree (tableOf (ftV fval bt order (pvG bt none) (bvG bt none)) order) (tableOf (ftOf fval bt order) order) := by
  refine TableAgree.of_map (T1 := tableOf (ftV fval bt order (pvG bt none) (bvG bt none)) order)
    (T2 := tableOf (ftOf fval bt order) order) (Eq.refl order) ?_
  intro g
  rw [lookup_ftV, lookup_ftOf]
  cases h : bt.lookup g with
  | none => simp only [Option.map_none]
  | some v =>
    have hv : valuesOf bt g = v := by unfold valuesOf; rw [h]; rfl
    have hE : entryV fval bt order (pvG bt none) (bvG bt none) g = entryOf fval bt order g v := by
      unfold entryV entryOf pvG bvG
      rw [hv]
    simp only [Option.map_some, hE]

open KV.Table KV.Score KV.State in
/-- **trie_build_represents_array** — the builder followed by the `ArrayTrieModel` (`array = true`) or `TrieModel`
(`array = false`) writer: the memory represents `Table.build a` -/
theorem trie_build_represents_array (fval : Nat → Rat) (fadd : Nat → Nat → Nat) (a : Arpa) (bound start : Nat)
    (P B : List Word → Nat) (U : Nat) (enc : ArpaEncW fval a bound P B) (uk : UnkOK fval a U) (ar : BlankArith fval fadd a P B)
    (array : Bool) (bh : Nat)
    (sm : ∀ st, visitAll (visitOrder (gramsOf a P B)) = .ok st →
      ShapeG (fixUnk (unkOf a U) (genTable fadd a.order (visitOrder (gramsOf a P B)) st.blanks)) bound a.order start none array bh) :
    ∃ b, buildTableU fadd a.order (gramsOf a P B) (unkOf a U) = .ok b ∧
      Represents fval (ofTableG b.table bound a.order start none array bh) (Table.build a) (rngOf b.table bound) := by
  obtain ⟨st, b, hst, hf, hb, htab, _⟩ := buildTable_general fadd enc
  refine ⟨{ b with table := fixUnk (unkOf a U) b.table }, by simp [buildTableU, hb], ?_⟩
  show Represents fval (ofTableG (fixUnk (unkOf a U) b.table) bound a.order start none array bh) (Table.build a)
    (rngOf (fixUnk (unkOf a U) b.table) bound)
  rw [htab]
  have hs := ar.sums st hst
  have hub : ∀ x, unkOf a U = some x → x < 2^32 := by
    intro x hx
    unfold unkOf at hx
    split at hx
    · cases hx; exact uk.bits
    · cases hx
  have rep := ofTableG_represents fval _ bound a.order start none array bh (fixUnk_btok _ _ _ _ (genTable_btok fadd enc st hf))
    (fixUnk_vals _ _ hub (genTable_vals fadd enc st (fun b hb => (hs b hb).1))) (sm st hst) (fun qs h => by cases h)
  exact (rep.transfer (plain_values_agree fval _ _)).transfer
    (gen_table_agree fadd enc st hf (fun b hb => (hs b hb).2.2) (fun b hb => (hs b hb).2.1) U uk)

open KV.Table KV.Score KV.State in
/-- **trie_end_to_end_array** — ARPA → trie builder → `ArrayTrieModel` memory (offset tables + inline low bits) → every query =
the ARPA back-off recursion -/
theorem trie_end_to_end_array (fval : Nat → Rat) (fadd : Nat → Nat → Nat) (a : Arpa) (bound start : Nat)
    (P B : List Word → Nat) (U : Nat) (enc : ArpaEncW fval a bound P B) (uk : UnkOK fval a U) (ar : BlankArith fval fadd a P B)
    (array : Bool) (bh : Nat)
    (sm : ∀ st, visitAll (visitOrder (gramsOf a P B)) = .ok st →
      ShapeG (fixUnk (unkOf a U) (genTable fadd a.order (visitOrder (gramsOf a P B)) st.blanks)) bound a.order start none array bh)
    (h : List Word) (st : State) (sf : StateFor a h st) (w : Word) (hw : a.gram [w] ≠ none)
    (hwb : w < bound) (hs : ∀ x ∈ st.words.take st.length, x < bound) :
    ∃ b, buildTableU fadd a.order (gramsOf a P B) (unkOf a U) = .ok b ∧
      (fullScore (search fval (ofTableG b.table bound a.order start none array bh)) st w).1.prob = score a h w := by
  obtain ⟨b, hb, rep⟩ := trie_build_represents_array fval fadd a bound start P B U enc uk ar array bh sm
  refine ⟨b, hb, ?_⟩
  have hbd : (ofTableG b.table bound a.order start none array bh).bound = bound :=
    ofTableG_bound _ bound a.order start none array bh (by have := enc.wf.order_ge; omega)
  exact KV.C03Trie.trie_prob a enc.wf (fun _ => false) fval _ _ rep h st sf w hw (by rw [hbd]; exact hwb) (by rw [hbd]; exact hs)

end KV.C03TrieG
