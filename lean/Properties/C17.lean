import Proofs.PCQueueOrder
import Proofs.ChainPool
import Proofs.ChainRing
/-!
# C17 — Queues and chains deliver each item exactly once, in order, and terminate

Part 1: `util::PCQueue` (util/pcqueue.hh).  The model is `KV.PCQueue` (lean/Model/PCQueue.lean):
`P` producers with arbitrary value lists, `C` consumers with arbitrary numbers of `Consume` calls,
capacity `cap ≥ 1`, and an **arbitrary scheduler**: `Reach (mkInit cap ps qs) s` says that `s` is reached
by some finite sequence of synchronisation steps of arbitrary threads.  All theorems below are
consequences of one inductive invariant (`KV.PCQueue.Inv`, lean/Proofs/PCQueue.lean) that is preserved by
every step of every thread (`inv_step`).  Nothing is bounded.
-/
namespace KV.C17
open KV.PCQueue

variable {cap : Nat} {ps : List (List Nat)} {qs : List Nat} {s : State}

/-- the invariant holds in every reachable state, for every configuration with `cap ≥ 1` -/
theorem reach_inv (hcap : 0 < cap) (hr : Reach (mkInit cap ps qs) s) :
    Inv (ps.map List.length).sum qs.sum s ∧ s.cap = cap := by
  induction hr with
  | init => exact ⟨inv_init cap ps qs hcap, rfl⟩
  | step _ hs ih => exact ⟨inv_step ih.1 hs, (cap_step ih.1 hs).trans ih.2⟩

theorem reach_runSched {s0 : State} (sched : List Nat) : ∀ {s}, runSched s0 sched = some s → Reach s0 s := by
  suffices H : ∀ (sched : List Nat) (s1 : State), Reach s0 s1 → ∀ s, runSched s1 sched = some s → Reach s0 s from
    fun {s} h => H sched s0 .init s h
  intro sched
  induction sched with
  | nil => intro s1 h1 s h; simp [runSched] at h; subst h; exact h1
  | cons t ts ih =>
    intro s1 h1 s h
    simp only [runSched] at h
    cases hst : step s1 t with
    | none => simp [hst] at h
    | some s2 => simp only [hst] at h; exact ih s2 (.step h1 hst) s h

/-- **Semaphore accounting**: each of the `cap` tokens is in exactly one place — in `empty_`, in `used_`,
or held by a producer / consumer between its `wait` and its `post`. -/
theorem sem_accounting (hcap : 0 < cap) (hr : Reach (mkInit cap ps qs) s) :
    s.empty + s.used + inFlightProducers s + inFlightConsumers s = cap := by
  obtain ⟨h, hc⟩ := reach_inv hcap hr
  have := h.acct
  unfold inFlightProducers inFlightConsumers
  omega

/-- **Capacity**: the ring never holds more than `cap` unread values; every unread slot still holds the
value written into it; a producer in its critical section is about to write a slot that holds no unread
value (never overwritten before read); a consumer in its critical section is about to read a slot that has
been written and holds the oldest unread value (never read before written). -/
theorem never_over_cap (hcap : 0 < cap) (hr : Reach (mkInit cap ps qs) s) :
    occupied s ≤ cap ∧ s.reads.length ≤ s.writes.length
    ∧ (∀ i, s.reads.length ≤ i → i < s.writes.length → (s.writes[i]?).map (·.2) = some (s.ring (i % cap)))
    ∧ (∀ (t : Nat) (th : Thread), s.threads[t]? = some th → th.role = .prod → th.pc = .body →
          occupied s < cap ∧ ∀ i, s.reads.length ≤ i → i < s.writes.length → i % cap ≠ s.produceAt)
    ∧ (∀ (t : Nat) (th : Thread), s.threads[t]? = some th → th.role = .cons → th.pc = .body →
          s.reads.length < s.writes.length
          ∧ (s.writes[s.reads.length]?).map (·.2) = some (s.ring s.consumeAt)) := by
  obtain ⟨h, hc⟩ := reach_inv hcap hr
  have hacct := h.acct
  have hocc := h.occ
  rw [hc] at hacct
  refine ⟨by unfold occupied; omega, by omega, ?_, ?_, ?_⟩
  · intro i h1 h2; rw [← hc]; exact h.ringv i h1 h2
  · intro t th hth hrole hp
    have hA : 1 ≤ sumBy isA s.threads := by
      have := sumBy_le (f := isA) hth; simpa [isA, b2n, hrole, hp] using this
    refine ⟨by unfold occupied; omega, ?_⟩
    intro i h1 h2
    rw [h.pat, ← hc]
    exact mod_ne_of_lt h2 (by omega)
  · intro t th hth hrole hp
    have hC : 1 ≤ sumBy isC s.threads := by
      have := sumBy_le (f := isC) hth; simpa [isC, b2n, hrole, hp] using this
    have hlt : s.reads.length < s.writes.length := by omega
    refine ⟨hlt, ?_⟩
    have := h.ringv s.reads.length (Nat.le_refl _) hlt
    rw [← h.cat] at this
    exact this

/-- **FIFO, exactly once**: the sequence of values read (in critical-section order) is the prefix of
the sequence of values written: no loss, no duplication, no reordering. -/
theorem fifo_exactly_once (hcap : 0 < cap) (hr : Reach (mkInit cap ps qs) s) :
    s.reads.map (·.2) = (s.writes.map (·.2)).take s.reads.length :=
  (reach_inv hcap hr).1.fifo

/-- **Per-pair order**: a producer writes its values in the order it was given them
(`orig = written ++ still to write`), a consumer's returned values are its reads in order, and the values
that consumer `c` has received from producer `p` — in the order `c` received them — form a subsequence of
`p`'s production order. -/
theorem per_pair_order (hcap : 0 < cap) (hr : Reach (mkInit cap ps qs) s)
    {p c : Nat} {thp thc : Thread} (hp : s.threads[p]? = some thp) (hpr : thp.role = .prod)
    (hcn : s.threads[c]? = some thc) (hcr : thc.role = .cons) :
    thp.orig = writesOf s.writes p ++ thp.items
    ∧ thc.got = writesOf s.reads c
    ∧ (pairSeq s p c).Sublist thp.orig
    ∧ (pairSeq s p c).Sublist thc.got := by
  obtain ⟨h, _⟩ := reach_inv hcap hr
  have h1 := (h.thr p thp hp).p_orig hpr
  have h2 := (h.thr c thc hcn).c_got hcr
  refine ⟨h1, h2, ?_, ?_⟩
  · rw [h1, pairSeq_eq_left h]
    exact (zip_filter_sublist_left _ _ p c).trans (List.sublist_append_left _ _)
  · rw [h2]
    exact zip_filter_sublist_right _ _ p c

/-- **No deadlock**: when there are as many `Consume` calls as values, in every reachable state in which
some thread has not finished, some thread can take a step. -/
theorem no_deadlock (hcap : 0 < cap) (hbal : (ps.map List.length).sum = qs.sum)
    (hr : Reach (mkInit cap ps qs) s)
    (hwork : ∃ (t : Nat) (th : Thread), s.threads[t]? = some th ∧ th.pc ≠ .done) :
    ∃ tid, step s tid ≠ none := by
  obtain ⟨h, _⟩ := reach_inv hcap hr
  rw [hbal] at h
  exact no_deadlock_inv h hwork

/-- **Termination**: every step uses up exactly one unit of `measure` (5 per outstanding call), so every
schedule is finite and all complete schedules have the same length. -/
theorem terminates (hcap : 0 < cap) (hr : Reach (mkInit cap ps qs) s) {tid : Nat} {s' : State}
    (hs : step s tid = some s') : measure s' + 1 = measure s :=
  measure_step (reach_inv hcap hr).1 hs

/-- **Every maximal run delivers everything**: if no thread can step any more (balanced configuration),
then every thread has finished, every value given to a producer has been written, the values read are
exactly the values written, in the same order, and the semaphores are back to (cap, 0). -/
theorem maximal_run_delivers (hcap : 0 < cap) (hbal : (ps.map List.length).sum = qs.sum)
    (hr : Reach (mkInit cap ps qs) s) (hmax : ∀ tid, step s tid = none) :
    (∀ (t : Nat) (th : Thread), s.threads[t]? = some th → th.pc = .done)
    ∧ s.reads.map (·.2) = s.writes.map (·.2)
    ∧ (∀ (t : Nat) (th : Thread), s.threads[t]? = some th → th.role = .prod → writesOf s.writes t = th.orig)
    ∧ s.used = 0 ∧ s.empty = cap := by
  obtain ⟨h, hc⟩ := reach_inv hcap hr
  rw [hbal] at h
  have hd : ∀ (t : Nat) (th : Thread), s.threads[t]? = some th → th.pc = .done := by
    intro t th hth
    apply Classical.byContradiction
    intro hnd
    obtain ⟨tid, ht⟩ := no_deadlock_inv h ⟨t, th, hth, hnd⟩
    exact ht (hmax tid)
  obtain ⟨_, h2, h3, h4⟩ := all_done_delivered h hd
  refine ⟨hd, h2, ?_, h3, hc ▸ h4⟩
  intro t th hth hrole
  have := (h.thr t th hth).p_orig hrole
  rw [(h.thr t th hth).p_done hrole (hd t th hth), List.append_nil] at this
  exact this.symm

/-! ### non-vacuity: concrete reachable states satisfying the hypotheses -/

/-- 2 producers ([7,8] and [9]), 2 consumers (2 and 1 calls), capacity 2 -/
def demoInit : State := mkInit 2 [[7, 8], [9]] [2, 1]

/-- both producers inside Produce, the ring full, a consumer in its critical section -/
def demoSched : List Nat := [0, 1, 0, 0, 0, 0, 1, 1, 1, 1, 2, 2]

theorem exists_reach {s0 : State} (sched : List Nat) (f : State → Bool)
    (h : (runSched s0 sched).any f = true) : ∃ s, Reach s0 s ∧ f s = true := by
  cases hs : runSched s0 sched with
  | none => simp [hs] at h
  | some s => exact ⟨s, reach_runSched sched hs, by simpa [hs] using h⟩

example : ∃ s, Reach demoInit s ∧ occupied s = 2 ∧ s.empty = 0
    ∧ (∃ th, s.threads[2]? = some th ∧ th.role = .cons ∧ th.pc = .body)
    ∧ (∃ th, s.threads[0]? = some th ∧ th.role = .prod ∧ th.pc = .wait ∧ step s 0 = none) := by
  obtain ⟨s, hr, hf⟩ := exists_reach (s0 := demoInit) demoSched
    (fun s => occupied s == 2 && s.empty == 0
      && (match s.threads[2]? with | some th => th.role == .cons && th.pc == .body | none => false)
      && (match s.threads[0]? with | some th => th.role == .prod && th.pc == .wait && (step s 0).isNone | none => false))
    (by decide)
  refine ⟨s, hr, ?_⟩
  simp only [Bool.and_eq_true, beq_iff_eq] at hf
  obtain ⟨⟨⟨h1, h2⟩, h3⟩, h4⟩ := hf
  refine ⟨h1, h2, ?_, ?_⟩
  · cases h : s.threads[2]? with
    | none => simp [h] at h3
    | some th => simp [h] at h3; exact ⟨th, rfl, h3⟩
  · cases h : s.threads[0]? with
    | none => simp [h] at h4
    | some th => simp [h] at h4; exact ⟨th, rfl, h4.1.1, h4.1.2, by simpa using h4.2⟩

/-- a complete run: everything delivered, in FIFO order -/
example : (runSched demoInit ([0,0,0,0,0, 1,1,1,1,1, 2,2,2,2,2, 0,0,0,0,0, 3,3,3,3,3, 2,2,2,2,2])).map
    (fun s => (s.reads, allDone s, s.empty, s.used)) = some ([(2, 7), (3, 9), (2, 8)], true, 2, 0) := by
  decide

/-! ## Part 2: `util::ThreadPool` (util/thread_pool.hh)

Model `KV.Chain.Pool` (lean/Model/Chain.lean): the queue is an atomic bounded FIFO (Part 1), one step = one
whole `Produce` / `Consume` / thread start / `join`; any capacity ≥ 1, any number of workers ≥ 1, any
requests, arbitrary scheduler. -/
section pool
open KV.Chain

variable {w : Nat} {reqs : List Nat} {p : Pool}

theorem pool_reach_cap (hr : Pool.Reach (Pool.init cap w reqs) p) : p.cap = cap := by
  induction hr with
  | init => rfl
  | step _ hs ih => exact (pool_step_cap hs).trans ih

/-- **ThreadPool: every request is run exactly once and the destructor terminates.**
In every reachable state: (1) the items popped so far (in pop order), then the queue, then what the user
thread has still to submit, are exactly `requests ++ poison^w` — nothing lost, duplicated or reordered;
(2) what worker `i` has handled is exactly the requests among its own pops, in order; (3) the queue never
exceeds its capacity; (4) unless everything has finished some thread can step (no deadlock: `w` poisons
for `w` workers, sent before the joins); (5) every step decreases `Pool.measure` (termination); and
(6) once everything has finished, the requests popped are exactly the submitted requests, each once, the
queue is empty and every worker has returned. -/
theorem pool_exactly_once (hw : 0 < w) (hcap : 0 < cap) (hr : Pool.Reach (Pool.init cap w reqs) p) :
    p.log.map (·.2) ++ p.q ++ p.todo = reqs.map Item.val ++ List.replicate w Item.poison
    ∧ (∀ i, i < w → p.handled.getD i [] = ((p.log.filter (fun x => x.1 == i)).map (·.2)).filterMap Item.val?)
    ∧ p.q.length ≤ cap
    ∧ (p.allDone = false → ∃ tid, p.step tid ≠ none)
    ∧ (∀ tid p', p.step tid = some p' → p'.measure < p.measure)
    ∧ (p.allDone = true →
        (p.log.map (·.2)).filterMap Item.val? = reqs ∧ p.q = [] ∧ p.wpc.all (· == .finished) = true) := by
  have h := pinv_reach hr
  have hc := pool_reach_cap hr
  refine ⟨h.cons, h.hand, hc ▸ h.capb, fun hnd => pool_no_deadlock_inv hw (hc ▸ hcap) h hnd,
          fun tid p' hs => pool_measure_step h hs, ?_⟩
  intro hd
  simp only [Pool.allDone, Pool.mainDone, Bool.and_eq_true, List.isEmpty_iff, beq_iff_eq] at hd
  obtain ⟨⟨ht, _⟩, hall⟩ := hd
  have hf : p.wpc.countP (· == .finished) = p.wpc.length := by
    rw [List.countP_eq_length]; exact List.all_eq_true.mp hall
  obtain ⟨hq, hlog⟩ := log_complete hw h ht hf
  exact ⟨by rw [hlog, filterMap_allItems], hq, hall⟩

/-- non-vacuity: a concrete complete run with 2 workers, capacity 1, three requests -/
example : ((([0, 1, 1, 2, 0, 2, 0, 1, 0, 2, 0, 1, 0, 0]).foldl
      (fun (o : Option Pool) t => o.bind (·.step t)) (some (Pool.init 1 2 [5, 6, 7]))).map
      (fun p => (p.allDone, p.handled))) = some (true, [[5, 7], [6]]) := by decide

end pool

/-! ## Part 3: `util::stream::Chain` (util/stream/chain.hh, chain.cc)

Model `KV.Chain.Chain` (lean/Model/Chain.lean): `b ≥ 1` blocks, `m ≥ 1` workers (source + pass-through
stages) + the `Recycler`, the user thread running `Chain::Start` and `Chain::Wait`; queues are atomic bounded
FIFOs (Part 1); arbitrary scheduler.

Full statement intended by DESIGN §5 (`chain_ring`), kept here for reference:
  for every reachable state, for every pass-through stage `j`:
    `pushed (j) ++ pending j = (popped (j-1)).map (F j)`  (each stage outputs the image of exactly what it
    received, in order: content preserved), `popped (j-1)` is a prefix of `pushed (j-1)` (it sees its
    predecessor's blocks in order), each `pushed j` contains at most one poison, as its last element, and
    ends with it once stage `j` has finished; some thread can step unless everything has finished, and a
    measure decreases, so `Chain::Wait` returns.
Proved below (`chain_ring_partial`): the per-queue part.  **Missing**: the stage input/output relation,
poison-exactly-once, deadlock freedom and termination of the ring; these are only *checked* — on the model
by exhaustive enumeration of all schedules for small (b, m, n) in the driver, and on the real code by the
schedule-driven correspondence and the oracle of checks/C17.py — which is bounded exploration, not proof. -/
section chain
open KV.Chain

/-- **Chain (partial)**: in every reachable state of every chain (any block count, any number of workers, any
data, any schedule), for every queue: everything ever pushed = everything ever popped ++ the current content
— so the consumer of a queue receives exactly what its producer pushed, in order, nothing lost or duplicated —
and no queue ever holds more than `b` items. -/
theorem chain_ring_partial (b m : Nat) (data : List Nat) {c : Chain}
    (hr : Chain.Reach (Chain.init b m data) c) :
    (∀ j, c.pushed.getD j [] = c.popped.getD j [] ++ c.qs.getD j [])
    ∧ (∀ j, (c.qs.getD j []).length ≤ c.b) := by
  have h := cinv_reach (cinv_init b m data) hr
  exact ⟨h.fifo, h.capb⟩

/-- non-vacuity / the complete behaviour on a concrete chain: 2 blocks, source + 1 pass stage + recycler,
3 data blocks; this complete schedule ends with everything finished and stage 2 having seen the data in order -/
example : ((([0, 0, 1, 1, 1, 1, 1, 2, 2, 2, 2, 2, 3, 3, 3, 1, 1, 2, 2, 3, 3, 1, 1, 0, 2, 2, 0, 3, 3, 3, 3, 0, 0, 0]).foldl
      (fun (o : Option Chain) t => o.bind (·.step t)) (some (Chain.init 2 2 [11, 12, 13]))).map
      (fun c => (c.allDone, c.seen.getD 1 [], c.pushed.getD 0 [] == c.popped.getD 0 []))) =
    some (true, [11, 12, 13], true) := by decide

end chain

end KV.C17
