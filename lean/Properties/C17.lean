import Proofs.PCQueueOrder
import Proofs.ChainPool
import Proofs.ChainLive
import Proofs.PCQueueRefine
import Proofs.PCQueueEintr
import Proofs.ChainStream
import Proofs.ChainPoolSys
import Proofs.ChainSys
import Proofs.PCQueueProgress
import Proofs.PCQueueFail
import Proofs.ChainPoolSysLive
import Proofs.ChainSysLive
/-!
# C17 — Queues and chains deliver each item exactly once, in order, and terminate

Part 1: `util::PCQueue` (util/pcqueue.hh).  The model is `KV.PCQueue` (lean/Model/PCQueue.lean):
`P` producers with arbitrary value lists, `C` consumers with arbitrary numbers of `Consume` calls,
capacity `cap ≥ 1`, and an **arbitrary scheduler**: `Reach (mkInit cap ps qs) s` says that `s` is reached
by some finite sequence of synchronisation steps of arbitrary threads.  All theorems below are
consequences of one inductive invariant (`KV.PCQueue.Inv`, lean/Proofs/PCQueue.lean) that is preserved by
every step of every thread (`inv_step`).  Nothing is bounded.
-/
namespace KV.C17
open KV.PCQueue

variable {cap : Nat} {ps : List (List Nat)} {qs : List Nat} {s : State}

/-- the invariant holds in every reachable state, for every configuration with `cap ≥ 1` -/
theorem reach_inv (hcap : 0 < cap) (hr : Reach (mkInit cap ps qs) s) :
    Inv (ps.map List.length).sum qs.sum s ∧ s.cap = cap := by
  induction hr with
  | init => exact ⟨inv_init cap ps qs hcap, rfl⟩
  | step _ hs ih => exact ⟨inv_step ih.1 hs, (cap_step ih.1 hs).trans ih.2⟩

theorem reach_runSched {s0 : State} (sched : List Nat) : ∀ {s}, runSched s0 sched = some s → Reach s0 s := by
  suffices H : ∀ (sched : List Nat) (s1 : State), Reach s0 s1 → ∀ s, runSched s1 sched = some s → Reach s0 s from
    fun {s} h => H sched s0 .init s h
  intro sched
  induction sched with
  | nil => intro s1 h1 s h; simp [runSched] at h; subst h; exact h1
  | cons t ts ih =>
    intro s1 h1 s h
    simp only [runSched] at h
    cases hst : step s1 t with
    | none => simp [hst] at h
    | some s2 => simp only [hst] at h; exact ih s2 (.step h1 hst) s h

/-- **Semaphore accounting**: each of the `cap` tokens is in exactly one place — in `empty_`, in `used_`,
or held by a producer / consumer between its `wait` and its `post`. -/
theorem sem_accounting (hcap : 0 < cap) (hr : Reach (mkInit cap ps qs) s) :
    s.empty + s.used + inFlightProducers s + inFlightConsumers s = cap := by
  obtain ⟨h, hc⟩ := reach_inv hcap hr
  have := h.acct
  unfold inFlightProducers inFlightConsumers
  omega

/-- **Capacity**: the ring never holds more than `cap` unread values; every unread slot still holds the
value written into it; a producer in its critical section is about to write a slot that holds no unread
value (never overwritten before read); a consumer in its critical section is about to read a slot that has
been written and holds the oldest unread value (never read before written). -/
theorem never_over_cap (hcap : 0 < cap) (hr : Reach (mkInit cap ps qs) s) :
    occupied s ≤ cap ∧ s.reads.length ≤ s.writes.length
    ∧ (∀ i, s.reads.length ≤ i → i < s.writes.length → (s.writes[i]?).map (·.2) = some (s.ring (i % cap)))
    ∧ (∀ (t : Nat) (th : Thread), s.threads[t]? = some th → th.role = .prod → th.pc = .body →
          occupied s < cap ∧ ∀ i, s.reads.length ≤ i → i < s.writes.length → i % cap ≠ s.produceAt)
    ∧ (∀ (t : Nat) (th : Thread), s.threads[t]? = some th → th.role = .cons → th.pc = .body →
          s.reads.length < s.writes.length
          ∧ (s.writes[s.reads.length]?).map (·.2) = some (s.ring s.consumeAt)) := by
  obtain ⟨h, hc⟩ := reach_inv hcap hr
  have hacct := h.acct
  have hocc := h.occ
  rw [hc] at hacct
  refine ⟨by unfold occupied; omega, by omega, ?_, ?_, ?_⟩
  · intro i h1 h2; rw [← hc]; exact h.ringv i h1 h2
  · intro t th hth hrole hp
    have hA : 1 ≤ sumBy isA s.threads := by
      have := sumBy_le (f := isA) hth; simpa [isA, b2n, hrole, hp] using this
    refine ⟨by unfold occupied; omega, ?_⟩
    intro i h1 h2
    rw [h.pat, ← hc]
    exact mod_ne_of_lt h2 (by omega)
  · intro t th hth hrole hp
    have hC : 1 ≤ sumBy isC s.threads := by
      have := sumBy_le (f := isC) hth; simpa [isC, b2n, hrole, hp] using this
    have hlt : s.reads.length < s.writes.length := by omega
    refine ⟨hlt, ?_⟩
    have := h.ringv s.reads.length (Nat.le_refl _) hlt
    rw [← h.cat] at this
    exact this

/-- **FIFO, exactly once**: the sequence of values read (in critical-section order) is the prefix of
the sequence of values written: no loss, no duplication, no reordering. -/
theorem fifo_exactly_once (hcap : 0 < cap) (hr : Reach (mkInit cap ps qs) s) :
    s.reads.map (·.2) = (s.writes.map (·.2)).take s.reads.length :=
  (reach_inv hcap hr).1.fifo

/-- **Per-pair order**: a producer writes its values in the order it was given them
(`orig = written ++ still to write`), a consumer's returned values are its reads in order, and the values
that consumer `c` has received from producer `p` — in the order `c` received them — form a subsequence of
`p`'s production order. -/
theorem per_pair_order (hcap : 0 < cap) (hr : Reach (mkInit cap ps qs) s)
    {p c : Nat} {thp thc : Thread} (hp : s.threads[p]? = some thp) (hpr : thp.role = .prod)
    (hcn : s.threads[c]? = some thc) (hcr : thc.role = .cons) :
    thp.orig = writesOf s.writes p ++ thp.items
    ∧ thc.got = writesOf s.reads c
    ∧ (pairSeq s p c).Sublist thp.orig
    ∧ (pairSeq s p c).Sublist thc.got := by
  obtain ⟨h, _⟩ := reach_inv hcap hr
  have h1 := (h.thr p thp hp).p_orig hpr
  have h2 := (h.thr c thc hcn).c_got hcr
  refine ⟨h1, h2, ?_, ?_⟩
  · rw [h1, pairSeq_eq_left h]
    exact (zip_filter_sublist_left _ _ p c).trans (List.sublist_append_left _ _)
  · rw [h2]
    exact zip_filter_sublist_right _ _ p c

/-- **No deadlock**: when there are as many `Consume` calls as values, in every reachable state in which
some thread has not finished, some thread can take a step. -/
theorem no_deadlock (hcap : 0 < cap) (hbal : (ps.map List.length).sum = qs.sum)
    (hr : Reach (mkInit cap ps qs) s)
    (hwork : ∃ (t : Nat) (th : Thread), s.threads[t]? = some th ∧ th.pc ≠ .done) :
    ∃ tid, step s tid ≠ none := by
  obtain ⟨h, _⟩ := reach_inv hcap hr
  rw [hbal] at h
  exact no_deadlock_inv h hwork

/-- **Termination**: every step uses up exactly one unit of `measure` (5 per outstanding call), so every
schedule is finite and all complete schedules have the same length. -/
theorem terminates (hcap : 0 < cap) (hr : Reach (mkInit cap ps qs) s) {tid : Nat} {s' : State}
    (hs : step s tid = some s') : measure s' + 1 = measure s :=
  measure_step (reach_inv hcap hr).1 hs

/-- **Every maximal run delivers everything**: if no thread can step any more (balanced configuration),
then every thread has finished, every value given to a producer has been written, the values read are
exactly the values written, in the same order, and the semaphores are back to (cap, 0). -/
theorem maximal_run_delivers (hcap : 0 < cap) (hbal : (ps.map List.length).sum = qs.sum)
    (hr : Reach (mkInit cap ps qs) s) (hmax : ∀ tid, step s tid = none) :
    (∀ (t : Nat) (th : Thread), s.threads[t]? = some th → th.pc = .done)
    ∧ s.reads.map (·.2) = s.writes.map (·.2)
    ∧ (∀ (t : Nat) (th : Thread), s.threads[t]? = some th → th.role = .prod → writesOf s.writes t = th.orig)
    ∧ s.used = 0 ∧ s.empty = cap := by
  obtain ⟨h, hc⟩ := reach_inv hcap hr
  rw [hbal] at h
  have hd : ∀ (t : Nat) (th : Thread), s.threads[t]? = some th → th.pc = .done := by
    intro t th hth
    apply Classical.byContradiction
    intro hnd
    obtain ⟨tid, ht⟩ := no_deadlock_inv h ⟨t, th, hth, hnd⟩
    exact ht (hmax tid)
  obtain ⟨_, h2, h3, h4⟩ := all_done_delivered h hd
  refine ⟨hd, h2, ?_, h3, hc ▸ h4⟩
  intro t th hth hrole
  have := (h.thr t th hth).p_orig hrole
  rw [(h.thr t th hth).p_done hrole (hd t th hth), List.append_nil] at this
  exact this.symm

/-! ### non-vacuity: concrete reachable states satisfying the hypotheses -/

/-- 2 producers ([7,8] and [9]), 2 consumers (2 and 1 calls), capacity 2 -/
def demoInit : State := mkInit 2 [[7, 8], [9]] [2, 1]

/-- both producers inside Produce, the ring full, a consumer in its critical section -/
def demoSched : List Nat := [0, 1, 0, 0, 0, 0, 1, 1, 1, 1, 2, 2]

theorem exists_reach {s0 : State} (sched : List Nat) (f : State → Bool)
    (h : (runSched s0 sched).any f = true) : ∃ s, Reach s0 s ∧ f s = true := by
  cases hs : runSched s0 sched with
  | none => simp [hs] at h
  | some s => exact ⟨s, reach_runSched sched hs, by simpa [hs] using h⟩

example : ∃ s, Reach demoInit s ∧ occupied s = 2 ∧ s.empty = 0
    ∧ (∃ th, s.threads[2]? = some th ∧ th.role = .cons ∧ th.pc = .body)
    ∧ (∃ th, s.threads[0]? = some th ∧ th.role = .prod ∧ th.pc = .wait ∧ step s 0 = none) := by
  obtain ⟨s, hr, hf⟩ := exists_reach (s0 := demoInit) demoSched
    (fun s => occupied s == 2 && s.empty == 0
      && (match s.threads[2]? with | some th => th.role == .cons && th.pc == .body | none => false)
      && (match s.threads[0]? with | some th => th.role == .prod && th.pc == .wait && (step s 0).isNone | none => false))
    (by decide)
  refine ⟨s, hr, ?_⟩
  simp only [Bool.and_eq_true, beq_iff_eq] at hf
  obtain ⟨⟨⟨h1, h2⟩, h3⟩, h4⟩ := hf
  refine ⟨h1, h2, ?_, ?_⟩
  · cases h : s.threads[2]? with
    | none => simp [h] at h3
    | some th => simp [h] at h3; exact ⟨th, rfl, h3⟩
  · cases h : s.threads[0]? with
    | none => simp [h] at h4
    | some th => simp [h] at h4; exact ⟨th, rfl, h4.1.1, h4.1.2, by simpa using h4.2⟩

/-- a complete run: everything delivered, in FIFO order -/
example : (runSched demoInit ([0,0,0,0,0, 1,1,1,1,1, 2,2,2,2,2, 0,0,0,0,0, 3,3,3,3,3, 2,2,2,2,2])).map
    (fun s => (s.reads, allDone s, s.empty, s.used)) = some ([(2, 7), (3, 9), (2, 8)], true, 2, 0) := by
  decide

/-! ## Part 2: `util::ThreadPool` (util/thread_pool.hh)

Model `KV.Chain.Pool` (lean/Model/Chain.lean): the queue is an atomic bounded FIFO (Part 1), one step = one
whole `Produce` / `Consume` / thread start / `join`; any capacity ≥ 1, any number of workers ≥ 1, any
requests, arbitrary scheduler. -/
section pool
open KV.Chain

variable {w : Nat} {reqs : List Nat} {p : Pool}

theorem pool_reach_cap (hr : Pool.Reach (Pool.init cap w reqs) p) : p.cap = cap := by
  induction hr with
  | init => rfl
  | step _ hs ih => exact (pool_step_cap hs).trans ih

/-- **ThreadPool: every request is run exactly once and the destructor terminates.**
In every reachable state: (1) the items popped so far (in pop order), then the queue, then what the user
thread has still to submit, are exactly `requests ++ poison^w` — nothing lost, duplicated or reordered;
(2) what worker `i` has handled is exactly the requests among its own pops, in order; (3) the queue never
exceeds its capacity; (4) unless everything has finished some thread can step (no deadlock: `w` poisons
for `w` workers, sent before the joins); (5) every step decreases `Pool.measure` (termination); and
(6) once everything has finished, the requests popped are exactly the submitted requests, each once, the
queue is empty and every worker has returned. -/
theorem pool_exactly_once (hw : 0 < w) (hcap : 0 < cap) (hr : Pool.Reach (Pool.init cap w reqs) p) :
    p.log.map (·.2) ++ p.q ++ p.todo = reqs.map Item.val ++ List.replicate w Item.poison
    ∧ (∀ i, i < w → p.handled.getD i [] = ((p.log.filter (fun x => x.1 == i)).map (·.2)).filterMap Item.val?)
    ∧ p.q.length ≤ cap
    ∧ (p.allDone = false → ∃ tid, p.step tid ≠ none)
    ∧ (∀ tid p', p.step tid = some p' → p'.measure < p.measure)
    ∧ (p.allDone = true →
        (p.log.map (·.2)).filterMap Item.val? = reqs ∧ p.q = [] ∧ p.wpc.all (· == .finished) = true) := by
  have h := pinv_reach hr
  have hc := pool_reach_cap hr
  refine ⟨h.cons, h.hand, hc ▸ h.capb, fun hnd => pool_no_deadlock_inv hw (hc ▸ hcap) h hnd,
          fun tid p' hs => pool_measure_step h hs, ?_⟩
  intro hd
  simp only [Pool.allDone, Pool.mainDone, Bool.and_eq_true, List.isEmpty_iff, beq_iff_eq] at hd
  obtain ⟨⟨ht, _⟩, hall⟩ := hd
  have hf : p.wpc.countP (· == .finished) = p.wpc.length := by
    rw [List.countP_eq_length]; exact List.all_eq_true.mp hall
  obtain ⟨hq, hlog⟩ := log_complete hw h ht hf
  exact ⟨by rw [hlog, filterMap_allItems], hq, hall⟩

/-- non-vacuity: a concrete complete run with 2 workers, capacity 1, three requests -/
example : ((([0, 1, 1, 2, 0, 2, 0, 1, 0, 2, 0, 1, 0, 0]).foldl
      (fun (o : Option Pool) t => o.bind (·.step t)) (some (Pool.init 1 2 [5, 6, 7]))).map
      (fun p => (p.allDone, p.handled))) = some (true, [[5, 7], [6]]) := by decide


/-- the *seeded* destructor "for each worker: produce one poison, then join it" (instead of all poisons first, then all
joins, as `~ThreadPool` does and `Pool.step` models).  `sent` = poisons produced so far; everything else is `Pool.step`. -/
def stepJoinEach (p : Pool) (sent : Nat) (tid : Nat) : Option (Pool × Nat) :=
  match tid with
  | 0 =>
    match p.todo with
    | x :: rest => if p.q.length < p.cap then some ({ p with q := p.q ++ [x], todo := rest }, sent) else none
    | [] =>
      if sent = p.joined then
        if sent < p.wpc.length ∧ p.q.length < p.cap then some ({ p with q := p.q ++ [.poison] }, sent + 1) else none
      else match p.wpc[p.joined]? with
        | some .finished => some ({ p with joined := p.joined + 1 }, sent)
        | _ => none
  | i + 1 => (p.step (i + 1)).map (fun p' => (p', sent))

/-- **pool_join_each_deadlocks** (negation witness for the clause "ThreadPool poisons each worker and joins; no thread blocks
forever", `decide`): `pool_exactly_once` depends on *all* poisons being produced before the first join.  With the
poison-then-join-per-worker destructor, two workers and no request: both workers start, the destructor produces the first
poison, worker 2 takes it and finishes, the destructor joins worker 1 — which waits on the empty queue for ever.  No thread
is enabled and the pool is not done. -/
theorem pool_join_each_deadlocks :
    ((([1, 2, 0, 2] : List Nat).foldl
        (fun (o : Option (Pool × Nat)) t => o.bind (fun s => stepJoinEach s.1 s.2 t))
        (some ({ Pool.init 1 2 [] with todo := [] }, 0))).map
      (fun s => ((List.range 3).all (fun t => (stepJoinEach s.1 s.2 t).isNone), s.1.allDone, s.1.joined, s.2)))
      = some (true, false, 0, 1)
    ∧ -- the same schedule prefix under the real order (both poisons first) leaves the blocked worker enabled
    ((([1, 2, 0, 2, 0] : List Nat).foldl
        (fun (o : Option Pool) t => o.bind (·.step t)) (some (Pool.init 1 2 []))).map
      (fun p => (p.step 1).isSome)) = some true := by decide

end pool

/-! ## Part 3: `util::stream::Chain` (util/stream/chain.hh, chain.cc)

Model `KV.Chain.Chain` (lean/Model/Chain.lean): `b ≥ 1` blocks, stages `0..m` (`m ≥ 1`; stage 0 the source
that fills `data.length` blocks and then calls `Link::Poison()`, stages `1..m-1` pass-through workers, stage `m`
the `Recycler`), the user thread running `Chain::Start` and `Chain::Wait` (join all threads, then drain queue 0
up to the poison); a ring of `m+1` single-producer/single-consumer bounded FIFOs (Part 1 / Part 4).  Every
worker is `for (Link l(position); l; ++l) body`, with `Link::Init`, `operator++`, `Poison` and `~Link`
modelled operation by operation including the `poisoned_` flag (the theorem depends on it: with
`poisoned_ = !current_` in `Init`, the change seeded as C17-2, `afterConsume` would end in `finished` instead of
`dtor` and `StageOK.r` / `fin` fail).  One step = one whole `Produce` / `Consume` / thread start / `join`;
the scheduler is arbitrary; `b`, `m`, the data and the schedule are unbounded. -/
section chain
open KV.Chain

/-- the stage functions of the worked example / the harness: pass-through stage `i` applies `xform (i+1)` -/
def defaultStageFn : StageFn := ⟨fun i _ v => xform (i + 1) v⟩

/-- **Chain ring.**  In every reachable state of every chain:
1. *order*: stage `i+1` has received exactly a prefix of what stage `i` produced, in production order, the rest
   is in the queue between them; queue 0 holds the blocks of `Chain::Start` followed by the recycler's output,
   read first by the source and then by `Chain::Wait`;
2. *content preserved*: what a stage has produced (plus the block in its hand) is the image of what it has
   received under its deterministic stage function, item by item (`outFrom`; for stages `≥ 1` simply `map`);
3. *poison exactly once per stage*: a stage's output contains poison at most once, as its last element, and
   contains it iff the stage has finished;
4. *capacity*: no queue ever holds more than `b` items;
5. *ring deadlock freedom*: unless the user thread and all stages have finished, some thread can step;
6. *termination*: every step strictly decreases `chainMeasure`, so `Chain::Wait` returns;
7. *the end*: "Chain ending without poison" is never reached, and when `Chain::Wait` has returned every stage
   has finished, the poison has reached the end (the user thread consumed it), the source has produced exactly
   the data followed by one poison, and every stage has received everything its predecessor produced. -/
theorem chain_ring {b m : Nat} {data : List Nat} {c : Chain} (hb : 0 < b) (hm : 1 ≤ m)
    (hr : Chain.Reach (Chain.init b m data) c) :
    ((∀ i, i < m → (c.st i).out = (c.st (i + 1)).inp ++ c.q (i + 1))
      ∧ List.replicate (b - fillRem c) (Item.val 0) ++ (c.st m).out = (c.st 0).inp ++ c.drained ++ c.q 0)
    ∧ (∀ i, i ≤ m → (c.st i).out ++ pend (c.st i) = @outFrom defaultStageFn m data i [] (c.st i).inp
        ∧ (1 ≤ i → (c.st i).out ++ pend (c.st i) = (c.st i).inp.map (passOf m i)))
    ∧ (∀ i, i ≤ m → Item.poison ∉ (c.st i).out.dropLast ∧ ((c.st i).pc = .finished ↔ Item.poison ∈ (c.st i).out))
    ∧ (∀ j, j ≤ m → (c.q j).length ≤ b)
    ∧ ((c.main ≠ .finished ∨ ∃ i, i ≤ m ∧ (c.st i).pc ≠ .finished) → ∃ tid, c.step tid ≠ none)
    ∧ (∀ tid c', c.step tid = some c' → chainMeasure b m data c' < chainMeasure b m data c)
    ∧ (c.main ≠ .aborted
        ∧ (c.main = .finished →
            (∀ i, i ≤ m → (c.st i).pc = .finished) ∧ Item.poison ∈ c.drained
            ∧ (c.st 0).out = data.map Item.val ++ [Item.poison]
            ∧ ∀ i, i < m → c.q (i + 1) = [] ∧ (c.st (i + 1)).inp = (c.st i).out)) := by
  letI := defaultStageFn
  have h : RInv b m data c := rinv_reach hb hm hr
  refine ⟨⟨h.q, h.q0⟩, ?_, ?_, ?_, chain_no_deadlock_inv h, fun tid c' hs => chain_measure_step h hs, ?_, ?_⟩
  · intro i hi
    refine ⟨(h.sok i hi).r, fun h1 => ?_⟩
    rw [(h.sok i hi).r, outFrom_eq_map (by omega) (fun _ _ _ => rfl)]
  · intro i hi
    exact ⟨(h.sok i hi).last, (h.sok i hi).fin⟩
  · intro j hj
    have hc := h.conservation
    have := le_sumTo (fun j => (c.q j).length) (i := j) (k := m + 1) (by omega)
    omega
  · intro e
    have := h.mainok
    unfold MainOK at this
    rw [e] at this
    exact this
  · intro e
    have hmain := h.mainok
    unfold MainOK at hmain
    rw [e] at hmain
    refine ⟨hmain.1, hmain.2, h.source_out (hmain.1 0 (by omega)), fun i hi => ?_⟩
    exact h.handed_over hi (hmain.1 (i + 1) (by omega))

/-- non-vacuity / the complete behaviour on a concrete chain: 2 blocks, source + 1 pass stage + recycler,
3 data blocks; this complete schedule ends with everything finished and stage 2 having seen the data in order -/
example : ((([0, 0, 1, 1, 1, 1, 1, 2, 2, 2, 2, 2, 3, 3, 3, 1, 1, 2, 2, 3, 3, 1, 1, 0, 2, 2, 0, 3, 3, 3, 3, 0, 0, 0]).foldl
      (fun (o : Option Chain) t => o.bind (·.step t)) (some (Chain.init 2 2 [11, 12, 13]))).map
      (fun c => (c.allDone, c.seen 1, (c.st 0).out, c.drained))) =
    some (true, [11, 12, 13], [.val 11, .val 12, .val 13, .poison], [.val 132, .poison]) := by decide

/-- **Stateful stream transducers as stages** (for C07's `h_stages`).  Let every pass-through stage `i`
(`1 ≤ i < m`) run an arbitrary deterministic, possibly STATEFUL, stream transducer `T.step i : state × block →
state × block` (its loop body keeps the state; a block is its content, an abstract `Nat`).  For every number of
blocks `b ≥ 1`, every `m ≥ 1`, every data and **every schedule**:
(a) at every moment, the blocks stage `i` has produced (with the one in its hand) carry exactly the output of its
    transducer, started in `T.init i`, on the blocks it has received so far — block boundaries of the schedule,
    interleavings and the number of recycled blocks are not observable;
(b) once `Chain::Wait` has returned, the output of stage `i` is the source data pushed through the transducers of
    stages `1..i` in order (`T.pipeline data i`), followed by exactly one poison, and stage `i+1` has received
    exactly that.
All other clauses of `chain_ring` (order, poison once and last, capacity, deadlock freedom, termination) hold for
these chains as well (`rinv_reach`, `chain_no_deadlock_inv`, `chain_measure_step` are proved for arbitrary stage
functions).  In the `Link` protocol a stage emits exactly one block per block received, so there is no extra
output at poison ("final flush"): state that must leave a stage has to ride on its blocks. -/
theorem chain_stream_transducer {τ : Type} (T : Transducers τ) {b m : Nat} {data : List Nat} {c : Chain}
    (hb : 0 < b) (hm : 1 ≤ m) (hr : Chain.Reach (Chain.initT b m data T.toStageFn.tr) c) :
    (∀ i, 1 ≤ i → i < m →
        valsOf ((c.st i).out ++ pend (c.st i)) = T.run i (T.init i) (valsOf (c.st i).inp))
    ∧ (c.main = .finished → ∀ i, i < m →
        (c.st i).out = (T.pipeline data i).map Item.val ++ [Item.poison] ∧ (c.st (i + 1)).inp = (c.st i).out) := by
  letI := T.toStageFn
  have h : RInv b m data c := rinv_reach hb hm hr
  refine ⟨fun i h1 h2 => ?_, fun hfin => ?_⟩
  · rw [(h.sok i (by omega)).r]
    exact valsOf_outFrom T (by omega) (by omega) [] _
  · have hmain := h.mainok
    unfold MainOK at hmain
    rw [hfin] at hmain
    have hall := hmain.1
    intro i
    induction i with
    | zero =>
      intro hi
      exact ⟨h.source_out (hall 0 (by omega)), (h.handed_over hi (hall 1 (by omega))).2⟩
    | succ i ih =>
      intro hi
      obtain ⟨hout, hinp⟩ := ih (by omega)
      refine ⟨?_, (h.handed_over hi (hall (i + 2) (by omega))).2⟩
      have hr' := (h.sok (i + 1) (by omega)).r
      have hp : pend (c.st (i + 1)) = [] := by simp [pend, hall (i + 1) (by omega)]
      rw [hp, List.append_nil, hinp, hout] at hr'
      rw [hr', outFrom_complete T (by omega) (by omega)]
      rfl

/-- non-vacuity: a running-sum transducer (stateful) between source and recycler, 2 blocks, data 1,2,3: the stage's
output is the prefix sums whatever the schedule; here the lowest-thread-first schedule -/
example : ((([0, 0, 1, 1, 1, 1, 1, 2, 2, 2, 2, 2, 3, 3, 3, 1, 1, 2, 2, 3, 3, 1, 1, 0, 2, 2, 0, 3, 3, 3, 3, 0, 0, 0]).foldl
      (fun (o : Option Chain) t => o.bind (·.step t))
      (some (Chain.initT 2 2 [1, 2, 3]
        (Transducers.toStageFn ⟨fun _ => 0, fun _ s v => (s + v, s + v)⟩).tr))).map
      (fun c => (c.allDone, (c.st 1).out))) = some (true, [.val 1, .val 3, .val 6, .poison]) := by decide

end chain

/-! ## Part 4: refinement — the semaphore queue *is* an atomic bounded FIFO

The ThreadPool and Chain models above, and the three queues of the filter controller model
(`lean/Model/FilterCtl.lean`, property C12: `if q.length < cfg.queue then q ++ [x]`, head pop), treat a
`PCQueue` as an atomic bounded FIFO with the transition functions `KV.Chain.fifoPush` / `KV.Chain.fifoPop`.
`pcqueue_refines_fifo` justifies this by a theorem about the step-level model of Part 1:
with the abstraction `absBuf s` = values written and not yet read (oldest first) and the critical-section
bodies as linearisation points,
* every synchronisation step of every thread, in every reachable state, is either a stutter step of the
  atomic FIFO, or `fifoPush cap` of the produced value (enabled: the buffer is not full), or `fifoPop`
  returning exactly the value the consumer receives;
* hence along every schedule the sequence of linearised operations is a run of the atomic FIFO of capacity `cap`
  starting empty and ending in `absBuf s`; each operation lies between the call (`wait`) and the return (`post`)
  of the `Produce` / `Consume` that performs it, so per-thread program order is preserved.
The liveness half (an operation enabled in the atomic FIFO is eventually completed by the implementation) is
`no_deadlock` + `terminates` of Part 1.  To cite from another model: `KV.C17.pcqueue_refines_fifo`. -/
section refinement
open KV.Chain (fifoPush fifoPop)

theorem pcqueue_refines_fifo (hcap : 0 < cap) :
    (∀ {s s' : State} {tid : Nat}, Reach (mkInit cap ps qs) s → step s tid = some s' →
        match stepEvent s tid with
        | none => absBuf s' = absBuf s
        | some (.push _ v) => fifoPush cap (absBuf s) v = some (absBuf s')
        | some (.pop _ v) => fifoPop (absBuf s) = some (v, absBuf s'))
    ∧ (∀ (sched : List Nat) (s : State), runSched (mkInit cap ps qs) sched = some s →
        fifoRun cap [] (events (mkInit cap ps qs) sched) = some (absBuf s)) := by
  constructor
  · intro s s' tid hr hs
    obtain ⟨h, hc⟩ := reach_inv hcap hr
    have := step_refines h hs
    rw [hc] at this
    exact this
  · intro sched s hrun
    exact run_refines (inv_init cap ps qs hcap) sched hrun

/-- the ThreadPool model's queue operations are literally these FIFO operations -/
theorem pool_uses_fifo (p : KV.Chain.Pool) :
    (∀ x rest, p.todo = x :: rest → (p.step 0).map (·.q) = fifoPush p.cap p.q x)
    ∧ (∀ i, p.wpc[i]? = some .running → (p.step (i + 1)).map (·.q) = (fifoPop p.q).map (·.2)) := by
  constructor
  · intro x rest ht
    unfold KV.Chain.Pool.step fifoPush
    simp only [ht]
    by_cases e : p.q.length < p.cap <;> simp [e]
  · intro i hi
    unfold KV.Chain.Pool.step fifoPop
    simp only [hi]
    cases hq : p.q with
    | nil => simp
    | cons x r => cases x <;> simp

/-- non-vacuity: the linearised history of a concrete complete run -/
example : events demoInit [0,0,0,0,0, 1,1,1,1,1, 2,2,2,2,2, 0,0,0,0,0, 3,3,3,3,3, 2,2,2,2,2]
    = [.push 0 7, .push 1 9, .pop 2 7, .push 0 8, .pop 3 9, .pop 2 8] := by decide

end refinement

/-! ## Part 5: signals — `WaitSemaphore` is transparent to EINTR (util/pcqueue.hh:59-71)

A signal handled without `SA_RESTART` makes `sem_wait` return EINTR; `WaitSemaphore` must go round its loop again.
(Only the boost-semaphore variant is compiled on this platform; the `__APPLE__` variant — mach semaphores,
`semaphore_wait` — is not compiled here and is outside the tie.) -/
section eintr

/-- **EINTR transparency.**  For every pattern of EINTR returns (any number `k`, unbounded):
(1) the loop is left exactly by the `sem_wait` that took a token, with exactly one token taken;
(2) while only EINTR has been returned the loop has not been left;
(3) conversely whenever the loop has been left a token was available, exactly one was taken, by the last call;
(4) at the level of the queue model an interrupt of a waiting thread is a stutter step, so the states reachable
    with arbitrary interrupts are exactly the states reachable without, and every theorem of Part 1 holds
    unchanged for `ReachI`. -/
theorem wait_eintr_transparent :
    (∀ (k c : Nat) (os : List WaitOutcome), 0 < c →
        waitSemaphore c (List.replicate k .eintr ++ .taken :: os) = some (c - 1, os))
    ∧ (∀ k c : Nat, waitSemaphore c (List.replicate k .eintr) = none)
    ∧ (∀ (c c' : Nat) (l rest : List WaitOutcome), waitSemaphore c l = some (c', rest) →
        ∃ k, l = List.replicate k .eintr ++ .taken :: rest ∧ 0 < c ∧ c' = c - 1)
    ∧ (∀ s0 s : State, ReachI s0 s ↔ Reach s0 s) := by
  refine ⟨fun k c os hc => waitSemaphore_returns k c hc os, waitSemaphore_waiting,
          fun c c' l rest h => waitSemaphore_some h, fun s0 s => ⟨reachI_reach, ?_⟩⟩
  intro h
  induction h with
  | init => exact .init
  | step _ hs ih => exact .step ih hs

/-- e.g. FIFO order with arbitrary interrupts -/
theorem fifo_exactly_once_with_signals (hcap : 0 < cap) (hr : ReachI (mkInit cap ps qs) s) :
    s.reads.map (·.2) = (s.writes.map (·.2)).take s.reads.length :=
  fifo_exactly_once hcap (reachI_reach hr)

/-- the theorem depends on the retry: the loop seeded as C17-3 leaves `WaitSemaphore` after an EINTR although the
semaphore is empty and no token was taken -/
example : waitSemaphoreFlagNeverSet 0 [.eintr, .taken] = some (0, [.taken])
    ∧ waitSemaphore 0 [.eintr, .eintr] = none := by decide

end eintr

/-! ## Part 6: `util::stream::Stream` (util/stream/stream.hh) -/
section stream
open KV.Chain

/-- **Stream records.**  For every sequence of blocks received by the `Link` of a `Stream` — any number of blocks,
any pattern of empty blocks (first, last, consecutive, all) —
`for (Stream s(position); s; ++s) yield(*s)` yields exactly the concatenation of the valid records of the blocks,
in order, every read lying inside `ValidSize` of the current block (`get` returns `none` for a read beyond it, and
no `none` appears); at the end the stream is null, and every block followed by exactly one poison has been passed
downstream. -/
theorem stream_records (blocks : List (List Nat)) :
    (Stream.collect (blocks.flatten.length + 1) (Stream.init blocks)).1 = blocks.flatten.map some
    ∧ (Stream.collect (blocks.flatten.length + 1) (Stream.init blocks)).2.null = true
    ∧ (Stream.collect (blocks.flatten.length + 1) (Stream.init blocks)).2.link.finish = blocks.map some ++ [none] := by
  cases blocks with
  | nil => simp [Stream.init, SLink.init, startBlock, skipEmpty, Stream.collect, Stream.collectWith, SLink.finish]
  | cons b0 rest =>
    have := collect_from rest b0 [] false ((b0 :: rest).flatten.length + 1) (by omega)
    simpa [Stream.init, SLink.init] using this

/-- non-vacuity, and dependence on skipping ALL empty blocks: with two adjacent empty blocks the `StartBlock` of the
change seeded as C17-4 lands on an empty block and reads beyond its `ValidSize` (`none`) -/
example : (Stream.collect 10 (Stream.init [[1, 2], [], [], [3], []])).1 = [some 1, some 2, some 3]
    ∧ (Stream.collectWith startBlockOnce 4 (startBlockOnce (SLink.init [[1, 2], [], [], [3]]))).1
        = [some 1, some 2, none, none] := by decide

end stream

/-! ## Part 7: the composed system — clients running on the STEP-LEVEL queues

`lean/Model/PCQueueSys.lean`: any number of client threads, each an arbitrary program over a local state that
touches any number of queues only through `Produce` / `Consume` (plus local steps and waiting for another thread's
local state: thread start, `join`).  In the step-level system (`cstep`) every queue is a `PCQueue.State` of Part 1
(semaphores, mutexes, ring, cursors), a call arms the thread's entry in that queue, the micro-steps are the steps
of Part 1 with the hook-point program counters, the return hands the value to the client; `cintr` is an EINTR of a
thread inside an operation.  In the atomic system (`astep`) every queue is a list with `fifoPush` / `fifoPop`.
Abstraction `abs`: queue content = values written and not yet read; a thread inside an operation has made its
abstract step iff it has passed its critical-section body. -/
section composed
open KV.Sys KV.Chain

/-- **Client-generic stuttering refinement** (any client programs, any number of queues and threads, any
capacities ≥ 1, any schedule, arbitrary EINTR interrupts): every step of the composed step-level system is a
stutter step or exactly one step of the atomic-FIFO system under `abs` (forward simulation, `sim_step`), an
interrupt is a stutter step, and hence every reachable state of the step-level system abstracts to a reachable
state of the atomic system running the same programs. -/
theorem steplevel_refines_atomic {σ : Type} (P : Prog σ) (loc0 : Nat → σ) (hcap : ∀ q, 0 < P.cap q) :
    (∀ c c' t, CInv P c → cstep P c t = some c' →
        CInv P c' ∧ (Sys.abs c' = Sys.abs c ∨ astep P (Sys.abs c) t = some (Sys.abs c')))
    ∧ (∀ (c c' : CState σ) t, cintr c t = some c' → c' = c)
    ∧ (∀ c, CReach P (cinit P loc0) c → CInv P c ∧ AReach P (ainit loc0) (Sys.abs c)) := by
  refine ⟨fun c c' t h hs => ?_, fun _ _ _ hs => sim_intr hs, fun _ hr => creach_refines hcap hr⟩
  obtain ⟨h1, hrel, _⟩ := sim_step h hs
  refine ⟨h1, ?_⟩
  rcases hrel with ⟨e, _⟩ | ⟨e, _⟩
  · exact Or.inl e
  · exact Or.inr e

/-- **ThreadPool on the step-level queue.**  The ThreadPool as client program (`poolProg`: the user thread produces
the requests and one poison per worker and joins the workers; worker `i` consumes until poison) running on the
step-level `PCQueue` with arbitrary interrupts: the abstraction of every reachable state is a reachable state of
the `Pool` model, so the safety clauses of `pool_exactly_once` hold for it: conservation of
`requests ++ poison^w` (nothing lost, duplicated or reordered), per-worker attribution, capacity, and — once the
abstract state says everything has finished — every request handled exactly once.  (The abstract no-deadlock and
measure clauses also hold for the denoted `Pool` state; deadlock freedom of the *composed* system itself is not
derived: it needs the per-queue `no_deadlock` composed with the clients, see design notes.) -/
theorem pool_exactly_once_steplevel {w : Nat} {reqs : List Nat} (hw : 0 < w) (hcap : 0 < cap)
    {c : CState PLoc} (hr : CReach (poolProg cap w) (cinit (poolProg cap w) (poolLoc0 w reqs)) c) :
    let p := toPool cap w (Sys.abs c)
    Pool.Reach (Pool.init cap w reqs) p
    ∧ p.log.map (·.2) ++ p.q ++ p.todo = reqs.map Item.val ++ List.replicate w Item.poison
    ∧ (∀ i, i < w → p.handled.getD i [] = ((p.log.filter (fun x => x.1 == i)).map (·.2)).filterMap Item.val?)
    ∧ p.q.length ≤ cap
    ∧ (p.allDone = true →
        (p.log.map (·.2)).filterMap Item.val? = reqs ∧ p.q = [] ∧ p.wpc.all (· == .finished) = true) := by
  intro p
  obtain ⟨_, ha⟩ := creach_refines (P := poolProg cap w) (fun _ => hcap) hr
  obtain ⟨_, hp⟩ := pool_areach ha
  obtain ⟨h1, h2, h3, _, _, h6⟩ := pool_exactly_once hw hcap hp
  exact ⟨hp, h1, h2, h3, h6⟩

/-- **Chain on the step-level queues.**  The chain as client program (`chainProg`: the user thread runs
`Chain::Start` and `Chain::Wait`, thread `i+1` runs the `Link` loop of stage `i`, thread start and `join` are
`await`s) running on `m+1` step-level `PCQueue`s with arbitrary interrupts: the abstraction of every reachable
state is a reachable state of the `Chain` model (`chain_astep`: the atomic client system with `chainProg` IS the
`Chain` model), so the safety clauses of `chain_ring` hold for it: order, content, poison at most once and last and
iff finished, capacity, "Chain ending without poison" unreachable, and the final delivery once the abstract state
says `Chain::Wait` has returned.  (Deadlock freedom / termination of the composed system itself are not derived
here; the abstract `chain_ring` clauses 5 and 6 hold for the denoted `Chain` state.) -/
theorem chain_ring_steplevel {b m : Nat} {data : List Nat} (hb : 0 < b) (hm : 1 ≤ m)
    {c : CState CLoc}
    (hr : CReach (chainProg (Chain.init b m data)) (cinit (chainProg (Chain.init b m data)) (chainLoc0 b)) c) :
    let x := toChain (Chain.init b m data) (Sys.abs c)
    Chain.Reach (Chain.init b m data) x
    ∧ ((∀ i, i < m → (x.st i).out = (x.st (i + 1)).inp ++ x.q (i + 1))
        ∧ List.replicate (b - fillRem x) (Item.val 0) ++ (x.st m).out = (x.st 0).inp ++ x.drained ++ x.q 0)
    ∧ (∀ i, i ≤ m → (x.st i).out ++ pend (x.st i) = @outFrom defaultStageFn m data i [] (x.st i).inp
        ∧ (1 ≤ i → (x.st i).out ++ pend (x.st i) = (x.st i).inp.map (passOf m i)))
    ∧ (∀ i, i ≤ m → Item.poison ∉ (x.st i).out.dropLast ∧ ((x.st i).pc = .finished ↔ Item.poison ∈ (x.st i).out))
    ∧ (∀ j, j ≤ m → (x.q j).length ≤ b)
    ∧ (x.main ≠ .aborted
        ∧ (x.main = .finished →
            (∀ i, i ≤ m → (x.st i).pc = .finished) ∧ Item.poison ∈ x.drained
            ∧ (x.st 0).out = data.map Item.val ++ [Item.poison]
            ∧ ∀ i, i < m → x.q (i + 1) = [] ∧ (x.st (i + 1)).inp = (x.st i).out)) := by
  intro x
  have hcap : ∀ q, 0 < (chainProg (Chain.init b m data)).cap q := fun _ => hb
  obtain ⟨_, ha⟩ := creach_refines hcap hr
  have hx : Chain.Reach (Chain.init b m data) x :=
    (chain_areach (b := b) (m := m) (data := data) (tr := (Chain.init b m data).tr) ha).2
  obtain ⟨h1, h2, h3, h4, _, _, h7⟩ := chain_ring hb hm hx
  exact ⟨hx, h1, h2, h3, h4, h7⟩

/-- **Liveness transport (partial).**  Intended statements (`pool_steplevel_no_deadlock`,
`pool_steplevel_terminates`, then the chain): every reachable non-final state of the step-level pool / chain has an
enabled micro-step, and every maximal run in which each `sem_wait` is interrupted only finitely often (the
fairness assumption on EINTR) terminates in the abstract final state.  Proved here are the two per-queue facts they
rest on, and their lift to the composed system:
(1) *progress at an enabled abstract operation*: if a thread is inside `Produce(q)` / `Consume(q)` before its
    linearisation point and the abstract FIFO operation is enabled in `abs c` (buffer not full resp. not empty), then
    some thread of the composed system can take a micro-step in queue `q` (`queue_progress` per queue:
    the open-system version of `no_deadlock`);
(2) *bounded operations*: every micro-step uses exactly one unit of the queue's `measure` (five per operation),
    and an interrupt does not change the state, so an interrupt-fair run spends finitely many transitions per
    operation.
**Missing**: combining (1)/(2) with the abstract `pool_exactly_once` clause 4 / `chain_ring` clause 5 and the
idle / `await` cases into the two named theorems (an abstractly enabled `await` on a thread that is inside an
operation needs the extra argument that this thread can itself progress), and the well-founded measure for
interrupt-fair termination of the product. -/
theorem steplevel_liveness_partial {σ : Type} {P : Prog σ} {c : CState σ} (h : CInv P c) :
    (∀ t q, t < P.nthreads → (c.mode t).queue = some q → linearized (c.qs q) t = false →
        ((∀ v k, c.mode t = .inP q v k → ((Sys.abs c).q q).length < P.cap q)
          ∧ (∀ k, c.mode t = .inC q k → (Sys.abs c).q q ≠ [])) →
        ∃ t', cstep P c t' ≠ none)
    ∧ (∀ q t s', step (c.qs q) t = some s' → PCQueue.measure s' + 1 = PCQueue.measure (c.qs q))
    ∧ (∀ t c', cintr c t = some c' → c' = c) := by
  refine ⟨fun t q ht hq hpre hen => steplevel_op_progress h ht hq hpre hen, fun q t s' hs => ?_,
          fun t c' hs => sim_intr hs⟩
  obtain ⟨dP, dC, hinv⟩ := h.qinv q
  exact op_bounded hinv hs

end composed

/-! ## Part 8: the exception path — a failing element copy is transparent (util/pcqueue.hh:96-104, 113-121)

"Strong exception guarantee if operator= throws": inside the critical section the copy may throw; the catch block
gives the semaphore token back, unwinding releases the mutex, and because the ring wrap stands AFTER the `try` the
cursor has not moved. -/
section copyfail

/-- **A failed copy is a stutter step.**  `fail s t g` (the copy of thread `t`, at its critical-section body,
throws; `g` = whatever a half-finished `Produce` left in the slot): the invariant of Part 1 is preserved, the ghost
histories, both cursors, the capacity and the abstract FIFO are unchanged; hence in every state reachable with
arbitrarily many failed copies (and EINTR interrupts) at arbitrary moments (`ReachF`) the invariant holds and with it
every safety theorem of Part 1 — semaphore accounting, capacity, FIFO exactly-once for the values SUCCESSFULLY
produced, per-pair order, and "some thread can step" (termination then needs that copies do not fail forever). -/
theorem copy_failure_transparent (hcap : 0 < cap) :
    (∀ {s s' : State} {t g : Nat}, ReachF (mkInit cap ps qs) s → fail s t g = some s' →
        s'.writes = s.writes ∧ s'.reads = s.reads ∧ s'.produceAt = s.produceAt ∧ s'.consumeAt = s.consumeAt
        ∧ absBuf s' = absBuf s ∧ s'.cap = s.cap)
    ∧ (∀ {s : State}, ReachF (mkInit cap ps qs) s →
        Inv (ps.map List.length).sum qs.sum s
        ∧ s.reads.map (·.2) = (s.writes.map (·.2)).take s.reads.length
        ∧ s.writes.length - s.reads.length ≤ s.cap
        ∧ s.empty + s.used + inFlightProducers s + inFlightConsumers s = s.cap) := by
  have hinv : ∀ {s : State}, ReachF (mkInit cap ps qs) s → Inv (ps.map List.length).sum qs.sum s :=
    fun hr => inv_reachF (inv_init cap ps qs hcap) hr
  refine ⟨fun hr hf => ?_, fun hr => ?_⟩
  · obtain ⟨_, h1, h2, h3, h4, h5, h6⟩ := fail_stutter (hinv hr) hf
    exact ⟨h1, h2, h3, h4, h5, h6⟩
  · have h := hinv hr
    have hacct := h.acct
    have hocc := h.occ
    refine ⟨h, h.fifo, by omega, ?_⟩
    unfold inFlightProducers inFlightConsumers
    omega

/-- non-vacuity and dependence on the order "copy, then advance": one producer (value 7), one consumer, capacity 2;
the first copy of the producer throws, it retries, the consumer then reads.  With the real exception path the
consumer receives 7; with the cursor advanced before the copy (the change seeded as C17-5) the value is written
to slot 1 and the consumer receives the content of slot 0, which nobody produced. -/
example :
    ((((((((((((some (mkInit 2 [[7]] [1])).bind (step · 0)).bind (step · 0)).bind (fail · 0 99)).bind (step · 0)).bind
        (step · 0)).bind (step · 0)).bind (step · 0)).bind (step · 0)).bind (step · 1)).bind (step · 1)).bind
        (step · 1)).map (fun s => (s.writes, s.reads)) = some ([(0, 7)], [(1, 7)])
    ∧ ((((((((((((some (mkInit 2 [[7]] [1])).bind (step · 0)).bind (step · 0)).bind (failCursorFirst · 0 99)).bind
        (step · 0)).bind (step · 0)).bind (step · 0)).bind (step · 0)).bind (step · 0)).bind (step · 1)).bind
        (step · 1)).bind (step · 1)).map (fun s => (s.writes, s.reads)) = some ([(0, 7)], [(1, 99)]) := by
  decide

end copyfail

/-! ## Part 9: liveness of the composed system

Deadlock freedom and termination are transported from the atomic models to the systems running on the step-level
queues.  Ingredients (client-generic, `lean/Proofs/PCQueueSysLive.lean`): `steplevel_no_deadlock` — if the atomic
system can step from `abs c` then the step-level system can step from `c` (an enabled abstract queue operation ⇒
`queue_progress`; a thread past its critical-section body can always go on; an abstractly enabled `await` on a
thread that is inside an operation: the awaited predicate is on that thread's local state, which only changes at
its return, and by `AwaitQuiet` it does not hold in a state from which that thread calls a queue operation, so that
thread is past its body and can itself progress); `cmeasure_step` — `8 × abstract measure + Σ potentials` strictly
decreases on every step; `crun_bounded`, `fair_length` — run-level bounds.  The fairness assumption on signals is a
hypothesis on the run (`InterruptFair E`: at most `E` consecutive EINTR, i.e. finitely many per wait), never an
axiom; lexicographically: (`cmeasure`, EINTRs still allowed before the next step). -/
section liveness
open KV.Sys KV.Chain

/-- **ThreadPool on the step-level queue: no deadlock.**  In every reachable state (arbitrary schedule, arbitrary
interrupts), unless the denoted `Pool` state says everything has finished, some thread can take a step. -/
theorem pool_steplevel_no_deadlock {w : Nat} {reqs : List Nat} (hw : 0 < w) (hcap : 0 < cap)
    {c : CState PLoc} (hr : CReach (poolProg cap w) (cinit (poolProg cap w) (poolLoc0 w reqs)) c)
    (hnd : (toPool cap w (Sys.abs c)).allDone = false) : ∃ t, cstep (poolProg cap w) c t ≠ none := by
  obtain ⟨h, ha⟩ := creach_refines (P := poolProg cap w) (fun _ => hcap) hr
  exact pool_no_deadlock_of hw hcap h (modeLt_reach hr) (pool_areach ha) hnd

/-- **ThreadPool on the step-level queue: termination.**  From every reachable state `c`, for every run `ls`
(steps of arbitrary threads and EINTR interrupts in any order) ending in `c'`:
(1) the number of steps is at most `cmeasure c` — however many interrupts occur;
(2) if the run is interrupt-fair (at most `E` consecutive EINTR) its length is at most `cmeasure c · (E+1) + E`:
    every interrupt-fair run is finite;
(3) if no thread can step in `c'` (the run is maximal) then the denoted `Pool` state has finished: every request
    has been handled exactly once, the queue is empty and every worker has returned. -/
theorem pool_steplevel_terminates {w : Nat} {reqs : List Nat} (hw : 0 < w) (hcap : 0 < cap)
    {c : CState PLoc} (hr : CReach (poolProg cap w) (cinit (poolProg cap w) (poolLoc0 w reqs)) c)
    (ls : List Label) (c' : CState PLoc) (hrun : crun (poolProg cap w) c ls = some c') (E : Nat) :
    let μ := cmeasure (poolProg cap w) (fun a => (toPool cap w a).measure)
    countSteps ls + μ c' ≤ μ c
    ∧ (InterruptFair E 0 ls → ls.length ≤ μ c * (E + 1) + E)
    ∧ ((∀ t, cstep (poolProg cap w) c' t = none) →
        let p := toPool cap w (Sys.abs c')
        p.allDone = true ∧ (p.log.map (·.2)).filterMap Item.val? = reqs ∧ p.q = []) := by
  intro μ
  obtain ⟨h, ha⟩ := creach_refines (P := poolProg cap w) (fun _ => hcap) hr
  have hok : PoolOK cap w reqs (Sys.abs c) := pool_areach ha
  obtain ⟨h', hok', hle⟩ := crun_bounded (P := poolProg cap w) (amu := fun a => (toPool cap w a).measure)
    (PoolOK cap w reqs) (fun _ _ _ => poolOK_step) (fun _ _ _ => poolOK_dec) ls c c' h hok hrun
  have hle' : countSteps ls + μ c' ≤ μ c := hle
  refine ⟨hle', fun hf => ?_, fun hmax => ?_⟩
  · have := fair_length E ls 0 (Nat.zero_le _) hf
    have h1 : countSteps ls ≤ μ c := by omega
    have : countSteps ls * (E + 1) ≤ μ c * (E + 1) := Nat.mul_le_mul_right _ h1
    omega
  · intro p
    have hml := modeLt_crun ls c c' (modeLt_reach hr) hrun
    have hdone : p.allDone = true := by
      cases hd : p.allDone with
      | true => rfl
      | false =>
        obtain ⟨t, ht⟩ := pool_no_deadlock_of hw hcap h' hml hok' hd
        exact absurd (hmax t) ht
    obtain ⟨_, _, _, _, _, h6⟩ := pool_exactly_once hw hcap hok'.2
    obtain ⟨e1, e2, _⟩ := h6 hdone
    exact ⟨hdone, e1, e2⟩

/-- **Chain on step-level queues: no deadlock.**  In every reachable state (arbitrary schedule, arbitrary
interrupts), unless the denoted `Chain` state says the user thread and all stages have finished, some thread can
take a step. -/
theorem chain_steplevel_no_deadlock {b m : Nat} {data : List Nat} (hb : 0 < b) (hm : 1 ≤ m) {c : CState CLoc}
    (hr : CReach (chainProg (Chain.init b m data)) (cinit (chainProg (Chain.init b m data)) (chainLoc0 b)) c)
    (hnd : (toChain (Chain.init b m data) (Sys.abs c)).main ≠ .finished
      ∨ ∃ i, i ≤ m ∧ ((toChain (Chain.init b m data) (Sys.abs c)).st i).pc ≠ .finished) :
    ∃ t, cstep (chainProg (Chain.init b m data)) c t ≠ none := by
  have hcap : ∀ q, 0 < (chainProg (Chain.init b m data)).cap q := fun _ => hb
  obtain ⟨h, ha⟩ := creach_refines hcap hr
  exact chain_no_deadlock_of hb hm h (modeLt_reach hr)
    (chain_areach (b := b) (m := m) (data := data) (tr := (Chain.init b m data).tr) ha) hnd

/-- **Chain on step-level queues: termination.**  From every reachable state `c`, for every run `ls` (steps and
EINTR interrupts in any order) ending in `c'`: (1) the number of steps is at most `cmeasure c`; (2) an
interrupt-fair run (at most `E` consecutive EINTR) has length at most `cmeasure c · (E+1) + E`; (3) if no thread can
step in `c'` then in the denoted `Chain` state `Chain::Wait` has returned and all stages have finished, so the final
clauses of `chain_ring` apply (poison consumed by `Wait`, source output = data ++ [poison], everything handed over). -/
theorem chain_steplevel_terminates {b m : Nat} {data : List Nat} (hb : 0 < b) (hm : 1 ≤ m) {c : CState CLoc}
    (hr : CReach (chainProg (Chain.init b m data)) (cinit (chainProg (Chain.init b m data)) (chainLoc0 b)) c)
    (ls : List Label) (c' : CState CLoc) (hrun : crun (chainProg (Chain.init b m data)) c ls = some c') (E : Nat) :
    let μ := cmeasure (chainProg (Chain.init b m data))
      (fun a => chainMeasure b m data (toChain (Chain.init b m data) a))
    countSteps ls + μ c' ≤ μ c
    ∧ (InterruptFair E 0 ls → ls.length ≤ μ c * (E + 1) + E)
    ∧ ((∀ t, cstep (chainProg (Chain.init b m data)) c' t = none) →
        let x := toChain (Chain.init b m data) (Sys.abs c')
        x.main = .finished ∧ (∀ i, i ≤ m → (x.st i).pc = .finished) ∧ Item.poison ∈ x.drained
        ∧ (x.st 0).out = data.map Item.val ++ [Item.poison]) := by
  intro μ
  have hcap : ∀ q, 0 < (chainProg (Chain.init b m data)).cap q := fun _ => hb
  obtain ⟨h, ha⟩ := creach_refines hcap hr
  have hok : ChainOK b m data (Sys.abs c) :=
    chain_areach (b := b) (m := m) (data := data) (tr := (Chain.init b m data).tr) ha
  obtain ⟨h', hok', hle⟩ := crun_bounded (P := chainProg (Chain.init b m data))
    (amu := fun a => chainMeasure b m data (toChain (Chain.init b m data) a))
    (ChainOK b m data) (fun _ _ _ => chainOK_step) (fun _ _ _ => chainOK_dec hb hm) ls c c' h hok hrun
  have hle' : countSteps ls + μ c' ≤ μ c := hle
  refine ⟨hle', fun hf => ?_, fun hmax => ?_⟩
  · have := fair_length E ls 0 (Nat.zero_le _) hf
    have h1 : countSteps ls ≤ μ c := by omega
    have : countSteps ls * (E + 1) ≤ μ c * (E + 1) := Nat.mul_le_mul_right _ h1
    omega
  · intro x
    have hml := modeLt_crun ls c c' (modeLt_reach hr) hrun
    have hfin : x.main = .finished ∧ ∀ i, i ≤ m → (x.st i).pc = .finished := by
      apply Classical.byContradiction
      intro hno
      have hnd : x.main ≠ .finished ∨ ∃ i, i ≤ m ∧ (x.st i).pc ≠ .finished := by
        by_cases e : x.main = .finished
        · right
          apply Classical.byContradiction
          intro hne
          exact hno ⟨e, fun i hi => Classical.byContradiction fun e2 => hne ⟨i, hi, e2⟩⟩
        · exact Or.inl e
      obtain ⟨t, ht⟩ := chain_no_deadlock_of hb hm h' hml hok' hnd
      exact ht (hmax t)
    obtain ⟨_, _, _, _, _, _, _, hend⟩ := chain_ring hb hm hok'.2
    obtain ⟨_, hp, hsrc, _⟩ := hend hfin.1
    exact ⟨hfin.1, hfin.2, hp, hsrc⟩

end liveness

end KV.C17
