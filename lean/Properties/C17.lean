import Model.PCQueue
namespace KV.C17
open KV.PCQueue
theorem stub_wrap (cap i : Nat) (h : i + 1 = cap) : wrap cap i = 0 := by simp [wrap, h]
end KV.C17
