import Generated.C05
import Model.KN
import Model.KNSpec
import Proofs.KNStats
import Proofs.KNAdjust
import Proofs.KNCorpus2
import Proofs.KNCorpus3
import Proofs.KNInterp2
import Proofs.KNBlocks
import Proofs.KNCorpus5
/-!
# C05 — lmplz computes interpolated modified Kneser-Ney estimates

Model: `Model/KN.lean` (streaming algorithms transcribed from `lm/builder/*.cc`) and
`Model/KNSpec.lean` (set-based specification).  The tree-dependent constants come from
`Generated/C05.lean` (re-extracted by `tools/probe_C05.cc` on every run).
-/
namespace KV.C05
open KV.KN

/-! ## constants of the tree -/

/-- the special word ids the model uses are the ones of `lm/builder/payload.hh` / `lm/word_index.hh` -/
theorem special_ids : KV.Gen.C05.kUNK = unk ∧ KV.Gen.C05.kBOS = bos ∧ KV.Gen.C05.kEOS = eos := by decide

/-- `Discount::Get` caps the count at 3 (`amount[min(count, 3)]`), as `Disc.get` does -/
theorem discount_cap (d : Disc) (c : Nat) (h : KV.Gen.C05.discountCap ≤ c) : d.get c = d.d3 := by
  have : 3 ≤ c := h
  match c, this with
  | c + 3, _ => rfl

/-! ## counts-of-counts (pre-observation A) -/

/-- the 3-sentence witness `a b / b / b` (a = 3, b = 4) as its sorted bigram table -/
def witness : List (Gram × Nat) := [([2, 4], 3), ([3, 1], 1), ([4, 1], 2), ([4, 3], 1)]

def witnessCfg (fixed : Bool) : Cfg :=
  { order := 2, thr := fun _ => 0, excl := fun _ => false, flushAdjusted := fixed }

-- (`countFull 2 [[3, 4], [4], [4]]` evaluates to `witness`; the check replays the corpus on bin/lmplz)

/-- On the *unrepaired* flush (`stats.Add(…, lower_count, …)`) the statistics are **not** the
counts-of-counts of the adjusted counts that were written: the last unigram `b` has
adjusted count 2 (left extensions `a`, `<s>`) but enters `n₃` with its true count 3. -/
theorem stats_eq_unfixed_false :
    ¬ (∀ (cfg : Cfg) (full : List (Gram × Nat)), cfg.order = 2 → (∀ e ∈ full, e.1.length = 2) →
        cfg.flushAdjusted = false →
        statsOf (adjustStream cfg full).adds.reverse 0 = countsOfCounts ((adjustStream cfg full).stream 1)) := by
  intro h
  have := h (witnessCfg false) witness rfl (by decide) rfl
  revert this
  decide

/-- the same witness against the set-based specification -/
theorem stats_spec_unfixed_false :
    (adjust (witnessCfg false) witness).stats.head? ≠ some (Spec.stats (Spec.ents (witnessCfg false) witness 1)) := by
  decide

example : (adjust (witnessCfg true) witness).stats.head? = some (Spec.stats (Spec.ents (witnessCfg true) witness 1)) := by
  decide

/-- **stats_eq (streaming side)**: with the repaired flush, for every lower order the
statistics collected by `StatCollector` are exactly the counts-of-counts of the records
written to that order's stream — for every input table, sorted or not. -/
theorem stats_eq_stream (cfg : Cfg) (N : Nat) (hN : 1 ≤ N) (full : List (Gram × Nat))
    (hfull : ∀ e ∈ full, e.1.length = N) (hfix : cfg.flushAdjusted = true) (i : Nat) (hi : i + 1 < N) :
    statsOf (adjustStream cfg full).adds.reverse i = countsOfCounts ((adjustStream cfg full).stream (i + 1)) :=
  KV.KN.stats_eq_stream cfg N hN full hfull hfix i hi

example : ∃ cfg full, cfg.flushAdjusted = true ∧ (∀ e ∈ full, e.1.length = 2) ∧
    (statsOf (adjustStream cfg full).adds.reverse 0).n2 = 1 :=
  ⟨witnessCfg true, witness, rfl, by decide, by decide⟩

/-- the tree under check has the repaired flush (fails to build — a broken obligation — on
a tree where the probe observes the true count in the statistics) -/
theorem flush_adjusted_tree : KV.Gen.C05.flushAdjusted = true := by decide

/-- `stats_eq_stream` for the configuration the current tree implements -/
theorem stats_eq_tree (cfg : Cfg) (N : Nat) (hN : 1 ≤ N) (full : List (Gram × Nat))
    (hfull : ∀ e ∈ full, e.1.length = N) (htree : cfg.flushAdjusted = KV.Gen.C05.flushAdjusted)
    (i : Nat) (hi : i + 1 < N) :
    statsOf (adjustStream cfg full).adds.reverse i = countsOfCounts ((adjustStream cfg full).stream (i + 1)) :=
  stats_eq_stream cfg N hN full hfull (htree.trans flush_adjusted_tree) i hi

/-! ## the streaming algorithm computes the set-based adjusted counts -/

open KV.KN.Adjust in
/-- **adjust_stream_eq**: for every strictly suffix-sorted table of order-`N` rows (`FullWF`: `N`
words per row, the newest word never `<s>`/`<unk>`, `<s>` only as a run at the old end) the
stream of every lower order written by `AdjustCounts::Run` — n-grams, adjusted counts, prune
marks, in order — is the specification `Spec.ents`: keys = the valid suffixes, count =
number of distinct left extensions (true count when the n-gram starts with `<s>`), mark =
true count ≤ threshold or excluded word, special unigrams exempt. -/
theorem adjust_stream_eq (cfg : Cfg) (full : List (Gram × Nat)) (h2 : 2 ≤ cfg.order)
    (hw : FullWF cfg.order full) (hk : cfg.keepSpecials = true) (n : Nat) (h1 : 1 ≤ n)
    (hn : n < cfg.order) : (adjustStream cfg full).stream n = Spec.ents cfg full n :=
  KV.KN.Adjust.adjust_stream_eq cfg full h2 hw hk n h1 hn

open KV.KN.Adjust in
example : ∃ full, full ≠ [] ∧ FullWF 3 full := ⟨_, by simp, exFull_wf⟩

open KV.KN.Adjust in
/-- **prune_exact**: a lower-order record is marked for removal iff its *true* count is at or
below the threshold of its order or it contains an excluded word (`Spec.pruned`; `<unk>`,
`<s>`, `</s>` never) -/
theorem prune_exact (cfg : Cfg) (full : List (Gram × Nat)) (h2 : 2 ≤ cfg.order)
    (hw : FullWF cfg.order full) (hk : cfg.keepSpecials = true) (n : Nat) (h1 : 1 ≤ n)
    (hn : n < cfg.order) :
    ∀ e ∈ (adjustStream cfg full).stream n, e.marked = Spec.pruned cfg full e.gram :=
  KV.KN.Adjust.prune_exact cfg full h2 hw hk n h1 hn

/-- the highest order: `CollapseStream` keeps the rows without `<s>` in position 1 and marks by
the row's own count — which is what `Spec.ents` says for `n = order` -/
theorem prune_exact_top (cfg : Cfg) (full : List (Gram × Nat)) :
    ∀ e ∈ collapse cfg full, e.marked = markOf cfg e.count e.gram := by
  intro e he
  unfold collapse at he
  obtain ⟨x, _, rfl⟩ := List.mem_map.mp he
  rfl

open KV.KN.Adjust in
/-- **stats_eq**: with the repaired flush the statistics of every lower order are the
counts-of-counts of the *specification's* adjusted counts -/
theorem stats_eq (cfg : Cfg) (full : List (Gram × Nat)) (h2 : 2 ≤ cfg.order)
    (hw : FullWF cfg.order full) (hk : cfg.keepSpecials = true) (hfix : cfg.flushAdjusted = true)
    (i : Nat) (hi : i + 1 < cfg.order) :
    statsOf (adjustStream cfg full).adds.reverse i = countsOfCounts (Spec.ents cfg full (i + 1)) :=
  KV.KN.Adjust.stats_eq cfg full h2 hw hk hfix i hi

/-! ## … for every corpus -/

open KV.KN.Norm in
/-- **ngram_set**: the n-grams of order `n ≤ N` that lmplz has records for are exactly the
length-`n` windows of the sentences delimited by ONE `<s>` and `</s>` (the lone `<s>` window
excluded), plus — at order 1 — the explicit `<unk>` and `<s>`. -/
theorem ngram_set (cfg : Cfg) (corpus : List (List Word)) (h2 : 2 ≤ cfg.order)
    (hw : ∀ s ∈ corpus, ∀ w ∈ s, 3 ≤ w) (n : Nat) (h1 : 1 ≤ n) (hn : n ≤ cfg.order) (g : Gram) :
    g ∈ (Spec.ents cfg (countFull cfg.order corpus) n).map (·.gram) ↔
      (n = 1 ∧ (g = [unk] ∨ g = [bos])) ∨ ((∃ s ∈ corpus, g ∈ windows n (padded1 s)) ∧ g ≠ [bos]) :=
  KV.KN.Norm.ngram_set_ents cfg corpus h2 hw n h1 hn g

/-- the count table of every corpus of ordinary words is a legal input of `adjust_stream_eq` -/
theorem fullWF_countFull (N : Nat) (corpus : List (List Word)) (h2 : 2 ≤ N)
    (hw : ∀ s ∈ corpus, ∀ w ∈ s, 3 ≤ w) : KV.KN.Adjust.FullWF N (countFull N corpus) :=
  KV.KN.Norm.fullWF_countFull N corpus h2 hw

/-- `adjust_stream_eq` on the table lmplz actually counts, for every corpus -/
theorem adjust_stream_eq_corpus (cfg : Cfg) (corpus : List (List Word)) (h2 : 2 ≤ cfg.order)
    (hw : ∀ s ∈ corpus, ∀ w ∈ s, 3 ≤ w) (hk : cfg.keepSpecials = true) (n : Nat) (h1 : 1 ≤ n)
    (hn : n < cfg.order) :
    (adjustStream cfg (countFull cfg.order corpus)).stream n = Spec.ents cfg (countFull cfg.order corpus) n :=
  KV.KN.Norm.adjust_stream_eq_corpus cfg corpus h2 hw hk n h1 hn

/-- `stats_eq` for every corpus -/
theorem stats_eq_corpus (cfg : Cfg) (corpus : List (List Word)) (h2 : 2 ≤ cfg.order)
    (hw : ∀ s ∈ corpus, ∀ w ∈ s, 3 ≤ w) (hk : cfg.keepSpecials = true) (hfix : cfg.flushAdjusted = true)
    (i : Nat) (hi : i + 1 < cfg.order) :
    statsOf (adjustStream cfg (countFull cfg.order corpus)).adds.reverse i =
      countsOfCounts (Spec.ents cfg (countFull cfg.order corpus) (i + 1)) :=
  KV.KN.Norm.stats_eq_corpus cfg corpus h2 hw hk hfix i hi

open KV.KN.Norm in
/-- the **true count** the specification (and, by `adjust_stream_eq`, the stream) uses is the
number of occurrences in the sentences delimited by one `<s>` and `</s>` -/
theorem trueCount_textbook (N : Nat) (corpus : List (List Word)) (h2 : 2 ≤ N) (g : Gram) (h1 : 1 ≤ g.length)
    (hn : g.length ≤ N) (hv : Spec.validAt g.length g = true) (hb : g ≠ [bos]) :
    Spec.trueCount (countFull N corpus) g = (corpus.flatMap fun s => windows g.length (padded1 s)).count g :=
  KV.KN.Norm.trueCount_padded1 N corpus h2 g h1 hn hv hb

open KV.KN.Norm in
/-- the **adjusted count**: the true count for the highest order and for n-grams that start
with `<s>`, else `N₁₊(•g)` = the number of distinct (n+1)-grams of the corpus that extend `g`
on the left -/
theorem adjCount_textbook (N : Nat) (corpus : List (List Word)) (h2 : 2 ≤ N) (hw : ∀ s ∈ corpus, ∀ w ∈ s, 3 ≤ w)
    (g : Gram) (h1 : 1 ≤ g.length) (hn : g.length ≤ N) (hv : Spec.validAt g.length g = true) (hb : g ≠ [bos]) :
    Spec.adjCount N (countFull N corpus) g =
      if g.length = N ∨ g.getLast? = some bos then (corpus.flatMap fun s => windows g.length (padded1 s)).count g
      else (((corpus.flatMap fun s => windows (g.length + 1) (padded1 s)).eraseDups).filter
              fun h => h.take g.length == g).length :=
  KV.KN.Norm.adjCount_textbook N corpus h2 hw g h1 hn hv hb

open KV.KN.Norm in
/-- **written_set** (last clause of C05): an n-gram is written iff it is an n-gram of the
delimited sentences (or `<unk>`/`<s>`) and is not pruned; and it is pruned iff its true count
is at or below the threshold of its order or it contains an excluded word (specials exempt). -/
theorem written_set (cfg : Cfg) (pv : Bool) (fallback : Option Disc) (corpus : List (List Word)) (m : Model)
    (hm : Spec.estimate cfg pv fallback corpus = .ok m) (h2 : 2 ≤ cfg.order) (hne : corpus ≠ [])
    (hw : ∀ s ∈ corpus, ∀ w ∈ s, 3 ≤ w) (hthr : ∀ i, i < cfg.order - 1 → cfg.thr i ≤ cfg.thr (i + 1)) (g : Gram) :
    (Query.lookup m.orders g).isSome = true ↔
      1 ≤ g.length ∧ g.length ≤ cfg.order ∧
      ((g.length = 1 ∧ (g = [unk] ∨ g = [bos])) ∨ ((∃ s ∈ corpus, g ∈ windows g.length (padded1 s)) ∧ g ≠ [bos])) ∧
      Spec.pruned cfg (countFull cfg.order corpus) g = false :=
  KV.KN.Norm.written_set_corpus cfg pv fallback corpus m hm h2 hne hw hthr g

/-- **written_set, order-1 model**: `<unk>`, `<s>`, `</s>`, and every corpus word whose count exceeds
the unigram threshold and which is not excluded -/
theorem written_set1 (cfg : Cfg) (pv : Bool) (fallback : Option Disc) (corpus : List (List Word)) (m : Model)
    (hm : Spec.estimate cfg pv fallback corpus = .ok m) (h1 : cfg.order = 1) (hne : corpus ≠ [])
    (hw : ∀ s ∈ corpus, ∀ w ∈ s, 3 ≤ w) (g : Gram) :
    (Query.lookup m.orders g).isSome = true ↔
      g = [unk] ∨ g = [bos] ∨ ∃ w, g = [w] ∧ ((∃ s ∈ corpus, w ∈ s) ∨ w = eos) ∧
        (w = eos ∨ (cfg.thr 0 < (occurrences 1 corpus).count [w] ∧ cfg.excl w = false)) :=
  KV.KN.Norm.written_set_corpus1 cfg pv fallback corpus m hm h1 hne hw g

/-- what "pruned" means -/
theorem pruned_eq_false_iff (cfg : Cfg) (full : Spec.Table) (g : Gram) :
    Spec.pruned cfg full g = false ↔
      (g = [unk] ∨ g = [bos] ∨ g = [eos]) ∨
      (cfg.thr (g.length - 1) < Spec.trueCount full g ∧ ∀ w ∈ g, cfg.excl w = false) :=
  KV.KN.Norm.pruned_eq_false_iff cfg full g

/-! ## the whole pipeline -/

/-- **interp_eq / the headline theorem of C05**: for every non-empty corpus of ordinary words,
every order ≥ 1, every non-decreasing threshold vector, every excluded-word set (`pv` = a
vocabulary limit was given), either `--interpolate_unigrams` setting and either fallback:
the streaming pipeline transcribed from the C++ (`AdjustCounts::Run` registers and flush,
`AddRight`/`MergeRight` runs in context order, `PruneNGramStream`, the suffix-order join of
`JointOrder`, sequentially consumed or hash-matched gammas) returns **the same model or the
same error** as the set-based specification: same statistics, discounts, header counts,
uniform, and the same n-grams with the same exact probabilities and back-offs. -/
theorem estimate_eq_spec (cfg : Cfg) (pv : Bool) (fallback : Option Disc) (corpus : List (List Word))
    (h1 : 1 ≤ cfg.order) (hne : corpus ≠ []) (hw : ∀ s ∈ corpus, ∀ w ∈ s, 3 ≤ w)
    (hthr : ∀ i, i < cfg.order - 1 → cfg.thr i ≤ cfg.thr (i + 1))
    (hk : cfg.keepSpecials = true) (hfix : cfg.flushAdjusted = true)
    (hpv : pv = false → ∀ w, cfg.excl w = false) :
    estimate cfg pv fallback corpus = Spec.estimate cfg pv fallback corpus :=
  KV.KN.Interp.estimate_eq_spec cfg pv fallback corpus h1 hne hw hthr hk hfix hpv

example : ∃ (cfg : Cfg) (corpus : List (List Word)), 1 ≤ cfg.order ∧ corpus ≠ [] ∧ (∀ s ∈ corpus, ∀ w ∈ s, 3 ≤ w) ∧
    (∀ i, i < cfg.order - 1 → cfg.thr i ≤ cfg.thr (i + 1)) ∧ cfg.keepSpecials = true ∧ cfg.flushAdjusted = true :=
  ⟨{ order := 3, thr := fun i => if i = 0 then 0 else 1, excl := fun _ => false }, [[3, 4], [3], [4, 3, 5]],
   by decide, by decide, by decide, by decide, rfl, rfl⟩

/-- `estimate_eq_spec` for the variant of the code the current tree contains -/
theorem estimate_eq_spec_tree (cfg : Cfg) (pv : Bool) (fallback : Option Disc) (corpus : List (List Word))
    (h1 : 1 ≤ cfg.order) (hne : corpus ≠ []) (hw : ∀ s ∈ corpus, ∀ w ∈ s, 3 ≤ w)
    (hthr : ∀ i, i < cfg.order - 1 → cfg.thr i ≤ cfg.thr (i + 1))
    (hk : cfg.keepSpecials = KV.Gen.C05.keepSpecials) (hfix : cfg.flushAdjusted = KV.Gen.C05.flushAdjusted)
    (hpv : pv = false → ∀ w, cfg.excl w = false) :
    estimate cfg pv fallback corpus = Spec.estimate cfg pv fallback corpus :=
  estimate_eq_spec cfg pv fallback corpus h1 hne hw hthr (hk.trans (by decide)) (hfix.trans (by decide)) hpv

/-! ## the two in-place compacting iterators (block level) -/

open KV.KN.Blocks in
/-- `CollapseStream`: the consumer sees every record of the block, in order … -/
theorem collapse_block_seen {α : Type} [Inhabited α] (p : α → Bool) (block : List α) :
    (collapseBlock p block).1 = block := collapse_seen p block

open KV.KN.Blocks in
/-- … and the block that flows downstream is a permutation of the records to keep, … -/
theorem collapse_block_perm {α : Type} [Inhabited α] (p : α → Bool) (block : List α) :
    (collapseBlock p block).2.Perm (block.filter fun x => !p x) := collapse_perm p block

open KV.KN.Blocks in
/-- … so for every partition of the stream into blocks the output is, as a multiset, the model's
`collapse` (the stream is sorted again afterwards) -/
theorem collapse_stream_eq (cfg : Cfg) (blocks : List (List (Gram × Nat))) :
    ((collapseStream bosAt1 blocks).2.map fun e => (⟨e.1, e.2, markOf cfg e.2 e.1⟩ : Emit)).Perm
      (collapse cfg blocks.flatten) := collapseStream_collapse cfg blocks

open KV.KN.Blocks in
/-- `PruneNGramStream`, repaired: for every block partition the output stream is the filtered stream -/
theorem prune_stream_fixed {β : Type} (f : Emit → β) (blocks : List (List Emit)) :
    pruneStream true f blocks = (blocks.flatten.filter keptBy).map f := pruneStream_fixed f blocks

open KV.KN.Blocks in
/-- `PruneNGramStream` as it stands: a special unigram that follows a dropped record in its block
is replaced by the dropped record's stale slot (reachable with a renumbered vocabulary) -/
theorem prune_stream_unfixed_false :
    pruneBlock false id [⟨[5], 1, true⟩, ⟨[2], 3, false⟩] = [⟨[5], 1, true⟩] ∧
    pruneBlock true id [⟨[5], 1, true⟩, ⟨[2], 3, false⟩] = [⟨[2], 3, false⟩] ∧
    ([⟨[5], 1, true⟩, ⟨[2], 3, false⟩] : List Emit).filter keptBy = [⟨[2], 3, false⟩] :=
  KV.KN.Blocks.prune_stream_unfixed_false

/-- the tree never count-prunes the special unigrams in the lower-order paths -/
theorem keep_specials_tree : KV.Gen.C05.keepSpecials = true := by decide

/-! ## discounts -/

/-- every order's discount triple is the Chen–Goodman closed form of that order's statistics
when it exists and is in range, else the user's fallback (and an error without one) -/
theorem discounts_eq (fallback : Option Disc) (stats : List OrderStat) (ds : List (Disc × Bool))
    (h : discounts fallback stats = .ok ds) :
    ds.length = stats.length ∧
    ∀ i (hi : i < stats.length) (hj : i < ds.length),
      (chenGoodman stats[i] = some ds[i].1 ∧ ds[i].2 = false) ∨
      (chenGoodman stats[i] = none ∧ fallback = some ds[i].1 ∧ ds[i].2 = true) := by
  unfold discounts at h
  generalize 0 = k at h
  induction stats generalizing k ds with
  | nil => simp [discountsFrom] at h; subst h; simp
  | cons s t ih =>
    unfold discountsFrom at h
    cases hd : discountOf fallback s with
    | none => simp [hd] at h
    | some d =>
      simp only [hd] at h
      cases ht : discountsFrom fallback (k + 1) t with
      | error e => simp [ht] at h
      | ok ds' =>
        simp only [ht] at h
        cases h
        obtain ⟨hl, hall⟩ := ih ds' (k + 1) ht
        refine ⟨by simp [hl], ?_⟩
        intro i hi hj
        cases i with
        | zero =>
          simp only [List.getElem_cons_zero]
          unfold discountOf at hd
          cases hcg : chenGoodman s with
          | some d0 => left; simp [hcg] at hd; subst hd; simp
          | none =>
            right
            simp only [hcg] at hd
            cases hfb : fallback with
            | none => simp [hfb] at hd
            | some f => simp [hfb] at hd; subst hd; simp
        | succ j => simpa using hall j (by simpa using hi) (by simpa using hj)

/-- the Chen–Goodman value itself: `Y = n₁/(n₁+2n₂)`, `Dⱼ = j − (j+1)·Y·nⱼ₊₁/nⱼ` -/
theorem chenGoodman_value (s : OrderStat) (d : Disc) (h : chenGoodman s = some d) :
    s.n1 ≠ 0 ∧ s.n2 ≠ 0 ∧ s.n3 ≠ 0 ∧
    d.d1 = 1 - 2 * ((s.n1 : Rat) / ((s.n1 : Rat) + 2 * (s.n2 : Rat))) * (s.n2 : Rat) / (s.n1 : Rat) ∧
    d.d2 = 2 - 3 * ((s.n1 : Rat) / ((s.n1 : Rat) + 2 * (s.n2 : Rat))) * (s.n3 : Rat) / (s.n2 : Rat) ∧
    d.d3 = 3 - 4 * ((s.n1 : Rat) / ((s.n1 : Rat) + 2 * (s.n2 : Rat))) * (s.n4 : Rat) / (s.n3 : Rat) ∧
    0 ≤ d.d1 ∧ d.d1 ≤ 1 ∧ 0 ≤ d.d2 ∧ d.d2 ≤ 2 ∧ 0 ≤ d.d3 ∧ d.d3 ≤ 3 := by
  unfold chenGoodman at h
  split at h
  · cases h
  · rename_i hz
    simp only at h
    split at h
    · cases h
    · rename_i hr
      cases h
      simp only [not_or, Rat.not_lt] at hz hr
      exact ⟨hz.1, hz.2.1, hz.2.2, rfl, rfl, rfl, hr.1, hr.2.1, hr.2.2.1, hr.2.2.2.1, hr.2.2.2.2.1, hr.2.2.2.2.2⟩

end KV.C05
