import Model.Arpa
import Model.Table
import Model.Score
import Model.Left
import Generated.C08
import Proofs.LeftDeriv
import Proofs.LeftQuirk
import Proofs.LeftSubsume
import Proofs.LeftReveal
import Proofs.LeftRevealB
import Proofs.LeftBoth
import Proofs.LeftSquare
import Proofs.LeftReset
import Proofs.WellFormed
/-! C08 — Chart-state scoring equals left-to-right scoring for every derivation.

Model: `Model/Left.lean` (`lm/left.hh`, `GenericModel::ExtendLeft`/`InternalUnRest`, `lm/partial.hh`) over the
abstract table `T` of `Model/Table.lean`; rest costs are an **arbitrary** function `R` of the n-gram
(`noRest`, `maxRest`, `lowerRest` are instances), so every theorem below holds for all three builders.
Hypotheses (`KV.Left.Hyp`): the model is well-formed, `T` represents it (`TableFor`: real entries + blanks with
backed-off probability, sound extends-left marks), the extends-right marks are **complete** (an entry that is
the context of another table entry is marked — what the unrepaired trie builder violates, pre-observation G),
and the property's premise `ContextsOnlyBackoff`.  `Table.build a` (probing; the repaired trie) satisfies them
(`hyp_build`).  Words are vocabulary ids (`ValidWords`: `Index` maps everything else to `<unk>`). -/
namespace KV.C08
open KV.Arpa KV.Table KV.Score KV.State KV.Left

/-- capacities of `ChartState` as the current tree defines them: the left state holds `KENLM_MAX_ORDER-1`
pointers, the right state as many words and back-offs; a model of order `N ≤ KENLM_MAX_ORDER` never needs more
(`Frag.L_lt`, `StateFor.len_le_N`: at most `N-1`). -/
theorem constants_ok :
    KV.Gen.C08.leftPointers = KV.Gen.C08.kMaxOrder - 1 ∧ KV.Gen.C08.rightWords = KV.Gen.C08.kMaxOrder - 1 ∧
    KV.Gen.C08.rightBackoffs = KV.Gen.C08.kMaxOrder - 1 ∧ KV.Gen.C08.pointerBytes = 8 ∧ KV.Gen.C08.kMaxOrder ≥ 2 := by decide

/-- the property's premise: only n-grams that are contexts of longer n-grams carry a non-zero back-off -/
def ContextsOnlyBackoff (a : Arpa) : Prop :=
  ∀ g e, a.gram g = some e → e.backoff ≠ 0 → ∃ y, a.gram (y :: g) ≠ none

/-- the table every correctly built structure represents satisfies the hypotheses of the chart theorems -/
theorem hyp_of_build (a : Arpa) (wf : WellFormed a) (hp : ContextsOnlyBackoff a) : Hyp a (build a) :=
  hyp_build a wf hp

/-! ### one `ExtendLeft` call -/

/-- **ExtendLeft.**  Let `u :: c` be an n-gram of the table that extends left (the pointer; `c` = the context it was
scored with), let `nu` words of the further context `h` be offered together with the back-offs of the contexts
`c ++ h.take (j+1)`, the longer ones being dead (this is what the right state of the history and the previous
`ExtendLeft` provide).  Then, in the difference form the API returns (`ExtStep`):
`rest(u::c) + ret.prob` is the textbook score of `u` given `c ++ h` — the same probability as scoring with that
context in the first place —, `ngram_length`, `independent_left`, `extend_left` and `rest` are those of the longest
matching entry `u :: c ++ h.take c0`, `backoff_out[0..next_use)` are the back-offs of the contexts
`u :: c ++ h.take (j+1)`, and everything longer than `next_use` is dead again. -/
theorem extendLeft_eq (a : Arpa) (T : Table) (H : Hyp a T) (R : Ptr → Rat) (u : Word) (c h : List Word) (nu : Nat) (back : List Rat)
    (tg : TEntry) (hg : T.lookup (u :: c) = some tg) (hxl : tg.extendsLeft = true)
    (hnu : nu ≤ h.length) (hN : c.length + 1 + nu ≤ a.order) (hgN : c.length + 1 ≤ a.order - 1)
    (hback : back.take nu = (List.range nu).map (fun j => a.boW (c ++ h.take (j+1))))
    (hD : ∀ k, nu < k → k ≤ h.length → ¬ live a (c ++ h.take k)) :
    ∃ c0, ExtStep a T R u c h nu (extendLeft T R (h.take nu) back (u :: c) (c.length + 1)) c0 :=
  extendLeft_step H R u c h nu back tg hg hxl hnu hN hgN hback hD

/-- … in particular the probability is the one of direct scoring with the whole context (`FullScoreForgotState`) -/
theorem extendLeft_prob (a : Arpa) (wf : WellFormed a) (hp : ContextsOnlyBackoff a) (R : Ptr → Rat) (u : Word) (c h : List Word)
    (nu : Nat) (back : List Rat) (tg : TEntry) (hg : (build a).lookup (u :: c) = some tg) (hxl : tg.extendsLeft = true)
    (hu : a.gram [u] ≠ none)
    (hnu : nu ≤ h.length) (hN : c.length + 1 + nu ≤ a.order) (hgN : c.length + 1 ≤ a.order - 1)
    (hback : back.take nu = (List.range nu).map (fun j => a.boW (c ++ h.take (j+1))))
    (hD : ∀ k, nu < k → k ≤ h.length → ¬ live a (c ++ h.take k)) :
    R (u :: c) + (extendLeft (build a) R (h.take nu) back (u :: c) (c.length + 1)).prob =
      (fullScoreForgotState (tableSearch (build a)) (c ++ h) u).1.prob := by
  obtain ⟨c0, hs⟩ := extendLeft_step (hyp_build a wf hp) R u c h nu back tg hg hxl hnu hN hgN hback hD
  rw [forgot_prob_aux wf (build_tableFor a wf _) (c ++ h) hu, ← hs.prob]
  grind

/-! ### the fragment invariant and its two lemmas -/

/-- **Terminal.**  `Frag … ws L rs`: the state of `RuleScore` is the canonical one of the word sequence `ws`
(left pointers = the `L` prefixes that still extend left, right state = the left-to-right state, score = rest costs
of those prefixes + exact scores of the other words). -/
theorem terminal_frag (a : Arpa) (T : Table) (H : Hyp a T) (R : Ptr → Rat) (ws : List Word) (L : Nat) (rs : RS)
    (F : Frag a T R ws L rs) (w : Word) (hw : a.gram [w] ≠ none) :
    ∃ L', Frag a T R (ws ++ [w]) L' (terminal T R rs w) := terminal_frag_aux H R F w hw

/-- **NonTerminal.**  Combining the fragment under construction with a finished fragment (`FragC` = `Frag` after
`Finish`) gives the canonical state and score of the concatenation — whichever of the branches of
`NonTerminal` / `ExtendLeft` / `ProcessRet` / early exit / `UnRest` runs. -/
theorem nonterminal_frag (a : Arpa) (T : Table) (H : Hyp a T) (R : Ptr → Rat) (ws₁ : List Word) (L₁ : Nat) (rs : RS)
    (F : Frag a T R ws₁ L₁ rs) (ws₂ : List Word) (L₂ : Nat) (c : Chart) (p : Rat) (G : FragC a T R ws₂ L₂ c p) :
    ∃ L', Frag a T R (ws₁ ++ ws₂) L' (nonTerminal T R rs c p) := nonTerminal_frag_aux H R F G

/-- every derivation tree of a fragment yields the canonical fragment state of its yield -/
theorem derivation_frag (a : Arpa) (T : Table) (H : Hyp a T) (R : Ptr → Rat) (r : Rule) (hv : ValidWords a r.yield) :
    ∃ L, FragC a T R r.yield L (ruleScore T R none r).1 (ruleScore T R none r).2 := by
  obtain ⟨L, F⟩ := applyRule_frag H R r (init_frag H R) hv
  simp only [List.nil_append] at F
  exact ⟨L, finish_frag H R F⟩

/-! ### whole derivations -/

/-- **Any derivation = left-to-right, once `<s>` has been applied** — over any table satisfying `Hyp` (probing,
repaired trie, the probing table with its unigram sign-bit quirk) and **any** rest-cost function: for every
derivation tree `r` (arbitrary n-ary mix of terminals and non-terminals, each non-terminal scored on its own and
passed with its score) the total returned by `Finish` is the sum of the textbook scores of the words given the
whole history; the right state is the left-to-right state and the left state is empty. -/
theorem any_derivation_table (a : Arpa) (T : Table) (H : Hyp a T) (R : Ptr → Rat) (bos : Word) (r : Rule)
    (hv : ValidWords a r.yield) :
    (ruleScore T R (some bos) r).2 = specSeq a [bos] r.yield ∧
    StateFor a (r.yield.reverse ++ [bos]) (ruleScore T R (some bos) r).1.right ∧
    (ruleScore T R (some bos) r).1.left = { pointers := [], full := true } := by
  have B := applyRule_done H R r (begin_fragB H R bos) hv
  simp only [List.nil_append] at B
  refine ⟨?_, B.right_for, ?_⟩
  · show (applyRule T R (beginSentence T R bos RS.init) r).prob = _
    rw [B.prob_eq]; grind
  · show ({ (applyRule T R (beginSentence T R bos RS.init) r).out.left with
            full := (applyRule T R (beginSentence T R bos RS.init) r).leftDone ||
                    (applyRule T R (beginSentence T R bos RS.init) r).out.left.length == T.order - 1 } : LeftSt) = _
    rw [B.left_eq, B.done]; rfl

/-- the statement of DESIGN §5 for the table of probing / the repaired trie builder -/
theorem any_derivation (a : Arpa) (wf : WellFormed a) (hp : ContextsOnlyBackoff a) (R : Ptr → Rat) (bos : Word) (r : Rule)
    (hv : ValidWords a r.yield) :
    (ruleScore (build a) R (some bos) r).2 = specSeq a [bos] r.yield :=
  (any_derivation_table a (build a) (hyp_build a wf hp) R bos r hv).1

/-- the probing structures (whose unigram sign-bit quirk reports some unigrams as extending left although no bigram
ends in them — known finding of C01 — and therefore keep one more pointer in the left state): same total -/
theorem any_derivation_probing (a : Arpa) (wf : WellFormed a) (hp : ContextsOnlyBackoff a) (R : Ptr → Rat) (bos : Word) (r : Rule)
    (hv : ValidWords a r.yield) :
    (ruleScore (withSignQuirk a (build a)) R (some bos) r).2 = specSeq a [bos] r.yield :=
  (any_derivation_table a _ (hyp_quirk (hyp_build a wf hp)) R bos r hv).1

/-- `BeginNonTerminal(in, prob)` puts `RuleScore` into the canonical state of the incoming fragment, so a rule that
starts with it is covered by `nonterminal_frag`/`terminal_frag` like any other (and gives the same fragment as
`NonTerminal` on a fresh `RuleScore`, `derivation_frag`) -/
theorem beginNonTerminal_frag (a : Arpa) (T : Table) (R : Ptr → Rat) (ws : List Word) (L : Nat) (c : Chart) (p : Rat)
    (G : FragC a T R ws L c p) : Frag a T R ws L (beginNonTerminal c p) :=
  ⟨G.right_for, G.right_norm, G.L_le, G.L_lt, G.ptrs, G.ptr_xl, G.prob_eq, G.open_, G.closed⟩

theorem beginNonTerminal_rule (a : Arpa) (T : Table) (H : Hyp a T) (R : Ptr → Rat) (ws : List Word) (L : Nat) (c : Chart) (p : Rat)
    (G : FragC a T R ws L c p) (r : Rule) (hv : ValidWords a r.yield) :
    ∃ L', FragC a T R (ws ++ r.yield) L' (finish T.order (applyRule T R (beginNonTerminal c p) r)).1
      (finish T.order (applyRule T R (beginNonTerminal c p) r)).2 := by
  obtain ⟨L', F⟩ := applyRule_frag H R r (beginNonTerminal_frag a T R ws L c p G) hv
  exact ⟨L', finish_frag H R F⟩

/-- … which is the total of scoring the words left to right with `FullScore` from `BeginSentenceState` -/
theorem any_derivation_leftToRight (a : Arpa) (wf : WellFormed a) (hp : ContextsOnlyBackoff a) (R : Ptr → Rat) (bos : Word)
    (r : Rule) (hv : ValidWords a r.yield) :
    (ruleScore (build a) R (some bos) r).2 =
      (scoreSeq (tableSearch (build a)) (beginSentenceState (tableSearch (build a)) bos) r.yield).1 := by
  rw [any_derivation a wf hp R bos r hv]
  have tf := build_tableFor a wf (fun _ => false)
  have sb : StateFor a [bos] (beginSentenceState (tableSearch (build a)) bos) := by
    have hN := wf.order_ge
    refine ⟨Nat.le_refl _, by show 1 ≤ a.order - 1; omega, rfl, ?_, fun k h1 h2 => by
      simp [beginSentenceState] at h1; simp at h2; omega⟩
    show [((tableSearch (build a)).lookupUnigram bos).1.backoff] = [a.boW [bos]]
    rw [← tf.bo_eq wf]
    simp only [tableSearch, Table.bo]
    cases (build a).lookup [bos] <;> simp [toFound]
  have key : ∀ (ws h : List Word) (s : State), StateFor a h s → ValidWords a ws →
      (scoreSeq (tableSearch (build a)) s ws).1 = specSeq a h ws := by
    intro ws
    induction ws with
    | nil => intro h s _ _; rfl
    | cons w ws ih =>
      intro h s sf hv'
      have st := step wf tf sf (hv' w List.mem_cons_self)
      simp only [scoreSeq, specSeq, st.1, ih (w :: h) _ st.2 (fun x hx => hv' x (List.mem_cons_of_mem _ hx))]
  exact (key r.yield [bos] _ sb hv).symm

/-- **Fragments on their own, without separate rest costs**: for `Rest() = Prob()` every derivation of a fragment
scores to the left-to-right sum from the null context. -/
theorem no_rest_fragment_table (a : Arpa) (T : Table) (H : Hyp a T) (r : Rule) (hv : ValidWords a r.yield) :
    (ruleScore T (noRest T) none r).2 = specSeq a [] r.yield := by
  obtain ⟨L, G⟩ := derivation_frag a T H (noRest T) r hv
  rw [G.prob_eq, restSum_noRest H r.yield L G.L_le G.L_lt G.ptr_xl]
  have := specSeq_append a (r.yield.take L) (r.yield.drop L) []
  rw [List.take_append_drop, List.append_nil] at this
  rw [this]

theorem no_rest_fragment (a : Arpa) (wf : WellFormed a) (hp : ContextsOnlyBackoff a) (r : Rule) (hv : ValidWords a r.yield) :
    (ruleScore (build a) (noRest (build a)) none r).2 = specSeq a [] r.yield :=
  no_rest_fragment_table a (build a) (hyp_build a wf hp) r hv

/-! ### lm/partial.hh -/

/-- **Subsume** (`between_length = 0`): joining two finished fragments returns, as new `first_left` / `second_right`,
the canonical chart state of the concatenation, and `first + second + adjustment` is its canonical score. -/
theorem subsume_frag (a : Arpa) (T : Table) (H : Hyp a T) (R : Ptr → Rat) (ws₁ : List Word) (L₁ : Nat) (c₁ : Chart) (p₁ : Rat)
    (G₁ : FragC a T R ws₁ L₁ c₁ p₁) (ws₂ : List Word) (L₂ : Nat) (c₂ : Chart) (p₂ : Rat) (G₂ : FragC a T R ws₂ L₂ c₂ p₂) :
    ∃ L', FragC a T R (ws₁ ++ ws₂) L'
      { left := (subsume T R c₁.left c₁.right c₂.left c₂.right 0).2.1, right := (subsume T R c₁.left c₁.right c₂.left c₂.right 0).2.2 }
      (p₁ + p₂ + (subsume T R c₁.left c₁.right c₂.left c₂.right 0).1) := subsume_frag_aux H R G₁ G₂

/-- the canonical description of a word sequence is unique when the extends-left marks are exact (`build a`): any two
derivations of the same yield return the same score and the same number of left pointers, also with rest costs -/
theorem derivation_score_unique (a : Arpa) (wf : WellFormed a) (hp : ContextsOnlyBackoff a) (R : Ptr → Rat) (r r' : Rule)
    (hy : r.yield = r'.yield) (hv : ValidWords a r.yield) :
    (ruleScore (build a) R none r).2 = (ruleScore (build a) R none r').2 := by
  obtain ⟨L, G⟩ := derivation_frag a (build a) (hyp_build a wf hp) R r hv
  obtain ⟨L', G'⟩ := derivation_frag a (build a) (hyp_build a wf hp) R r' (by rw [← hy]; exact hv)
  rw [← hy] at G'
  exact (frag_unique R (xlSound_build a) G G').2

/-- **the adjustment of Subsume is exactly whole − parts**, for all derivations of the parts and of the whole -/
theorem subsume_whole_minus_parts (a : Arpa) (wf : WellFormed a) (hp : ContextsOnlyBackoff a) (R : Ptr → Rat) (r₁ r₂ r : Rule)
    (hy : r.yield = r₁.yield ++ r₂.yield) (hv : ValidWords a r.yield) :
    (subsume (build a) R (ruleScore (build a) R none r₁).1.left (ruleScore (build a) R none r₁).1.right
        (ruleScore (build a) R none r₂).1.left (ruleScore (build a) R none r₂).1.right 0).1 =
      (ruleScore (build a) R none r).2 - (ruleScore (build a) R none r₁).2 - (ruleScore (build a) R none r₂).2 := by
  have H := hyp_build a wf hp
  rw [hy] at hv
  obtain ⟨L₁, G₁⟩ := derivation_frag a (build a) H R r₁ (ValidWords.append_left hv)
  obtain ⟨L₂, G₂⟩ := derivation_frag a (build a) H R r₂ (ValidWords.append_right hv)
  obtain ⟨L, G⟩ := derivation_frag a (build a) H R r (by rw [hy]; exact hv)
  obtain ⟨L', G'⟩ := subsume_frag_aux H R G₁ G₂
  rw [hy] at G
  have := (frag_unique R (xlSound_build a) G G').2
  rw [this]; grind

/-- **RevealAfter, incrementally**: revealing the pointers of a following fragment `A` to a fragment `M` one call at a
time (`after.length = k+1`, `seen = k`) and finally its `full` flag — the protocol of `lm/partial_test.cc` — leaves, as
`M`'s left state, the canonical left state of `M ++ A`, and the accumulated adjustments make up its canonical score. -/
theorem reveal_after (a : Arpa) (T : Table) (H : Hyp a T) (R : Ptr → Rat) (M : List Word) (Lm : Nat) (cM : Chart) (pM : Rat)
    (GM : FragC a T R M Lm cM pM) (A : List Word) (La : Nat) (cA : Chart) (pA : Rat) (GA : FragC a T R A La cA pA) :
    ∃ L' right', FragC a T R (M ++ A) L' { left := (revealAfterAll T R cM cA).1, right := right' }
      (pM + pA + (revealAfterAll T R cM cA).2.2) := revealAfterAll_frag H R GM GA

/-- … so that **the accumulated adjustment is exactly whole − parts**, for all derivations of the parts and the whole -/
theorem reveal_after_whole_minus_parts (a : Arpa) (wf : WellFormed a) (hp : ContextsOnlyBackoff a) (R : Ptr → Rat) (r₁ r₂ r : Rule)
    (hy : r.yield = r₁.yield ++ r₂.yield) (hv : ValidWords a r.yield) :
    (revealAfterAll (build a) R (ruleScore (build a) R none r₁).1 (ruleScore (build a) R none r₂).1).2.2 =
      (ruleScore (build a) R none r).2 - (ruleScore (build a) R none r₁).2 - (ruleScore (build a) R none r₂).2 := by
  have H := hyp_build a wf hp
  rw [hy] at hv
  obtain ⟨L₁, G₁⟩ := derivation_frag a (build a) H R r₁ (ValidWords.append_left hv)
  obtain ⟨L₂, G₂⟩ := derivation_frag a (build a) H R r₂ (ValidWords.append_right hv)
  obtain ⟨L, G⟩ := derivation_frag a (build a) H R r (by rw [hy]; exact hv)
  obtain ⟨L', right', G'⟩ := revealAfterAll_frag H R G₁ G₂
  rw [hy] at G
  have := (frag_unique R (xlSound_build a) G G').2
  rw [this]; grind

/-- **RevealBefore, incrementally**: revealing the words of a preceding fragment `B`'s right state to a fragment `M` one
call at a time (`reveal.length = k+1`, `seen = k`) and finally `reveal_full` if `B`'s left state is full — the protocol of
`lm/partial_test.cc` — leaves, as `M`'s left pointers, the left pointers of `B ++ M` beyond those of `B`, and the
accumulated adjustments make up the canonical score of `B ++ M`. -/
theorem reveal_before (a : Arpa) (T : Table) (H : Hyp a T) (R : Ptr → Rat) (B : List Word) (Lb : Nat) (cB : Chart) (pB : Rat)
    (GB : FragC a T R B Lb cB pB) (M : List Word) (Lm : Nat) (cM : Chart) (pM : Rat) (GM : FragC a T R M Lm cM pM) :
    ∃ L' c', c'.left.pointers = cB.left.pointers ++ (revealBeforeAll T R cB cM).1.pointers ∧
      FragC a T R (B ++ M) L' c' (pB + pM + (revealBeforeAll T R cB cM).2.2) := revealBeforeAll_frag H R GB GM

/-- … so that **the accumulated adjustment is exactly whole − parts**, for all derivations of the parts and the whole -/
theorem reveal_before_whole_minus_parts (a : Arpa) (wf : WellFormed a) (hp : ContextsOnlyBackoff a) (R : Ptr → Rat) (r₁ r₂ r : Rule)
    (hy : r.yield = r₁.yield ++ r₂.yield) (hv : ValidWords a r.yield) :
    (revealBeforeAll (build a) R (ruleScore (build a) R none r₁).1 (ruleScore (build a) R none r₂).1).2.2 =
      (ruleScore (build a) R none r).2 - (ruleScore (build a) R none r₁).2 - (ruleScore (build a) R none r₂).2 := by
  have H := hyp_build a wf hp
  rw [hy] at hv
  obtain ⟨L₁, G₁⟩ := derivation_frag a (build a) H R r₁ (ValidWords.append_left hv)
  obtain ⟨L₂, G₂⟩ := derivation_frag a (build a) H R r₂ (ValidWords.append_right hv)
  obtain ⟨L, G⟩ := derivation_frag a (build a) H R r (by rw [hy]; exact hv)
  obtain ⟨L', c', _, G'⟩ := revealBeforeAll_frag H R G₁ G₂
  rw [hy] at G
  have := (frag_unique R (xlSound_build a) G G').2
  rw [this]; grind

/-- **Both sides, interleaved in any order** (the complete protocol of `lm/partial_test.cc`: `steps` says which side
reveals next; afterwards the `after.full` and `reveal_full` calls): once both sides are completely revealed, the left
pointers are those of `B ++ M ++ A` beyond `B`'s and the accumulated adjustments make up its canonical score. -/
theorem reveal_both (a : Arpa) (T : Table) (H : Hyp a T) (R : Ptr → Rat)
    (B : List Word) (Lb : Nat) (cB : Chart) (pB : Rat) (GB : FragC a T R B Lb cB pB)
    (M : List Word) (Lm : Nat) (cM : Chart) (pM : Rat) (GM : FragC a T R M Lm cM pM)
    (A : List Word) (La : Nat) (cA : Chart) (pA : Rat) (GA : FragC a T R A La cA pA) (steps : List Bool)
    (hall : (revealSteps T R cB cA steps (0, 0, cM.left, cM.right, 0)).1 = cB.right.length ∧
            (revealSteps T R cB cA steps (0, 0, cM.left, cM.right, 0)).2.1 = cA.left.length) :
    ∃ L' c', c'.left.pointers = cB.left.pointers ++ (revealBoth T R cB cM cA steps).1.pointers ∧
      FragC a T R (B ++ (M ++ A)) L' c' (pB + (pM + pA) + (revealBoth T R cB cM cA steps).2.2) :=
  revealBoth_frag H R GB GM GA steps hall

/-- … so that **revealing context incrementally on either side of a fragment, in any order, accumulates exactly the
difference between the whole and its parts** — for all derivations of the three parts and of the whole -/
theorem reveal_both_whole_minus_parts (a : Arpa) (wf : WellFormed a) (hp : ContextsOnlyBackoff a) (R : Ptr → Rat)
    (r₁ r₂ r₃ r : Rule) (hy : r.yield = r₁.yield ++ (r₂.yield ++ r₃.yield)) (hv : ValidWords a r.yield) (steps : List Bool)
    (hall : (revealSteps (build a) R (ruleScore (build a) R none r₁).1 (ruleScore (build a) R none r₃).1 steps
              (0, 0, (ruleScore (build a) R none r₂).1.left, (ruleScore (build a) R none r₂).1.right, 0)).1 =
              (ruleScore (build a) R none r₁).1.right.length ∧
            (revealSteps (build a) R (ruleScore (build a) R none r₁).1 (ruleScore (build a) R none r₃).1 steps
              (0, 0, (ruleScore (build a) R none r₂).1.left, (ruleScore (build a) R none r₂).1.right, 0)).2.1 =
              (ruleScore (build a) R none r₃).1.left.length) :
    (revealBoth (build a) R (ruleScore (build a) R none r₁).1 (ruleScore (build a) R none r₂).1
        (ruleScore (build a) R none r₃).1 steps).2.2 =
      (ruleScore (build a) R none r).2 - (ruleScore (build a) R none r₁).2 - (ruleScore (build a) R none r₂).2 -
        (ruleScore (build a) R none r₃).2 := by
  have H := hyp_build a wf hp
  rw [hy] at hv
  obtain ⟨L₁, G₁⟩ := derivation_frag a (build a) H R r₁ (ValidWords.append_left hv)
  obtain ⟨L₂, G₂⟩ := derivation_frag a (build a) H R r₂ (ValidWords.append_left (ValidWords.append_right hv))
  obtain ⟨L₃, G₃⟩ := derivation_frag a (build a) H R r₃ (ValidWords.append_right (ValidWords.append_right hv))
  obtain ⟨L, G⟩ := derivation_frag a (build a) H R r (by rw [hy]; exact hv)
  obtain ⟨L', c', _, G'⟩ := revealBoth_frag H R G₁ G₂ G₃ steps hall
  rw [hy] at G
  have := (frag_unique R (xlSound_build a) G G').2
  rw [this]; grind

/-! ### non-vacuity and the defect of the unrepaired trie builder (pre-observation G)

`<unk>`=0, `<s>`=1, a=2, b=3, c=4, d=5.  The chain `a b`, `a b c`, `a b c d` is in the model, the suffixes `b c`, `b c d`,
`c d` were pruned (SRI style), so the loader hallucinates the blanks `b c`, `b c d`, `c d`.  Back-offs only on contexts. -/
def demo : Arpa :=
  { order := 4,
    entries := [([0], ⟨-5, 0, false⟩), ([1], ⟨-99, 0, false⟩), ([2], ⟨-1, -1/2, false⟩), ([3], ⟨-2, 0, false⟩),
                ([4], ⟨-3, 0, false⟩), ([5], ⟨-4, 0, false⟩),
                ([3,2], ⟨-1/2, -1/4, false⟩), ([4,3,2], ⟨-1/3, -1/8, false⟩), ([5,4,3,2], ⟨-1/16, 0, false⟩)] }

theorem demo_wf : WellFormed demo := wfB_sound demo (by decide +kernel)

theorem demo_premise : ContextsOnlyBackoff demo := by
  intro g e hg hb
  have hmem := lookup_some_mem _ _ _ hg
  simp only [demo, List.mem_cons, Prod.mk.injEq, List.mem_nil_iff, or_false] at hmem
  rcases hmem with ⟨rfl, rfl⟩ | ⟨rfl, rfl⟩ | ⟨rfl, rfl⟩ | ⟨rfl, rfl⟩ | ⟨rfl, rfl⟩ | ⟨rfl, rfl⟩ | ⟨rfl, rfl⟩ | ⟨rfl, rfl⟩ | ⟨rfl, rfl⟩
  · exact absurd rfl hb
  · exact absurd rfl hb
  · exact ⟨3, by decide⟩
  · exact absurd rfl hb
  · exact absurd rfl hb
  · exact absurd rfl hb
  · exact ⟨4, by decide⟩
  · exact ⟨5, by decide⟩
  · exact absurd rfl hb

/-- the derivation `<s> a ( b c d )` -/
def demoRule : Rule := .cons (.term 2) (.cons (.nt (.cons (.term 3) (.cons (.term 4) (.cons (.term 5) .nil)))) .nil)

example : Hyp demo (build demo) := hyp_of_build demo demo_wf demo_premise
example : ValidWords demo demoRule.yield := by
  intro w hw
  simp only [demoRule, Rule.yield, Item.yield, List.append_nil, List.cons_append, List.nil_append, List.mem_cons,
    List.mem_nil_iff, or_false] at hw
  rcases hw with rfl | rfl | rfl | rfl <;> decide
/-- the blank `b c` is the context of the blank `b c d`: it carries the extends-right mark -/
example : (build demo).lookup [4,3] = some ⟨-3, 0, true, true, true⟩ := by decide +kernel
/-- with all marks in place the derivation scores to the left-to-right total (an instance of `any_derivation`) -/
example : (ruleScore (build demo) (noRest (build demo)) (some 1) demoRule).2 = -1 + -1/2 + -1/3 + -1/16 := by decide +kernel
example : specSeq demo [1] [2,3,4,5] = -1 + -1/2 + -1/3 + -1/16 := by decide +kernel

/-- **Negation for the faithful model of the unrepaired trie builder.**  `BackoffMessages::Apply` drops the messages
that sort after the last real entry of an order, so the blank `b c` loses its extends-right mark
(`unmarked = {b c}`; which blanks are hit depends on the hash order of the vocabulary).  The table still represents
the model (`TableFor`, so left-to-right scoring is unaffected — C01), but the chart total of `<s> a ( b c d )` charges
`bo(a b c) + p(d)` instead of `p(d | a b c)` for the last word: the statement of `any_derivation` is false for this table.
Replayed on `TrieModel` by the `left` stream (class `trailing-blank`). -/
theorem any_derivation_fails_with_dropped_marks :
    ¬ ∀ (unmarked : List Word → Bool) (a : Arpa), WellFormed a → ContextsOnlyBackoff a →
        ∀ (R : Ptr → Rat) (bos : Word) (r : Rule), ValidWords a r.yield →
          (ruleScore (build a unmarked) R (some bos) r).2 = specSeq a [bos] r.yield := by
  intro h
  have := h (fun g => g == [4,3]) demo demo_wf demo_premise (noRest (build demo (fun g => g == [4,3]))) 1 demoRule (by
    intro w hw
    simp only [demoRule, Rule.yield, Item.yield, List.append_nil, List.cons_append, List.nil_append, List.mem_cons,
      List.mem_nil_iff, or_false] at hw
    rcases hw with rfl | rfl | rfl | rfl <;> decide)
  revert this
  decide +kernel

/-- the wrong total: instead of the 4-gram probability −1/16 the last word gets bo(a b c) + p(d) = −1/8 − 4 -/
example : (ruleScore (build demo (fun g => g == [4,3])) (noRest (build demo (fun g => g == [4,3]))) (some 1) demoRule).2 =
    -143/24 := by decide +kernel

/-! ## open chart states are square: two unreachable branches of `NonTerminal` -/

/-- **Every chart state a derivation produces is square**: while `left.full` is false, every word sits in both halves,
`right.length = left.length`.  Any table, any rest function, no hypothesis. -/
theorem open_states_square (T : Table) (R : Ptr → Rat) (bos : Option Word) (r : Rule) :
    ((ruleScore T R bos r).1).left.full = false →
      ((ruleScore T R bos r).1).right.length = ((ruleScore T R bos r).1).left.length :=
  ruleScore_sq T R bos r

/-- **Two branches of `RuleScore::NonTerminal` are unreachable through the API**: with the running object obtained by
applying any items (`pre`, after `BeginSentence` or not) and the argument state obtained from any derivation `r`,
neither `left.hh:105-106` (`right.length == 0`, `!left_done_`, `left.length != 0`) nor the shortcut `left.hh:135-137`
(`!in.left.full && in.right.length < in.left.length`) can be taken.  (kenlm's own tests never execute them either;
mutants inside them are equivalent mutants for every caller that only passes states made by `RuleScore`.) -/
theorem nonterminal_dead_branches (T : Table) (R : Ptr → Rat) (bos : Option Word) (pre r : Rule) :
    let rs0 := match bos with | some b => beginSentence T R b RS.init | none => RS.init
    let rs := applyRule T R rs0 pre
    let c := (ruleScore T R none r).1
    ¬ (rs.out.right.length = 0 ∧ rs.leftDone = false ∧ rs.out.left.length ≠ 0) ∧
    ¬ (c.left.full = false ∧ c.right.length < c.left.length) := by
  intro rs0 rs c
  have h0 : Sq rs0 := by
    cases bos with
    | none => exact init_sq
    | some b => exact beginSentence_sq T R b RS.init
  have hs : Sq rs := applyRule_sq T R pre h0
  have hc : SqC c := ruleScore_sq T R none r
  refine ⟨fun ⟨h1, h2, h3⟩ => ?_, fun ⟨h1, h2⟩ => ?_⟩
  · have := hs h2; omega
  · have := hc h1; omega

/-! ## API histories: a reused `RuleScore` is a fresh one -/

/-- **`Reset` makes a used object observationally fresh.**  Whatever the history of the object (`rs`) and whatever
stale value `out_->left.full` holds in the target state, a rule application scored after `Reset()` /
`Reset(ChartState&)` (optionally `BeginSentence()` first) finishes with exactly the chart state and score of a fresh
`RuleScore`: `left.full` is never read before `Finish` overwrites it.  Hence every C08 theorem about `ruleScore`
applies verbatim to decoders that keep one object (results of non-terminals are values, so by this theorem a bottom-up
decoder that resets one object before every rule computes the same values as `applyRule`, which scores kids afresh).
`BeginNonTerminal` overwrites the whole object (`beginNonTerminal` does not take the old one). -/
theorem reset_equiv_fresh (T : Table) (R : Ptr → Rat) (stale : Bool) (rs : RS) (bos : Option Word) (r : Rule) :
    finish T.order (applyRule T R
      (match bos with | some b => beginSentence T R b (reset stale rs) | none => reset stale rs) r) = ruleScore T R bos r := by
  unfold ruleScore
  apply finish_eqF
  apply applyRule_eqF
  cases bos with
  | none => exact reset_eqF stale rs
  | some b => exact beginSentence_eqF T R b (reset_eqF stale rs)

/-- the object after any closed-left history: here just `BeginSentence(); Finish()` -/
def usedObject : RS := beginSentence (build demo) (noRest (build demo)) 1 RS.init

/-- **The seeded variant C08-6 (`Reset` keeps `left_done_`) is not observationally fresh**: on the reused object the
fragment `b c d` records no left pointers and is marked full with length 0 … -/
theorem reset_keeping_done_not_fresh :
    ¬ ∀ (T : Table) (R : Ptr → Rat) (stale : Bool) (rs : RS) (r : Rule),
        finish T.order (applyRule T R (resetKeepsDone stale rs) r) = ruleScore T R none r := by
  intro h
  have := h (build demo) (noRest (build demo)) false usedObject (.cons (.term 3) (.cons (.term 4) (.cons (.term 5) .nil)))
  revert this
  decide +kernel

/-- … and the left context applied later is ignored: `<s> a ( b c d )` with the kid scored on the reused object
does not total to the left-to-right score (with `reset` it does, by `reset_equiv_fresh` and `any_derivation`). -/
theorem reset_keeping_done_breaks_total :
    (let T := build demo; let R := noRest T
     let kid := finish T.order (applyRule T R (resetKeepsDone false usedObject)
                  (.cons (.term 3) (.cons (.term 4) (.cons (.term 5) .nil))))
     (finish T.order (nonTerminal T R (terminal T R (beginSentence T R 1 RS.init) 2) kid.1 kid.2)).2)
      ≠ specSeq demo [1] [2,3,4,5] := by
  decide +kernel

example :
    (let T := build demo; let R := noRest T
     let kid := finish T.order (applyRule T R (reset true usedObject)
                  (.cons (.term 3) (.cons (.term 4) (.cons (.term 5) .nil))))
     (finish T.order (nonTerminal T R (terminal T R (beginSentence T R 1 RS.init) 2) kid.1 kid.2)).2)
      = specSeq demo [1] [2,3,4,5] := by
  decide +kernel

end KV.C08
