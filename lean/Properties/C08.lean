import Model.Arpa
import Model.Table
import Model.Score
import Model.Left
import Generated.C08
/-! C08 — Chart-state scoring equals left-to-right scoring for every derivation. -/
namespace KV.C08
open KV.Arpa KV.Table KV.Score KV.State KV.Left

/-- capacities of `ChartState` as the current tree defines them: the left state holds `KENLM_MAX_ORDER-1`
pointers, the right state as many words and back-offs; a model of order `N ≤ KENLM_MAX_ORDER` never needs more
(`Frag`: at most `N-1` pointers / words). -/
theorem constants_ok :
    KV.Gen.C08.leftPointers = KV.Gen.C08.kMaxOrder - 1 ∧ KV.Gen.C08.rightWords = KV.Gen.C08.kMaxOrder - 1 ∧
    KV.Gen.C08.rightBackoffs = KV.Gen.C08.kMaxOrder - 1 ∧ KV.Gen.C08.pointerBytes = 8 ∧ KV.Gen.C08.kMaxOrder ≥ 2 := by decide

end KV.C08
