import Proofs.FilterCtlLive
import Proofs.FilterCtlFifo
import Proofs.FilterCtlReserve
import Properties.C17
/-!
# C12 — Filter output does not depend on thread count, batch size or scheduling

Model: `Model/FilterCtl.lean` (reader = `Controller` + destructors, `workers` `FilterWorker`s,
one `OutputWorker`, three bounded FIFO queues, recycled batches with `MultipleOutputBuffer`).
`Reach cfg prog s` = `s` is reachable from the initial state by *any* interleaving of the
threads' atomic steps; the theorems quantify over all of them.

Main theorems (code with the three repairs, `Variant.fixed`):
* `ctl_output`       every finished run made exactly the calls of the sequential filter on the
                     output object, in the same order (hence every file is byte-identical for
                     every thread count, batch size, queue length and schedule; no n-gram lost,
                     duplicated, reordered or sent to the wrong file), and never evaluated
                     `back()` of an empty vector;
* `ctl_no_deadlock`  every reachable unfinished state has an enabled thread;
* `ctl_terminates`   every step decreases a natural-number measure, so with `ctl_no_deadlock`
                     every maximal run is finite and ends in a finished state.

Section `Old`: the same statements are **false** for the code before the repairs; the
negations are proved with minimal witnesses that `checks/C12.py` replays on the real tool.
-/
namespace KV.C12
open KV.FilterCtl KV.Filter

variable {α : Type}

/-- **Output = sequential filter, for all inputs, configurations and schedules.** -/
theorem ctl_output (cfg : Cfg α) (hv : cfg.variant = Variant.fixed) (hq : 1 ≤ cfg.queue)
    (prog : List (ROp α)) (hp : wf false prog = true)
    (s : State α) (hr : Reach cfg prog s) (hd : Terminal s) :
    s.out = seqLog cfg.f prog ∧ s.ub = false := by
  obtain ⟨c, hc⟩ := reach_inv hv hq hp hr
  exact inv_terminal hc hd

/-- the programs the two input formats produce are well-formed -/
theorem wf_arpaOrders (k : Nat) (orders : List (List α)) : wf false (arpaOrders k orders) = true := by
  induction orders generalizing k with
  | nil => simp [arpaOrders, wf]
  | cons o os ih =>
    have hadd : ∀ (d : Bool) (l : List α) (r : List (ROp α)), wf d (l.map ROp.add ++ ROp.flush :: r) = wf false r := by
      intro d l r
      induction l generalizing d with
      | nil => simp [wf]
      | cons x l ihl => simp [wf, ihl]
    simp [arpaOrders, wf, hadd, ih]

theorem wf_rawProgram (items : List α) : wf false (rawProgram items) = true := by
  have hadd : ∀ (d : Bool) (l : List α), wf d (l.map ROp.add ++ [ROp.flush]) = true := by
    intro d l
    induction l generalizing d with
    | nil => simp [wf]
    | cons x l ihl => simp [wf, ihl]
  exact hadd false items

/-- ARPA input: any orders, any `threads`/`batch_size`/`queue`, any schedule -/
theorem ctl_output_arpa (cfg : Cfg α) (hv : cfg.variant = Variant.fixed) (hq : 1 ≤ cfg.queue)
    (orders : List (List α)) (s : State α) (hr : Reach cfg (arpaProgram orders) s) (hd : Terminal s) (k : Nat) :
    fileLog k s.out = fileLog k (seqLog cfg.f (arpaProgram orders)) :=
  congrArg (fileLog k) (ctl_output cfg hv hq _ (wf_arpaOrders 1 orders) s hr hd).1

/-- raw-count input (with `filter.Flush()` after `ReadCount`) -/
theorem ctl_output_raw (cfg : Cfg α) (hv : cfg.variant = Variant.fixed) (hq : 1 ≤ cfg.queue)
    (items : List α) (s : State α) (hr : Reach cfg (rawProgram items) s) (hd : Terminal s) (k : Nat) :
    fileLog k s.out = fileLog k (seqLog cfg.f (rawProgram items)) :=
  congrArg (fileLog k) (ctl_output cfg hv hq _ (wf_rawProgram items) s hr hd).1

/-- **No reachable unfinished state is stuck.** -/
theorem ctl_no_deadlock (cfg : Cfg α) (hv : cfg.variant = Variant.fixed) (hq : 1 ≤ cfg.queue)
    (hw : 1 ≤ cfg.workers) (prog : List (ROp α)) (hp : wf false prog = true)
    (s : State α) (hr : Reach cfg prog s) : ¬ Deadlocked cfg s := by
  obtain ⟨c, hc, hl⟩ := reach_live hv hq hw hp hr
  exact live_not_deadlocked hq hw hc hl

/-- **Every step makes progress**: `measure` strictly decreases along every step of every
thread, so no schedule runs forever. -/
theorem ctl_terminates (cfg : Cfg α) (s s' : State α) (t : Tid) (hst : step cfg s t = some s') :
    measure cfg s' < measure cfg s :=
  measure_decreases cfg t hst

/-- **`InputBuffer` never reallocates** (`batch_never_exceeds_reserve`): in every reachable state in
which the reader is about to run `AddNGram`, the current batch holds fewer than `batch_size` lines —
so line number `input.length` fits in the `Reserve(batch_size)` made by `Controller`, `lines_` keeps
its storage, and the `StringPiece`s into the (possibly small-buffer) strings stay valid.  Holds for
every variant of the controller (the reservation in thread.hh is what must be ≥ `batch_size`;
seeded/C12-6 lowers it and is caught by the large-batch class of the check). -/
theorem batch_never_exceeds_reserve (cfg : Cfg α) (hb : 1 ≤ cfg.batchSize) (prog : List (ROp α)) (s : State α)
    (hr : Reach cfg prog s) (hrun : s.rpc = .run) (top : Batch α) (lr : List (Batch α)) (hl : s.localRead = top :: lr) :
    top.input.length < cfg.batchSize :=
  curBelow_reach cfg hb prog hr hrun top lr hl

/-! ### the FIFO assumption

`FilterCtl` treats `filter_.in_`, `output_.in_` and `to_read_` as atomic bounded FIFOs.  This is
not an extra axiom: (1) every step of every thread touches each queue by at most one
`KV.Chain.fifoPush cfg.queue` / `KV.Chain.fifoPop` (`ctl_queues_are_fifo`), and (2) property
C17's `KV.C17.pcqueue_refines_fifo` proves that the step-level model of `util::PCQueue` (two
semaphores, two mutexes, ring buffer; every interleaving) refines exactly these two operations,
each linearised between the call and the return of its `Produce` / `Consume`
(`pcqueue_is_fifo` re-exports it so that the dependency is checked by the build).  What remains
assumed is that thread-local work on an exclusively owned batch commutes with other threads. -/

theorem ctl_queues_are_fifo (cfg : Cfg α) (s s' : State α) (t : Tid) (hst : step cfg s t = some s') :
    QueuesFifo cfg s s' :=
  step_queues_fifo cfg t hst

/-- C17's refinement theorem, restated for the capacity of the filter's queues: along every
schedule of any producers `ps` / consumers `qs` the linearised operations of the PCQueue
implementation model are a run of the atomic FIFO of capacity `cfg.queue`. -/
theorem pcqueue_is_fifo (cfg : Cfg α) (hq : 0 < cfg.queue) (ps : List (List Nat)) (qs : List Nat)
    (sched : List Nat) (s : KV.PCQueue.State)
    (hrun : KV.PCQueue.runSched (KV.PCQueue.mkInit cfg.queue ps qs) sched = some s) :
    KV.PCQueue.fifoRun cfg.queue [] (KV.PCQueue.events (KV.PCQueue.mkInit cfg.queue ps qs) sched)
      = some (KV.PCQueue.absBuf s) :=
  (KV.C17.pcqueue_refines_fifo (cap := cfg.queue) (ps := ps) (qs := qs) hq).2 sched s hrun

/-! Non-vacuity: a concrete finished run with two workers, reordered completions. -/
section Example
def exF : Nat → Verdict := fun x => if x = 0 then .all else .only [x % 2]
def exCfg : Cfg Nat := ⟨2, 4, 2, Variant.fixed, exF, fun _ => 8⟩
def exProg : List (ROp Nat) := arpaProgram [[1, 2, 3, 0, 5], [6, 7]]
abbrev R := Tid.reader
abbrev O := Tid.outw
abbrev W := Tid.worker
/-- worker 1 finishes the second batch before worker 0 finishes the first -/
def exSched : List Tid :=
  [R, R, R, R, R, W 0, W 1, W 1, O, W 0, O, O, O, R, R, R, R, W 0, W 0, O, O, R, R, R, R, R, R, R, W 0, W 0, O, O,
   R, R, R, R, R, R, R, W 0, W 1, R, R, O, R]

example : (decide (wf false exProg = true) &&
    (match exec exCfg (init exCfg exProg) exSched with
     | some s => decide (s.rpc = .done) && decide (s.out = seqLog exF exProg) && decide (s.out.length = 12)
     | none => false)) = true := by decide
end Example

/-! ## Old: the code before the repairs (each defect alone) -/
namespace Old

def execP (cfg : Cfg Nat) (s : State Nat) (sched : List Tid) (P : State Nat → Bool) : Bool :=
  match exec cfg s sched with
  | some s' => P s'
  | none => false

theorem exec_reach {cfg : Cfg Nat} {prog : List (ROp Nat)} {s s' : State Nat} (sched : List Tid)
    (hr : Reach cfg prog s) (he : exec cfg s sched = some s') : Reach cfg prog s' := by
  induction sched generalizing s with
  | nil => simp [exec] at he; subst he; exact hr
  | cons t ts ih =>
    simp only [exec] at he
    split at he
    · cases he
    · rename_i s1 h1
      exact ih (Reach.step t hr h1) he

theorem execP_reach {cfg : Cfg Nat} {prog : List (ROp Nat)} {sched : List Tid} {P : State Nat → Bool}
    (h : execP cfg (init cfg prog) sched P = true) : ∃ s, Reach cfg prog s ∧ P s = true := by
  unfold execP at h
  split at h
  · rename_i s' he; exact ⟨s', exec_reach sched Reach.init he, h⟩
  · cases h

def fAll : Nat → Verdict := fun _ => .all

/-- B1 only: `NewInput` takes a fresh sequence number every time -/
def cfgB1 : Cfg Nat := ⟨1, 4, 2, ⟨true, false⟩, fAll, fun _ => 1⟩
/-- two orders with one n-gram each, `threads:2 batch_size:1` -/
def progB1 : List (ROp Nat) := arpaProgram [[1], [2]]
def schedB1 : List Tid := [R, R, R, W 0, W 0, O, O, R, R, R, R, R, R, W 0, W 0, O]

/-- **B1** `ctl_no_deadlock` is false before the repair: `Flush` with an empty current batch
leaves sequence number 1 unused; the output worker waits for it forever while the reader waits
in `Flush` for the batch the output worker holds. -/
theorem not_ctl_no_deadlock :
    ¬ (∀ (prog : List (ROp Nat)), wf false prog = true → ∀ s, Reach cfgB1 prog s → ¬ Deadlocked cfgB1 s) := by
  intro h
  have hw : execP cfgB1 (init cfgB1 progB1) schedB1 (fun s => decide (Deadlocked cfgB1 s)) = true := by decide
  obtain ⟨s, hr, hs⟩ := execP_reach hw
  exact h progB1 (by decide) s hr (of_decide_eq_true hs)

/-- B2: the repaired `Controller`, but `CountFormat::RunFilter` without `filter.Flush()` -/
def cfgB2 : Cfg Nat := ⟨2, 4, 2, Variant.fixed, fAll, fun _ => 1⟩
def schedB2 : List Tid := [R, R, R, R, W 0, W 1, R, R, O, R]

/-- **B2** one raw line with `batch_size:2`: the run finishes and has written nothing. -/
theorem not_ctl_output_raw :
    ¬ (∀ (items : List Nat) (s : State Nat), Reach cfgB2 (rawProgramOld items) s → Terminal s →
        s.out = seqLog cfgB2.f (rawProgramOld items)) := by
  intro h
  have hw : execP cfgB2 (init cfgB2 (rawProgramOld [1])) schedB2
      (fun s => decide (s.rpc = .done) && decide (s.out = []) && decide (seqLog fAll (rawProgramOld [1]) = [.line none 1])) = true := by
    decide
  obtain ⟨s, hr, hs⟩ := execP_reach hw
  simp only [Bool.and_eq_true, decide_eq_true_eq] at hs
  have := h [1] s hr hs.1.1
  rw [hs.1.2] at this
  have h2 := hs.2
  simp only [cfgB2] at this
  rw [h2] at this
  cases this

/-- B3 only: `MultipleOutputBuffer::Flush` keeps `last_`.  Lines: 0 = the unigram (context
empty: all files), 1,2 = "a b" (file 1), 3…8 = "b a" (file 0), 9 = "<s> b" (all files),
10 = "a c" (file 1); all of length 8. -/
def f3 : Nat → Verdict := fun x =>
  if x = 0 ∨ x = 9 then .all else if x = 1 ∨ x = 2 ∨ x = 10 then .only [1] else .only [0]
def cfgB3 : Cfg Nat := ⟨2, 4, 2, ⟨false, true⟩, f3, fun _ => 8⟩
def progB3 : List (ROp Nat) := arpaProgram [[0], [1, 2, 3, 4, 5, 6, 7, 8, 9, 10]]
def schedB3 : List Tid :=
  [R, R, R, W 0, W 0, O, O, R, R, R, R, R, R, R, R, R, R, R, R, W 0, W 0, O, O, R, R, R, W 0, W 0, O, O, R, R,
   W 0, W 0, O, O, R, W 0, W 0, O, O, R, W 0, W 0, O, O, R, R, R, R, R, R, R, W 0, W 1, R, R, O, R]

/-- **B3** `ctl_output` is false before the repair, without any undefined behaviour: the
fifth bigram batch reuses the storage of the first; "a c" has the address and length of the
remembered "a b", so its file number is appended to the entry of "<s> b", which is then written
to file 1 only, and "a c" is written nowhere. -/
theorem not_ctl_output_last :
    ¬ (∀ (prog : List (ROp Nat)), wf false prog = true → ∀ s, Reach cfgB3 prog s → Terminal s →
        s.out = seqLog cfgB3.f prog ∧ s.ub = false) := by
  intro h
  have hw : execP cfgB3 (init cfgB3 progB3) schedB3
      (fun s => decide (s.rpc = .done) && !s.ub && decide (s.out ≠ seqLog f3 progB3) &&
        decide (fileLog 0 s.out ≠ fileLog 0 (seqLog f3 progB3)) && decide (fileLog 1 s.out ≠ fileLog 1 (seqLog f3 progB3))) = true := by
    decide
  obtain ⟨s, hr, hs⟩ := execP_reach hw
  simp only [Bool.and_eq_true, decide_eq_true_eq] at hs
  exact hs.1.1.2 (h progB3 (by decide) s hr hs.1.1.1.1).1

/-- B3 with the undefined behaviour: five equal-length unigrams of one sentence,
`batch_size:1`; the fifth line meets its own stale address in an empty buffer. -/
def cfgB3u : Cfg Nat := ⟨1, 4, 2, ⟨false, true⟩, fun _ => .only [0], fun _ => 8⟩
def schedB3u : List Tid :=
  [R, R, R, R, R, W 0, W 0, O, O, R, R, W 0, W 0, O, O, R, R, W 0, W 0, O, O, R, W 0, W 0, O, O, R, W 0, W 0, O, O,
   R, R, R, R, R, R, R, W 0, W 1, R, R, O, R]

theorem not_ctl_output_last_ub :
    ∃ s, Reach cfgB3u (arpaProgram [[1, 2, 3, 4, 5]]) s ∧ Terminal s ∧ s.ub = true := by
  have hw : execP cfgB3u (init cfgB3u (arpaProgram [[1, 2, 3, 4, 5]])) schedB3u
      (fun s => decide (s.rpc = .done) && s.ub) = true := by decide
  obtain ⟨s, hr, hs⟩ := execP_reach hw
  simp only [Bool.and_eq_true, decide_eq_true_eq] at hs
  exact ⟨s, hr, hs.1, hs.2⟩

end Old

end KV.C12
