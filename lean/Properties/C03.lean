import Model.QuantBins
import Proofs.Quant
import Proofs.SearchSim
import Proofs.ProbingRefines
import Properties.C01
import Properties.C02
/-! C03 — All model data structures are observationally equivalent.

The query algorithm is proved against the *interface* `TableFor a T`; whatever a structure does
internally (probing with any multiplier, trie with any pointer compression, any sort memory), if its
lookups refine a table that represents the model, the results coincide.  The refinement of the two
concrete searches to the table rests on the C20 theorems (exact map, interpolation search, bit fields)
and is tied by the six-way differential stream. -/
namespace KV.C03
open KV.Arpa KV.Table KV.Score KV.State KV.QuantBins

/-- two structures that both represent the model give the same probability for every valid state and word -/
theorem prob_independent_of_table (a : Arpa) (wf : WellFormed a) (T₁ T₂ : Table) (tf₁ : TableFor a T₁) (tf₂ : TableFor a T₂)
    (h : List Word) (s : State) (sf : StateFor a h s) (w : Word) (hw : a.gram [w] ≠ none) :
    (fullScore (tableSearch T₁) s w).1.prob = (fullScore (tableSearch T₂) s w).1.prob := by
  rw [KV.C01.fullScore_prob_table a T₁ wf tf₁ h s sf w hw, KV.C01.fullScore_prob_table a T₂ wf tf₂ h s sf w hw]

theorem forgot_prob_independent_of_table (a : Arpa) (wf : WellFormed a) (T₁ T₂ : Table) (tf₁ : TableFor a T₁) (tf₂ : TableFor a T₂)
    (ctx : List Word) (w : Word) (hw : a.gram [w] ≠ none) :
    (fullScoreForgotState (tableSearch T₁) ctx w).1.prob = (fullScoreForgotState (tableSearch T₂) ctx w).1.prob := by
  rw [forgot_prob_aux wf tf₁ ctx hw, forgot_prob_aux wf tf₂ ctx hw]

/-- pre-observation G cannot change a left-to-right probability: whichever blanks lose their
extends-right mark in the trie builder, every sequence scores as with all marks present (probing),
even though the two runs go through *different* (shorter) states. -/
theorem trie_mark_loss_harmless (a : Arpa) (wf : WellFormed a) (unmarked : List Word → Bool) (ws : List Word)
    (hv : ∀ w ∈ ws, a.gram [w] ≠ none) :
    (scoreSeq (tableSearch (build a unmarked)) nullContextState ws).1 =
      (scoreSeq (tableSearch (build a)) nullContextState ws).1 := by
  rw [(KV.C01.scoreSeq_spec a wf unmarked ws [] _ (KV.C01.stateFor_null a) hv).1,
      (KV.C01.scoreSeq_spec a wf (fun _ => false) ws [] _ (KV.C01.stateFor_null a) hv).1]

/-- **Refinement interface**: any two searches related by a depth-indexed node relation under which every lookup of
the generic algorithm returns the same result give the same `FullScore` results (probability, rest, matched length,
left-independence flag, out-state) for every in-state and word.  The concrete structures plug in here. -/
theorem search_refinement {ν₁ ν₂ : Type} (S₁ : Search ν₁) (S₂ : Search ν₂) (R : Nat → ν₁ → ν₂ → Prop) (sim : Sim S₁ S₂ R)
    (hN : 2 ≤ S₁.order) (s : State) (w : Word) :
    (fullScore S₁ s w).1.prob = (fullScore S₂ s w).1.prob ∧
    (fullScore S₁ s w).1.ngramLength = (fullScore S₂ s w).1.ngramLength ∧
    (fullScore S₁ s w).1.independentLeft = (fullScore S₂ s w).1.independentLeft ∧
    (fullScore S₁ s w).1.rest = (fullScore S₂ s w).1.rest ∧
    (fullScore S₁ s w).2 = (fullScore S₂ s w).2 := fullScore_sim S₁ S₂ R sim hN s w

/-- **probing_refines**: the probing search (`HashedSearch`: per-order probing tables keyed by the chained word hash,
node = hash so far) gives exactly the results of the abstract table it represents — for *every* state and word,
any bucket counts / probing multiplier (they only enter through the C20 invariant `Inv`/`Abs` of each table, which
`run_refines_map` establishes for any insertion sequence below capacity), any combining function, provided the
chained hash is injective on the table's n-grams (explicit hypothesis; checked per generated model). -/
theorem probing_refines (combine : Nat → Word → Nat) (P : KV.ProbingLM.PLM) (T : Table)
    (Mmid : Nat → Nat → Option Nat) (Mlong : Nat → Option Nat)
    (rep : KV.ProbingLM.Represents combine P T Mmid Mlong) (inj : KV.ProbingLM.HashInjective combine T)
    (hN : 2 ≤ T.order) (s : State) (w : Word) :
    (fullScore (KV.ProbingLM.search combine P) s w).1.prob = (fullScore (tableSearch T) s w).1.prob ∧
    (fullScore (KV.ProbingLM.search combine P) s w).1.ngramLength = (fullScore (tableSearch T) s w).1.ngramLength ∧
    (fullScore (KV.ProbingLM.search combine P) s w).1.independentLeft = (fullScore (tableSearch T) s w).1.independentLeft ∧
    (fullScore (KV.ProbingLM.search combine P) s w).1.rest = (fullScore (tableSearch T) s w).1.rest ∧
    (fullScore (KV.ProbingLM.search combine P) s w).2 = (fullScore (tableSearch T) s w).2 :=
  fullScore_sim _ _ _ (KV.ProbingLM.probing_sim combine P T Mmid Mlong rep inj hN)
    (by show 2 ≤ P.order; rw [rep.order]; exact hN) s w

/-- hence: a probing model that represents `build a unmarked` returns the ARPA recursion -/
theorem probing_prob (a : Arpa) (wf : WellFormed a) (unmarked : List Word → Bool) (combine : Nat → Word → Nat)
    (P : KV.ProbingLM.PLM) (Mmid : Nat → Nat → Option Nat) (Mlong : Nat → Option Nat)
    (rep : KV.ProbingLM.Represents combine P (build a unmarked) Mmid Mlong)
    (inj : KV.ProbingLM.HashInjective combine (build a unmarked))
    (h : List Word) (s : State) (sf : StateFor a h s) (w : Word) (hw : a.gram [w] ≠ none) :
    (fullScore (KV.ProbingLM.search combine P) s w).1.prob = score a h w := by
  rw [(probing_refines combine P _ Mmid Mlong rep inj wf.order_ge s w).1]
  exact KV.C01.fullScore_prob a wf unmarked h s sf w hw

/-! ### quantisation (pre-observation D) -/

/-- **`quant_exact` — lossless by count.**  If the values of an order, counted with multiplicity, are no more than
the bins, every value is decoded exactly (each equal-population bin holds at most one value; the encoder finds
the first centre equal to the value). Unbounded: any sorted list, any number of bins. -/
theorem quant_exact (vals : List Rat) (bins : Nat) (hsorted : vals.Pairwise (· ≤ ·)) (hn : vals.length ≤ bins)
    (v : Rat) (hv : v ∈ vals) : roundTrip vals bins v = some v :=
  count_fits_lossless vals bins hsorted hn v hv

/-- **Equal multiplicity.**  The property's own wording (“no more distinct values than bins”) *is* true of the code
when every distinct value occurs equally often: `k` distinct values × `m` copies each with `k` bins give
homogeneous bins whose mean is the value itself. (In float32/double the sum of `m < 2^29` copies of a float is
exact, which the `equalmult` stream checks bit-exactly on the real code.) -/
theorem quant_equal_multiplicity_lossless (m : Nat) (hm : 0 < m) (ds : List Rat) (hsorted : ds.Pairwise (· < ·))
    (v : Rat) (hv : v ∈ ds) : roundTrip (ds.flatMap (List.replicate m)) ds.length v = some v :=
  equal_multiplicity_lossless m hm ds hsorted v hv

/-- each equal-population bin holds at most one value when count ≤ bins -/
theorem quant_bin_singleton (n bins i : Nat) (hb : 0 < bins) (hn : n ≤ bins) :
    binHi n bins i - binLo n bins i ≤ 1 := bin_width_le_one n bins i hb hn

example : [-3/4, -1/2, -1/4].all (fun v => roundTrip [-3/4, -1/2, -1/4] 4 v == some v) = true := by decide +kernel
example : roundTrip ([-3/4, -1/4].flatMap (List.replicate 3)) 2 (-3/4) = some (-3/4) := by decide +kernel

/-- The property's wording (“no order has more *distinct* values than bins”) is **false** for the code as it is:
two distinct values, two bins, but four values — `-3/4` decodes to the mean `-1/2`.  Replayed on
`QuantTrieModel` by the `quant-witness` stream (known finding). -/
theorem quant_distinct_fails :
    ¬ ∀ (vals : List Rat) (bins : Nat) (v : Rat), vals.eraseDups.length ≤ bins → v ∈ vals → roundTrip vals bins v = some v := by
  intro h
  have := h [-3/4, -1/4, -1/4, -1/4] 2 (-3/4) (by decide +kernel) (by simp)
  revert this
  decide +kernel

example : roundTrip [-3/4, -1/4, -1/4, -1/4] 2 (-3/4) = some (-1/2) := by decide +kernel

/-- `backoff_bits = 1` leaves `2^1 − 2 = 0` bins besides the two reserved codes; `Bins::Encode(value, 2)` on the
empty range returns the code `2`, which does not fit the 1-bit field (`WriteInt25` does not mask): every
non-zero back-off is stored as code `2 mod 2 = 0` = "no extension" and the neighbouring bit is set.
So "same structural results as the unquantised trie" fails for this configuration (known finding). -/
theorem quant_backoff_one_bit_overflows (v : Rat) :
    encodeFrom 2 [] v = 2 ∧ ¬ (encodeFrom 2 [] v < 2 ^ 1) ∧ (2 ^ 1 - 2 = 0) := by
  simp [encodeFrom, lowerBound]

/-- A bin centre is stored as float32.  Back-offs in the sub-normal range can average to a value that
underflows to `-0.0` — the bit pattern reserved for "no extension": the mean of {−9.8e−45, −1.4e−45, +9.8e−45}
is negative and below 2⁻¹⁵⁰ in magnitude, so the centre reads back as `kNoExtensionBackoff` and every
back-off encoded to that bin loses its "extends right" mark (known finding, observed on QuantTrieModel). -/
theorem quant_centre_underflow_witness :
    mean [-98 / 10^46, -14 / 10^46, 98 / 10^46] < 0 ∧
    KV.Arpa.flushBackoff (mean [-98 / 10^46, -14 / 10^46, 98 / 10^46]) = 0 := by decide +kernel

end KV.C03
