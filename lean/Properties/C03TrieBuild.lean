import Proofs.TrieBuild
import Properties.C03Trie
/-!
# C03 (trie clause, builder) — lm/search_trie.cc between the ARPA n-grams and the trie memory

Model: `Model/TrieBuild.lean` (`visitOrder`, `visit` = `BlankManager::Visit`, `messageKeys`/`blankProb` = `SRISucks::Send` +
`BackoffMessages::Apply`, extension marks, error classes, then the fold `TrieLM.ofTable`).  It is tied to the real builder on
every run of check C04 (stream `triebuild`): the memory it produces from the parsed n-grams equals **byte for byte** the
search region of the file the real `build_binary trie` wrote (generated models incl. SRI-pruned chains and shared multi-level
blanks), the array / quantised variants are compared through lookups, and the verified checker `TrieLM.check` is executed on
the model-built trie of every generated model (`represents=true` ⇒, by `check_sound`, `Represents (ofTable …) (tableOf (ftOf …))`
for that instance).

## Intended end-to-end statement (NOT proved in general; kept visible)
```
theorem trie_build_represents (a : Arpa) (wf : WellFormed a) … :
    buildTrie fadd order bound start (gramsOf a) = .ok M → ∃ rng, Represents fval M (Table.build a) rng
theorem trie_end_to_end … : (fullScore (TrieLM.search fval M) s w).1.prob = score a h w      -- = trie_prob ∘ trie_build_represents
```
What is proved towards it (general, unbounded): `trie_build_represents_partial` (the `BlankManager` pass: blanks are exactly
non-real proper prefixes based on the longest real proper prefix; missing-unigram error only when a unigram is missing),
`trie_write_frame` (memory = OR of pairwise disjoint fields ⇒ every field reads back, for any number of writes),
the strict order lemmas of the visit order.  Gaps, named: (G1) `visitOrder` of a duplicate-free list is `KeysLt` (insertion
sort + trichotomy of `keyLt`; any batching gives the same list by C16 `extSort_unique`); (G2) the field list of `ofTable` is
pairwise disjoint (from C04 `trie_regions` + record arithmetic) and the level/`childStarts` combinatorics give sorted child
ranges = `rngOf` — together with `trie_write_frame` this is `Represents (ofTable bt …)`; (G3) `blankProb` with exact addition
= `score a ctx w` and the extension marks = `Table.build`'s `extendsRight` (needs a value encoding between `Arpa`'s rationals
and float bits); (G4) `ofTable` for ArrayBhiksha / SeparatelyQuantize layouts (only compared through lookups).
G2 is discharged *per instance* on every generated model by the verified checker (stream `triebuild`).
-/
namespace KV.C03TrieBuild
open KV.Arpa KV.TrieLM KV.TrieBuild

/-- **trie_write_frame** (frame + read-back for any number of writes): a memory built by OR-ing pairwise disjoint bit fields
(each value fitting its width) into zero — what any sequence of `WriteInt57` / `WriteInt25` / `WriteFloat32` /
`WriteNonPositiveFloat31` / whole-word stores into zero-initialised memory is — returns every field's value on read; earlier and
later writes do not disturb it. -/
theorem trie_write_frame (fs : List Field) (hd : fs.Pairwise Field.Disj) (hv : ∀ f ∈ fs, f.val < 2^f.len)
    (f : Field) (hf : f ∈ fs) : (orFields 0 fs >>> f.off) % 2^f.len = f.val :=
  orFields_read fs hd hv f hf

example : orFields 0 [⟨0, 3, 5⟩, ⟨3, 31, 7⟩, ⟨34, 32, 9⟩, ⟨66, 2, 3⟩] >>> 34 % 2^32 = 9 := by decide

/-- the visit order is a strict order: irreflexive, asymmetric, transitive; a proper prefix comes before its extensions -/
theorem key_order (a b c : List Nat) :
    keyLt a a = false ∧ (keyLt a b = true → keyLt b a = false) ∧ (keyLt a b = true → keyLt b c = true → keyLt a c = true)
    ∧ ∀ n, n < a.length → keyLt (a.take n) a = true :=
  ⟨keyLt_irrefl a, keyLt_asymm a b, keyLt_trans a b c, keyLt_take a⟩

/-- **trie_build_represents_partial** — the `BlankManager` pass (the logic seeded mutant C03-3 breaks), for every strictly
increasing visit order with non-empty keys, of any length and order:
* if it fails, the error is "missing unigram" and some visited n-gram's newest word indeed has no unigram entry;
* otherwise every blank it creates is a proper prefix (length ≥ 2) of a visited key that is *not* a real n-gram, its basis is the
  probability of the real n-gram at `basedOn`, and no proper prefix of that key longer than `basedOn` is real — i.e. the
  basis is the longest real proper prefix below the blank, all blank orders in between having been invalidated.
Missing for the full `trie_build_represents`: gaps G1–G4 of the header. -/
theorem trie_build_represents_partial (L : List Gram) (hk : KeysLt L) (hne : ∀ g ∈ L, 1 ≤ g.key.length) :
    match visitAll L with
    | .ok st => ∀ b ∈ st.blanks, ∃ g ∈ L, BlankOK L g b
    | .error e => e = .missingUnigram ∧ ∃ g ∈ L, 2 ≤ g.key.length ∧ realOf L (g.key.take 1) = none :=
  visit_spec L hk hne

/-- one step, with the invariant of `been_` / `basis_` spelled out (`Inv`) -/
theorem visit_invariant (pre post : List Gram) (g : Gram) (st : VisitState)
    (hk : KeysLt (pre ++ g :: post)) (hlen : 1 ≤ g.key.length)
    (hinv : Inv (pre ++ g :: post) st ((pre.getLast?.map (·.key)).getD [])) :
    match visit st g with
    | .ok st' => Inv (pre ++ g :: post) st' g.key ∧
        ∃ nb, st'.blanks = st.blanks ++ nb ∧ ∀ b ∈ nb, BlankOK (pre ++ g :: post) g b
    | .error e => e = .missingUnigram ∧ 2 ≤ g.key.length ∧ realOf (pre ++ g :: post) (g.key.take 1) = none :=
  visit_step pre post g st hk hlen hinv

/-- non-vacuity: the example model of `C03Trie.ExampleBuilt` (13 entries after the blank `b c`): its 12 real n-grams are visited
in strict order and the pass creates exactly the blank `[4, 5]` based on the unigram `[4]` -/
def exampleGrams : List Gram :=
  [⟨[0], 3221225472, 2147483648⟩, ⟨[1], 3267756032, 3204448256⟩, ⟨[2, 1], 3204448256, 3196059648⟩,
   ⟨[2], 3208642560, 3196059648⟩, ⟨[3], 3214934016, 2147483648⟩, ⟨[3, 5], 3210739712, 2147483648⟩,
   ⟨[4], 3212836864, 2147483648⟩, ⟨[4, 2], 3213885440, 2147483648⟩, ⟨[4, 5, 2], 3200253952, 0⟩,
   ⟨[5], 3217031168, 3187671040⟩, ⟨[5, 2], 3206545408, 3200253952⟩, ⟨[5, 2, 1], 3196059648, 0⟩]

example : KeysLt (visitOrder exampleGrams) := by unfold KeysLt; decide

example : (match visitAll (visitOrder exampleGrams) with
    | .ok st => some (st.blanks.map (fun b => (b.key, b.basedOn, b.basis)))
    | .error _ => none) = some [([4, 5], 1, 3212836864)] := by decide

end KV.C03TrieBuild
