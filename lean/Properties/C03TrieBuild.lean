import Proofs.TrieBuild
import Proofs.TrieOfTable
import Proofs.TrieShape
import Proofs.TrieBuildClosed
import Proofs.TrieBuildBlanks
import Properties.C03Trie
/-!
# C03 (trie clause, builder) — lm/search_trie.cc between the ARPA n-grams and the trie memory

Model: `Model/TrieBuild.lean` (`visitOrder`, `visit` = `BlankManager::Visit`, `messageKeys`/`blankProb` = `SRISucks::Send` +
`BackoffMessages::Apply`, extension marks, error classes, then the fold `TrieLM.ofTable`).  It is tied to the real builder on
every run of check C04 (stream `triebuild`): the memory it produces from the parsed n-grams equals **byte for byte** the
search region of the file the real `build_binary trie` wrote (generated models incl. SRI-pruned chains and shared multi-level
blanks), the array / quantised variants are compared through lookups, and the verified checker `TrieLM.check` is executed on
the model-built trie of every generated model (`represents=true` ⇒, by `check_sound`, `Represents (ofTable …) (tableOf (ftOf …))`
for that instance).

## Intended end-to-end statement (NOT proved in general; kept visible)
```
theorem trie_build_represents (a : Arpa) (wf : WellFormed a) … :
    buildTrie fadd order bound start (gramsOf a) = .ok M → ∃ rng, Represents fval M (Table.build a) rng
theorem trie_end_to_end … : (fullScore (TrieLM.search fval M) s w).1.prob = score a h w      -- = trie_prob ∘ trie_build_represents
```
Status after round 7 (all general, unbounded unless marked):
* G1, G2, G2b CLOSED — `visit_order_strict`, `ofTable_represents_general`, `trie_build_refines_general`, `shape_ok`.
* G3 CLOSED, INCLUDING MODELS THAT NEED BLANKS — `trie_build_represents`, `trie_end_to_end`: for every well-formed ARPA model
  (prefix/context-closed, vocabulary listed in the unigrams; NOT necessarily suffix-closed) with a value encoding (`ArpaEncW`)
  and float sums that are exact on its blanks (`BlankArith`: proper model, representable values):
  the `BlankManager` pass succeeds and creates exactly the missing reversed prefixes, each once (`trie_build_blanks_exact`,
  from the invariant `Full`: soundness, completeness, uniqueness via contiguity of prefix blocks in the visit order);
  a blank's probability is the back-off recursion `score a ctx w` (`blank_score`: basis = longest real prefix, operands =
  back-offs of the asked contexts); the context streams + `SRISucks` messages (incl. the leftover loop) mark exactly
  `isContext` (`marks_iff_isContext`); children = `extendsLeft`; so the bit table agrees with `Table.build a` on every key
  (`gen_table_agree`, up to the ghost flag `blank`: `TableAgree`, `Represents.transfer`), and FullScore over the memory the trie
  builder writes = `score a h w`.  Suffix-closed special case: `trie_end_to_end_closed`.
  Instances: `example_end_to_end_closed` (bigram model), `example_end_to_end_pruned` (trigram model needing the blank `b c`).
* ROUND 7, MODEL REPAIR (hallucinated `<unk>`): when the ARPA has no `<unk>` unigram the real builder runs on the zeroed slot 0
  of the unigram file and `unknown_missing_logprob` is written only afterwards; a blank whose newest word is `<unk>` is therefore
  computed from 0, not −100 (known finding `blank-based-on-hallucinated-unk` of C01).  The model now does the same
  (`unkSlot`, `withUnkSlot`, `fixUnk`, `buildTableU`, `buildTableArpa`; `ArpaEncW.unk0`: the builder reads zero bits for the
  hallucinated entry; `build_from_arpa` links the file's n-grams to these records), the `triebuild` stream compares it byte for
  byte with `build_binary` on that class, and `trie_build_represents` / `trie_end_to_end` carry the hypothesis `UnkOK`
  (`basis`: with a hallucinated `<unk>` no blank has word 0 as its newest word — the class on which code ≠ ARPA recursion is
  excluded; `val`/`bits`: the fix-up value).  `unk_class_deviates` (decide): on the corpus model the built table has −0.125 for
  `b <unk>` where `Table.build` has −100.125.  `example_end_to_end_unk`: all hypotheses hold for a hallucinated-`<unk>` model
  with n-grams ending in the literal `<unk>` and a blank elsewhere.
* G4 CLOSED IN ROUND 8 up to the layout hypothesis `ShapeG` — see Properties/C03TrieG.lean (`ofTableG_represents` for all four
  trie classes, `trie_end_to_end_array`, `trie_end_to_end_quant_exact`; byte-for-byte stream `triebuild4`).
* Modelling assumptions that remain hypotheses: exactness of the float sums on the model's blanks (`BlankArith`), the value
  encoding (`ArpaEncW`), sizes below 2^57 (`SmallOK`); SortedVocabulary renumbering and the merge of sorted batches are
  modelled by their result (C20 `sorted_vocab_correct`, C16 `extSort_unique`).
-/
namespace KV.C03TrieBuild
open KV.Arpa KV.TrieLM KV.TrieBuild

/-- **trie_write_frame** (frame + read-back for any number of writes): a memory built by OR-ing pairwise disjoint bit fields
(each value fitting its width) into zero — what any sequence of `WriteInt57` / `WriteInt25` / `WriteFloat32` /
`WriteNonPositiveFloat31` / whole-word stores into zero-initialised memory is — returns every field's value on read; earlier and
later writes do not disturb it. -/
theorem trie_write_frame (fs : List Field) (hd : fs.Pairwise Field.Disj) (hv : ∀ f ∈ fs, f.val < 2^f.len)
    (f : Field) (hf : f ∈ fs) : (orFields 0 fs >>> f.off) % 2^f.len = f.val :=
  orFields_read fs hd hv f hf

example : orFields 0 [⟨0, 3, 5⟩, ⟨3, 31, 7⟩, ⟨34, 32, 9⟩, ⟨66, 2, 3⟩] >>> 34 % 2^32 = 9 := by decide

/-- the visit order is a strict order: irreflexive, asymmetric, transitive; a proper prefix comes before its extensions -/
theorem key_order (a b c : List Nat) :
    keyLt a a = false ∧ (keyLt a b = true → keyLt b a = false) ∧ (keyLt a b = true → keyLt b c = true → keyLt a c = true)
    ∧ ∀ n, n < a.length → keyLt (a.take n) a = true :=
  ⟨keyLt_irrefl a, keyLt_asymm a b, keyLt_trans a b c, keyLt_take a⟩

/-- **trie_build_represents_partial** — the `BlankManager` pass (the logic seeded mutant C03-3 breaks), for every strictly
increasing visit order with non-empty keys, of any length and order:
* if it fails, the error is "missing unigram" and some visited n-gram's newest word indeed has no unigram entry;
* otherwise every blank it creates is a proper prefix (length ≥ 2) of a visited key that is *not* a real n-gram, its basis is the
  probability of the real n-gram at `basedOn`, and no proper prefix of that key longer than `basedOn` is real — i.e. the
  basis is the longest real proper prefix below the blank, all blank orders in between having been invalidated.
Missing for the full `trie_build_represents`: gaps G1–G4 of the header. -/
theorem trie_build_represents_partial (L : List Gram) (hk : KeysLt L) (hne : ∀ g ∈ L, 1 ≤ g.key.length) :
    match visitAll L with
    | .ok st => ∀ b ∈ st.blanks, ∃ g ∈ L, BlankOK L g b
    | .error e => e = .missingUnigram ∧ ∃ g ∈ L, 2 ≤ g.key.length ∧ realOf L (g.key.take 1) = none :=
  visit_spec L hk hne

/-- one step, with the invariant of `been_` / `basis_` spelled out (`Inv`) -/
theorem visit_invariant (pre post : List Gram) (g : Gram) (st : VisitState)
    (hk : KeysLt (pre ++ g :: post)) (hlen : 1 ≤ g.key.length)
    (hinv : Inv (pre ++ g :: post) st ((pre.getLast?.map (·.key)).getD [])) :
    match visit st g with
    | .ok st' => Inv (pre ++ g :: post) st' g.key ∧
        ∃ nb, st'.blanks = st.blanks ++ nb ∧ ∀ b ∈ nb, BlankOK (pre ++ g :: post) g b
    | .error e => e = .missingUnigram ∧ 2 ≤ g.key.length ∧ realOf (pre ++ g :: post) (g.key.take 1) = none :=
  visit_step pre post g st hk hlen hinv

/-- non-vacuity: the example model of `C03Trie.ExampleBuilt` (13 entries after the blank `b c`): its 12 real n-grams are visited
in strict order and the pass creates exactly the blank `[4, 5]` based on the unigram `[4]` -/
def exampleGrams : List Gram :=
  [⟨[0], 3221225472, 2147483648⟩, ⟨[1], 3267756032, 3204448256⟩, ⟨[2, 1], 3204448256, 3196059648⟩,
   ⟨[2], 3208642560, 3196059648⟩, ⟨[3], 3214934016, 2147483648⟩, ⟨[3, 5], 3210739712, 2147483648⟩,
   ⟨[4], 3212836864, 2147483648⟩, ⟨[4, 2], 3213885440, 2147483648⟩, ⟨[4, 5, 2], 3200253952, 0⟩,
   ⟨[5], 3217031168, 3187671040⟩, ⟨[5, 2], 3206545408, 3200253952⟩, ⟨[5, 2, 1], 3196059648, 0⟩]

example : KeysLt (visitOrder exampleGrams) := by unfold KeysLt; decide

example : (match visitAll (visitOrder exampleGrams) with
    | .ok st => some (st.blanks.map (fun b => (b.key, b.basedOn, b.basis)))
    | .error _ => none) = some [([4, 5], 1, 3212836864)] := by decide


/-! ## Round 4: G1 and G2 closed -/

/-- **G1** — the visit order (insertion sort by `keyLt`) of a list on which the duplicate check passed is strictly increasing;
and it is a rearrangement of the input (same members). -/
theorem visit_order_strict (gs : List Gram) (hd : hasDuplicate (visitOrder gs) = false) :
    KeysLt (visitOrder gs) ∧ ∀ x, x ∈ visitOrder gs ↔ x ∈ gs :=
  ⟨visitOrder_keysLt gs hd, mem_visitOrder gs⟩

/-- hence the `BlankManager` theorem applies to what `buildTable` actually visits -/
theorem trie_build_visit (gs : List Gram) (hd : hasDuplicate (visitOrder gs) = false) (hne : ∀ g ∈ gs, 1 ≤ g.key.length) :
    match visitAll (visitOrder gs) with
    | .ok st => ∀ b ∈ st.blanks, ∃ g ∈ visitOrder gs, BlankOK (visitOrder gs) g b
    | .error e => e = .missingUnigram ∧ ∃ g ∈ visitOrder gs, 2 ≤ g.key.length ∧ realOf (visitOrder gs) (g.key.take 1) = none :=
  trie_build_represents_partial _ (visitOrder_keysLt gs hd) (fun g hg => hne g ((mem_visitOrder gs g).mp hg))

/-- **regions_read** (G2, memory part): in a memory assembled from regions of fixed-stride records whose bit extents follow one
another (record `i` of a region occupies bits `[base + i·stride, base + (i+1)·stride)`, slots at fixed offsets inside), every
written slot reads back its value. -/
theorem trie_regions_read (Rs : List RegionSpec) (hok : ∀ R ∈ Rs, R.OK) (hord : Rs.Pairwise RegionSpec.Before)
    (R : RegionSpec) (hR : R ∈ Rs) (i s v : Nat) (hi : i < R.nrec) (hs : s < R.slots.length) (hv : R.val i s = some v) :
    (orFields 0 (allFields Rs) >>> (R.base + i * R.stride + R.slotOff s)) % 2^(R.slotLen s) = v :=
  regions_read Rs hok hord R hR i s v hi hs hv

/-- **G2 — `Represents (ofTable bt …) (tableOf bt)` in general** (plain `TrieModel` layout): for every bit table with unique
keys, all unigrams, word ids below the bound and every entry's parent present (`BTOK`: what the builder delivers after blank
insertion), 32-bit values (`ValsOK`), any order ≥ 2, any number of entries: the memory the fold `ofTable` writes represents
the table — every record is read back (`regions_read`), child ranges are the running next pointers (`rngOf`), sorted, complete,
with an end-pointer record per order.  `ShapeOK` are the layout facts of the C04 model for this shape (bit widths
`RequiredBits`, total bits without `uint8` wrap, the regions in file order); decidable per instance (`example_shape_ok`). -/
theorem ofTable_represents (fval : Nat → Rat) (bt : BT) (bound order start : Nat) (ok : BTOK bt bound order) (hv : ValsOK bt)
    (sh : ShapeOK bt bound order start) :
    Represents fval (ofTable bt bound order start) (tableOf (ftOf fval bt order) order) (rngOf bt bound) :=
  KV.TrieLM.ofTable_represents fval bt bound order start ok hv sh

open KV.Score KV.State in
/-- **trie_build_refines**: FullScore over the memory the MODEL builder writes = FullScore over the bit table, for every
state and word with valid ids — no `Represents` hypothesis. -/
theorem trie_build_refines (fval : Nat → Rat) (bt : BT) (bound order start : Nat) (ok : BTOK bt bound order) (hv : ValsOK bt)
    (sh : ShapeOK bt bound order start) (s : State) (w : Word) (hw : w < bound)
    (hs : ∀ x ∈ s.words.take s.length, x < bound) :
    (fullScore (search fval (ofTable bt bound order start)) s w).1.prob
        = (fullScore (tableSearch (tableOf (ftOf fval bt order) order)) s w).1.prob ∧
    (fullScore (search fval (ofTable bt bound order start)) s w).1.ngramLength
        = (fullScore (tableSearch (tableOf (ftOf fval bt order) order)) s w).1.ngramLength ∧
    (fullScore (search fval (ofTable bt bound order start)) s w).1.independentLeft
        = (fullScore (tableSearch (tableOf (ftOf fval bt order) order)) s w).1.independentLeft ∧
    (fullScore (search fval (ofTable bt bound order start)) s w).1.rest
        = (fullScore (tableSearch (tableOf (ftOf fval bt order) order)) s w).1.rest ∧
    (fullScore (search fval (ofTable bt bound order start)) s w).2
        = (fullScore (tableSearch (tableOf (ftOf fval bt order) order)) s w).2 := by
  have hb : (ofTable bt bound order start).bound = bound := ofTable_bound bt bound order start (by have := ok.order2; omega)
  exact KV.C03Trie.trie_refines fval _ _ _ (ofTable_represents fval bt bound order start ok hv sh) ok.order2 s w
    (by rw [hb]; exact hw) (by rw [hb]; exact hs)

/-- non-vacuity: the hypotheses hold for the example model (13 entries incl. the blank) -/
theorem example_btok : BTOK KV.C03Trie.ExampleBuilt.bt 6 3 := by
  refine ⟨by decide, by decide, by decide, by decide, ?_, ?_⟩
  · intro w hw
    have : w = 0 ∨ w = 1 ∨ w = 2 ∨ w = 3 ∨ w = 4 ∨ w = 5 := by omega
    rcases this with rfl | rfl | rfl | rfl | rfl | rfl <;> exact (lookup_ne_none_iff _ _).mp (by decide)
  · have h : ∀ p ∈ KV.C03Trie.ExampleBuilt.bt, 2 ≤ p.1.length → KV.C03Trie.ExampleBuilt.bt.lookup p.1.dropLast ≠ none := by decide
    intro p hp h2; exact (lookup_ne_none_iff _ _).mp (h p hp h2)

theorem example_vals : ValsOK KV.C03Trie.ExampleBuilt.bt := by unfold ValsOK; decide

instance : DecidableRel RegionSpec.Before := fun a b => by unfold RegionSpec.Before; infer_instance

/-- the layout facts hold for the example (search region at file offset 192, as in the real file) -/
theorem example_shape_ok : ShapeOK KV.C03Trie.ExampleBuilt.bt 6 3 192 := by
  refine ⟨by decide +kernel, ?_, ⟨379, by decide +kernel⟩, by decide +kernel, ⟨by decide +kernel, by decide +kernel⟩,
    ⟨by decide, by decide +kernel⟩⟩
  intro om2 h
  have : om2 = 0 := by omega
  subst this
  exact ⟨320, by decide +kernel⟩

/-- so, unconditionally for this model: FullScore over the memory `ofTable` writes (= the bytes of the real file,
`C03Trie.ExampleBuilt.built_eq_real_file`) equals FullScore over its bit table -/
theorem example_build_refines (s : KV.State.State) (w : Word) (hw : w < 6) (hs : ∀ x ∈ s.words.take s.length, x < 6) :
    (KV.Score.fullScore (search f32ToRat (ofTable KV.C03Trie.ExampleBuilt.bt 6 3 192)) s w).1.prob
      = (KV.Score.fullScore (KV.Score.tableSearch (tableOf (ftOf f32ToRat KV.C03Trie.ExampleBuilt.bt 3) 3)) s w).1.prob :=
  (trie_build_refines f32ToRat _ 6 3 192 example_btok example_vals example_shape_ok s w hw hs).1


/-! ## Round 5: G2b closed — no layout hypothesis -/

/-- **G2b** — the layout facts follow from the C04 layout model (`Binary.trieSetup`: closed form of the middle loop, widths
from `RequiredBits`, no `uint8` wrap, regions in file order) whenever the vocabulary bound and the level sizes are below 2^57 -/
theorem shape_ok (bt : BT) (bound order start : Nat) (sm : SmallOK bt bound order) : ShapeOK bt bound order start :=
  shapeOK_of_small bt bound order start sm

/-- `Represents (ofTable bt …) (tableOf bt)` with no layout hypothesis -/
theorem ofTable_represents_general (fval : Nat → Rat) (bt : BT) (bound order start : Nat) (ok : BTOK bt bound order) (hv : ValsOK bt)
    (sm : SmallOK bt bound order) :
    Represents fval (ofTable bt bound order start) (tableOf (ftOf fval bt order) order) (rngOf bt bound) :=
  ofTable_represents fval bt bound order start ok hv (shape_ok bt bound order start sm)

open KV.Score KV.State in
/-- **trie_build_refines_general** — FullScore over the memory the model builder writes = FullScore over the bit table; hypotheses
only about the table (well-formed, 32-bit values, sizes below 2^57) -/
theorem trie_build_refines_general (fval : Nat → Rat) (bt : BT) (bound order start : Nat) (ok : BTOK bt bound order) (hv : ValsOK bt)
    (sm : SmallOK bt bound order) (s : State) (w : Word) (hw : w < bound) (hs : ∀ x ∈ s.words.take s.length, x < bound) :
    (fullScore (search fval (ofTable bt bound order start)) s w).1.prob
        = (fullScore (tableSearch (tableOf (ftOf fval bt order) order)) s w).1.prob ∧
    (fullScore (search fval (ofTable bt bound order start)) s w).2
        = (fullScore (tableSearch (tableOf (ftOf fval bt order) order)) s w).2 := by
  have := trie_build_refines fval bt bound order start ok hv (shape_ok bt bound order start sm) s w hw hs
  exact ⟨this.1, this.2.2.2.2⟩


/-! ## Round 5: G3 for suffix-closed models — end to end without `Represents` -/

open KV.Table KV.Score KV.State in
/-- **trie_build_represents_closed** — for every well-formed suffix-closed ARPA model (every `lmplz` output) with a value
encoding (`ArpaEnc`: `P`/`B` give the float bits `read_arpa.cc` stores, `fval` decodes them exactly; zero back-off is `-0.0`
except the hallucinated `<unk>`), sizes below 2^57: the model of `lm/search_trie.cc` (`buildTable`: visit order, `BlankManager`,
messages, extension marks) succeeds, creates no blank, and the memory the fold `ofTable` writes from its bit table
**represents `Table.build a`** — entries, probabilities, back-offs, extends-left (= some longer n-gram ends in it) and
extends-right (= non-zero back-off, or context of a longer n-gram, or the hallucinated `<unk>`). -/
theorem trie_build_represents_closed (fval : Nat → Rat) (fadd : Nat → Nat → Nat) (a : Arpa) (bound start : Nat)
    (P B : List Word → Nat) (enc : ArpaEnc fval a bound P B)
    (sm : SmallOK (closedTable a.order (visitOrder (gramsOf a P B))) bound a.order) :
    ∃ b, buildTable fadd a.order (gramsOf a P B) = .ok b ∧ b.blanks = [] ∧
      Represents fval (ofTable b.table bound a.order start) (Table.build a) (rngOf b.table bound) := by
  obtain ⟨counts, hb⟩ := buildTable_closed fadd enc
  refine ⟨_, hb, rfl, ?_⟩
  have := ofTable_represents_general fval _ bound a.order start (closedTable_btok enc) (closedTable_vals enc) sm
  rw [closed_table_eq enc] at this
  exact this

open KV.Table KV.Score KV.State in
/-- **trie_end_to_end_closed** — ARPA → trie builder → memory → every query = the ARPA back-off recursion, with no `Represents`
and no layout hypothesis: for every well-formed suffix-closed model that lists `<unk>` (for a hallucinated `<unk>` use
`trie_end_to_end`, whose builder run starts from the zeroed slot), `FullScore` over the memory the trie builder writes returns
`score a h w` for every state reached by left-to-right scoring and every vocabulary word (ids below the bound). -/
theorem trie_end_to_end_closed (fval : Nat → Rat) (fadd : Nat → Nat → Nat) (a : Arpa) (bound start : Nat)
    (P B : List Word → Nat) (enc : ArpaEnc fval a bound P B) (_hu : a.unkHallucinated = false)
    (sm : SmallOK (closedTable a.order (visitOrder (gramsOf a P B))) bound a.order)
    (h : List Word) (st : State) (sf : StateFor a h st) (w : Word) (hw : a.gram [w] ≠ none)
    (hwb : w < bound) (hs : ∀ x ∈ st.words.take st.length, x < bound) :
    ∃ M, buildTrie fadd a.order bound start (gramsOf a P B) none = .ok M ∧
      (fullScore (search fval M) st w).1.prob = score a h w := by
  obtain ⟨b, hb, _, rep⟩ := trie_build_represents_closed fval fadd a bound start P B enc sm
  refine ⟨ofTable b.table bound a.order start, by simp [buildTrie, buildTableU, fixUnk, hb], ?_⟩
  have hbd : (ofTable b.table bound a.order start).bound = bound :=
    ofTable_bound _ bound a.order start (by have := enc.wf.order_ge; omega)
  exact KV.C03Trie.trie_prob a enc.wf (fun _ => false) fval _ _ rep h st sf w hw (by rw [hbd]; exact hwb) (by rw [hbd]; exact hs)


/-- **blank_value_partial** (towards models with blanks): under an exact addition shared by builder and table, the probability
the builder gives a blank is its basis (probability of the longest real proper prefix, `trie_build_represents_partial`) plus the
back-offs of the asked contexts `to[1..1+i)`, `i = basedOn … order-1`, in that order — the operand list of the back-off recursion
`score`.  Missing for `trie_end_to_end` with blanks: identifying this sum with `score a ctx w` and the message-based extension
marks with `Table.build`'s. -/
theorem blank_value_partial (fval : Nat → Rat) (fadd : Nat → Nat → Nat) (hadd : ∀ x y, fval (fadd x y) = fval x + fval y)
    (hz : fval minusZero = 0 ∧ fval plusZero = 0) (gs : List Gram) (b : Blank) :
    fval (blankProb fadd gs b) = fval b.basis + ((messageKeys b).map (msgValue fval gs)).sum :=
  blankProb_value fval fadd hadd hz gs b

/-! ## Round 6: models that need blanks (SRI-pruned) — end to end -/

/-- what the float arithmetic must satisfy on the model at hand (`ArpaEncW` is about the parsed values), for every blank the
pass creates: the float sum `base[..] += backoff` the builder computes (`blankProb`, additions in message order) decodes to the
exact sum of the decoded operands, fits 32 bits and survives the non-positive 31-bit encoding of `WriteNonPositiveFloat31`
(proper model: blank scores ≤ 0).  `blank_value_partial`: an addition that is exact on all bit patterns gives the third clause. -/
structure BlankArith (fval : Nat → Rat) (fadd : Nat → Nat → Nat) (a : Arpa) (P B : List Word → Nat) : Prop where
  sums : ∀ st, visitAll (visitOrder (gramsOf a P B)) = .ok st → ∀ b ∈ st.blanks,
    blankProb fadd (visitOrder (gramsOf a P B)) b < 2^32 ∧
    fval (blankProb fadd (visitOrder (gramsOf a P B)) b % 2^31 + 2^31) = fval (blankProb fadd (visitOrder (gramsOf a P B)) b) ∧
    fval (blankProb fadd (visitOrder (gramsOf a P B)) b)
      = fval b.basis + ((messageKeys b).map (msgValue fval (visitOrder (gramsOf a P B)))).sum

open KV.Table KV.Score KV.State in
/-- **trie_build_represents** — for every well-formed ARPA model, suffix-closed or not (SRI-pruned models included), with a value
encoding and exact arithmetic on its values: the model of `lm/search_trie.cc` succeeds; the blanks it creates are exactly the
missing reversed prefixes, each once (`visit_full`); its bit table agrees with `Table.build a` on every key — real entries and
blanks, probabilities (blank = the back-off recursion `score`), back-offs, extends-left, and extends-right from the context
streams and the `SRISucks` messages incl. the leftover loop (`gen_table_agree`); and the memory `ofTable` writes from it
**represents `Table.build a`**. -/
theorem trie_build_represents (fval : Nat → Rat) (fadd : Nat → Nat → Nat) (a : Arpa) (bound start : Nat)
    (P B : List Word → Nat) (U : Nat) (enc : ArpaEncW fval a bound P B) (uk : UnkOK fval a U) (ar : BlankArith fval fadd a P B)
    (sm : ∀ st, visitAll (visitOrder (gramsOf a P B)) = .ok st →
      SmallOK (fixUnk (unkOf a U) (genTable fadd a.order (visitOrder (gramsOf a P B)) st.blanks)) bound a.order) :
    ∃ b, buildTableU fadd a.order (gramsOf a P B) (unkOf a U) = .ok b ∧
      Represents fval (ofTable b.table bound a.order start) (Table.build a) (rngOf b.table bound) := by
  obtain ⟨st, b, hst, hf, hb, htab, _⟩ := buildTable_general fadd enc
  refine ⟨{ b with table := fixUnk (unkOf a U) b.table }, by simp [buildTableU, hb], ?_⟩
  show Represents fval (ofTable (fixUnk (unkOf a U) b.table) bound a.order start) (Table.build a)
    (rngOf (fixUnk (unkOf a U) b.table) bound)
  rw [htab]
  have hs := ar.sums st hst
  have hub : ∀ x, unkOf a U = some x → x < 2^32 := by
    intro x hx
    unfold unkOf at hx
    split at hx
    · cases hx; exact uk.bits
    · cases hx
  have rep := ofTable_represents_general fval _ bound a.order start (fixUnk_btok _ _ _ _ (genTable_btok fadd enc st hf))
    (fixUnk_vals _ _ hub (genTable_vals fadd enc st (fun b hb => (hs b hb).1))) (sm st hst)
  exact rep.transfer (gen_table_agree fadd enc st hf (fun b hb => (hs b hb).2.2) (fun b hb => (hs b hb).2.1) U uk)

open KV.Table KV.Score KV.State in
/-- **trie_end_to_end** — ARPA → trie builder → memory → every query = the ARPA back-off recursion, for every well-formed model
including those that need hallucinated blanks: `FullScore` over the memory the trie builder writes returns `score a h w` for
every state reached by left-to-right scoring and every vocabulary word.  No `Represents`, no layout, no suffix-closure
hypothesis.  The builder runs on the records of `SortedFiles` — a hallucinated `<unk>` is the zeroed slot (`ArpaEncW.unk0`) —
and `unknown_missing_logprob` (`U`) is written afterwards (`fixUnk`), as the code does; `UnkOK.basis` excludes the class on which
the code deviates from the recursion (`unk_class_deviates`). -/
theorem trie_end_to_end (fval : Nat → Rat) (fadd : Nat → Nat → Nat) (a : Arpa) (bound start : Nat)
    (P B : List Word → Nat) (U : Nat) (enc : ArpaEncW fval a bound P B) (uk : UnkOK fval a U) (ar : BlankArith fval fadd a P B)
    (sm : ∀ st, visitAll (visitOrder (gramsOf a P B)) = .ok st →
      SmallOK (fixUnk (unkOf a U) (genTable fadd a.order (visitOrder (gramsOf a P B)) st.blanks)) bound a.order)
    (h : List Word) (st : State) (sf : StateFor a h st) (w : Word) (hw : a.gram [w] ≠ none)
    (hwb : w < bound) (hs : ∀ x ∈ st.words.take st.length, x < bound) :
    ∃ M, buildTrie fadd a.order bound start (gramsOf a P B) (unkOf a U) = .ok M ∧
      (fullScore (search fval M) st w).1.prob = score a h w := by
  obtain ⟨b, hb, rep⟩ := trie_build_represents fval fadd a bound start P B U enc uk ar sm
  refine ⟨ofTable b.table bound a.order start, by simp [buildTrie, hb], ?_⟩
  have hbd : (ofTable b.table bound a.order start).bound = bound :=
    ofTable_bound _ bound a.order start (by have := enc.wf.order_ge; omega)
  exact KV.C03Trie.trie_prob a enc.wf (fun _ => false) fval _ _ rep h st sf w hw (by rw [hbd]; exact hwb) (by rw [hbd]; exact hs)

/-- the blanks of the pass, exactly (general): success, soundness, completeness, no duplicates -/
theorem trie_build_blanks_exact (fval : Nat → Rat) (a : Arpa) (bound : Nat) (P B : List Word → Nat)
    (enc : ArpaEncW fval a bound P B) :
    ∃ st, visitAll (visitOrder (gramsOf a P B)) = .ok st ∧ (st.blanks.map (·.key)).Nodup ∧
      ∀ g, (∃ b ∈ st.blanks, b.key = g) ↔ IsBlankKey a g := by
  obtain ⟨st, hst, hf⟩ := w_visit enc
  exact ⟨st, hst, hf.nodup, blank_iff enc st hf⟩

set_option maxRecDepth 8000
section ExampleClosed
open KV.Table KV.Score
/-- a small suffix-closed bigram model: `<unk>`=0, `<s>`=1, `</s>`=2, `a`=3; bigrams `<s> a`, `a </s>` (reversed keys) -/
def exArpa : Arpa :=
  { order := 2,
    entries := [([0], ⟨-2, 0, false⟩), ([1], ⟨-99, -1/2, false⟩), ([2], ⟨-5/4, 0, false⟩), ([3], ⟨-3/4, -1/4, false⟩),
                ([3, 1], ⟨-1/2, 0, false⟩), ([2, 3], ⟨-7/8, 0, false⟩)],
    unkHallucinated := false }

def exBits : List (List Word × (Nat × Nat)) :=
  [([0], (3221225472, 2147483648)), ([1], (3267756032, 3204448256)), ([2], (3214934016, 2147483648)),
   ([3], (3208642560, 3196059648)), ([3, 1], (3204448256, 2147483648)), ([2, 3], (3210739712, 2147483648))]

def exP (g : List Word) : Nat := ((exBits.lookup g).getD (0, 0)).1
def exB (g : List Word) : Nat := ((exBits.lookup g).getD (0, 0)).2

theorem ex_gram_cases (g : List Word) (e : Entry) (h : exArpa.gram g = some e) : (g, e) ∈ exArpa.entries :=
  KV.Score.lookup_some_mem _ _ _ h

theorem ex_real (g : List Word) (h : exArpa.gram g ≠ none) :
    g = [0] ∨ g = [1] ∨ g = [2] ∨ g = [3] ∨ g = [3, 1] ∨ g = [2, 3] := by
  cases hg : exArpa.gram g with
  | none => exact absurd hg h
  | some e =>
    have := ex_gram_cases g e hg
    simp [exArpa] at this
    rcases this with h | h | h | h | h | h <;> simp [h.1]

theorem ex_wf : WellFormed exArpa := by
  refine ⟨by decide, ?_, ?_, ?_, ?_⟩
  · intro g h; rcases ex_real g h with rfl | rfl | rfl | rfl | rfl | rfl <;> simp
  · intro g h; rcases ex_real g h with rfl | rfl | rfl | rfl | rfl | rfl <;> decide
  · intro x g hg h
    have := ex_real (x :: g) h
    simp at this
    rcases this with ⟨_, rfl⟩ | ⟨_, rfl⟩ | ⟨_, rfl⟩ | ⟨_, rfl⟩ | ⟨_, rfl⟩ | ⟨_, rfl⟩ <;> first | exact absurd rfl hg | decide
  · intro g e h hl
    have := ex_gram_cases g e h
    simp [exArpa] at this
    rcases this with ⟨rfl, rfl⟩ | ⟨rfl, rfl⟩ | ⟨rfl, rfl⟩ | ⟨rfl, rfl⟩ | ⟨rfl, rfl⟩ | ⟨rfl, rfl⟩ <;> first | rfl | (simp [exArpa] at hl)

theorem ex_sc : SuffixClosed exArpa := by
  intro g h hl
  rcases ex_real g h with rfl | rfl | rfl | rfl | rfl | rfl <;> first | decide | (exfalso; simp at hl)

theorem ex_enc : ArpaEnc f32ToRat exArpa 4 exP exB := by
  refine ⟨ex_wf, ex_sc, by decide, by decide, ?_, ?_, ?_, by decide +kernel⟩
  · intro w hw
    have : w = 0 ∨ w = 1 ∨ w = 2 ∨ w = 3 := by omega
    rcases this with rfl | rfl | rfl | rfl <;> decide
  · intro g e h
    have := ex_gram_cases g e h
    simp [exArpa] at this
    rcases this with ⟨rfl, rfl⟩ | ⟨rfl, rfl⟩ | ⟨rfl, rfl⟩ | ⟨rfl, rfl⟩ | ⟨rfl, rfl⟩ | ⟨rfl, rfl⟩ <;> decide +kernel
  · intro g e h
    have := ex_gram_cases g e h
    simp [exArpa] at this
    rcases this with ⟨rfl, rfl⟩ | ⟨rfl, rfl⟩ | ⟨rfl, rfl⟩ | ⟨rfl, rfl⟩ | ⟨rfl, rfl⟩ | ⟨rfl, rfl⟩ <;> decide +kernel

theorem ex_small : SmallOK (closedTable exArpa.order (visitOrder (gramsOf exArpa exP exB))) 4 exArpa.order :=
  ⟨by decide, by decide, by decide +kernel⟩

/-- **non-vacuity of `trie_end_to_end_closed`**: all hypotheses hold for the example model; so the trie builder model succeeds
on it and every `FullScore` over the memory it writes is the ARPA recursion -/
theorem example_end_to_end_closed (fadd : Nat → Nat → Nat) (start : Nat) (h : List Word) (st : KV.State.State)
    (sf : StateFor exArpa h st) (w : Word) (hw : exArpa.gram [w] ≠ none) (hwb : w < 4)
    (hs : ∀ x ∈ st.words.take st.length, x < 4) :
    ∃ M, buildTrie fadd exArpa.order 4 start (gramsOf exArpa exP exB) none = .ok M ∧
      (fullScore (search f32ToRat M) st w).1.prob = score exArpa h w :=
  trie_end_to_end_closed f32ToRat fadd exArpa 4 start exP exB ex_enc rfl ex_small h st sf w hw hwb hs


/-- … e.g. from the null context, for every word of the vocabulary -/
theorem example_end_to_end_null (fadd : Nat → Nat → Nat) (start : Nat) (w : Word) (hwb : w < 4) :
    ∃ M, buildTrie fadd exArpa.order 4 start (gramsOf exArpa exP exB) none = .ok M ∧
      (fullScore (search f32ToRat M) KV.Score.nullContextState w).1.prob = score exArpa [] w := by
  have hw : exArpa.gram [w] ≠ none := ex_enc.unigrams w hwb
  exact example_end_to_end_closed fadd start [] _ (KV.C01.stateFor_null exArpa) w hw hwb (by simp [KV.Score.nullContextState])

end ExampleClosed

section Sentences
open KV.Table KV.Score KV.State
/-- the words of the out-state come from the scored word and the in-state -/
theorem out_words_valid {ν : Type} (S : Search ν) (s : State) (w : Word) (V : Word → Prop) (hw : V w)
    (hs : ∀ x ∈ s.words.take s.length, V x) :
    ∀ x ∈ (fullScore S s w).2.words.take (fullScore S s w).2.length, V x := by
  intro x hx
  have hx' := List.mem_of_mem_take hx
  simp only [fullScore, scoreExceptBackoff] at hx'
  rcases List.mem_cons.mp hx' with e | e
  · rw [e]; exact hw
  · exact hs x (List.mem_of_mem_take e)

/-- sequence scoring over the trie = sequence scoring over the table it represents -/
theorem trie_scoreSeq (fval : Nat → Rat) (M : Trie) (T : Table) (rng : List Word → Node) (rep : Represents fval M T rng)
    (hN : 2 ≤ T.order) : ∀ (ws : List Word) (s : State), (∀ w ∈ ws, w < M.bound) → (∀ x ∈ s.words.take s.length, x < M.bound) →
      scoreSeq (search fval M) s ws = scoreSeq (tableSearch T) s ws := by
  intro ws
  induction ws with
  | nil => intro s _ _; rfl
  | cons w ws ih =>
    intro s hws hs
    have hw : w < M.bound := hws w (by simp)
    have r := KV.C03Trie.trie_refines fval M T rng rep hN s w hw hs
    simp only [scoreSeq]
    rw [r.1, ← r.2.2.2.2]
    have hout := out_words_valid (search fval M) s w (fun x => x < M.bound) hw hs
    rw [ih _ (fun x hx => hws x (by simp [hx])) hout]

/-- **trie_end_to_end_sentence** — whole sentences: left-to-right scoring of any word sequence from the null context over the
memory the trie builder writes gives the sum of the ARPA back-off scores along the growing history (`specSeq`), for every
well-formed model incl. those that need blanks -/
theorem trie_end_to_end_sentence (fval : Nat → Rat) (fadd : Nat → Nat → Nat) (a : Arpa) (bound start : Nat)
    (P B : List Word → Nat) (U : Nat) (enc : ArpaEncW fval a bound P B) (uk : UnkOK fval a U) (ar : BlankArith fval fadd a P B)
    (sm : ∀ st, visitAll (visitOrder (gramsOf a P B)) = .ok st →
      SmallOK (fixUnk (unkOf a U) (genTable fadd a.order (visitOrder (gramsOf a P B)) st.blanks)) bound a.order)
    (ws : List Word) (hv : ∀ w ∈ ws, a.gram [w] ≠ none ∧ w < bound) :
    ∃ M, buildTrie fadd a.order bound start (gramsOf a P B) (unkOf a U) = .ok M ∧
      (scoreSeq (search fval M) nullContextState ws).1 = specSeq a [] ws := by
  obtain ⟨b, hb, rep⟩ := trie_build_represents fval fadd a bound start P B U enc uk ar sm
  refine ⟨ofTable b.table bound a.order start, by simp [buildTrie, hb], ?_⟩
  have hbd : (ofTable b.table bound a.order start).bound = bound :=
    ofTable_bound _ bound a.order start (by have := enc.wf.order_ge; omega)
  rw [trie_scoreSeq fval _ _ _ rep enc.wf.order_ge ws nullContextState
    (fun w hw => by rw [hbd]; exact (hv w hw).2) (by simp [nullContextState])]
  exact (KV.C01.scoreSeq_spec a enc.wf (fun _ => false) ws [] _ (KV.C01.stateFor_null a) (fun w hw => (hv w hw).1)).1

end Sentences

section ExamplePruned
open KV.Table KV.Score
/-- an SRI-pruned trigram model: `<unk>`=0 `<s>`=1 `</s>`=2 `a`=3 `b`=4 `c`=5; bigrams `<s> a`, `a b`; trigram `a b c` whose
suffix `b c` is not in the model (a blank is needed).  Reversed keys. -/
def pArpa : Arpa :=
  { order := 3,
    entries := [([0], ⟨-2, 0, false⟩), ([1], ⟨-99, -1/2, false⟩), ([2], ⟨-5/4, 0, false⟩), ([3], ⟨-3/4, -1/4, false⟩),
                ([4], ⟨-3/2, -1/8, false⟩), ([5], ⟨-1, 0, false⟩),
                ([3, 1], ⟨-1/2, -1/4, false⟩), ([4, 3], ⟨-5/8, -3/8, false⟩), ([5, 4, 3], ⟨-3/8, 0, false⟩)],
    unkHallucinated := false }

def pBits : List (List Word × (Nat × Nat)) :=
  [([0], (3221225472, 2147483648)), ([1], (3267756032, 3204448256)), ([2], (3214934016, 2147483648)),
   ([3], (3208642560, 3196059648)), ([4], (3217031168, 3187671040)), ([5], (3212836864, 2147483648)),
   ([3, 1], (3204448256, 3196059648)), ([4, 3], (3206545408, 3200253952)), ([5, 4, 3], (3200253952, 2147483648))]

def pP (g : List Word) : Nat := ((pBits.lookup g).getD (0, 0)).1
def pB (g : List Word) : Nat := ((pBits.lookup g).getD (0, 0)).2
/-- the one float addition the builder performs on this model: `-1 + -0.125 = -1.125` -/
def pAdd (x y : Nat) : Nat := if x = 3212836864 ∧ y = 3187671040 then 3213885440 else 0

theorem p_real (g : List Word) (h : pArpa.gram g ≠ none) :
    g = [0] ∨ g = [1] ∨ g = [2] ∨ g = [3] ∨ g = [4] ∨ g = [5] ∨ g = [3, 1] ∨ g = [4, 3] ∨ g = [5, 4, 3] := by
  cases hg : pArpa.gram g with
  | none => exact absurd hg h
  | some e =>
    have := KV.Score.lookup_some_mem _ _ _ hg
    simp [pArpa] at this
    rcases this with h | h | h | h | h | h | h | h | h <;> simp [h.1]

theorem p_wf : WellFormed pArpa := by
  refine ⟨by decide, ?_, ?_, ?_, ?_⟩
  · intro g h; rcases p_real g h with rfl | rfl | rfl | rfl | rfl | rfl | rfl | rfl | rfl <;> simp
  · intro g h; rcases p_real g h with rfl | rfl | rfl | rfl | rfl | rfl | rfl | rfl | rfl <;> decide
  · intro x g hg h
    have := p_real (x :: g) h
    simp at this
    rcases this with ⟨_, rfl⟩ | ⟨_, rfl⟩ | ⟨_, rfl⟩ | ⟨_, rfl⟩ | ⟨_, rfl⟩ | ⟨_, rfl⟩ | ⟨_, rfl⟩ | ⟨_, rfl⟩ | ⟨_, rfl⟩ <;>
      first | exact absurd rfl hg | decide
  · intro g e h hl
    have := KV.Score.lookup_some_mem _ _ _ h
    simp [pArpa] at this
    rcases this with ⟨rfl, rfl⟩ | ⟨rfl, rfl⟩ | ⟨rfl, rfl⟩ | ⟨rfl, rfl⟩ | ⟨rfl, rfl⟩ | ⟨rfl, rfl⟩ | ⟨rfl, rfl⟩ | ⟨rfl, rfl⟩ | ⟨rfl, rfl⟩ <;>
      first | rfl | (simp [pArpa] at hl)

theorem p_enc : ArpaEncW f32ToRat pArpa 6 pP pB := by
  refine ⟨p_wf, by decide, by decide, ?_, ?_, ?_, (fun h => absurd h (by decide)), by decide +kernel⟩
  · intro w hw
    have : w = 0 ∨ w = 1 ∨ w = 2 ∨ w = 3 ∨ w = 4 ∨ w = 5 := by omega
    rcases this with rfl | rfl | rfl | rfl | rfl | rfl <;> decide
  · intro g e h _
    have := KV.Score.lookup_some_mem _ _ _ h
    simp [pArpa] at this
    rcases this with ⟨rfl, rfl⟩ | ⟨rfl, rfl⟩ | ⟨rfl, rfl⟩ | ⟨rfl, rfl⟩ | ⟨rfl, rfl⟩ | ⟨rfl, rfl⟩ | ⟨rfl, rfl⟩ | ⟨rfl, rfl⟩ | ⟨rfl, rfl⟩ <;>
      decide +kernel
  · intro g e h
    have := KV.Score.lookup_some_mem _ _ _ h
    simp [pArpa] at this
    rcases this with ⟨rfl, rfl⟩ | ⟨rfl, rfl⟩ | ⟨rfl, rfl⟩ | ⟨rfl, rfl⟩ | ⟨rfl, rfl⟩ | ⟨rfl, rfl⟩ | ⟨rfl, rfl⟩ | ⟨rfl, rfl⟩ | ⟨rfl, rfl⟩ <;>
      decide +kernel

/-- the pass creates exactly the blank `b c`, based on the unigram `c` -/
theorem p_blanks (st : VisitState) (h : visitAll (visitOrder (gramsOf pArpa pP pB)) = .ok st) :
    st.blanks = [⟨[5, 4], 1, 3212836864⟩] := by
  have hd : (match visitAll (visitOrder (gramsOf pArpa pP pB)) with
      | .ok s => some s.blanks | .error _ => none) = some [⟨[5, 4], 1, 3212836864⟩] := by decide +kernel
  rw [h] at hd
  exact Option.some.inj hd

theorem p_arith : BlankArith f32ToRat pAdd pArpa pP pB := by
  refine ⟨?_⟩
  intro st hst b hb
  rw [p_blanks st hst] at hb
  simp only [List.mem_singleton] at hb
  subst hb
  refine ⟨by decide +kernel, by decide +kernel, by decide +kernel⟩

theorem p_small (st : VisitState) (hst : visitAll (visitOrder (gramsOf pArpa pP pB)) = .ok st) :
    SmallOK (fixUnk (unkOf pArpa 0) (genTable pAdd pArpa.order (visitOrder (gramsOf pArpa pP pB)) st.blanks)) 6 pArpa.order := by
  rw [p_blanks st hst]
  exact ⟨by decide, by decide, by decide +kernel⟩

/-- `<unk>` is listed in this model: no fix-up -/
theorem p_unk : UnkOK f32ToRat pArpa 0 :=
  ⟨by decide, fun h => absurd h (by decide), fun h => absurd h (by decide)⟩

/-- **non-vacuity of `trie_end_to_end` on a model that needs a blank**: all hypotheses hold for the SRI-pruned example; the
builder model succeeds, hallucinates `b c` with probability `-1.125 = p(c) + bo(b)`, and every `FullScore` over the memory it
writes is the ARPA recursion -/
theorem example_end_to_end_pruned (start : Nat) (h : List Word) (st : KV.State.State)
    (sf : StateFor pArpa h st) (w : Word) (hw : pArpa.gram [w] ≠ none) (hwb : w < 6)
    (hs : ∀ x ∈ st.words.take st.length, x < 6) :
    ∃ M, buildTrie pAdd pArpa.order 6 start (gramsOf pArpa pP pB) none = .ok M ∧
      (fullScore (search f32ToRat M) st w).1.prob = score pArpa h w :=
  trie_end_to_end f32ToRat pAdd pArpa 6 start pP pB 0 p_enc p_unk p_arith p_small h st sf w hw hwb hs

end ExamplePruned

/-- **build_from_arpa** — the step `SortedFiles` performs on the n-grams of the file (`withUnkSlot`) gives the records the theorems
above talk about.  (1) no `<unk>` unigram — `Arpa.parse` puts the hallucinated entry first: the builder sees the zeroed slot in
its place and `unknown_missing_logprob` is written afterwards; (2) `<unk>` listed: the n-grams as they are, no fix-up. -/
theorem build_from_arpa (fadd : Nat → Nat → Nat) (a : Arpa) (P B : List Word → Nat) (U : Nat) :
    (∀ e0 rest, a.entries = ([0], e0) :: rest → a.unkHallucinated = true → (∀ p ∈ rest, p.1 ≠ [0]) →
      P [0] = 0 → B [0] = plusZero →
      buildTableArpa fadd a.order (rest.map fun p => ⟨p.1, P p.1, B p.1⟩) U
        = buildTableU fadd a.order (gramsOf a P B) (unkOf a U)) ∧
    (a.unkHallucinated = false → (∃ p ∈ a.entries, p.1 = [0]) →
      buildTableArpa fadd a.order (gramsOf a P B) U = buildTableU fadd a.order (gramsOf a P B) (unkOf a U)) := by
  constructor
  · intro e0 rest hent hu h0 hP hB
    have hany : (rest.map fun p => (⟨p.1, P p.1, B p.1⟩ : Gram)).any (fun g => g.key == [0]) = false := by
      rw [List.any_eq_false]
      intro g hg
      obtain ⟨p, hp, rfl⟩ := List.mem_map.mp hg
      simpa using h0 p hp
    have hg : gramsOf a P B = unkSlot :: rest.map fun p => (⟨p.1, P p.1, B p.1⟩ : Gram) := by
      simp [gramsOf, hent, unkSlot, hP, hB, plusZero]
    simp [buildTableArpa, withUnkSlot, hany, hg, unkOf, hu]
  · intro hu ⟨p, hp, hp0⟩
    have hany : (gramsOf a P B).any (fun g => g.key == [0]) = true := by
      rw [List.any_eq_true]
      exact ⟨⟨p.1, P p.1, B p.1⟩, List.mem_map.mpr ⟨p, hp, rfl⟩, by simp [hp0]⟩
    simp [buildTableArpa, withUnkSlot, hany, unkOf, hu]

section ExampleUnk
open KV.Table KV.Score
/-! ## Round 7: models without an `<unk>` unigram (hallucinated `<unk>`)

The builder runs on the zeroed slot 0 of the unigram file and `unknown_missing_logprob` is written afterwards (`fixUnk`).
`kArpa`: inside the class of `trie_end_to_end` (n-grams end in the literal `<unk>`, a blank elsewhere) — all hypotheses hold.
`hArpa`: the excluded class (corpus/C01_blank_on_hallucinated_unk.json) — the blank `b <unk>` is computed from the slot. -/

/-- `<unk>`=0 (hallucinated) `<s>`=1 `</s>`=2 `a`=3 `b`=4; bigrams `<s> a`, `a b`, `b <unk>`; trigrams `a b <unk>`, `<s> a </s>`
(whose suffix `a </s>` is a blank).  Reversed keys. -/
def kArpa : Arpa :=
  { order := 3,
    entries := [([0], ⟨-100, 0, false⟩), ([1], ⟨-99, -1/2, false⟩), ([2], ⟨-3/2, 0, false⟩), ([3], ⟨-5/4, -1/4, false⟩),
                ([4], ⟨-7/4, -1/8, false⟩),
                ([3, 1], ⟨-3/4, -1/32, false⟩), ([4, 3], ⟨-1/2, -1/16, false⟩), ([0, 4], ⟨-7/8, -1/2, false⟩),
                ([0, 4, 3], ⟨-3/8, 0, false⟩), ([2, 3, 1], ⟨-5/8, 0, false⟩)],
    unkHallucinated := true }

/-- the bits the builder reads: slot 0 is all zero -/
def kBits : List (List Word × (Nat × Nat)) :=
  [([0], (0, 0)), ([1], (3267756032, 3204448256)), ([2], (3217031168, 2147483648)), ([3], (3214934016, 3196059648)),
   ([4], (3219128320, 3187671040)),
   ([3, 1], (3208642560, 3170893824)), ([4, 3], (3204448256, 3179282432)), ([0, 4], (3210739712, 3204448256)),
   ([0, 4, 3], (3200253952, 2147483648)), ([2, 3, 1], (3206545408, 2147483648))]

def kP (g : List Word) : Nat := ((kBits.lookup g).getD (0, 0)).1
def kB (g : List Word) : Nat := ((kBits.lookup g).getD (0, 0)).2
/-- bits of `unknown_missing_logprob = -100` -/
def unkBits : Nat := 3267887104
/-- the one addition: `-1.5 + -0.25 = -1.75` -/
def kAdd (x y : Nat) : Nat := if x = 3217031168 ∧ y = 3196059648 then 3219128320 else 0

theorem k_real (g : List Word) (h : kArpa.gram g ≠ none) :
    g = [0] ∨ g = [1] ∨ g = [2] ∨ g = [3] ∨ g = [4] ∨ g = [3, 1] ∨ g = [4, 3] ∨ g = [0, 4] ∨ g = [0, 4, 3] ∨ g = [2, 3, 1] := by
  cases hg : kArpa.gram g with
  | none => exact absurd hg h
  | some e =>
    have := KV.Score.lookup_some_mem _ _ _ hg
    simp [kArpa] at this
    rcases this with h | h | h | h | h | h | h | h | h | h <;> simp [h.1]

theorem k_wf : WellFormed kArpa := by
  refine ⟨by decide, ?_, ?_, ?_, ?_⟩
  · intro g h; rcases k_real g h with rfl | rfl | rfl | rfl | rfl | rfl | rfl | rfl | rfl | rfl <;> simp
  · intro g h; rcases k_real g h with rfl | rfl | rfl | rfl | rfl | rfl | rfl | rfl | rfl | rfl <;> decide
  · intro x g hg h
    have := k_real (x :: g) h
    simp at this
    rcases this with ⟨_, rfl⟩ | ⟨_, rfl⟩ | ⟨_, rfl⟩ | ⟨_, rfl⟩ | ⟨_, rfl⟩ | ⟨_, rfl⟩ | ⟨_, rfl⟩ | ⟨_, rfl⟩ | ⟨_, rfl⟩ | ⟨_, rfl⟩ <;>
      first | exact absurd rfl hg | decide
  · intro g e h hl
    have := KV.Score.lookup_some_mem _ _ _ h
    simp [kArpa] at this
    rcases this with ⟨rfl, rfl⟩ | ⟨rfl, rfl⟩ | ⟨rfl, rfl⟩ | ⟨rfl, rfl⟩ | ⟨rfl, rfl⟩ | ⟨rfl, rfl⟩ | ⟨rfl, rfl⟩ | ⟨rfl, rfl⟩ | ⟨rfl, rfl⟩ | ⟨rfl, rfl⟩ <;>
      first | rfl | (simp [kArpa] at hl)

theorem k_enc : ArpaEncW f32ToRat kArpa 5 kP kB := by
  refine ⟨k_wf, by decide, by decide, ?_, ?_, ?_, (fun _ => by decide), by decide +kernel⟩
  · intro w hw
    have : w = 0 ∨ w = 1 ∨ w = 2 ∨ w = 3 ∨ w = 4 := by omega
    rcases this with rfl | rfl | rfl | rfl | rfl <;> decide
  · intro g e h hn
    have := KV.Score.lookup_some_mem _ _ _ h
    simp [kArpa] at this
    rcases this with ⟨rfl, rfl⟩ | ⟨rfl, rfl⟩ | ⟨rfl, rfl⟩ | ⟨rfl, rfl⟩ | ⟨rfl, rfl⟩ | ⟨rfl, rfl⟩ | ⟨rfl, rfl⟩ | ⟨rfl, rfl⟩ | ⟨rfl, rfl⟩ | ⟨rfl, rfl⟩ <;>
      first | exact absurd ⟨rfl, rfl⟩ hn | decide +kernel
  · intro g e h
    have := KV.Score.lookup_some_mem _ _ _ h
    simp [kArpa] at this
    rcases this with ⟨rfl, rfl⟩ | ⟨rfl, rfl⟩ | ⟨rfl, rfl⟩ | ⟨rfl, rfl⟩ | ⟨rfl, rfl⟩ | ⟨rfl, rfl⟩ | ⟨rfl, rfl⟩ | ⟨rfl, rfl⟩ | ⟨rfl, rfl⟩ | ⟨rfl, rfl⟩ <;>
      decide +kernel

/-- the only blank is `a </s>`: none has `<unk>` as its newest word -/
theorem k_blanks (st : VisitState) (h : visitAll (visitOrder (gramsOf kArpa kP kB)) = .ok st) :
    st.blanks = [⟨[2, 3], 1, 3217031168⟩] := by
  have hd : (match visitAll (visitOrder (gramsOf kArpa kP kB)) with
      | .ok s => some s.blanks | .error _ => none) = some [⟨[2, 3], 1, 3217031168⟩] := by decide +kernel
  rw [h] at hd
  exact Option.some.inj hd

theorem k_unk : UnkOK f32ToRat kArpa unkBits := by
  refine ⟨by decide, fun _ => ⟨⟨-100, 0, false⟩, by decide, by decide +kernel, rfl⟩, ?_⟩
  intro _ w ctx hg hx
  obtain ⟨b, _, hk⟩ := (blank_iff k_enc _ (w_visit k_enc).choose_spec.2 (w :: ctx)).mpr
    (blankKey_of_extendsLeft k_enc (w :: ctx) (by simp) hg hx)
  intro h0
  have hb := k_blanks _ (w_visit k_enc).choose_spec.1
  rename_i hbm
  rw [hb] at hbm
  simp only [List.mem_singleton] at hbm
  subst hbm
  have h2 : (2 : Nat) = w := (List.cons.inj hk).1
  rw [h0] at h2
  exact absurd h2 (by decide)

theorem k_arith : BlankArith f32ToRat kAdd kArpa kP kB := by
  refine ⟨?_⟩
  intro st hst b hb
  rw [k_blanks st hst] at hb
  simp only [List.mem_singleton] at hb
  subst hb
  refine ⟨by decide +kernel, by decide +kernel, by decide +kernel⟩

theorem k_small (st : VisitState) (hst : visitAll (visitOrder (gramsOf kArpa kP kB)) = .ok st) :
    SmallOK (fixUnk (unkOf kArpa unkBits) (genTable kAdd kArpa.order (visitOrder (gramsOf kArpa kP kB)) st.blanks)) 5 kArpa.order := by
  rw [k_blanks st hst]
  exact ⟨by decide, by decide, by decide +kernel⟩

/-- **non-vacuity of `trie_end_to_end` with a hallucinated `<unk>`**: n-grams ending in the literal `<unk>`, a blank elsewhere;
the builder runs on the zeroed slot, `-100` is written afterwards, and every `FullScore` is the ARPA recursion -/
theorem example_end_to_end_unk (start : Nat) (h : List Word) (st : KV.State.State)
    (sf : StateFor kArpa h st) (w : Word) (hw : kArpa.gram [w] ≠ none) (hwb : w < 5)
    (hs : ∀ x ∈ st.words.take st.length, x < 5) :
    ∃ M, buildTrie kAdd kArpa.order 5 start (gramsOf kArpa kP kB) (some unkBits) = .ok M ∧
      (fullScore (search f32ToRat M) st w).1.prob = score kArpa h w :=
  trie_end_to_end f32ToRat kAdd kArpa 5 start kP kB unkBits k_enc k_unk k_arith k_small h st sf w hw hwb hs

/-- the excluded class (corpus/C01_blank_on_hallucinated_unk.json): unigrams `<s> </s> a b`, bigrams `a b`, `<s> a`, trigram
`a b <unk>`, no `<unk>` unigram: the blank `b <unk>` = key `[0, 4]` is needed -/
def hArpa : Arpa :=
  { order := 3,
    entries := [([0], ⟨-100, 0, false⟩), ([1], ⟨-1, -1/2, false⟩), ([2], ⟨-3/2, 0, false⟩), ([3], ⟨-5/4, -1/4, false⟩),
                ([4], ⟨-7/4, -1/8, false⟩),
                ([4, 3], ⟨-1/2, -1/16, false⟩), ([3, 1], ⟨-3/4, -1/32, false⟩), ([0, 4, 3], ⟨-3/8, 0, false⟩)],
    unkHallucinated := true }

def hBits : List (List Word × (Nat × Nat)) :=
  [([0], (0, 0)), ([1], (3212836864, 3204448256)), ([2], (3217031168, 2147483648)), ([3], (3214934016, 3196059648)),
   ([4], (3219128320, 3187671040)),
   ([4, 3], (3204448256, 3179282432)), ([3, 1], (3208642560, 3170893824)), ([0, 4, 3], (3200253952, 2147483648))]

def hP (g : List Word) : Nat := ((hBits.lookup g).getD (0, 0)).1
def hB (g : List Word) : Nat := ((hBits.lookup g).getD (0, 0)).2
/-- `+0.0 + x = x` (the only addition: slot probability `+0.0` plus `bo(b) = -0.125`) -/
def hAdd (x y : Nat) : Nat := if x = 0 then y else 0

/-- **unk_class_deviates** — on the excluded class the builder model (like `build_binary`, byte for byte: `triebuild` stream,
fixed case 1) stores the blank `b <unk>` with probability bits of `-0.125 = 0 + bo(b)`, computed from the zeroed slot, and only
then writes `-100` into the `<unk>` unigram; `Table.build` (the ARPA recursion) has `-100.125` for that key; and the model
violates exactly the hypothesis `UnkOK.basis`.  Known finding `blank-based-on-hallucinated-unk`. -/
theorem unk_class_deviates :
    (match buildTableU hAdd hArpa.order (gramsOf hArpa hP hB) (unkOf hArpa unkBits) with
      | .ok b => some (b.table.lookup [0, 4], b.table.lookup [0])
      | .error _ => none) = some (some (3187671040, minusZero), some (unkBits, plusZero)) ∧
    f32ToRat (3187671040 % 2^31 + 2^31) = -1/8 ∧
    ((Table.build hArpa).lookup [0, 4]).map (·.prob) = some (-100 - 1/8) ∧
    ¬ (∀ w ctx, hArpa.gram (w :: ctx) = none → extendsLeft hArpa (w :: ctx) = true → w ≠ 0) := by
  refine ⟨by decide +kernel, by decide +kernel, by decide +kernel, ?_⟩
  intro h
  exact h 0 [4] (by decide) (by decide) rfl

end ExampleUnk

end KV.C03TrieBuild
