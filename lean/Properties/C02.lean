import Model.Arpa
import Model.Table
import Model.Score
import Model.State
import Proofs.ScoreMain
import Proofs.ScoreForgot
import Proofs.TableBuild
import Proofs.WellFormed
import Proofs.StateAlgebra
import Properties.C01
import Proofs.ScoreCanonical
/-! C02 — Returned state is sufficient, canonical and safe for recombination. -/
namespace KV.C02
open KV.Arpa KV.Table KV.Score KV.State

/-- **Sufficiency**: scoring from the state produced by left-to-right scoring gives the same probability as
scoring with the entire history supplied explicitly (any model, incl. pruned ones; any `unmarked`). -/
theorem state_sufficient (a : Arpa) (wf : WellFormed a) (unmarked : List Word → Bool)
    (h : List Word) (s : State) (sf : StateFor a h s) (w : Word) (hw : a.gram [w] ≠ none) :
    (fullScore (tableSearch (build a unmarked)) s w).1.prob =
      (fullScoreForgotState (tableSearch (build a unmarked)) h w).1.prob := by
  rw [KV.C01.fullScore_prob a wf unmarked h s sf w hw, KV.C01.forgot_prob a wf unmarked h w hw]

/-- **Canonicity** (suffix-closed models): scoring from the state gives the same matched length as scoring with
the whole history, and the returned state equals — on `length`, `words[0..length)`, `backoff[0..length)` — the
state `GetState` computes directly from the extended history.  (The clause `s = getState T h` of the design is the
same statement one step earlier: every state reached by at least one `FullScore` is the `GetState` of its history;
for the begin-sentence state it is false when `<s>` has no extension, since `BeginSentenceState` has length 1
unconditionally.) -/
theorem state_canonical (a : Arpa) (wf : WellFormed a) (sc : SuffixClosed a) (unmarked : List Word → Bool)
    (h : List Word) (s : State) (sf : StateFor a h s) (w : Word) (hw : a.gram [w] ≠ none) :
    (fullScore (tableSearch (build a unmarked)) s w).1.ngramLength =
      (fullScoreForgotState (tableSearch (build a unmarked)) h w).1.ngramLength ∧
    (fullScore (tableSearch (build a unmarked)) s w).2.length = (getState (tableSearch (build a unmarked)) (w :: h)).length ∧
    (fullScore (tableSearch (build a unmarked)) s w).2.words.take (fullScore (tableSearch (build a unmarked)) s w).2.length =
      (getState (tableSearch (build a unmarked)) (w :: h)).words.take (getState (tableSearch (build a unmarked)) (w :: h)).length ∧
    (fullScore (tableSearch (build a unmarked)) s w).2.backoff.take (fullScore (tableSearch (build a unmarked)) s w).2.length =
      (getState (tableSearch (build a unmarked)) (w :: h)).backoff.take (getState (tableSearch (build a unmarked)) (w :: h)).length := by
  refine ⟨?_, canonical_out wf sc unmarked sf hw⟩
  rw [length_longest_aux wf sc unmarked sf hw, forgot_length_longest wf sc unmarked h hw]

/-- **Bounds**: a state never holds more than order−1 words, never more than the previous state plus one
(for *any* input state, garbage included). -/
theorem state_bounds (a : Arpa) (wf : WellFormed a) (unmarked : List Word → Bool) (s : State) (w : Word)
    (hw : a.gram [w] ≠ none) :
    (fullScore (tableSearch (build a unmarked)) s w).2.length ≤ min (a.order - 1) (s.length + 1) := by
  have tf := build_tableFor a wf unmarked
  obtain ⟨e, he⟩ := Option.ne_none_iff_exists'.mp hw
  obtain ⟨u, hu, _, _⟩ := tf.real [w] e he
  obtain ⟨c0, post⟩ := sxb_post tf.toTableOK (s.words.take s.length) w u hu
  have hsxb := scoreExceptBackoff_table (T := build a unmarked) (s.words.take s.length) w u hu
  generalize hacc : resumeScore (tableSearch (build a unmarked)) (s.words.take s.length) 0 [w] _ = acc at post hsxb
  have : (fullScore (tableSearch (build a unmarked)) s w).2.length = acc.nextUse := by
    simp [fullScore, hsxb]
  rw [this]
  have h1 := post.olen_le
  have h2 := post.c0_le
  have h3 : (s.words.take s.length).length ≤ s.length := by rw [List.length_take]; omega
  have h4 : (build a unmarked).order = a.order := rfl
  rw [h4] at h1
  omega

/-- `FullScore` reads nothing of a state beyond `length`: states that agree on `length`, `words[0..length)` and
`backoff[0..length)` are interchangeable (garbage in the struct does not matter). -/
theorem fullScore_congr {ν : Type} (S : Search ν) (s₁ s₂ : State) (w : Word)
    (hl : s₁.length = s₂.length) (hw : s₁.words.take s₁.length = s₂.words.take s₂.length)
    (hb : s₁.backoff.take s₁.length = s₂.backoff.take s₂.length) :
    fullScore S s₁ w = fullScore S s₂ w := by
  simp only [fullScore, hw, hb]

/-- **Recombination**: two states reached by left-to-right scoring that agree on `length` and
`words[0..length)` (what `==` compares) have identical stored back-offs, and therefore identical results
(probabilities *and* successor states) for every continuation. -/
theorem equal_states_equal_backoffs (a : Arpa) (T : Table)
    (h₁ h₂ : List Word) (s₁ s₂ : State) (sf₁ : StateFor a h₁ s₁) (sf₂ : StateFor a h₂ s₂)
    (hl : s₁.length = s₂.length) (hw : s₁.words.take s₁.length = s₂.words.take s₂.length) :
    s₁.backoff.take s₁.length = s₂.backoff.take s₂.length ∧
    ∀ ws, (scoreSeq (tableSearch T) s₁ ws).1 = (scoreSeq (tableSearch T) s₂ ws).1 ∧
          (ws ≠ [] → (scoreSeq (tableSearch T) s₁ ws).2 = (scoreSeq (tableSearch T) s₂ ws).2) := by
  have hb : s₁.backoff.take s₁.length = s₂.backoff.take s₂.length := by
    rw [sf₁.backoff, sf₂.backoff, hl]
    apply List.map_congr_left
    intro j hj
    have hj' : j < s₂.length := by simpa using hj
    have e1 : h₁.take (j+1) = (h₁.take s₁.length).take (j+1) := by rw [List.take_take]; congr 1; omega
    have e2 : h₂.take (j+1) = (h₂.take s₂.length).take (j+1) := by rw [List.take_take]; congr 1; omega
    rw [e1, e2, ← sf₁.words, ← sf₂.words, hw]
  refine ⟨hb, ?_⟩
  intro ws
  cases ws with
  | nil => exact ⟨rfl, fun h => absurd rfl h⟩
  | cons w ws => simp only [scoreSeq, fullScore_congr (tableSearch T) s₁ s₂ w hl hw hb]; exact ⟨trivial, fun _ => trivial⟩

/-! ### order / equality / hash algebra (lm/state.hh) -/

/-- exactly one of `a < b`, `a == b`, `b < a`; byte-wise `memcmp` on little-endian words -/
theorem compare_trichotomy (a b : State) :
    (a.lt b = true ∧ a.eq b = false ∧ b.lt a = false) ∨
    (a.lt b = false ∧ a.eq b = true ∧ b.lt a = false) ∨
    (a.lt b = false ∧ a.eq b = false ∧ b.lt a = true) := State.trichotomy a b

/-- `Compare` agrees in sign with `<` and `==` -/
theorem compare_sign (a b : State) :
    (a.compare b < 0 ↔ a.lt b = true) ∧ (a.compare b = 0 ↔ a.eq b = true) ∧ (a.compare b > 0 ↔ b.lt a = true) :=
  State.compare_sign a b

/-- equal states hash equally, for every hash function of the compared bytes and every seed -/
theorem eq_hash (H : List Nat → Nat → Nat) (a b : State) (seed : Nat) (h : a.eq b = true) :
    a.hash H seed = b.hash H seed := State.eq_hash H a b seed h

/-- `==` ignores everything beyond `length` (garbage words / back-offs in the struct do not matter) -/
theorem eq_ignores_garbage (a b : State) (hl : a.length = b.length)
    (hw : ∀ i, i < a.length → a.word i = b.word i) : a.eq b = true := by
  rw [State.eq_iff]
  refine ⟨hl, ?_⟩
  unfold State.key
  rw [← hl]
  simp only [List.flatMap]
  congr 1
  apply List.map_congr_left
  intro i hi
  rw [hw i (by simpa using hi)]

theorem left_trichotomy (a b : Left) :
    (a.lt b = true ∧ a.eq b = false ∧ b.lt a = false) ∨
    (a.lt b = false ∧ a.eq b = true ∧ b.lt a = false) ∨
    (a.lt b = false ∧ a.eq b = false ∧ b.lt a = true) := Left.trichotomy a b

/-- equal `Left` states hash equally (holds for the code after repo patch 61-fix-left-hash) -/
theorem left_eq_hash (H : List Nat → Nat → Nat) (a b : Left) (h : a.eq b = true) : a.hash H = b.hash H :=
  Left.eq_hash H a b h

/-- equal `ChartState`s hash equally: `hash_value(ChartState) = hash_value(right, seed = hash_value(left))` -/
theorem chart_eq_hash (H : List Nat → Nat → Nat) (a b : ChartState) (h : a.eq b = true) : a.hash H = b.hash H := by
  unfold ChartState.eq at h
  simp only [Bool.and_eq_true] at h
  unfold ChartState.hash
  rw [Left.eq_hash H a.left b.left h.2]
  exact State.eq_hash H a.right b.right _ h.1

/-- Before the repair the statement was **false** (this witness was replayed on the unpatched code by the
`state-algebra` stream: `==` true, hashes different): `hash_value` hashed `full` even for empty left
states, `==` ignores it. -/
theorem left_eq_hash_failed_before_fix :
    ¬ ∀ (H : List Nat → Nat → Nat) (a b : Left), a.eq b = true → a.hashOld H = b.hashOld H := by
  intro h
  have := h (fun bytes seed => bytes.sum + seed) { length := 0, full := false } { length := 0, full := true } (by decide)
  revert this
  decide

end KV.C02
