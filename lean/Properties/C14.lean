import Proofs.PyTokenize
import Generated.C14
/-!
# C14 — Python module and virtual interface agree with the typed C++ interface

Model: `Model/PyTokenize.lean` (both tokenisers, the scoring folds of `python/kenlm.pyx` and
`python/score_sentence.cc`, the `void*` facade).  The language model is an arbitrary
`LM σ α` — any state type, any per-word scoring function, any accumulation `add` **with no
algebraic law** (float32 `+` is not associative; every fold adds in the order the code does).
`kSpaces` is the table regenerated from `util/spaces.cc` on every run.
-/
namespace KV.C14
open KV.PyTokenize

abbrev kSpaces : List Bool := KV.Gen.C14.kSpaces

/-! ## the tokenisers -/

/-- The regenerated delimiter table marks exactly Python's `bytes` whitespace
(`' \t\n\v\f\r'`), for every byte value (and no value beyond). -/
theorem table_agree (b : Nat) : isDelim kSpaces b = pySpace b := by
  by_cases h : b < 256
  · exact (by decide +kernel : ∀ b, b < 256 → isDelim kSpaces b = pySpace b) b h
  · have hl : kSpaces.length ≤ b := by
      have : kSpaces.length = 256 := by decide +kernel
      omega
    have h1 : isDelim kSpaces b = false := by
      simp [isDelim, List.getD_eq_getElem?_getD, List.getElem?_eq_none hl]
    have h2 : pySpace b = false := by
      unfold pySpace
      have a : (b == 32) = false := by simp; omega
      have c : (decide (b ≤ 13)) = false := by simp; omega
      simp [a, c]
    rw [h1, h2]

/-- `TokenIter<BoolCharacter,true>` (as driven by `ScoreSentence`) = maximal delimiter-free runs of the
C string, for any table -/
theorem splitSpaces_spec (tbl : List Bool) (s : Bytes) :
    splitSpaces tbl s = splitSpec (isDelim tbl) (truncNul s) :=
  collect_some_spec _ _

/-- CPython's `bytes.split()` = maximal whitespace-free runs -/
theorem pySplit_spec (s : Bytes) : pySplit s = splitSpec pySpace s := pySplit_eq_spec s

/-- **the true relation, for every byte string**: the fast path tokenises the part before the
first NUL exactly as Python tokenises that part -/
theorem split_trunc (s : Bytes) : splitSpaces kSpaces s = pySplit (truncNul s) := by
  rw [splitSpaces_spec, pySplit_spec, splitSpec_congr _ _ table_agree]

/-- **split_agree**: on every byte string without NUL both tokenisers return the same word list -/
theorem split_agree (s : Bytes) (h : 0 ∉ s) : splitSpaces kSpaces s = pySplit s := by
  rw [split_trunc, truncNul_of_not_mem s h]

-- non-vacuity: a whitespace-heavy string with all six spaces, non-ASCII bytes and bytes other languages call space
example : 0 ∉ ([32, 9, 97, 11, 12, 0x85, 0xa0, 13, 10, 0x1c, 32, 255] : Bytes) := by decide
example : splitSpec pySpace [32, 9, 97, 11, 12, 0x85, 0xa0, 13, 10, 0x1c, 32, 255] = [[97], [0x85, 0xa0], [0x1c], [255]] := by decide

/-- **split_nul_witness**: the restriction to NUL-free strings is necessary -/
theorem split_nul_witness : ∃ s : Bytes, 0 ∈ s ∧ splitSpaces kSpaces s ≠ pySplit s := by
  refine ⟨[97, 0, 98], by decide, ?_⟩
  rw [splitSpaces_spec, pySplit_spec]
  decide

/-- what a token is: non-empty, free of whitespace, made of bytes of the sentence; and the tokens
concatenate to the sentence with its whitespace removed (nothing lost, nothing invented, order kept) -/
theorem split_tokens (s : Bytes) :
    (∀ t ∈ pySplit s, t ≠ [] ∧ (∀ b ∈ t, pySpace b = false) ∧ (∀ b ∈ t, b ∈ s)) ∧
    (pySplit s).flatten = s.filter (fun c => !pySpace c) := by
  rw [pySplit_spec]
  exact ⟨fun t ht => splitSpec_token pySpace s t ht, splitSpec_flatten pySpace s⟩

/-- a NUL-free sentence has NUL-free tokens, so `Index(char*)` sees the whole token -/
theorem indexC_on_tokens {σ α : Type} (M : LM σ α) (s : Bytes) (h : 0 ∉ s) :
    (pySplit s).map M.indexC = (pySplit s).map M.index := by
  apply List.map_congr_left
  intro w hw
  have := ((split_tokens s).1 w hw).2.2
  unfold LM.indexC
  rw [truncNul_of_not_mem w (fun h0 => h (this 0 h0))]

/-! ## the folds -/

section folds
variable {σ α : Type} (M : LM σ α)

/-- **score_sum**: the slow-path sentence score is the left-to-right accumulation of exactly the
per-word scores `full_scores` yields — for all four flag combinations, any model, any `add`. -/
theorem score_sum (hc : M.Coherent) (s : Bytes) (bos eos : Bool) :
    M.scoreSlow s bos eos = M.sumProbs ((M.fullScores s bos eos).map (·.1.prob)) := by
  unfold LM.scoreSlow LM.fullScores LM.sumProbs
  rw [LM.foldScore_eq_foldFull M hc]
  cases eos
  · simp
  · simp only [if_true, List.map_append, List.foldl_append, List.map_cons, List.map_nil, List.foldl_cons,
      List.foldl_nil]
    rw [hc]

/-- the fast path on *any* byte string is the slow path on the part before the first NUL -/
theorem fast_eq_slow_trunc (s : Bytes) : M.scoreFast kSpaces s = M.scoreSlow (truncNul s) true true := by
  unfold LM.scoreFast LM.scoreSlow LM.fastIds LM.slowIds LM.start
  rw [split_trunc, indexC_on_tokens M (truncNul s) (zero_not_mem_truncNul s)]
  simp

/-- **fast_eq_slow**: for NUL-free sentences `ScoreSentence` and the `bytes.split()` loop agree -/
theorem fast_eq_slow (s : Bytes) (h : 0 ∉ s) : M.scoreFast kSpaces s = M.scoreSlow s true true := by
  rw [fast_eq_slow_trunc, truncNul_of_not_mem s h]

/-- negation witness for the unrestricted statement (on the free model, whose values are the
queries made): with a NUL the fast path scores `a </s>`, the slow path `a </s>` after looking up
the *whole* token `a\0b` as the C string `a` — here they differ in the number of words because the
second token is lost. -/
theorem fast_ne_slow_witness :
    ∃ s : Bytes, 0 ∈ s ∧ freeLM.scoreFast kSpaces s ≠ freeLM.scoreSlow s true true := by
  refine ⟨[97, 0, 32, 98], by decide, ?_⟩
  unfold LM.scoreFast LM.scoreSlow LM.fastIds LM.slowIds
  rw [splitSpaces_spec, pySplit_spec]
  decide

/-- `Model.score(sentence, bos, eos)` = accumulation of the `full_scores(sentence, bos, eos)` values,
for every flag combination, on NUL-free sentences -/
theorem pyScore_sum (hc : M.Coherent) (s : Bytes) (h : 0 ∉ s) (bos eos : Bool) :
    M.pyScore kSpaces s bos eos = M.sumProbs ((M.fullScores s bos eos).map (·.1.prob)) := by
  unfold LM.pyScore
  cases bos <;> cases eos <;> simp only [Bool.and_true, Bool.and_false, Bool.false_eq_true, if_false, if_true]
  · exact score_sum M hc s _ _
  · exact score_sum M hc s _ _
  · exact score_sum M hc s _ _
  · rw [fast_eq_slow M s h]; exact score_sum M hc s _ _

/-- **stateful_eq**: a client folding `BaseScore` / `BaseFullScore` over `sentence.split()` from the state
written by `BeginSentenceWrite` / `NullContextWrite` obtains exactly the per-word results of `full_scores`
and the total of `score`; `heos`: looking `</s>` up by name gives `EndSentence()`. -/
theorem stateful_eq (hc : M.Coherent) (heos : M.indexC [60, 47, 115, 62] = M.eos) (s : Bytes) (bos eos : Bool) :
    M.statefulTotal s bos eos = M.scoreSlow s bos eos ∧
    (M.statefulFull (M.start bos) (pySplit s)).1 = (M.fullScores s bos false) ∧
    (M.statefulScores (M.start bos) (pySplit s)).1 = (M.fullScores s bos false).map (·.1.prob) := by
  refine ⟨?_, ?_, ?_⟩
  · unfold LM.statefulTotal LM.scoreSlow LM.sumProbs LM.slowIds LM.pyBaseScore
    rw [LM.statefulScores_eq M hc, LM.foldScore_eq_foldFull M hc, heos]
  · rw [LM.statefulFull_eq]; simp [LM.fullScores, LM.slowIds]
  · rw [LM.statefulScores_eq M hc]; simp [LM.fullScores, LM.slowIds]

/-- **perplexity_def** (identity on the exponent): `perplexity(s) = 10 ** (-score / words)` where `words`
is exactly the number of entries `full_scores(s)` yields (tokens plus `</s>`), and — NUL-free — `score` is
the accumulation of exactly those entries: the exponent is minus the average per-word log10 probability
including `</s>`. -/
theorem perplexity_def (hc : M.Coherent) (s : Bytes) :
    (M.perplexityArgs kSpaces s).2 = (M.fullScores s true true).length ∧
    (M.perplexityArgs kSpaces s).2 = (pySplit s).length + 1 ∧
    (0 ∉ s → (M.perplexityArgs kSpaces s).1 = M.sumProbs ((M.fullScores s true true).map (·.1.prob))) := by
  refine ⟨?_, rfl, ?_⟩
  · simp [LM.perplexityArgs, LM.fullScores, LM.foldFull_length, LM.slowIds]
  · intro h
    exact pyScore_sum M hc s h true true

/-- with a NUL the denominator still counts all Python tokens while the numerator scores only those
before the NUL: the perplexity is then *not* an average over the scored words -/
theorem perplexity_nul_witness :
    ∃ s : Bytes, 0 ∈ s ∧ (freeLM.perplexityArgs kSpaces s).1.length ≠ (freeLM.perplexityArgs kSpaces s).2 := by
  refine ⟨[97, 0, 32, 98], by decide, ?_⟩
  unfold LM.perplexityArgs LM.pyScore LM.scoreFast LM.fastIds
  rw [splitSpaces_spec, pySplit_spec]
  decide

end folds

/-- exact-arithmetic reading: for a model with rational log-probabilities the perplexity exponent is
`-(Σ per-word log10 p) / (number of words incl. </s>)` -/
def pplExponent (score : Rat) (words : Nat) : Rat := -score / (words : Rat)

theorem perplexity_exponent_rat {σ : Type} (M : LM σ Rat) (hc : M.Coherent) (s : Bytes) (h : 0 ∉ s) :
    pplExponent (M.perplexityArgs kSpaces s).1 (M.perplexityArgs kSpaces s).2 =
      -(((M.fullScores s true true).map (·.1.prob)).foldl M.add M.zero) /
        (((M.fullScores s true true).length : Nat) : Rat) := by
  have := perplexity_def M hc s
  unfold pplExponent
  rw [this.2.2 h, ← this.1]
  rfl

/-! ## whitespace, normal form, OOV flags -/

/-- **normal form**: every sentence tokenises like its tokens joined by single spaces -/
theorem split_normal_form (s : Bytes) : pySplit (joinWith 32 (pySplit s)) = pySplit s := by
  rw [pySplit_spec (joinWith 32 (pySplit s))]
  apply splitSpec_join pySpace 32 (by decide)
  intro t ht
  have := (split_tokens s).1 t ht
  exact ⟨this.1, this.2.1⟩

/-- **whitespace does not matter**: two NUL-free sentences with the same tokens get the same score, the same
per-word results and the same perplexity arguments, whatever the kind and amount of whitespace between, before
or after the tokens — for all flag combinations. -/
theorem whitespace_irrelevant {σ α : Type} (M : LM σ α) (s s' : Bytes) (h0 : 0 ∉ s) (h0' : 0 ∉ s')
    (h : pySplit s = pySplit s') (bos eos : Bool) :
    M.pyScore kSpaces s bos eos = M.pyScore kSpaces s' bos eos ∧
    M.fullScores s bos eos = M.fullScores s' bos eos ∧
    M.perplexityArgs kSpaces s = M.perplexityArgs kSpaces s' := by
  have hs : M.slowIds s = M.slowIds s' := by unfold LM.slowIds; rw [h]
  have hf : M.fastIds kSpaces s = M.fastIds kSpaces s' := by
    unfold LM.fastIds; rw [split_agree s h0, split_agree s' h0', h]
  have e1 : ∀ b e, M.pyScore kSpaces s b e = M.pyScore kSpaces s' b e := by
    intro b e
    unfold LM.pyScore LM.scoreFast LM.scoreSlow
    rw [hs, hf]
  refine ⟨e1 bos eos, ?_, ?_⟩
  · unfold LM.fullScores; rw [hs]
  · unfold LM.perplexityArgs; rw [e1 true true, h]

/-- **OOV flags**: the flags `full_scores` reports for the words of the sentence are exactly
`not (word in model)` — both are `Index(word) == 0` -/
theorem oov_flags {σ α : Type} (M : LM σ α) (s : Bytes) (bos : Bool) :
    (M.fullScores s bos false).map (·.2) = (pySplit s).map (fun w => !M.contains w) := by
  unfold LM.fullScores
  simp only [Bool.false_eq_true, if_false]
  rw [LM.foldFull_flags]
  simp only [LM.slowIds, LM.contains, List.map_map]
  apply List.map_congr_left
  intro w _
  simp only [Function.comp]
  cases h : M.indexC w == 0 <;> simp [bne, h]

/-! ## bin/query -/

/-- **query_eq**: for a one-line, NUL-free sentence the Python module returns what `bin/query` prints:
per word the same `FullScoreReturn` (and, for the words of the sentence, the same OOV flag), and the same total —
`query` ↔ bos=eos=True, `query -n` ↔ bos=eos=False. -/
theorem query_eq {σ α : Type} (M : LM σ α) (hc : M.Coherent) (s : Bytes) (h0 : 0 ∉ s) (h10 : 10 ∉ s) :
    M.queryFull kSpaces s false = M.fullScores s false false ∧
    (M.queryFull kSpaces s true).map (·.1) = (M.fullScores s true true).map (·.1) ∧
    (M.queryFull kSpaces s true).take (pySplit s).length = M.fullScores s true false ∧
    M.queryTotal kSpaces s true = M.pyScore kSpaces s true true ∧
    M.queryTotal kSpaces s false = M.pyScore kSpaces s false false := by
  have hw : (queryWords (isDelim kSpaces) s).map M.index = M.slowIds s := by
    rw [queryWords_eq_spec _ s h10, splitSpec_congr _ _ table_agree, ← pySplit_spec]
    unfold LM.slowIds
    rw [indexC_on_tokens M s h0]
  have e1 : M.queryFull kSpaces s false = M.fullScores s false false := by
    unfold LM.queryFull LM.fullScores; rw [hw]; simp
  have e2 : (M.queryFull kSpaces s true).map (·.1) = (M.fullScores s true true).map (·.1) := by
    unfold LM.queryFull LM.fullScores; rw [hw]; simp
  refine ⟨e1, e2, ?_, ?_, ?_⟩
  · unfold LM.queryFull LM.fullScores
    rw [hw]
    have hl : (M.foldFull (M.start true) (M.slowIds s)).1.length = (pySplit s).length := by
      rw [LM.foldFull_length]; simp [LM.slowIds]
    simp [← hl]
  · rw [pyScore_sum M hc s h0]
    unfold LM.queryTotal
    have : (M.queryFull kSpaces s true).map (·.1.prob) = (M.fullScores s true true).map (·.1.prob) := by
      have := congrArg (List.map (·.prob)) e2
      rw [List.map_map, List.map_map] at this
      exact this
    rw [this]
  · rw [pyScore_sum M hc s h0]
    unfold LM.queryTotal
    rw [e1]

/-! ## the facade -/

section facade
variable {σ α : Type} (T : Typed σ α) (L : Layout σ)

/-- **facade_identity**: every entry point of the virtual object is the typed function on the decoded
state, re-encoded; the state constants are the typed constants; `StateSize()` bytes are the whole state. -/
theorem facade_identity (st : σ) (w : Nat) (ctx : List Nat) :
    (facade T L).baseFullScore (L.enc st) w = ((T.fullScore st w).1, L.enc (T.fullScore st w).2) ∧
    (facade T L).baseScore (L.enc st) w = ((T.fullScore st w).1.prob, L.enc (T.fullScore st w).2) ∧
    (facade T L).baseFullScoreForgotState ctx w =
      ((T.fullScoreForgotState ctx w).1, L.enc (T.fullScoreForgotState ctx w).2) ∧
    (facade T L).toLM.beginState = L.enc T.beginState ∧
    (facade T L).toLM.nullState = L.enc T.nullState ∧
    (facade T L).toLM.Coherent := by
  refine ⟨?_, ?_, rfl, ?_, ?_, ?_⟩
  · simp [facade, L.dec_enc]
  · simp [facade, L.dec_enc]
  · simp [Virtual.toLM, memcpyState, facade, List.take_of_length_le, L.enc_len]
  · simp [Virtual.toLM, memcpyState, facade, List.take_of_length_le, L.enc_len]
  · intro m w; rfl

/-- simulation: folding through `void*` states = folding typed states, state for state -/
theorem facade_foldScore (st : σ) (acc : α) (ids : List Nat) :
    (facade T L).toLM.foldScore (L.enc st) acc ids =
      ((T.toLM.foldScore st acc ids).1, L.enc (T.toLM.foldScore st acc ids).2) := by
  induction ids generalizing st acc with
  | nil => rfl
  | cons w ws ih =>
    simp only [LM.foldScore]
    have e : ((facade T L).toLM.score (L.enc st) w) = ((T.toLM.score st w).1, L.enc (T.toLM.score st w).2) := by
      simp [Virtual.toLM, Typed.toLM, facade, L.dec_enc]
    rw [e]
    exact ih _ _

theorem facade_foldFull (st : σ) (ids : List Nat) :
    (facade T L).toLM.foldFull (L.enc st) ids =
      ((T.toLM.foldFull st ids).1, L.enc (T.toLM.foldFull st ids).2) := by
  induction ids generalizing st with
  | nil => rfl
  | cons w ws ih =>
    simp only [LM.foldFull]
    have e : ((facade T L).toLM.fullScore (L.enc st) w) = ((T.toLM.fullScore st w).1, L.enc (T.toLM.fullScore st w).2) := by
      simp [Virtual.toLM, Typed.toLM, facade, L.dec_enc]
    rw [e]
    simp only [ih]

theorem facade_start (bos : Bool) : (facade T L).toLM.start bos = L.enc (T.toLM.start bos) := by
  have h := facade_identity T L T.beginState 0 []
  cases bos
  · simp only [LM.start, Bool.false_eq_true, if_false]; exact h.2.2.2.2.1
  · simp only [LM.start, if_true]; exact h.2.2.2.1

/-- **the Python module over the virtual object computes what the typed classes compute**: all
sentence-level results coincide, for every sentence, table and flag combination. -/
theorem facade_sentence (tbl : List Bool) (s : Bytes) (bos eos : Bool) :
    (facade T L).toLM.pyScore tbl s bos eos = T.toLM.pyScore tbl s bos eos ∧
    (facade T L).toLM.fullScores s bos eos = T.toLM.fullScores s bos eos := by
  have hs : ∀ st w, ((facade T L).toLM.score (L.enc st) w).1 = (T.toLM.score st w).1 := by
    intro st w; simp [Virtual.toLM, Typed.toLM, facade, L.dec_enc]
  have hf : ∀ st w, ((facade T L).toLM.fullScore (L.enc st) w).1 = (T.toLM.fullScore st w).1 := by
    intro st w; simp [Virtual.toLM, Typed.toLM, facade, L.dec_enc]
  have hb : (facade T L).toLM.beginState = L.enc T.toLM.beginState := facade_start T L true
  constructor
  · unfold LM.pyScore LM.scoreFast LM.scoreSlow
    rw [facade_start, hb]
    simp only [facade_foldScore, hs]
    rfl
  · unfold LM.fullScores
    rw [facade_start]
    simp only [facade_foldFull, hf]
    rfl

end facade

/-! ## non-vacuity: a concrete coherent model and a concrete facade -/

/-- a tiny typed model: state = last word id, log-prob = −(1 + previous + word), matched length 1 or 2 -/
def toyTyped : Typed Nat Int where
  beginState := 1
  nullState := 0
  index w := if w = [97] then 2 else if w = [60, 47, 115, 62] then 3 else 0
  eos := 3
  fullScore st w := (⟨-(1 + st + w : Nat), if st = 0 then 1 else 2⟩, w)
  fullScoreForgotState ctx w := (⟨-(1 + ctx.headD 0 + w : Nat), if ctx = [] then 1 else 2⟩, w)
  add := (· + ·)
  zero := 0

def toyLayout : Layout Nat where
  size := 1
  enc n := [n]
  dec m := m.headD 0
  dec_enc _ := rfl
  enc_len _ := rfl

example : toyTyped.toLM.Coherent := fun _ _ => rfl
example : (facade toyTyped toyLayout).toLM.Coherent := (facade_identity toyTyped toyLayout 0 0 []).2.2.2.2.2
example : toyTyped.toLM.indexC [60, 47, 115, 62] = toyTyped.toLM.eos := by decide
example : toyTyped.toLM.scoreSlow [32, 97, 9, 98, 98] true true = -11 := by
  unfold LM.scoreSlow LM.slowIds; rw [pySplit_spec]; decide
example : freeLM.Coherent := fun _ _ => rfl
-- hypotheses of `query_eq` / `whitespace_irrelevant` are satisfiable by distinct, whitespace-heavy sentences
example : (0 ∉ ([32, 97, 9, 11, 98, 13] : Bytes)) ∧ (10 ∉ ([32, 97, 9, 11, 98, 13] : Bytes)) := by decide
example : pySplit [32, 97, 9, 11, 98, 13] = pySplit [97, 32, 98] ∧ ([32, 97, 9, 11, 98, 13] : Bytes) ≠ [97, 32, 98] := by
  rw [pySplit_spec, pySplit_spec]; decide
-- the free model separates the two paths on the NUL witness, and agrees on a NUL-free sentence
example : freeLM.scoreFast kSpaces [97, 32, 98] = freeLM.scoreSlow [97, 32, 98] true true :=
  fast_eq_slow freeLM _ (by decide)

end KV.C14
